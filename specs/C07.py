from specs import R

SPEC = dict(
    level="exploration",
    level_text="placeholder",
    level_note="placeholder",
    technique="runtime protocol monitor with raw adversarial SP peer + seeded schedule perturbation + ASan/UBSan/TSan + allocator balance",
    rule="placeholder",
    assumptions=[],
    quick=dict(runs=[R("c07_survey", "asan", 6, 8, "", 900),
                     R("c07_respond", "asan", 2, 12, "", 900)],
               floor={"surveys": 10},
               eval_key="surveys"),
    thorough=dict(runs=[R("c07_survey", "asan", 2, 2, "", 900)],
                  floor={"surveys": 10},
                  eval_key="surveys"),
)
