from specs import R

# Switch for the "source lies inside the message" oracle family (mode alias, violation keys
# C17/alias/...).  It is a separate run line with its own floors; set to False to take it out
# without touching anything else.
ALIAS = True

_alias_runs = [R("c17_msg", "asan", 2, 0, "alias", 600)] if ALIAS else []
_alias_floor = {
    "cases_alias": 1500,
    "@class:alias/*": 100,
    "@class:alias/append-own-body/regrow-*": 6,
    "@class:alias/insert-own-body/split/*": 3,
    "@class:alias/insert-own-body/regrow-*": 6,
    "@class:alias/insert-own-body/headroom/*": 4,
    "@class:alias/header_insert-own-header/*": 2,
    "@class:alias/pull_up*": 6,
} if ALIAS else {}


def _floor(cases_exh, cases_rand, steps_rand, k):
    """k scales the floors of the random part (quick: 1)."""
    f = {
        # every mode on its own: none of them can stand in for a dead one
        "cases_exh": cases_exh, "cases_rand": cases_rand, "cases_huge": 15900,
        "steps_exh": 2 * cases_exh, "steps_rand": steps_rand,
        "huge_requests": 13200, "huge_mid_requests": 2700,
        "cases": cases_exh + cases_rand + 15900,
        # classes (operation, length class, header fill, rc); measured quick: 2370 in total,
        # dup 33, *_uN rv0 200, rv3 285, hdrfull 113, insert rv0 33, realloc 33, reserve 32,
        # huge 1260 (540 of them at 2^31..2^33)
        "@classes": 2000,
        "@class:dup/*": 25,
        "@class:*_uN/*/rv0": 150,
        "@class:*/rv3": 200,
        "@class:header_*/*/hdrfull/*": 80,
        "@class:insert/*/rv0": 25,
        "@class:realloc/*": 25,
        "@class:reserve/*": 25,
        "@class:huge/*": 1200,
        "@class:huge/*/2^3[123]*": 500,
        # allocator paths really taken (derived from body pointer, capacity and the heap block
        # that holds the body); floors are about half of what a quick run measures
        "path_append_inplace": 40000 * k, "path_append_regrow-off0": 5000 * k, "path_append_regrow-offnz": 12000 * k,
        "path_insert_headroom": 35000 * k, "path_insert_split": 6000 * k,
        "path_insert_regrow-off0": 5000 * k, "path_insert_regrow-offnz": 6000 * k,
        "path_realloc_regrow-off0": 200 * k, "path_realloc_regrow-offnz": 3000 * k,
        "path_reserve_regrow-off0": 700 * k, "path_reserve_regrow-offnz": 4000 * k,
        "path_trim_toempty": 3000 * k, "path_trim_advance": 25000 * k,
        "path_alloc_nohead": 8000 * k, "path_alloc_head": 25000 * k,
        "path_regrow_kept_offset": 20000 * k,
        "@class:path/*": 200,
        "@class:path/*/empty": 50,
        "@class:path/alloc/*": 10,
        "@class:path/insert/split/*": 10,
        "@class:path/append/regrow-offnz/*": 15,
        "@class:path/insert/regrow-offnz/*": 10,
        "max_offset": 8192, "max_body_len": 20000,
    }
    f.update(_alias_floor)
    return f


SPEC = dict(
    level="exploration",
    level_text="Model-based runtime monitor: the real nng_msg implementation is driven through its public API under ASan+UBSan with a reference model compared after every step, plus the guarded storage-invariant hook in core/message.c; exhaustive for short sequences over a reduced alphabet, sampled beyond. Held-on-what-was-run, not a proof.",
    level_note="Trusts the 60-line byte-vector model in harness/c17_msg.c, gcc ASan/UBSan, and that bytes newly exposed by realloc/alloc are unspecified.",
    technique="runtime reference-model monitor + ASan/UBSan + invariant hook; valgrind memcheck (definedness of every value that steers a branch, an address or a system call) on a sample of the same workload",
    rule="each case is one sequence of nng_msg_* edits mirrored on a two-byte-vector model "
         "with full state comparison after every step; exhaustive tier enumerates all sequences "
         "of length<=3 (quick) / <=4 (thorough) over a 20-operation reduced alphabet x 3 initial "
         "sizes, random tier draws boundary-biased sizes; a class is (operation, body length "
         "class, header fill class, return code) and is counted only when the step was executed "
         "and compared; path/... classes name the allocator branch a step really took (in place, "
         "regrow at offset 0 / non-zero, headroom, slack split, trim to empty) as derived from "
         "body pointer, capacity and the heap block holding the body; alias/... classes are edits "
         "whose source lies inside the message itself",
    assumptions=["ASan/UBSan see only red-zone overflows", "new bytes exposed by realloc/alloc are unspecified and defined by the harness before comparison",
                 "requests above 64 MiB are refused by the allocator (ASan max_allocation_size_mb=64 set by the harness), above 2^40 by the accounting allocator"],
    quick=dict(runs=[R("c17_msg", "asan", 8, 0, "exh3", 300),
                     R("c17_msg", "asan", 8, 4000, "rand", 300),
                     R("c17_msg", "asan", 4, 0, "huge", 300),
                     # valgrind memcheck lines: only memcheck reports are judged (see vf FLAVORS["vg"])
                     R("c17_msg", "vg", 4, 0, "exh3", 150),
                     R("c17_msg", "vg", 4, 400, "rand", 150),
                     R("c17_msg", "vg", 2, 0, "alias", 150)] + _alias_runs,
               floor=_floor(25260, 32000, 900000, 1),
               exhaustive_note="mode exh3 enumerates the reduced alphabet completely; the random part is sampled"),
    thorough=dict(runs=[R("c17_msg", "asan", 16, 0, "exh4", 1800),
                        R("c17_msg", "asan", 16, 60000, "rand", 1800),
                        R("c17_msg", "asan", 4, 0, "huge", 300),
                        # valgrind memcheck lines: only memcheck reports are judged (see vf FLAVORS["vg"])
                        R("c17_msg", "vg", 8, 0, "exh3", 1800),
                        R("c17_msg", "vg", 8, 3000, "rand", 1800),
                        R("c17_msg", "vg", 2, 0, "alias", 1800),
                        R("c17_msg", "vg", 2, 0, "huge", 1800)] + _alias_runs,
                  floor=_floor(505260, 960000, 27000000, 10)),
)
