from specs import R

SPEC = dict(
    level="exploration",
    level_text="Model-based runtime monitor: the real nng_msg implementation is driven through its public API under ASan+UBSan with a reference model compared after every step, plus the guarded storage-invariant hook in core/message.c; exhaustive for short sequences over a reduced alphabet, sampled beyond. Held-on-what-was-run, not a proof.",
    level_note="Trusts the 60-line byte-vector model in harness/c17_msg.c, gcc ASan/UBSan, and that bytes newly exposed by realloc/alloc are unspecified.",
    technique="runtime reference-model monitor + ASan/UBSan + invariant hook",
    rule="each case is one sequence of nng_msg_* edits mirrored on a two-byte-vector model "
         "with full state comparison after every step; exhaustive tier enumerates all sequences "
         "of length<=3 (quick) / <=4 (thorough) over a 20-operation reduced alphabet x 3 initial "
         "sizes, random tier draws boundary-biased sizes; a class is (operation, body length "
         "class, header fill class, return code) and is counted only when the step was executed "
         "and compared",
    assumptions=["ASan/UBSan see only red-zone overflows", "new bytes exposed by realloc/alloc are unspecified and defined by the harness before comparison"],
    quick=dict(runs=[R("c17_msg", "asan", 8, 0, "exh3", 300),
                     R("c17_msg", "asan", 8, 4000, "rand", 300),
                     R("c17_msg", "asan", 4, 0, "huge", 300)],
               floor={"cases": 20000, "@classes": 150, "huge_requests": 10000},
               exhaustive_note="mode exh3 enumerates the reduced alphabet completely; the random part is sampled"),
    thorough=dict(runs=[R("c17_msg", "asan", 16, 0, "exh4", 1800),
                        R("c17_msg", "asan", 16, 60000, "rand", 1800),
                        R("c17_msg", "asan", 4, 0, "huge", 300)],
                  floor={"cases": 400000, "@classes": 150, "huge_requests": 10000}),
)
