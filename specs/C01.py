from specs import R

# mode wire: every protocol entry (nng side) of the raw-peer line must have been
# seen in some distinct situations, or the line is inconclusive
_WIRE_ENTRIES = ["pair0", "pair1", "pair1raw", "push", "pull", "pub", "sub", "bus", "busraw", "req", "rep",
                 "surveyor", "respondent", "xreq", "xrep", "xsurveyor", "xrespondent",
                 "ws-pull", "ws-sub", "ws-pair0", "ws-pair1", "ws-bus"]


def _wire_floor(scale):
    f = {"wire_in_verified": 2000 * scale, "wire_out_verified": 1500 * scale,
         "wire_verified_tcp": 1000 * scale, "wire_verified_ipc": 800 * scale, "wire_verified_sockfd": 800 * scale,
         "wire_verified_ws": 400 * scale,
         "wire_coalesced_streams": 50 * scale, "wire_peer_cuts": 200 * scale,
         "wire_peer_cuts_prefix": 40 * scale, "wire_peer_cuts_header": 15 * scale, "wire_peer_cuts_body": 40 * scale,
         "wire_cases_nng_listens": 60 * scale, "wire_cases_nng_dials": 60 * scale,
         "wire_short_sends": 1000 * scale, "wire_short_recvs": 1000 * scale,
         "wire_ws_frames_behind_handshake": 20 * scale, "wire_ws_stream_beyond_http_buffer": 10 * scale,
         "wire_ws_fragments": 200 * scale, "wire_ws_pings": 30 * scale, "wire_ws_cases_nng_listens": 8 * scale,
         "wire_extra_probes": 300 * scale,
         "@class:wire/*": 150,
         "@class:wire/tcp/*": 30, "@class:wire/ipc/*": 30, "@class:wire/sockfd/*": 30, "@class:wire/ws/*": 20,
         "@class:wire/*/one*/*": 30, "@class:wire/*/dribble/*": 20, "@class:wire/*/chunks/*": 20, "@class:wire/*/cut*/*": 30}
    for e in _WIRE_ENTRIES:
        f["@class:wire/*/%s/*" % e] = 3
    return f


_quick_floor = {"fanout_deliveries_verified": 5000, "fanout_cases": 128, "@class:fanout/*": 30, "verified": 3000, "short_sends": 200, "short_recvs": 200, "@classes": 100,
                "verified_ws": 300, "verified_sockfd": 300, "verified_inproc": 100, "verified_tcp": 300, "verified_ipc": 300,
                "ws_fragmented_msgs": 50, "verified_aio_form": 200, "extra_probes": 1000,
                "@class:*/busbus/*": 5, "@class:*/xsurvxresp/*": 5}
_quick_floor.update(_wire_floor(1))
_thorough_floor = {"fanout_deliveries_verified": 100000, "@class:fanout/*": 60, "verified": 30000, "short_sends": 2000, "short_recvs": 2000, "@classes": 150,
                   "@class:*/busbus/*": 10, "@class:*/xsurvxresp/*": 10}
_thorough_floor.update(_wire_floor(8))

SPEC = dict(
    level="exploration",
    level_text="Runtime monitor over real transports. (1) Two nng sockets in one process exchange seeded messages over inproc/ipc/tcp/ws/socket-fd while a link-time interposer clamps nng's own sendmsg/send/writev/readv calls (dribble, random chunks, one cut at every stream offset for small frames, injected EAGAIN); the receiver regenerates the expected header and body of the i-th message and demands equality, order and no extras. (2) One nng socket against a raw peer that the harness implements on a plain fd over tcp/ipc/socket-fd (either side listening) and ws: the peer does the SP handshake by hand, composes the byte stream of N well-formed frames itself and decides how it is cut into write() calls (all frames coalesced in one write, 1..7-byte dribble, random chunks with pauses, one cut inside a length prefix / SP header / body followed by a pause), and a strict framer checks every byte nng puts on the wire (ipc type octet, 8-byte length = header+body, the SP header the protocol is specified to emit, body, nothing after the last frame) - so an error nng makes symmetrically when sending and receiving cannot cancel out; for ws the peer is a raw RFC 6455 server that writes the 101 reply plus all frames (optionally fragmented, with PINGs) in one write so that frames sit behind the reply in nng's HTTP buffer, or a client sending masked frames. ASan/UBSan and the guarded message/aio hooks watch the resume paths. Sampled for large frames, exhaustive single-cut enumeration for small ones.",
    level_note="Trusts the interposer to model only transfers a kernel could legally produce (short counts, EAGAIN); kernel behaviours it cannot fake are out of reach. The raw-peer line covers one pipe per socket; it does not judge what nng's websocket layer sends (C16 does) and treats a failed SP / websocket handshake as a harness failure, not a violation.",
    technique="runtime end-to-end integrity monitor (nng<->nng and nng<->raw SP peer with strict framer) + short-I/O fault injection + ASan/UBSan; valgrind memcheck (definedness of every value that steers a branch, an address or a system call) on a sample of the same workload (thorough tier)",
    rule="a case is (transport, protocol pair, cut plan, message list); messages have sizes from the boundary list {0,1,2,7,8,9,31,...,65537} or random; the cuts mode enumerates one cut at every absolute stream offset 1..120 (handshake + 3 small frames) on the send side and on the receive side for tcp/ipc/socket-fd x 5 protocol pairs (ws: offsets 130..430 for pair1 in quick, 1..700 for all pairs in thorough); sampled ws cases set NNG_OPT_WS_SENDMAXFRAME to {1,2,16,125,126,127,1000} on both ends so that messages are fragmented, and a third of the sampled cases use the aio forms of send/receive; lossy pairs (pub/sub, bus/bus, raw surveyor/raw respondent) go in lock-step; a class is (transport, pair, plan, which sides actually saw short transfers). A wire case is (transport in tcp/ipc/socket-fd/ws, who listens, protocol entry of the nng side in {pair0, pair1, pair1 raw, push, pull, pub, sub, bus, bus raw, req, rep, surveyor, respondent, raw req/rep/surveyor/respondent with 1..15 header words}, 3..24 messages, peer segmentation, interposer plan for nng); cooked req/rep/surveyor/respondent run in lock-step with backtraces of 1..7 words that the reply must carry back exactly; its class is (transport, entry, peer segmentation, nng plan, short transfers seen)",
    assumptions=["loopback kernel sockets", "interposed sendmsg/send/writev/readv are the only stream I/O calls of the posix platform layer"],
    quick=dict(runs=[R("c01_integrity", "asan", 8, 0, "cuts", 600),
                     R("c01_integrity", "asan", 8, 60, "sampled", 600),
                     R("c01_integrity", "asan", 8, 70, "wire", 600),
                     R("c01_integrity", "asan", 2, 64, "fanout", 600)],
               floor=_quick_floor,
               eval_key="verified"),
    thorough=dict(runs=[R("c01_integrity", "asan", 16, 0, "cuts", 3000),
                        R("c01_integrity", "asan", 16, 400, "sampled", 3000),
                        R("c01_integrity", "asan", 16, 300, "wire", 3000),
                        R("c01_integrity", "asan", 4, 256, "fanout", 3000),
                        R("c01_integrity", "tsan", 8, 60, "sampled", 3000),
                        # valgrind memcheck lines: only memcheck reports are judged (see vf FLAVORS["vg"])
                        R("c01_integrity", "vg", 8, 6, "sampled", 1800),
                        R("c01_integrity", "vg", 8, 6, "wire", 1800)],
                  floor=_thorough_floor,
                  eval_key="verified"),
)
