from specs import R

SPEC = dict(
    level="exploration",
    level_text="Runtime monitor over real transports: two nng sockets in one process exchange seeded messages over inproc/ipc/tcp/ws/socket-fd while a link-time interposer clamps nng's own sendmsg/send/writev/readv calls (dribble, random chunks, one cut at every stream offset for small frames, injected EAGAIN); the receiver regenerates the expected header and body of the i-th message and demands equality, order and no extras; ASan/UBSan and the guarded message/aio hooks watch the resume paths. Sampled for large frames, exhaustive single-cut enumeration for small ones.",
    level_note="Trusts the interposer to model only transfers a kernel could legally produce (short counts, EAGAIN); kernel behaviours it cannot fake are out of reach. Both peers are nng, so a symmetric framing error on both sides could cancel out (the raw-peer checks of C11/C16 cover the wire format).",
    technique="runtime end-to-end integrity monitor + short-I/O fault injection + ASan/UBSan",
    rule="a case is (transport, protocol pair, cut plan, message list); messages have sizes from the boundary list {0,1,2,7,8,9,31,...,65537} or random; the cuts mode enumerates one cut at every absolute stream offset 1..120 (handshake + 3 small frames) on the send side and on the receive side for tcp/ipc/socket-fd x 5 protocol pairs (ws: offsets 130..430 for pair1 in quick, 1..700 for all pairs in thorough); sampled ws cases set NNG_OPT_WS_SENDMAXFRAME to {1,2,16,125,126,127,1000} on both ends so that messages are fragmented, and a third of the sampled cases use the aio forms of send/receive; a class is (transport, pair, plan, which sides actually saw short transfers)",
    assumptions=["loopback kernel sockets", "interposed sendmsg/send/writev/readv are the only stream I/O calls of the posix platform layer"],
    quick=dict(runs=[R("c01_integrity", "asan", 8, 0, "cuts", 600),
                     R("c01_integrity", "asan", 8, 60, "sampled", 600)],
               floor={"verified": 3000, "short_sends": 200, "short_recvs": 200, "@classes": 100,
                      "verified_ws": 300, "verified_sockfd": 300, "verified_inproc": 100, "verified_tcp": 300, "verified_ipc": 300,
                      "ws_fragmented_msgs": 50, "verified_aio_form": 200, "extra_probes": 1000},
               eval_key="verified"),
    thorough=dict(runs=[R("c01_integrity", "asan", 16, 0, "cuts", 3000),
                        R("c01_integrity", "asan", 16, 400, "sampled", 3000),
                        R("c01_integrity", "tsan", 8, 60, "sampled", 3000)],
                  floor={"verified": 30000, "short_sends": 2000, "short_recvs": 2000, "@classes": 150},
                  eval_key="verified"),
)
