from specs import R

SPEC = dict(
    level="exploration",
    level_text="tbd",
    level_note="tbd",
    technique="tbd",
    rule="tbd",
    assumptions=[],
    quick=dict(runs=[R("c03_programs", "asan", 8, 40, "st", 600), R("c03_programs", "asan", 8, 0, "matrix", 600)],
               floor={}, eval_key="programs"),
    thorough=dict(runs=[R("c03_programs", "asan", 2, 10, "st", 600)],
               floor={}, eval_key="programs"),
)
