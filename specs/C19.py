from specs import R

SPEC = dict(
    level="exploration",
    level_text="Differential runtime monitor under ASan+UBSan: every input string is judged both by nng (nng_url_parse and all accessors, nng_url_sprintf, nng_url_clone, nng_url_resolve_port, nng_url_free) and by an independent strict reference in the harness (exact scheme table + '://', authority/port rules, percent-escape validity, Unicode table 3-7 UTF-8 validator, RFC 3986 canonicaliser); input and output buffers are exact-size heap blocks. Exhaustive over the enumerated spaces (all percent-encoded and raw byte pairs; every E0-EF lead x every second byte x every third byte percent-encoded, boundary third bytes raw; F0-FF leads x every second byte x boundary third/fourth bytes; each with four followers: end, ASCII, another sequence, query start; every prefix/extension/case variant of every scheme; remainder lengths 100-400 in 16 shapes across the 128-byte inline buffer; a host x port matrix), sampled beyond that by a seeded grammar-based generator with byte mutations and by coverage-guided libFuzzer runs (clang fuzzer-no-link build) feeding the same judge. Held-on-what-was-run, not a proof.",
    level_note="Trusts the reference predicate/canonicaliser in harness/c19_url.c (about 350 lines), whose scheme and default-port tables are copied from url.c, libc getservbyname for service-name ports, and gcc/clang ASan+UBSan. Deliberately not demanded because the statement is silent: host/userinfo character sets, escapes inside the authority, UTF-8 validity of query/fragment, hex case of kept escapes, whether %80-%FF are decoded, trailing slash after a final dot segment, order of slash collapsing vs dot removal, and any validation of the host-less schemes (ipc, unix, abstract, inproc, socket), which nng documents as opaque strings. Over-rejection is counted (stats overstrict*), not flagged, because the property is 'accepts only if'. Clone classes whose fork-isolated canary crashes are reported once and skipped in-process (stat clones_skipped_quarantined) so that a crashing clone path does not cost the rest of the evidence.",
    technique="differential reference-model monitor + exhaustive boundary enumeration + grammar-based generation + libFuzzer + ASan/UBSan",
    rule="a case is one input string: reference verdict and components are computed, nng parses it, and for every accepted URL the accessors are compared with the reference, canonical-form predicates are evaluated on nng's output, the URL is formatted (size query, exact-size buffer, truncating buffer), re-parsed and compared in scheme/host/port/path/query/fragment, then cloned, compared (including that every string lies in the clone's own storage), mutated through nng_url_resolve_port on one side and used after the other side was freed; a class is (workload, accept/reject, reference verdict or UTF-8 error kind, storage inline/heap, userinfo, host kind, port kind, path feature bits, query, fragment) and is recorded only when that case was executed and judged",
    assumptions=["scheme and default-port tables in the harness mirror url.c", "C locale (tolower/isxdigit are ASCII-only)", "/etc/services is the one the library sees"],
    quick=dict(runs=[R("c19_url", "asan", 8, 0, "enum", 600),
                     R("c19_url", "asan", 8, 250000, "gram", 600),
                     R("c19_fuzz", "fuzz", 4, 300000, "", 600)],
               floor={"cases": 6000000, "accepted": 700000, "rejected": 4000000, "roundtrips": 700000,
                      "clones": 600000, "accepted_heap": 60000, "accepted_hostless": 60000,
                      "utf8_enum": 4000000, "scheme_variants": 5000, "length_sweep": 4000,
                      "authority_matrix": 8000, "canaries": 60, "fuzz_execs": 1000000, "@classes": 8000},
               exhaustive_note="mode enum enumerates its spaces completely (independent of the seed); mode gram and the libFuzzer runs are sampled"),
    thorough=dict(runs=[R("c19_url", "asan", 16, 0, "enum", 3000),
                        R("c19_url", "asan", 16, 2000000, "gram", 3000),
                        R("c19_fuzz", "fuzz", 16, 4000000, "", 3000)],
                  floor={"cases": 70000000, "accepted": 12000000, "rejected": 40000000, "roundtrips": 12000000,
                         "clones": 10000000, "accepted_heap": 2000000, "accepted_hostless": 1200000,
                         "utf8_enum": 9000000, "fuzz_execs": 50000000, "@classes": 15000}),
)
