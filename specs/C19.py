from specs import R

# Mode enum is deterministic (independent of seed, tier and worker count for these parts), so these floors are exact.
# AUTH_ENUM: every byte value at every place of the authority (hostbytes), a table of bracketed literals, and the
# differential baseline of the classes the statement leaves open: base_<class>_accepted + base_<class>_rejected ==
# base_<class>_driven, so the two floors pin the accepted set exactly - any drift (the library starts to refuse '_' in a
# host name, or a stray bracket starts to be treated differently) is INCONCLUSIVE and gets looked at; it is not
# claimed to be a violation.  (ipvfuture: driven only - "[v1.x]" is well-formed per RFC 3986 but useless to nng;
# refusing it is allowed by "accepts only if", accepting it is what the unchanged parser does.)
AUTH_ENUM = {"hostbytes": 16336, "literals": 4428,
             "base_regname_subdelim_or_escape_driven": 2656, "base_regname_subdelim_or_escape_accepted": 2656,
             "base_regname_bracket_driven": 480, "base_regname_bracket_accepted": 480,
             "base_regname_high_byte_driven": 3216, "base_regname_high_byte_accepted": 3216,
             "base_regname_excluded_ascii_driven": 216, "base_regname_excluded_ascii_accepted": 216,
             "base_userinfo_odd_driven": 1264, "base_userinfo_odd_accepted": 1264,
             "base_zone_odd_driven": 1256, "base_zone_odd_accepted": 1224, "base_zone_odd_rejected": 32,
             "base_ipvfuture_driven": 120}
# UTF-8 sequences at five more places of the path (all percent-encoded pairs + boundary 3/4-byte tables, raw boundary
# tables): every well-formed sequence must have been accepted there too, every host-less one whatever its bytes.
UTF8_POS = {"utf8_pos_after-dot-segment": 93224, "utf8_pos_after-dot-segment_valid": 5304, "utf8_pos_after-dot-segment_valid_accepted": 5304,
            "utf8_pos_after-dup-slash": 93224, "utf8_pos_after-dup-slash_valid": 5304, "utf8_pos_after-dup-slash_valid_accepted": 5304,
            "utf8_pos_across-128": 93224, "utf8_pos_across-128_valid": 5304, "utf8_pos_across-128_valid_accepted": 5304,
            "utf8_pos_hostless": 93224, "utf8_pos_hostless_accepted": 93224,
            "utf8_pos_split-by-kept-escape": 93224}
# inputs of 4 KiB, 64 KiB-1, 64 KiB, 64 KiB+1 and 1 MiB in ten shapes, expected result known by construction
HUGE = {"length_huge": 50, "length_huge_accepted": 45, "length_huge_rejected": 5}

SPEC = dict(
    level="exploration",
    level_text="Differential runtime monitor under ASan+UBSan: every input string is judged both by nng (nng_url_parse and all accessors, nng_url_sprintf, nng_url_clone, nng_url_resolve_port, nng_url_free) and by an independent strict reference in the harness (exact scheme table + '://', authority/port rules, percent-escape validity, Unicode table 3-7 UTF-8 validator, RFC 3986 canonicaliser); input and output buffers are exact-size heap blocks. Exhaustive over the enumerated spaces (all percent-encoded and raw byte pairs; every E0-EF lead x every second byte x every third byte percent-encoded, boundary third bytes raw; F0-FF leads x every second byte x boundary third/fourth bytes; each with four followers: end, ASCII, another sequence, query start; every prefix/extension/case variant of every scheme; remainder lengths 100-400 in 16 shapes across the 128-byte inline buffer; a host x port matrix), sampled beyond that by a seeded grammar-based generator with byte mutations and by coverage-guided libFuzzer runs (clang fuzzer-no-link build) feeding the same judge. Held-on-what-was-run, not a proof.",
    level_note="Trusts the reference predicate/canonicaliser in harness/c19_url.c (about 350 lines), whose scheme and default-port tables are copied from url.c, libc getservbyname for service-name ports, and gcc/clang ASan+UBSan. Deliberately not demanded because the statement is silent: host/userinfo character sets beyond the judged rules named below (invalid %XX in user info or a registered name IS judged; a bracketed literal may carry a raw % zone id), UTF-8 validity of query/fragment, hex case of kept escapes, whether %80-%FF are decoded, trailing slash after a final dot segment, order of slash collapsing vs dot removal, and any validation of the host-less schemes (ipc, unix, abstract, inproc, socket), which nng documents as opaque strings. Over-rejection is counted (stats overstrict*), not flagged, because the property is 'accepts only if'. Also judged: every string of a parsed/cloned/endpoint-held URL is a terminated string inside the storage the URL records (white-box), and the embedded forms (nng_dialer/listener_create[_url] + get_url, started listeners with port 0 on both sides of the inline buffer) report the URL nng_url_parse gave. 'Well-formed authority' is judged where every host grammar in use (RFC 3986, RFC 1123, WHATWG) agrees: a blank or control byte (<= 0x20, 0x7f) in the user info or host is strict/authority-blank-or-control, a bracketed host that is neither an IPv6 address (inet_pton) with an optional non-empty zone nor an IPvFuture literal is strict/authority-bracket-not-an-address, and an unreserved escape left in a registered name is canon/unreserved-escape-kept/host (the statement lists 'unreserved escapes decoded' for the components; a bracketed literal is exempt because its raw % introduces the zone). The remaining classes (sub-delims/escapes, stray brackets, raw bytes >= 0x80 or RFC-excluded ASCII in a registered name, odd user info or zone characters, IPvFuture) stay open; they are counted (open_* in the sampled modes) and in mode enum pinned exactly as a differential baseline (base_*_accepted / base_*_rejected floors on a deterministic population of every byte value at every place of the authority), so that drift of the accepted set is inconclusive rather than unseen. Inputs far above the reference's fixed arrays (4 KiB .. 1 MiB, ten shapes) carry their expected result by construction (length_huge*). UTF-8 sequences are enumerated at six places of the path (utf8_pos_*). Unexplained over-rejection makes the run inconclusive (harness failure + exact floors on utf8_enum_valid_*_accepted), never a violation. The libFuzzer runs are seeded from the committed corpus /verif/corpus/C19 (read only; found by long runs + -merge; regenerate with c19_fuzz --mode grow:<dir> / merge:<dst>,<src>). Clone classes whose fork-isolated canary crashes are reported once and skipped in-process (stat clones_skipped_quarantined) so that a crashing clone path does not cost the rest of the evidence.",
    technique="differential reference-model monitor + exhaustive boundary enumeration + grammar-based generation + libFuzzer + ASan/UBSan; valgrind memcheck (definedness of every value that steers a branch, an address or a system call) on a sample of the same workload",
    rule="a case is one input string: reference verdict and components are computed, nng parses it, and for every accepted URL the accessors are compared with the reference, canonical-form predicates are evaluated on nng's output, the URL is formatted (size query, exact-size buffer, truncating buffer), re-parsed and compared in scheme/host/port/path/query/fragment, then cloned, compared (including that every string lies in the clone's own storage), mutated through nng_url_resolve_port on one side and used after the other side was freed; a class is (workload, accept/reject, reference verdict or UTF-8 error kind, storage inline/heap, userinfo, host kind, port kind, path feature bits, query, fragment) and is recorded only when that case was executed and judged",
    assumptions=["scheme and default-port tables in the harness mirror url.c", "C locale (tolower/isxdigit are ASCII-only)", "/etc/services is the one the library sees"],
    quick=dict(runs=[R("c19_url", "asan", 8, 0, "enum", 600),
                     R("c19_url", "asan", 8, 250000, "gram", 600),
                     R("c19_fuzz", "fuzz", 4, 300000, "", 600),
                     # valgrind memcheck lines: only memcheck reports are judged (see vf FLAVORS["vg"])
                     R("c19_url", "vg", 4, 3000, "gram", 150)],
               floor={"cases": 8000000, "accepted": 700000, "rejected": 4000000, "roundtrips": 700000,
                      "clones": 600000, "accepted_heap": 60000, "accepted_hostless": 60000,
                      "utf8_enum": 4000000, "scheme_variants": 5000, "length_sweep": 4000,
                      "authority_matrix": 8000, "canaries": 60, "fuzz_execs": 1000000, "@classes": 14000,
                      # vacuity guard (exact: the enumeration is deterministic): every well-formed
                      # multi-byte sequence in a reference-accepted input must have been accepted
                      "utf8_enum_valid_2byte": 15360, "utf8_enum_valid_2byte_accepted": 15360,
                      "utf8_enum_valid_3byte": 268800, "utf8_enum_valid_3byte_accepted": 268800,
                      "utf8_enum_valid_4byte": 4096, "utf8_enum_valid_4byte_accepted": 4096,
                      "storage_checked": 700000,
                      "endpoint_compared": 8000, "endpoint_compared_heap": 2000,
                      "endpoint_compared_dialer-url": 1000, "endpoint_compared_dialer-string": 1000,
                      "endpoint_compared_listener-url": 1000, "endpoint_compared_listener-string": 1000,
                      "listen_started_compared": 40, "listen_started_heap": 20, "listen_port_resolved": 25,
                      "listen_dialer_from_listener": 40,
                      **AUTH_ENUM, **UTF8_POS, **HUGE,
                      "gram_cases": 2000000,
                      # judged authority rules, all modes (sampled part varies with the seed)
                      "judged_authority_blank_or_control": 50000,
                      "judged_bracket_not_an_address": 80000,
                      "judged_bracket_valid_address_accepted": 25000,
                      "host_escape_unreserved_judged": 5000,
                      # 4 fuzz workers x the committed seed corpus in /verif/corpus/C19 (884 files)
                      "fuzz_committed_seed_files": 3000},
               exhaustive_note="mode enum enumerates its spaces completely (independent of the seed); mode gram and the libFuzzer runs are sampled"),
    thorough=dict(runs=[R("c19_url", "asan", 16, 0, "enum", 3000),
                        R("c19_url", "asan", 16, 2000000, "gram", 3000),
                        R("c19_fuzz", "fuzz", 16, 4000000, "", 3000),
                        # valgrind memcheck lines: only memcheck reports are judged (see vf FLAVORS["vg"])
                        R("c19_url", "vg", 16, 12000, "gram", 1800)],
                  floor={"cases": 70000000, "accepted": 12000000, "rejected": 40000000, "roundtrips": 12000000,
                         "clones": 10000000, "accepted_heap": 2000000, "accepted_hostless": 1200000,
                         "utf8_enum": 9000000, "fuzz_execs": 50000000, "@classes": 15000,
                         "utf8_enum_valid_2byte": 15360, "utf8_enum_valid_2byte_accepted": 15360,
                         "utf8_enum_valid_3byte": 491520, "utf8_enum_valid_3byte_accepted": 491520,
                         "utf8_enum_valid_4byte": 16384, "utf8_enum_valid_4byte_accepted": 16384,
                         "storage_checked": 12000000,
                         "endpoint_compared": 600000, "endpoint_compared_heap": 100000,
                         "endpoint_compared_dialer-url": 100000, "endpoint_compared_dialer-string": 100000,
                         "endpoint_compared_listener-url": 100000, "endpoint_compared_listener-string": 100000,
                         "listen_started_compared": 40, "listen_started_heap": 20, "listen_port_resolved": 25,
                         "listen_dialer_from_listener": 40,
                         **AUTH_ENUM, **UTF8_POS, **HUGE,
                         "gram_cases": 32000000,
                         "judged_authority_blank_or_control": 1000000,
                         "judged_bracket_not_an_address": 1500000,
                         "judged_bracket_valid_address_accepted": 400000,
                         "host_escape_unreserved_judged": 80000,
                         "fuzz_committed_seed_files": 12000}),
)
