from specs import R

SPEC = dict(
    level="exploration",
    level_text="Runtime differential/reference monitors around the real codecs, under ASan+UBSan and the accounting allocator. "
               "(1) White-box: nni_http_chunks_parse is fed each seeded chunked stream whole and in every 2-way split (all 3-way splits for streams <= 40 bytes, sampled beyond), 1-byte dribble and random chunking, re-offering unconsumed bytes exactly as http_rd_buf does; error code, bytes consumed and the chunk list (sizes + data CRC) must be identical, must equal a strict RFC 7230 reference decoder for valid streams, and size-rule mutants (empty, non-hex, overflowing, above the limit, data not followed by CRLF) must be rejected. "
               "(2) A raw TCP peer with its own RFC 6455 codec, SHA-1 and base64 performs the HTTP upgrade against nng in four roles (nng_stream ws:// listener and dialer in stream and message mode, SP pair0 listening/dialing on ws://). Valid frame streams (fragmentation, PING/PONG between fragments, TEXT/BINARY, limits set to exactly fit) are replayed on one connection under every single cut of nng's reads for streams <= 300 bytes, cuts on every frame-header boundary, dribble, random chunks, paced peer writes and - for dialers - frames in the same write as the 101 response; what the application receives (bytes and message boundaries) must equal the strict reference decoder's output every time. One rule violation per connection (28 rules x 4 roles x modes) followed by a canary message: only a prefix of what precedes the offending frame may be delivered and the peer must see CLOSE and/or EOF within 10 s. Everything nng emits - upgrade request/response incl. Sec-WebSocket-Accept, data frames for NNG_OPT_WS_SENDMAXFRAME in {1,125,126,1000,65535,65536,unlimited}, PONG payloads, CLOSE codes - goes through the strict parser. "
               "(3) HTTP: raw client <-> nng_http_server with an echo handler and nng_http_transact <-> raw server (Content-Length, chunked with extensions/trailers, HEAD); each message is decoded under every single read cut (<= 300 bytes), header-boundary cuts, dribble, random and paced writes and must equal both the unsplit decode and the generator's model; malformed request lines/versions/escapes/headers/huge lines must give 4xx-5xx or a closed connection and never a handler call; malformed status lines/headers/chunk sizes must fail the transaction; requests and responses nng emits are parsed strictly (start line, header syntax, Content-Length == body).",
    level_note="Sampled, not exhaustive, beyond the stated small-stream enumerations. Trusts the harness's reference decoders (about 250 lines, self-tested against RFC examples), the read interposer (it only shortens reads a kernel could legally shorten) and loopback TCP. nng being stricter than the RFC (tabs in header values, bare LF in chunk lines) or lenient in things the property does not name (fragmented control frames, LF-only header lines, Content-Length syntax) is not judged. TLS (wss/https) is not built.",
    technique="runtime reference-decoder + segmentation differential + rule-mutation monitors with raw peers; ASan/UBSan; allocator balance",
    rule="chunk: a case is one seeded stream (valid / one size-rule mutant / random byte mutations) with all its splits; ws valid: a case is (role, mode, limits, fragsize, receive buffer size, seeded frame stream) with all its replays plus 1-4 application sends and a closing handshake; ws rules: a case is (rule, role, mode, valid prefix, segmentation); http: a case is one seeded request or response (or one malformed class) with all its segmentations; a class is (mode-specific situation actually observed), e.g. (rule, role, mode, how the connection ended)",
    assumptions=["loopback TCP", "the interposed readv/sendmsg/writev/send are the only stream I/O calls of the posix layer",
                 "nng may refuse frames/messages above the configured maxima; NNG_OPT_WS_RECVMAXFRAME applies to every frame, NNG_OPT_RECVMAXSZ to messages only"],
    quick=dict(runs=[R("c16_http", "asan", 2, 25000, "chunk", 600),
                     R("c16_http", "asan", 3, 700, "server", 600),
                     R("c16_http", "asan", 3, 700, "client", 600),
                     R("c16_ws", "asan", 5, 50, "valid", 600),
                     R("c16_ws", "asan", 3, 450, "rules", 600)],
               floor={"chunk_splits": 3000000, "chunk_rule_rejected": 8000, "chunk_valid_equal": 8000,
                      "http_server_exchanges": 60000, "http_server_malformed": 400, "http_server_model_equal": 500,
                      "http_client_exchanges": 60000, "http_client_malformed": 400, "http_client_model_equal": 600,
                      "ws_replays": 8000, "ws_exhaustive_cut_streams": 60, "ws_tx_messages": 150,
                      "ws_rule_cases": 1200, "ws_handshakes_checked": 1400, "@classes": 250},
               eval_key="cases"),
    thorough=dict(runs=[R("c16_http", "asan", 2, 250000, "chunk", 3000),
                        R("c16_http", "asan", 3, 7000, "server", 3000),
                        R("c16_http", "asan", 3, 7000, "client", 3000),
                        R("c16_ws", "asan", 5, 500, "valid", 3000),
                        R("c16_ws", "asan", 3, 4500, "rules", 3000)],
                  floor={"chunk_splits": 30000000, "http_server_exchanges": 600000, "http_client_exchanges": 600000,
                         "ws_replays": 80000, "ws_exhaustive_cut_streams": 600, "ws_rule_cases": 12000, "@classes": 300},
                  eval_key="cases"),
)
