from specs import R

# the 31 framing rules of the rules mode: each must have been observed on every role
_RULES = ["wrong-masking", "opcode-3", "opcode-4", "opcode-5", "opcode-6", "opcode-7", "opcode-B", "opcode-C", "opcode-D", "opcode-E", "opcode-F",
          "rsv1", "rsv2", "rsv3", "length-16bit-for-short", "length-64bit-for-short", "length-64bit-for-16bit", "ping-126-bytes", "pong-126-bytes", "close-126-bytes",
          "continuation-first", "continuation-after-complete-message", "binary-inside-fragmented-message", "text-inside-fragmented-message",
          "frame-above-recvmaxframe", "frame-above-recvmaxframe-64bit", "message-above-recvmaxsz-two-frames", "message-above-recvmaxsz-many-small-fragments",
          "frame-length-2^32", "frame-length-2^63", "continuation-length-wraps-message-size"]
_ROLES = ["stream-listener", "stream-dialer", "sp-listener", "sp-dialer"]


def _second_audit_floors(scale):
    f = {
        # dimensions the level text promises (a generator drifting away from them must not stay green)
        "http_server_exhaustive_cut": 250 * scale, "http_client_exhaustive_cut": 300 * scale,
        "chunk_exhaustive_2way": 20000 * scale, "chunk_exhaustive_3way": 5000 * scale,
        "ws_dribble_streams": 100 * scale, "ws_paced": 300 * scale, "ws_frames_behind_handshake": 25 * scale,
        "ws_rule_enforced": 1200 * scale, "ws_rule_close_frame_seen": 1000 * scale,
        "http_server_malformed_status": 250 * scale, "http_client_malformed_rejected": 400 * scale,
        "@class:http-client/valid/chunked*": 1, "@class:http-client/valid/head*": 1, "@class:http-client/valid/clen0*": 1, "@class:http-client/valid/nobody*": 1,
        "@class:http-server/valid/HEAD*": 1, "@class:http-server/valid/body-discarded*": 1,
        # chunk line terminators (CR not followed by LF in the size line / at the end of the body; bare LF)
        "chunk_crlf_rule_cases": 1500 * scale, "@class:chunk/*cr-*lf/ref=reject/bad-crlf/*": 3, "@class:chunk/size-lf-only/ref=reject/*": 1,
        # request bodies in chunked transfer coding
        "http_server_te_requests": 30 * scale, "@class:http-server/malformed/te-*": 3,
        # body read into 2-4 separate buffers / with nng_http_read
        "http_client_scatter_reads": 1500 * scale, "http_client_raw_reads": 5000 * scale, "http_client_raw_read_partial": 500 * scale,
        "ws_scatter_recv_cases": 12 * scale, "@class:ws-valid-scatter/*": 4,
        # upgrade spellings (outcome observed, accepted or refused), near misses that must be refused
        "ws_hs_variant_cases": 60 * scale, "ws_hs_nearmiss_cases": 40 * scale, "@class:ws-hs-valid/*": 24, "@class:ws-hs/*near-miss*": 16,
        # several sends outstanding, PINGs meanwhile, cancellation, CLOSE from the peer
        "ws_tx_concurrent_sends": 400 * scale, "ws_tx_concurrent_fragmented": 120 * scale, "ws_tx_ping_during_fragments": 40 * scale,
        "ws_tx_cancel_cases": 80 * scale, "ws_tx_cancel_midway": 10 * scale, "ws_tx_peer_close_cases": 40 * scale, "@class:ws-tx-concurrent/*": 20,
    }
    for role in _ROLES:
        f["@class:ws-valid/%s*" % role] = 4
        f["@class:ws-tx/%s/*/fragmented" % role] = 1
    for rule in _RULES:
        f["@class:ws-rule/%s/*" % rule] = 4
    return f


SPEC = dict(
    level="exploration",
    level_text="Runtime differential/reference monitors around the real codecs, under ASan+UBSan and the accounting allocator. "
               "(1) White-box: nni_http_chunks_parse is fed each seeded chunked stream whole and in every 2-way split (all 3-way splits for streams <= 40 bytes, sampled beyond), 1-byte dribble and random chunking, re-offering unconsumed bytes exactly as http_rd_buf does; error code, bytes consumed and the chunk list (sizes + data CRC) must be identical, must equal a strict RFC 7230 reference decoder for valid streams, and size-rule mutants (empty, non-hex, overflowing, above the limit, data not followed by CRLF) must be rejected. "
               "(2) A raw TCP peer with its own RFC 6455 codec, SHA-1 and base64 performs the HTTP upgrade against nng in four roles (nng_stream ws:// listener and dialer in stream and message mode, SP pair0 listening/dialing on ws://). Valid frame streams (fragmentation, PING/PONG between fragments, TEXT/BINARY, limits set to exactly fit) are replayed on one connection under every single cut of nng's reads for streams <= 300 bytes, cuts on every frame-header boundary, dribble, random chunks, paced peer writes and - for dialers - frames in the same write as the 101 response; what the application receives (bytes and message boundaries) must equal the strict reference decoder's output every time. One rule violation per connection (31 rules incl. 2^32 / 2^63 / wrapping 64-bit lengths, x 4 roles x modes) followed by a canary message: only a prefix of what precedes the offending frame may be delivered and the peer must see CLOSE and/or EOF within 10 s. Everything nng emits - upgrade request/response incl. Sec-WebSocket-Accept, data frames for NNG_OPT_WS_SENDMAXFRAME in {1,125,126,1000,65535,65536,unlimited}, PONG payloads, CLOSE codes - goes through the strict parser. "
               "(2b) Upgrade validation: one defect per connection in the raw peer's half of the upgrade (28 defects: wrong/missing/truncated Sec-WebSocket-Accept, non-101 status, missing or wrong Upgrade/Connection/subprotocol; missing/short/long key, version != 13, POST, HTTP/1.0 ...): a listener must not answer 101 nor hand out a stream/pipe, a dialer must fail the dial or drop the connection without delivering the frame that follows. SP roles run pair0 and pair1 (hop header as separate iov, fragmented across SENDMAXFRAME); nng's own writes are shortened (dribble/random/cut) while it emits. (3) HTTP: raw client <-> nng_http_server with an echo handler and nng_http_transact <-> raw server (Content-Length, chunked with extensions/trailers, HEAD); each message is decoded under every single read cut (<= 300 bytes), header-boundary cuts, dribble, random and paced writes and must equal both the unsplit decode and the generator's model; malformed request lines/versions/escapes/headers/huge lines must give 4xx-5xx or a closed connection and never a handler call; malformed status lines/headers/chunk sizes must fail the transaction; requests and responses nng emits are parsed strictly (start line, header syntax, Content-Length == body). "
               "(4, second audit) Chunk line terminators: a CR that is not followed by LF in a size line or at the end of the body, and a bare LF after the size, must be rejected. Requests with Transfer-Encoding (chunk data = a complete second request) must get an error status or a closed connection and no handler call. The manual client reads bodies with nng_http_read_all into one buffer, into 2-4 separately allocated buffers, and with nng_http_read until done; ws stream mode receives into 2-4 separately allocated buffers in half of the cases: same decode required. "
               "hsv mode: 8 valid spellings of the raw peer's half of the upgrade per direction (lower-case field names, Connection lists with and without a space after the comma, Upgrade: WebSocket, unknown extra fields and an offered extension, optional whitespace, several offered subprotocols, another reason phrase) are offered: acceptance or refusal is recorded per variant and role, not judged (the property does not demand that every valid spelling is understood); when nng accepts one, the frame behind it must be delivered intact and nng's own 101 reply / upgrade request must pass the strict parser (Sec-WebSocket-Accept, exactly the supported subprotocol); 6 near misses of the compared tokens (noupgrade, upgrades, websocket2, xwebsocket, subprotocol + 1 / - 1 character) must be refused. "
               "conc mode (nng_stream ws:// in message mode, both roles, NNG_OPT_WS_SENDMAXFRAME in {1,7,125,126,1000,65536,unlimited}): 2-3 nng_stream_send operations outstanding at once, each longer than a frame, while the raw peer sends PINGs; the strict decoder must accept the emitted stream (no message starting inside another one), every message must arrive once and intact, every PING answered; one send is cancelled while its message is on the wire and another message sent behind it (it must not start inside the unfinished one: either the connection is failed or the cancelled message completes); the peer sends CLOSE while sends are in progress (no data frame behind nng's CLOSE).",
    level_note="Sampled, not exhaustive, beyond the stated small-stream enumerations. Trusts the harness's reference decoders (about 250 lines, self-tested against RFC examples), the read interposer (it only shortens reads a kernel could legally shorten) and loopback TCP. nng being stricter than the RFC (tabs in header values, bare LF in chunk lines) or lenient in things the property does not name (fragmented control frames, LF-only header lines, Content-Length syntax) is not judged. TLS (wss/https) is not built.",
    technique="runtime reference-decoder + segmentation differential + rule-mutation monitors with raw peers; ASan/UBSan; allocator balance; valgrind memcheck (definedness of every value that steers a branch, an address or a system call) on a sample of the same workload",
    rule="chunk: a case is one seeded stream (valid / one size-rule mutant / random byte mutations) with all its splits; ws valid: a case is (role, mode, limits, fragsize, receive buffer size, seeded frame stream) with all its replays plus 1-4 application sends and a closing handshake; ws rules: a case is (rule, role, mode, valid prefix, segmentation); http: a case is one seeded request or response (or one malformed class) with all its segmentations; a class is (mode-specific situation actually observed), e.g. (rule, role, mode, how the connection ended)",
    assumptions=["loopback TCP", "the interposed readv/sendmsg/writev/send are the only stream I/O calls of the posix layer",
                 "nng may refuse frames/messages above the configured maxima; NNG_OPT_WS_RECVMAXFRAME applies to every frame, NNG_OPT_RECVMAXSZ to messages only"],
    quick=dict(runs=[R("c16_http", "asan", 2, 25000, "chunk", 600),
                     R("c16_http", "asan", 3, 700, "server", 600),
                     R("c16_http", "asan", 3, 700, "client", 600),
                     R("c16_ws", "asan", 5, 50, "valid", 600),
                     R("c16_ws", "asan", 3, 450, "rules", 600),
                     R("c16_ws", "asan", 1, 336, "hs", 600),
                     R("c16_ws", "asan", 1, 112, "hsv", 600),
                     R("c16_ws", "asan", 2, 140, "conc", 600),
                     # valgrind memcheck lines: only memcheck reports are judged (see vf FLAVORS["vg"])
                     R("c16_http", "vg", 1, 1000, "chunk", 150)],
               floor={"http_emitted_request_heads_of_exactly_buffer_size": 3, "@class:emit-head/request/*": 30, "chunk_splits": 3000000, "chunk_rule_rejected": 8000, "chunk_valid_equal": 8000,
                      "http_server_exchanges": 60000, "http_server_malformed": 400, "http_server_model_equal": 500,
                      "http_client_exchanges": 60000, "http_client_malformed": 400, "http_client_model_equal": 600,
                      "ws_replays": 8000, "ws_exhaustive_cut_streams": 60, "ws_tx_messages": 150,
                      "ws_rule_cases": 1200, "ws_handshakes_checked": 1400, "@classes": 250,
                      # audit round: upgrade defects, pair1 header, shortened writes, extreme lengths, length encodings, more API forms
                      "ws_hs_defect_cases": 300, "ws_hs_defect_refused": 250, "@class:ws-hs/*": 48,
                      "ws_pair1_cases": 20, "ws_tx_sp_header_fragmented": 10,
                      "ws_tx_short_writes": 5000, "@class:ws-tx-short-write/*": 8,
                      "http_server_short_writes": 50000, "http_client_short_writes": 50000,
                      "@class:ws-rule/frame-length-2^*": 10, "@class:ws-rule/continuation-length-wraps-message-size/*": 5,
                      "@class:ws-tx-lenenc/*": 6,
                      "http_server_body_discarded": 1500, "http_client_manual_exchanges": 5000,
                      # heads of 8-20 KB made of short lines (more than nng's 8160-byte HTTP buffer), both roles
                      "http_big_head_cases": 60, "http_server_big_head_cases": 25, "http_client_big_head_cases": 25,
                      **_second_audit_floors(1)},
               eval_key="cases"),
    thorough=dict(runs=[R("c16_http", "asan", 2, 250000, "chunk", 3000),
                        R("c16_http", "asan", 3, 7000, "server", 3000),
                        R("c16_http", "asan", 3, 7000, "client", 3000),
                        R("c16_ws", "asan", 5, 500, "valid", 3000),
                        R("c16_ws", "asan", 3, 4500, "rules", 3000),
                        R("c16_ws", "asan", 1, 3360, "hs", 3000),
                        R("c16_ws", "asan", 1, 1120, "hsv", 3000),
                        R("c16_ws", "asan", 2, 1400, "conc", 3000),
                        # valgrind memcheck lines: only memcheck reports are judged (see vf FLAVORS["vg"])
                        R("c16_http", "vg", 4, 15000, "chunk", 1800),
                        R("c16_http", "vg", 4, 300, "server", 1800),
                        R("c16_http", "vg", 4, 300, "client", 1800),
                        R("c16_ws", "vg", 4, 20, "valid", 1800),
                        R("c16_ws", "vg", 4, 200, "rules", 1800),
                        R("c16_ws", "vg", 2, 60, "hs", 1800)],
                  floor={"chunk_splits": 30000000, "http_server_exchanges": 600000, "http_client_exchanges": 600000,
                         "ws_replays": 80000, "ws_exhaustive_cut_streams": 600, "ws_rule_cases": 12000, "@classes": 300,
                         "ws_hs_defect_cases": 3000, "@class:ws-hs/*": 48, "ws_pair1_cases": 200, "ws_tx_sp_header_fragmented": 100,
                         "ws_tx_short_writes": 50000, "@class:ws-tx-short-write/*": 10, "http_server_short_writes": 500000, "http_client_short_writes": 500000,
                         "@class:ws-rule/frame-length-2^*": 10, "@class:ws-rule/continuation-length-wraps-message-size/*": 5, "@class:ws-tx-lenenc/*": 6,
                         "http_server_body_discarded": 15000, "http_client_manual_exchanges": 50000,
                         "http_big_head_cases": 600, "http_server_big_head_cases": 250, "http_client_big_head_cases": 250,
                         **_second_audit_floors(8)},
                  eval_key="cases"),
)
