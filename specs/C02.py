from specs import R

SPEC = dict(
    level="exploration",
    level_text="Runtime monitor at two layers while real threads race: (1) every user aio is wrapped in a record whose callback checks no overlap, callbacks <= submissions, result-code legitimacy (NNG_ETIMEDOUT never before the configured duration, cancel/abort/stop/closed codes only if issued), no callback after nng_aio_stop/free returned, exactly one callback per submission at the end, and message conservation for receives; (2) guarded shadow state inside core/aio.c and core/taskq.c (second completion of one operation, start/reset while active, busy-count underflow) covers the library's internal aios. Interleavings are sampled: seeded jitter at every lock/cv point or a long delay at one named race window (abort/finish after unlock, expire before/between cancels, stop before wait, task before enqueue/before cb), thread-pool shapes from {1 expire, 2 task} to {8,16}; repeated under TSan in the thorough tier.",
    level_note="Sampled schedules, real time: a race window that no named site or lock boundary brackets can be missed. Operation kinds driven: sleep, harness-implemented provider (public nng_aio_start/finish), socket recv and send (pair1, with delivery conservation), receive of pull/sub/bus/pair0/raw rep, send of push/pair0/raw req, REQ context send, REP context recv, dialer_start_aio (reachable, refused, nobody listening), stream accept, stream recv, stream dial (tcp by address and by name, ipc, refused) with immediate re-dial from the callback, surveyor receive (socket and contexts; receives posted late in a survey are clamped to its deadline, later ones are not); a third of the aios have their timeout set once and are re-used without setting it again; actions cancel, abort, stop, close of the owner, and nng_aio_free of the aio in flight; after stop/wait/free returned no callback of that aio may still be executing. 'Never early' uses a 1 ms allowance for the library's millisecond clock.",
    technique="runtime exactly-once monitor (boundary records + in-library shadow state) under schedule perturbation, ASan/UBSan, TSan",
    rule="a case = one operation kind, 1-6 aios with seeded timeout / action (cancel, abort, stop, close, none) issued around the nominal completion instant, seeded re-submission from inside the callback, a completer thread and one perturbation policy; a class is (kind, result) or (kind, action, outcome, perturbation site) actually observed in a callback",
    assumptions=["interleavings are sampled, not enumerated", "wall-clock is used only one-sidedly (never earlier than T-1ms)"],
    quick=dict(runs=[R("c02_aio", "asan", 8, 260, "mixed", 600),
                     R("c02_aio", "asan", 4, 300, "provider", 600)],
               floor={"operations": 3000, "@classes": 60, "hook_aio_finish": 3000, "not_running_checks": 1500, "free_in_flight": 100,
                      "@class:dial-aio/ok": 1, "@class:dial-aio/timedout": 1, "@class:proto-recv:*/ok": 4, "@class:proto-send:*/ok": 3, "@class:req-ctx-send/*": 5, "@class:stream-dial/ok": 1, "@class:stream-dial/canceled": 1, "@class:stream-dial/timedout": 1, "@class:surveyor-recv/ok": 1, "@class:surveyor-recv/timedout": 1, "survey_deadline_timeouts": 10},
               eval_key="operations"),
    thorough=dict(runs=[R("c02_aio", "asan", 16, 1500, "mixed", 3000),
                        R("c02_aio", "asan", 8, 2500, "provider", 3000),
                        R("c02_aio", "tsan", 8, 400, "mixed", 3000),
                        R("c02_aio", "tsan", 4, 600, "provider", 3000)],
               floor={"operations": 30000, "@classes": 100},
               eval_key="operations"),
)
