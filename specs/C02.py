from specs import R

SPEC = dict(
    level="exploration",
    level_text="Runtime monitor at two layers while real threads race: (1) every user aio is wrapped in a record whose callback checks no overlap, callbacks <= submissions, result-code legitimacy (NNG_ETIMEDOUT never before the configured duration, cancel/abort/stop/closed codes only if issued), no callback after nng_aio_stop/free returned, exactly one callback per submission at the end (or exactly one of {skip-callback flag set, callback}; for aios without callback the library's own completion events are counted), and conservation (an operation that reported an error had no effect: pair1/pair0/push sends, pair1/pull/pair0/REP-context receives, REQ-context sends, stream receives); (2) guarded shadow state inside core/aio.c and core/taskq.c (second completion of one operation, start/reset while active, busy-count underflow) covers the library's internal aios. Interleavings are sampled: seeded jitter at every lock/cv point or a long delay at one named race window (abort/finish after unlock, expire before/between cancels, stop before wait, task before enqueue/before cb), thread-pool shapes from {1 expire, 2 task} to {8,16}; plus an ENUMERATED grid around one expiry batch (one expire queue; gate, P, Q with the same deadline; cancel/abort/stop of Q issued when the loop picks P; three simultaneous delays permuted so that every order of {loop reaches Q, canceller calls Q's cancel function, re-submission from Q's callback} occurs; Q a sleep or a provider operation); repeated under TSan in the thorough tier.",
    level_note="Sampled schedules, real time: a race window that no named site or lock boundary brackets can be missed. Operation kinds driven: sleep, harness-implemented provider (public nng_aio_start/finish), socket recv and send (pair1, with delivery conservation), receive of pull/sub/bus/pair0/raw rep, send of push/pair0/raw req, REQ context send, REP context recv, dialer_start_aio (reachable, refused, nobody listening), stream accept, stream recv, stream dial (tcp by address and by name, ipc, refused) with immediate re-dial from the callback, surveyor receive (socket and contexts; receives posted late in a survey are clamped to its deadline, later ones are not), REQ context receive, stream send into a connection nobody reads, nng_device_aio over two raw pair0 sockets; variants per aio: nng_aio_skip_callback before every submission (public entry points reset the request, so only a provider that completes without nng_aio_start honours it), aio without callback + nng_aio_wait, NNG_DURATION_DEFAULT with the owner's send/receive timeout option raised between submissions, nng_aio_set_expire, a second terminating action from another thread (cancel/abort/stop/close pairs, free next to close), re-submission from the callback while nng_aio_stop is in progress, one submission after nng_aio_stop returned (must not be started); NNG_ECANCELED / abort code are accepted only if such a call had not yet returned when the operation was submitted; an early NNG_ETIMEDOUT is filed under the known expire-loop window only if the loop picked the aio before this submission and no timeout callback has consumed that pick; a third of the aios have their timeout set once and are re-used without setting it again; actions cancel, abort, stop, close of the owner, and nng_aio_free of the aio in flight; after stop/wait/free returned no callback of that aio may still be executing. 'Never early' uses a 1 ms allowance for the library's millisecond clock.",
    technique="runtime exactly-once monitor (boundary records + in-library shadow state) under schedule perturbation, ASan/UBSan, TSan; valgrind memcheck (definedness of every value that steers a branch, an address or a system call) on a sample of the same workload",
    rule="a case = one operation kind, 1-6 aios with seeded timeout / one or two actions (cancel, abort, stop, close, free, none) issued around the nominal completion instant, or one point of the enumerated expiry-batch grid (678 points), seeded re-submission from inside the callback, a completer thread and one perturbation policy; a class is (kind, result) or (kind, action, outcome, perturbation site) actually observed in a callback",
    assumptions=["interleavings are sampled, not enumerated", "wall-clock is used only one-sidedly (never earlier than T-1ms)"],
    quick=dict(runs=[R("c02_aio", "asan", 8, 260, "mixed", 600),
                     R("c02_aio", "asan", 4, 300, "provider", 600),
                     R("c02_aio", "asan", 8, 678, "grid", 600),
                     # valgrind memcheck lines: only memcheck reports are judged (see vf FLAVORS["vg"])
                     R("c02_aio", "vg", 4, 30, "mixed", 150)],
               floor={"operations": 6000, "@classes": 600, "hook_aio_finish": 8000, "not_running_checks": 5000, "free_in_flight": 100,
                      # operation kinds: completion won and cancel / timeout / stop won, for every kind
                      "@class:sleep/ok": 1, "@class:sleep/canceled": 1, "@class:sleep/stopped": 1, "@class:sleep/timedout": 1,
                      "@class:provider/ok": 1, "@class:provider/canceled": 1, "@class:provider/stopped": 1, "@class:provider/timedout": 1,
                      "@class:sock-recv/ok": 1, "@class:sock-recv/canceled": 1, "@class:sock-recv/stopped": 1, "@class:sock-recv/timedout": 1,
                      "@class:sock-send/ok": 1, "@class:sock-send/canceled": 1, "@class:sock-send/stopped": 1, "@class:sock-send/timedout": 1,
                      "@class:ctx-recv/ok": 1, "@class:ctx-recv/canceled": 1, "@class:ctx-recv/stopped": 1, "@class:ctx-recv/timedout": 1,
                      "@class:stream-accept/ok": 1, "@class:stream-accept/canceled": 1, "@class:stream-accept/stopped": 1, "@class:stream-accept/timedout": 1,
                      "@class:stream-recv/ok": 1, "@class:stream-recv/canceled": 1, "@class:stream-recv/stopped": 1, "@class:stream-recv/timedout": 1,
                      "@class:stream-send/ok": 1, "@class:stream-send/canceled": 1, "@class:stream-send/stopped": 1, "@class:stream-send/timedout": 1,
                      "@class:req-ctx-recv/ok": 1, "@class:req-ctx-recv/canceled": 1, "@class:req-ctx-recv/stopped": 1, "@class:req-ctx-recv/timedout": 1,
                      "@class:device/canceled": 1, "@class:device/stopped": 1, "@class:device/timedout": 1, "device_forwarded": 10, "requests_sent": 80,
                      "@class:dial-aio/ok": 1, "@class:dial-aio/timedout": 1, "@class:proto-recv:*/ok": 4, "@class:proto-send:*/ok": 3, "@class:proto-recv:*/canceled": 4, "@class:proto-send:*/canceled": 3, "@class:req-ctx-send/*": 5, "@class:stream-dial/ok": 1, "@class:stream-dial/canceled": 1, "@class:stream-dial/timedout": 1, "@class:surveyor-recv/ok": 1, "@class:surveyor-recv/timedout": 1, "survey_deadline_timeouts": 10,
                      "delays@aio.expire.before_cancel": 50, "delays@aio.expire.between_cancels": 50, "delays@aio.abort.after_unlock": 50, "delays@aio.start": 50,
                      # conservation oracles really ran
                      "conservation_checked": 40, "send_conservation_checked": 40, "recv_conservation2_checked": 40, "recv_conservation2_msgs": 60,
                      "send_conservation2_checked": 40, "send_conservation2_ok_sends": 60, "stream_conservation_checked": 30, "stream_conservation_bytes": 500,
                      # variants
                      "skip_inline": 100, "skip_async": 800, "nocb_operations": 300, "@class:no-callback/*": 8, "cancel_code_checked": 500,
                      "two_action_records": 400, "@class:two-actions/*": 10, "start_after_stop": 800, "start_after_stop_refused": 500, "resubmit_during_stop": 40,
                      "default_timeout_submissions": 150, "default_timeout_raised": 15, "@class:default-timeout/*": 4, "set_expire_submissions": 250,
                      # the enumerated expiry-batch grid: anchored on the loop picking P, every order of {loop reaches Q, canceller calls Q's cancel function, re-submission}
                      "grid_cases": 678, "grid_anchored": 650, "@class:grid/P=*/Q=sleep/*": 18, "@class:grid/P=*/Q=provider/*": 3,
                      "@class:grid/Q=sleep/act=*/order=L<C<R": 2, "@class:grid/Q=sleep/act=*/order=L<R<C": 2, "@class:grid/Q=sleep/act=*/order=C<R*": 2,
                      "@class:grid/Q=provider/act=*/order=*": 6},
               eval_key="operations"),
    thorough=dict(runs=[R("c02_aio", "asan", 16, 1500, "mixed", 3000),
                        R("c02_aio", "asan", 8, 2500, "provider", 3000),
                        R("c02_aio", "asan", 8, 2034, "grid", 3000),
                        R("c02_aio", "tsan", 8, 400, "mixed", 3000),
                        R("c02_aio", "tsan", 4, 600, "provider", 3000),
                        R("c02_aio", "tsan", 4, 678, "grid", 3000),
                        # valgrind memcheck lines: only memcheck reports are judged (see vf FLAVORS["vg"])
                        R("c02_aio", "vg", 8, 120, "mixed", 1800),
                        R("c02_aio", "vg", 4, 60, "provider", 1800)],
               floor={"operations": 60000, "@classes": 1000, "grid_anchored": 2500, "skip_inline": 500, "nocb_operations": 2000, "two_action_records": 3000, "start_after_stop_refused": 3000,
                      "recv_conservation2_checked": 300, "send_conservation2_checked": 300, "stream_conservation_checked": 200, "conservation_checked": 300, "send_conservation_checked": 300,
                      "default_timeout_submissions": 1000, "set_expire_submissions": 2000},
               eval_key="operations"),
)
