from specs import R

SPEC = dict(
    level="exploration",
    level_text="draft",
    level_note="draft",
    technique="runtime monitor",
    rule="draft",
    assumptions=[],
    quick=dict(runs=[R("c04_req", "asan", 4, 4, "", 600)],
               floor={"replies_delivered": 100},
               eval_key="replies_delivered"),
    thorough=dict(runs=[R("c04_req", "asan", 4, 4, "", 600)],
                  floor={"replies_delivered": 100},
                  eval_key="replies_delivered"),
)
