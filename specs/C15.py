from specs import R

SPEC = dict(
    level="exploration",
    level_text="Runtime differential monitor at quiescent points: for every protocol (cooked and raw) over inproc and tcp, random histories of peer send / peer receive / buffer resize / peer loss and return / subscribe-unsubscribe are driven, and after every step, once the library is quiescent (guarded in-flight counter of tasks, pollers and reaps is zero and stays zero), the recv and send poll descriptors are sampled and a NONBLOCK receive and send are issued. Violations: descriptor readable but NNG_EAGAIN (persistent), success while the descriptor was not readable, NNG_EAGAIN although the same call with a 100 ms timeout then succeeds with no other stimulus, a NONBLOCK call taking > 400 ms (protocol timers are set to >= 2 s so waiting for one is unambiguous), and ownership of a message after a failed send (ASan / allocator balance).",
    level_note="Quiescence is established by the hook counters plus a settle re-check (3 ms on tcp); kernel loopback latency beyond that would show as a transient and is filtered by the persistence re-check. The 400 ms bound is wall-clock but 100x above what a non-blocking call needs.",
    technique="runtime differential oracle (NONBLOCK vs short-timeout vs poll fd) at hooked quiescent points",
    rule="a case is (protocol, cooked/raw, transport, seeded history of 6-14 steps); two probes (recv, send) after every step; a class is (protocol, op, descriptor state, result, preceding step) actually observed",
    assumptions=["probing changes the state (a successful probe sends/receives a message); that is part of the history"],
    quick=dict(runs=[R("c15_nonblock", "asan", 8, 3, "", 600), R("c15_nonblock", "asan", 8, 0, "parked", 600)],
               floor={"probes": 4000, "parked_cases": 500, "@classes": 200}, eval_key="probes"),
    thorough=dict(runs=[R("c15_nonblock", "asan", 16, 24, "", 3000)],
                  floor={"probes": 15000, "@classes": 300}, eval_key="probes"),
)
