from specs import R

_NAMES = [x + n for n in ("pair0", "pair1", "pub", "sub", "req", "rep", "push", "pull", "surveyor", "respondent", "bus") for x in ("", "x")]
_CTX = ("req", "rep", "sub", "surveyor", "respondent")


def _floors(scale):
    f = {"probes": int(14000 * scale), "parked_cases": 1000, "@classes": 2500,
         "eagain_judged": int(4000 * scale),
         # gap 1: API forms
         "probes_form_buf": int(2000 * scale), "probes_form_aio": int(3000 * scale),
         "probes_form_ctx": int(600 * scale), "probes_form_ctx-aio": int(400 * scale),
         "ctx_ops_succeeded": int(300 * scale),
         # gap 2: states after cancelled / timed-out aios, probes while one is parked, survey expiry
         "parked_aio_recv_cancelled": 15, "parked_aio_recv_timedout": 6,
         "parked_aio_send_cancelled": 4, "parked_aio_send_timedout": 1,
         "probe_rounds_while_aio_parked": 8, "surveys_expired": 4,
         "disruptions_with_sender_waiting": 20,
         "@class:surveyor/*/recv/*/rv=11/after=survey*expire*": 2,
         "@class:*/after=*is-parked*": 30,
         # gap 3: enumerated disruptions
         "unsubscribes_with_pending": 4, "new_request_with_reply_pending": 2,
         # (counted only when the queue really was full: the fill ended with a refusal / more had arrived than fits)
         "resizes_of_full_recvbuf": 60, "resizes_of_full_sendbuf": 90,
         "peer_fill_refused": 100, "send_fill_refused": 80,
         "@class:sub/*/after=unsubscribe*": 6,
         # reply-path back pressure on REP (raw REQ peer that never reads replies): probes made while the previous reply was still in flight
         "reply_busy_cases_reached": 6, "reply_probes_with_previous_reply_in_flight": 20,
         "@class:reply-busy/inproc/socket/*": 3, "@class:reply-busy/tcp/socket/*": 3,
         "@class:reply-busy/inproc/ctx/*": 3, "@class:reply-busy/tcp/ctx/*": 3,
         # gap 4: descriptors created lazily for a pollable that is already raised
         "lazy_fd_first_probes": 600, "lazy_fd_first_probe_raised": 400, "@class:lazy:*": 40,
         # second audit, 1: pair1 polyamorous (a cooked protocol of its own), histories and parked scenarios
         "probes_pair1poly": int(350 * scale), "@class:pair1poly/inproc/*": 30, "@class:pair1poly/tcp/*": 30,
         # second audit, 2: the probed socket dials (its pipes come from dialers and from its own redial); ipc
         "cases_role_dial": int(60 * scale), "@class:*/role=dial/*": 800, "@class:*/after=local-pipe-close": 60,
         "@class:*/role=dial/*/after=local-pipe-close": 20, "@class:*/ipc/*": 600,
         # second audit, 3: the kernel's send path full (large messages over tcp, peers not reading), then a peer reads / SENDBUF shrinks
         "send_fill_refused_tcp": 40, "big_send_cases_kernel_queue_stuck": 30, "@class:tcp-path-full/*/refused": 12,
         "@class:*/tcp/send*/fd1/rv=0/after=tcp-path-full+*": 20, "@class:*/tcp/send*/fd0/rv=8/after=tcp-path-full+*": 6,
         # second audit, 5: clause (b) under back pressure is judged on a descriptor confirmed unreadable at two quiescent points
         "unreadable_confirmed_under_backpressure": 60,
         }
    for n in _NAMES:
        f["probes_" + n] = int(350 * scale)
        f["@class:%s/inproc/*" % n] = 30
        f["@class:%s/tcp/*" % n] = 30
    for n in _CTX:
        f["@class:form:%s/ctx-*" % n] = 3
    return f


SPEC = dict(
    level="exploration",
    level_text="Runtime differential monitor at quiescent points: for every protocol (cooked and raw, and pair1 polyamorous with up to three pair1 peers) over inproc, ipc and tcp, with the probed socket listening or - every other history - dialing its peers (so that its pipes come from dialers and, after a local pipe close, from its own redial), random histories (peer send / peer fill until refused / peer receive / buffer resize / peer loss and return / local pipe close / subscribe-unsubscribe on socket and context / a blocking aio posted on the socket or a context and then cancelled, timed out, or left parked while probes run and a further event happens / a survey that expires) and enumerated 'parked' scenarios (the tcp path to three peers that do not read filled with 256 kB messages by judged non-blocking sends until refused - kernel buffers limited to 32 kB per connection - and then one peer taking one message, every peer taking four, or SENDBUF shrinking, for every protocol that can send unasked: the completion that must raise the send descriptor arrives from the transport's partial-write path long after the refusal; messages pending from three peers, then one disruption for every target: pipe close, peer close, resize, unsubscribe with messages queued, resize of a FULL receive or send queue 4->1, 1->0, 0->4, the same with a sender waiting, a peer taking one or two messages while a sender waits, a new request/survey with the reply unread, survey expiry with responses unread; and, for REP, a raw REQ peer that sends requests and never reads replies until the previous reply is still in flight on the pipe when the next parked request is received and answered, socket and context form, where a readable send descriptor is confirmed at two quiescent points 200 ms apart BEFORE the attempt because a refused REP send consumes the reply state) are driven. After every step, once the library is quiescent (guarded in-flight counter of tasks, pollers and reaps is zero and stays zero), the recv and send poll descriptors are sampled and non-blocking receives and sends are issued in every API form: nng_recvmsg/nng_sendmsg, the buffer forms nng_recv/nng_send, zero-timeout aios, and nng_ctx_recvmsg/nng_ctx_sendmsg and zero-timeout aios on an extra context (req, rep, sub, surveyor, respondent), in a seeded order, so that context activity is followed by socket probes that judge the descriptors. In half of the histories (two thirds of the parked scenarios) the descriptors are requested only after traffic, so the library creates them for a pollable that is already raised. Violations: descriptor readable but NNG_EAGAIN (persistent), success while the descriptor was not readable (judged only if no library event happened between the quiescent point and the call and no timer fired during it; where a TCP out-queue is full behind a closed window, only if the descriptor was unreadable at two quiescent points 200 ms apart with every kernel queue length unchanged), NNG_EAGAIN although the same call with a 30 ms timeout then succeeds with no other stimulus (library idle for 10 ms and a second NONBLOCK attempt still refused), a flagged call failing with NNG_ETIMEDOUT, a NONBLOCK call during which the calling thread sleeps > 1.5 s (protocol timers are >= 2 s) or > 400 ms twice in a row, and ownership of a message after a failed send (message still attached to a failed zero-timeout aio; ASan / allocator balance for the other forms).",
    level_note="Quiescence is established in this order: hook counters zero and unchanged over a settle gap, no TCP connection of the process (both ends are ours) with bytes sent but not acknowledged (SIOCOUTQ - SIOCOUTQNSD; delayed ACKs are flushed with TCP_QUICKACK, reset connections ignored), then every other thread asleep, and no library event in between. The timed retry of clause (c) carries its 30 ms in an aio while the socket's own timeouts stay at 5 s, so a NONBLOCK call that waits for the socket timeout is seen by clause (d). 'Blocks' is judged on the time the calling thread slept inside the call (wall minus on-CPU minus runnable time from /proc/thread-self/schedstat), not on wall time. NNG_FLAG_ALLOC does not exist in this version of the API. Under kernel back pressure a window update (a pure ACK) on its way is not visible in any queue length: there the verdicts rest on the 200 ms persistence of descriptor and queue lengths. The one known finding makes clause (c) blind for every send of a cooked RESPONDENT (its NONBLOCK send is refused in every state, so no state-specific sub-key would be silent on the unchanged tree).",
    technique="runtime differential oracle (NONBLOCK vs short-timeout vs poll fd) at hooked quiescent points",
    rule="a case is (protocol, cooked/raw, transport, role, seeded history of 6-14 steps) or an enumerated (protocol, cooked/raw, transport, disruption, target); up to four probes (socket recv/send, context recv/send) after every step; a class is (protocol, transport, op, descriptor state, result, preceding step) actually observed, plus (protocol, op, API form, result), (lazily created descriptor, state, result) and (parked aio kind, outcome)",
    assumptions=["probing changes the state (a successful probe sends/receives a message; a refused REQ send or timed-out REQ receive resets the request): that is part of the history"],
    quick=dict(runs=[R("c15_nonblock", "asan", 8, 3, "", 600), R("c15_nonblock", "asan", 8, 0, "parked", 600), R("c15_nonblock", "asan", 8, 0, "parked2", 600)],
               floor=_floors(1.0), eval_key="probes"),
    thorough=dict(runs=[R("c15_nonblock", "asan", 16, 24, "", 3000)],
                  floor=_floors(2.5), eval_key="probes"),
)
