from specs import R

SPEC = dict(
    level="exploration",
    level_text="placeholder",
    level_note="placeholder",
    technique="placeholder",
    rule="placeholder",
    assumptions=[],
    quick=dict(runs=[R("c10_close", "asan", 6, 600, "mixed", 900),
                     R("c10_close", "asan", 3, 500, "nolate", 900),
                     R("c10_close", "asan", 2, 300, "expiry", 900),
                     R("c10_close", "asan", 2, 500, "redial", 900),
                     R("c10_close", "asan", 3, 300, "device", 900)],
               floor={"cases": 100}, eval_key="cases"),
    thorough=dict(runs=[R("c10_close", "asan", 16, 1500, "mixed", 3000)],
               floor={"cases": 100}, eval_key="cases"),
)
