from specs import R

SPEC = dict(
    level="exploration",
    level_text="Model-based runtime monitors under ASan/UBSan. Queues: the real nni_lmq and nni_msgq are driven white-box "
               "(static link, internal headers) and through the public API (NNG_OPT_RECVBUF/SENDBUF of cooked pair0/pair1/sub/bus/push "
               "and raw sub/rep/req sockets over inproc) with sequence-tagged messages; the reference is a set of candidate queue "
               "states in which a shrinking resize forks into exactly the outcomes the property allows (one contiguous run gone from "
               "one end, as many as no longer fit, +1 for nni_msgq's documented spare cell); every return code, length, delivered "
               "message and 'would block' observation filters the set and an observation no legal history explains is a violation; "
               "the guarded ring invariants in lmq.c/msgqueue.c report through nni_verif_fail. "
               "A white-box 'stalling' peer protocol (registered with nni_proto_open; it identifies as SUB/BUS/PULL/PAIR/REP but "
               "receives only one message when asked) puts the per-pipe send queues of PUB and BUS (two pipes, depth set before and "
               "after the first pipe exists) and the send buffers of PAIR0/PAIR1/PUSH/raw REQ behind a pipe that holds an in-flight "
               "message under the same fill/resize/drain/refill treatment; SUB contexts with their own RECVBUF are resized "
               "independently. Depths 31..8192 and the rejected values are driven white-box and through the options. "
               "Exhaustive over (depth 0..8, every "
               "ring offset, every fill, new depth 0..9, 0..2 gets, 0..2 puts, second new depth 0..9) for both implementations, "
               "sampled beyond. Identifiers: nng_id_map_* against a dictionary (tiny wrapping ranges, 2^32/2^63/2^64 edges, keys "
               "colliding modulo the table size, iteration with removal) plus the guarded structural recount in idhash.c; object "
               "ids collected from open/close storms and request/survey ids read off the wire by raw peers. "
               "Teardown: half of the enumerated and random white-box histories end with the queue finished / closed as the history "
               "left it (messages in a rotated ring, puts and gets blocked): every waiter fails with NNG_ECLOSED, a failed put still "
               "owns its message, and the accounting allocator's balance returns to where the case began (ASan sees a wrong wrap in the "
               "free loops). Senders parked behind a full SENDBUF (pair0/pair1/push: waq/aq moved in by the option setter, raw req: "
               "nni_msgq putq) are followed through grow/shrink/grow resizes. A SUB context opened after the socket's RECVBUF was set "
               "is judged by what it retains. Mode 'live' (ASan and TSan) changes the depth of 12 kinds of buffer from the main thread "
               "while one or two threads send and one receives. Bodies are 16..300 bytes keyed over their whole length; REQ headers are "
               "checked on every delivery. "
               "Held-on-what-was-run, not a proof.",
    level_note="Trusts the ~150-line candidate-set model in harness/c18_queue.c and the dictionary in harness/c18_ids.c. "
               "Capacity is judged differentially (accepted(depth d) - accepted(depth 0) == d with nobody receiving): calibrated on the "
               "unchanged tree it holds exactly for pair0, pair1, push (SENDBUF, with and without an idle peer), for the peer's RECVBUF "
               "of pair0/pair1/raw rep, and for raw req's nni_msgq SENDBUF, so no protocol needed the weaker literal bound; lossy "
               "receivers (sub, bus, raw sub) are judged by 'exactly depth messages are retained'. Non-blocking operations are not "
               "used on nni_msgq-backed raw sockets (they always returned EAGAIN there until 55836f4, a C15 finding; the harness keeps the aio form); fullness is observed with an aio "
               "that is cancelled once the library is quiescent (vf_quiesce). 'Not reissued before the range wraps' is judged as: an "
               "allocation that does not increase is legal only if no id above the previous one was free; for object ids (2^31 range) "
               "as: never issued twice within a run. nng_id_map_alloc asserts hi > lo, so the narrowest range tested is two ids. "
               "nng_id_alloc refusing with free ids when explicit keys outside the range are stored (and returning NNG_ENOMEM where the "
               "manual says NNG_ENOSPC) is counted (idmap_refused_with_free_ids_outside_keys), not judged: the property is silent on it. "
               "Found on earlier trees and since fixed: nni_lmq_resize put index (5030d88), nni_msgq_resize wrap test (b29f746), "
               "rehash under nng_id_visit in nni_id_remove (b907fda), nni_id_alloc cursor overflow at hi == UINT64_MAX (216d2d3). "
               "A random start value (NNG_MAP_RANDOM) cannot be seeded: on ranges up to 300 ids the case first walks the cursor to the "
               "top of the range so that it replays exactly; 1 case in 16 uses the flag unprimed (marked in the case description). "
               "Object ids: the real 2^31 wrap of the socket/ctx/dialer/listener/pipe maps cannot be reached by allocating; the maps are "
               "static in their .c files without an accessor, so mode 'wrap' of c18_ids finds each of them through the executable's "
               "own symbol table (a local OBJECT symbol sock_ids/ctx_ids/dialers/listeners/pipes of sizeof(nni_id_map), accepted only if "
               "a probe object's id is found in it and the first id issued after moving id_dyn_val is the value written), holds ten "
               "long-lived objects at the lowest ids, moves the cursor to 6..25 below 0x7fffffff at quiescence and opens/closes 200 "
               "objects (60 connections = 120 pipes) across the wrap: every id positive and <= 0x7fffffff, never one that an open object "
               "has, increasing except at the one wrap; a stripped binary makes the floors ids_real_wraps_* fail (inconclusive). In the "
               "storms the configuration is judged by range and 'never twice in a run'; a second thread opens sockets/contexts during "
               "half of the storms. nni_msgq pollables are C15's. "
               "Parked senders: which of them a resize / a departing message admits is judged for order (posting order, no overtaking) "
               "and bound (never more than there is room); fewer admitted than there is room is liveness (C06/C15) - such a case is "
               "counted (fan_parked_left_waiting_with_room, 0 on this tree: nni_msgq_resize runs the putq, the cooked setters move waq/aq) "
               "and not judged further. "
               "live mode judges only what no interleaving of a correct library can break: per-sender strictly increasing delivery, intact "
               "bodies/headers, option read-back, and on back-pressure protocols 'accepted but never delivered <= sum over shrinking "
               "resizes of (old - new depth)' (0 in the grow-only third of the cases); the final 'dry' is a receive aio still busy with "
               "the library quiescent after all threads were joined, never a timeout. The 10 s send timeout and the 50 ms receive "
               "poll of the threads only pace the run (a timed-out send is not counted as accepted). "
               "Teardown balance needs the accounting allocator, so it is not judged under TSan.",
    technique="runtime reference-model monitor (candidate-set queue model, dictionary id model) + ASan/UBSan + invariant hooks",
    rule="an evaluation is one case: a complete scripted or random history on one queue / socket pair / id map, compared after every "
         "step. lmq and msgq modes enumerate every (depth 0..8, ring offset, fill 0..depth, new depth 0..9, gets 0..2, puts 0..2 "
         "(blocking put when full), second new depth 0..9), fill to the brim, refuse one more, drain, prove emptiness (msgq: a message "
         "put while a get waits must complete that get); random histories add flush, blocked getters/putters and depths up to 17. "
         "api mode enumerates (socket kind x depth x ring offset x fill incl. the protocol's in-flight slot x new depth) on 11 "
         "kinds of buffer over inproc, then refills lossy receivers to measure the retained count, measures differential capacity "
         "at depths 1,2,3,4,5,7,8,16, checks the option range (-1, 8193, below the minimum rejected; 8192/1000/33/32/31 with "
         "messages held) and runs random send/recv/resize histories. fan mode enumerates (kind x depth x ring offset x fill "
         "incl. one beyond the depth x new depth x option-before/after-first-pipe) for pub.sendbuf and bus.sendbuf with two "
         "stalled pipes, sub-ctx.recvbuf with two contexts, and pair0/pair1/push/raw req SENDBUF behind a stalled pipe, each "
         "pipe/context followed by its own model, then random send/pull/resize histories. lmq/msgq modes add depths "
         "31,32,33,64,1000,8192 (offset at the end of the ring) and, in random msgq runs, cancellation of blocked puts/gets. Every second enumerated lmq/msgq index is run a second time and finished / closed as it is (no drain; without waiters "
         "every other one by nni_msgq_fini alone); half of the random histories end that way, msgq ones with 1-4 puts or gets blocked. "
         "fan adds (4 send buffers behind a stalled pipe x depth 0..3 x rotated x 1-3 parked senders x new depth 0..5 x 0-2 pulls x new "
         "depth 0,1,3,6, then 9) and sub-ctx-inherit. live: per case one kind of 12, 1-2 senders, 60-240 resizes paced by deliveries. "
         "A class is (implementation or socket kind, depth "
         "-> new depth, fill class, ring wrapped or not, dropped or kept) that was executed to the end without a violation; for id "
         "maps (range class, random start, key stride, wrapped, filled, iterated with removal); for storms the protocol / object kind.",
    assumptions=["ASan/UBSan see only red-zone overflows",
                 "vf_quiesce (no queued/running task, no busy poller, no pending reap) means every message already sent over inproc has "
                 "reached the queue under test",
                 "aios without a callback complete synchronously (nni_task_dispatch executes inline), so nni_aio_busy() right after an "
                 "nni_msgq call tells whether it blocked"],
    quick=dict(runs=[R("c18_queue", "asan", 8, 10000, "lmq", 600),
                     R("c18_queue", "asan", 8, 10000, "msgq", 600),
                     R("c18_queue", "asan", 8, 400, "api", 900),
                     R("c18_queue", "asan", 8, 250, "fan", 900),
                     R("c18_queue", "asan", 8, 24, "live", 900),
                     R("c18_queue", "tsan", 4, 12, "live", 900),
                     R("c18_ids", "asan", 8, 6000, "map", 600),
                     R("c18_ids", "asan", 4, 240, "storm", 900),
                     R("c18_ids", "asan", 2, 5, "wrap", 600)],
               floor={"cases": 600000, "lmq_cases": 258000, "msgq_cases": 296000, "lossy_resizes": 500000,
                      "msgq_blocked_puts": 200000, "msgq_handoffs": 1500000,
                      "api_resize_cases": 11000, "api_capacity_points": 88, "api_refills": 4000,
                      "api_inflight_slot_used": 700, "api_random_cases": 2800, "api_range_cases": 18,
                      "fan_resize_cases": 4500, "fan_two_pipe_cases": 1100, "fan_ctx_cases": 280,
                      "fan_sendbuf_behind_pipe_cases": 3100, "fan_random_cases": 1800, "fan_pulls": 60000,
                      "big_depth_cases": 1900, "msgq_cancels": 120000, "ids_concurrent": 50000,
                      "idmap_steps": 40000000, "idmap_wraps": 1500000, "idmap_visits": 800000,
                      "ids_sockets": 12000, "ids_pipes": 1000, "ids_requests": 4000, "ids_surveys": 4000,
                      "nonempty_fini_cases": 215000, "nonempty_fini_wrapped": 3000, "msgq_close_with_waiters": 48000, "msgq_fini_without_close": 43000,
                      "fan_parked_cases": 3000, "fan_parked_sender_resizes": 5000, "fan_parked_sender_shrinks": 1000,
                      "fan_ctx_inherit_cases": 270, "header_checks": 33000, "long_bodies": 150000,
                      "live_cases": 230, "live_resizes": 32000, "live_shrinks": 8500, "live_msgs": 100000,
                      "live_grow_only_lossless_cases": 30, "@class:live/*": 30, "@class:fan/parked/*": 1500,
                      "@class:idmap/refusals/*": 12,
                      "ids_real_wraps_socket": 2, "ids_real_wraps_context": 2, "ids_real_wraps_dialer": 2,
                      "ids_real_wraps_listener": 2, "ids_real_wraps_pipe": 2,
                      "@classes": 5500},
               exhaustive_note="lmq and msgq modes enumerate their (depth, offset, fill, resize, gets, puts, resize) space completely; "
                               "api enumerates its smaller space completely; random histories, id maps and storms are sampled"),
    thorough=dict(runs=[R("c18_queue", "asan", 16, 100000, "lmq", 3000),
                        R("c18_queue", "asan", 16, 100000, "msgq", 3000),
                        R("c18_queue", "asan", 16, 2500, "api", 3000),
                        R("c18_queue", "asan", 16, 2500, "fan", 3000),
                        R("c18_queue", "asan", 16, 120, "live", 3000),
                        R("c18_queue", "tsan", 8, 96, "live", 3000),
                        R("c18_ids", "asan", 16, 100000, "map", 3000),
                        R("c18_ids", "asan", 8, 1500, "storm", 3000),
                        R("c18_ids", "asan", 5, 20, "wrap", 3000)],
                  floor={"cases": 3000000, "lmq_cases": 258000, "msgq_cases": 296000, "lossy_resizes": 3000000,
                         "api_resize_cases": 33000, "api_capacity_points": 88, "api_random_cases": 35000, "api_range_cases": 18,
                         "fan_resize_cases": 18000, "fan_two_pipe_cases": 4900, "fan_ctx_cases": 1200,
                         "fan_sendbuf_behind_pipe_cases": 11500, "fan_random_cases": 35000, "fan_pulls": 600000,
                         "big_depth_cases": 1900, "msgq_cancels": 2000000, "ids_concurrent": 500000,
                         "idmap_steps": 1000000000, "idmap_wraps": 40000000,
                         "ids_sockets": 120000, "ids_pipes": 12000, "ids_requests": 40000, "ids_surveys": 40000,
                         "nonempty_fini_cases": 880000, "msgq_close_with_waiters": 570000, "msgq_fini_without_close": 43000,
                         "fan_parked_cases": 6500, "fan_parked_sender_resizes": 12000, "fan_ctx_inherit_cases": 1200,
                         "header_checks": 240000, "long_bodies": 1000000,
                         "live_cases": 2600, "live_resizes": 370000, "live_shrinks": 105000, "live_msgs": 1500000,
                         "live_grow_only_lossless_cases": 420, "@class:live/*": 44, "@class:fan/parked/*": 3000,
                         "ids_real_wraps_socket": 20, "ids_real_wraps_context": 20, "ids_real_wraps_dialer": 20,
                         "ids_real_wraps_listener": 20, "ids_real_wraps_pipe": 20,
                         "@classes": 9000},
                  exhaustive_note="as quick, with api depths up to 8 and 20x the random histories"),
)
