def R(harness, flavor="asan", workers=8, cases=0, mode="", timeout=900):
    return dict(harness=harness, flavor=flavor, workers=workers, cases=cases,
                mode=mode, timeout=timeout)
