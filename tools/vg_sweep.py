#!/usr/bin/env python3
"""usage: tools/vg_sweep.py [CNN ...]  - development aid: run every quick run line of the given
checks (default all) once under valgrind memcheck (flavor vg) with a tenth of the cases and print
the memcheck keys; nothing is written to evidence/."""
import importlib.machinery, importlib.util, os, sys
V = os.path.dirname(os.path.dirname(os.path.abspath(__file__)))
loader = importlib.machinery.SourceFileLoader('vfmod', V + '/vf')
spec = importlib.util.spec_from_loader('vfmod', loader)
m = importlib.util.module_from_spec(spec)
loader.exec_module(m)
os.environ['VF_ONLY_FLAVOR'] = 'vg'
specs = m.load_specs()
want = sys.argv[1:] or sorted(specs)
div = int(os.environ.get('VG_DIV', '10'))
new = {}
for pid in want:
    sp = dict(specs[pid])
    q = dict(sp['quick'])
    runs = []
    for r in q['runs']:
        if r['flavor'] != 'asan' or (not r['cases'] and not os.environ.get('VG_ALL')):
            continue
        r2 = dict(r, flavor='vg', workers=min(4, r['workers']), timeout=1500)
        if r['cases']:
            r2['cases'] = max(1, r['cases'] // div)
        runs.append(r2)
    q['runs'] = runs
    sp['quick'] = q
    new[pid] = sp
m.load_specs = lambda: new
for pid in want:
    m.check(pid, 'quick', int(os.environ.get('VERIF_SEED', '1')))
