#!/bin/sh
# usage: tools/confirm_mutant.sh <worktree-with-change-applied> <outdir> [extra cc flags]
# Confirms: patch == worktree diff, library builds, test-suite passes with the
# change (failed tests are re-run alone once), demo fails with / passes without.
W=$1; O=$2; shift 2; EXTRA="$*"
log=$O/confirm.log; : > $log
say() { echo "$*" | tee -a $log; }
cd $W || exit 2
git diff -- src > /tmp/cm-$$.diff
if ! diff -q /tmp/cm-$$.diff $O/patch.diff >/dev/null 2>&1; then
   # tolerate: patch may have been produced with different options; check apply -R
   git apply -R --check $O/patch.diff 2>/dev/null && say "patch matches worktree (apply -R ok)" || say "WARNING: patch.diff differs from worktree diff"
else say "patch matches worktree"; fi
rm -f /tmp/cm-$$.diff
cmake -S $W -B $W/_build -G Ninja >/dev/null 2>&1; cmake --build $W/_build >/dev/null 2>&1 || { say "BUILD FAILED (changed)"; exit 1; }
ctest --test-dir $W/_build -j8 --timeout 900 -E 'resolver_test|multistress_test' > $O/ctest_changed.txt 2>&1
failed=$(grep -E "^\s+[0-9]+ - .*\(Failed|\(Timeout" $O/ctest_changed.txt | sed 's/.* - \(.*\) (.*/\1/')
still=""
for t in $failed; do ctest --test-dir $W/_build -R "^$t\$" --timeout 900 >/dev/null 2>&1 || still="$still $t"; done
[ -z "$still" ] && say "test-suite with change: pass (flaky-under-load re-run alone: ${failed:-none})" || say "test-suite with change: FAILS:$still"
build_demo() { cc -O1 -g -I$W/include $O/demo.c -o $O/demo -rdynamic -L$W/_build -lnng -lpthread -Wl,-rpath,$W/_build $EXTRA 2>>$log; }
build_demo || { say "demo build failed"; exit 1; }
( cd $O && timeout 300 ./demo > $O/demo_changed.txt 2>&1 ); rc1=$?
say "demo on changed tree: exit $rc1"
git diff -- src > $O/.worktree.diff; git apply -R $O/.worktree.diff; cmake --build $W/_build >/dev/null 2>&1
build_demo
( cd $O && timeout 300 ./demo > $O/demo_unchanged.txt 2>&1 ); rc0=$?
say "demo on unchanged tree: exit $rc0"
git apply $O/.worktree.diff; rm -f $O/.worktree.diff; cmake --build $W/_build >/dev/null 2>&1
[ $rc1 -ne 0 ] && [ $rc0 -eq 0 ] && say "CONFIRMED" || say "NOT CONFIRMED"
