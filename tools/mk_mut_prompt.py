#!/usr/bin/env python3
# usage: mk_mut_prompt.py <CNN> <round-letter>   - prints the prompt for a seeding helper
# (property text + brief + one-line summaries of the changes already seeded for it)
import json, sys, glob, os
V = os.path.dirname(os.path.dirname(os.path.abspath(__file__)))
c, r = sys.argv[1], sys.argv[2]
p = [json.loads(l) for l in open(V + '/properties.jsonl')]
p = [x for x in p if x['id'] == c][0]
taken = []
for m in sorted(glob.glob(V + '/seeded/%s-*/meta.json' % c)):
    taken.append('- ' + json.load(open(m))['summary'])
ident = '%s-%s' % (c, r)
print(open(V + '/tools/mutant_brief.md').read())
print("""
Your id: m-%s
Your worktree: /tmp/mut-%s   (already created, clean checkout of the library)
Your output directory: /tmp/mutout-%s   (create it)
Use /tmp/m-%s.diff for the switch-trees diff.

The property (verbatim):
Title: %s
Statement: %s
Quantifier: %s
Files the property is anchored in: %s

Other people already seeded these changes for the same property; yours must be in a different function and break the property in a different way (a different clause of the statement if possible):
%s
""" % (ident, ident, ident, ident, p['title'], p['statement'], p['quantifier']['text'],
       ', '.join(p['anchors']['files']), '\n'.join(taken)))
