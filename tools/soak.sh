#!/bin/sh
# usage: tools/soak.sh [tier] seed...   - every check once per seed; prints one line per run
tier=${1:-quick}; shift
cd "$(dirname "$0")/.."
for s in "$@"; do
  for c in C01 C02 C03 C04 C05 C06 C07 C08 C09 C10 C11 C12 C13 C14 C15 C16 C17 C18 C19 C20; do
    out=$(VERIF_SEED=$s ./vf check $c --tier $tier 2>&1); rc=$?
    echo "rc=$rc $(echo "$out" | grep -v '^KNOWN' | tail -1)"
    [ $rc -ne 0 ] && echo "$out" | grep -E "^VIOLATION|harness|floor" | head -5
  done
done
