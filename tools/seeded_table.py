#!/usr/bin/env python3
"""print the markdown table of /verif/seeded/*/meta.json (pasted into DESIGN.md 9.4)"""
import json, os, glob
rows = []
for d in sorted(glob.glob('/verif/seeded/*/meta.json')):
    m = json.load(open(d))
    i = os.path.basename(os.path.dirname(d))
    esc = lambda s: s.replace('|', '\\|').replace('\n', ' ')
    rows.append('| %s | %s | %s | %s |' % (i, esc(m['summary']), esc(m['needs']), esc(m['caught_by'])))
print('| id | change | needs | caught by |\n|---|---|---|---|')
print('\n'.join(rows))
