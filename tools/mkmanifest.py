#!/usr/bin/env python3
"""Regenerate /verif/MANIFEST.json from checks.py (run after editing it)."""
import json, os, subprocess, sys
ROOT = os.path.dirname(os.path.dirname(os.path.abspath(__file__)))
sys.path.insert(0, ROOT)
import checks

props = [json.loads(l) for l in open(os.path.join(ROOT, "properties.jsonl"))]
hook_commits = subprocess.run(["git", "-C", "/repo", "log", "--format=%H %s"], capture_output=True, text=True).stdout.splitlines()
hook_commits = [l.split()[0] for l in hook_commits if " verif hooks" in l]

m = dict(
    version=1,
    setup_cmd="./vf setup",
    hooks=dict(
        guard="NNG_VERIF",
        enable="-DNNG_VERIF added to CMAKE_C_FLAGS by ./vf (flavors asan/tsan/fuzz and vg - a build without compiler sanitizer whose workers run under valgrind memcheck - under /verif/.build); the harness library harness/common/vfh.c defines nni_verif_pt/ev/fail",
        baseline_off_cmd="./vf baseline-off",
        source_commits=list(reversed(hook_commits)),
        add_only=True),
    engines=[], checks=[], not_applicable=[],
    notes="Runtime monitoring + sanitizers only; see DESIGN.md. ./vf check <ID> --tier quick|thorough rebuilds libnng.a from /repo's working tree (cmake+ninja, incremental) for each sanitizer flavor it uses.")
engines = {}
for p in props:
    pid = p["id"]
    if pid in checks.CHECKS:
        c = checks.CHECKS[pid]
        hs = sorted(set(r["harness"] for t in ("quick", "thorough") for r in c[t]["runs"]))
        for h in hs:
            engines.setdefault(h, set()).add(pid)
        m["checks"].append(dict(
            property_id=pid,
            quick_cmd="./vf check %s --tier quick" % pid,
            thorough_cmd="./vf check %s --tier thorough" % pid,
            evidence_file="evidence/%s.json" % pid,
            replay_cmd_template="./vf replay {path}",
            engine=",".join(hs),
            level_claimed=dict(category=c["level"], text=c["level_text"], design_ref=c.get("design_ref", "DESIGN.md section 3 " + pid)),
            level_note=c["level_note"],
            technique=c["technique"]))
    else:
        m["not_applicable"].append(dict(property_id=pid, reason=checks.NOT_YET.get(pid, "check not built yet (work in progress, see DESIGN.md section 3)")))
for h, ps in sorted(engines.items()):
    m["engines"].append(dict(name=h, path="harness/%s.c" % h, serves_properties=sorted(ps),
                             kind_free_text="C harness linked statically against sanitizer builds of libnng.a (+ harness/common/vfh.c: PRNG, accounting allocator, short-I/O interposer, hook callbacks, raw peers)"))
json.dump(m, open(os.path.join(ROOT, "MANIFEST.json"), "w"), indent=1)
print("MANIFEST.json: %d checks, %d not claimed" % (len(m["checks"]), len(m["not_applicable"])))
