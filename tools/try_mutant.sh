#!/bin/sh
# usage: tools/try_mutant.sh <patch.diff> <CNN> [quick|thorough] [seed]
# Applies the patch to a scratch worktree of /repo HEAD (so that concurrently
# running checks on /repo are not disturbed), runs the check there, cleans up.
set -e
patch=$(realpath "$1"); id=$2; tier=${3:-quick}; seed=${4:-1}
wt=/tmp/mt-$$-$id
git -C /repo worktree add --detach "$wt" HEAD -q
trap 'alt=$(VF_REPO='"$wt"' /verif/vf altdir); git -C /repo worktree remove --force '"$wt"' >/dev/null 2>&1; [ -n "$alt" ] && rm -rf "$alt"' EXIT
git -C "$wt" apply "$patch"
cd /verif
VF_REPO=$wt VERIF_SEED=$seed ./vf check "$id" --tier "$tier" 2>&1 | grep "^VIOLATION\|^KNOWN\|^C[0-9][0-9] \|INCONCL" | sed 's/replay=[^ ]* //' | cut -c1-220
