#!/bin/sh
# usage: mk_mut_prompt.sh <id> <CNN> <already-taken text>
id=$1; c=$2; taken=$3
cat <<EOT
$(cat /tmp/mutant_brief.md)

Your id: m-$id
Your worktree: /tmp/mut-$id   (already created, clean checkout of the library)
Your output directory: /tmp/mutout-$id
Use /tmp/m-$id.diff for the switch-trees diff.

The property (verbatim):
$(cat /tmp/prop-$c.txt)

Someone else already seeded this change for the same property; yours must be in a different function and break the property in a different way: "$taken"
EOT
