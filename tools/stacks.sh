#!/bin/sh
# usage: tools/stacks.sh <pid>  -- compact summary: library/harness frames of non-idle threads
gdb -q -batch -p "$1" -ex 'thread apply all bt 16' 2>/dev/null | awk '
/^Thread [0-9]+ /{t=$0; sub(/\(Thread [^)]*\) */,"",t); n=0; idle=0; buf=""; next}
/^#/{ if ($0 ~ /nni_taskq_thread \(|nni_aio_expire_loop \(|reap_worker \(|resolv_worker \(|watchdog_thread \(|nni_epoll_thr \(/ && n<5) idle=1;
      if ($0 ~ /\/repo\/src|\/verif\/harness/) { if (n<7) { s=$0; sub(/^#[0-9]+ +(0x[0-9a-f]+ in )?/,"",s); gsub(/\([^)]*\)/,"()",s); buf=buf "    " substr(s,1,110) "\n"; n++ } } }
/^$/{ if (t!="" && !idle && buf!="") printf "%s\n%s", substr(t,1,50), buf; t="" }
END{ if (t!="" && !idle && buf!="") printf "%s\n%s", substr(t,1,50), buf }'
