#!/bin/sh
# usage: tools/process_mutant.sh <id> <CNN> [seed]  - confirm a seeded change delivered in /tmp/mut-<id> + /tmp/mutout-<id>, then run the quick check against it
id=$1; c=$2; seed=${3:-1}
cd "$(dirname "$0")/.."
tools/confirm_mutant.sh /tmp/mut-$id /tmp/mutout-$id $4 2>&1 | tail -6
s=$(date +%s)
tools/try_mutant.sh /tmp/mutout-$id/patch.diff $c quick $seed 2>&1 | tail -25
echo "try wall: $(( $(date +%s) - s )) s"
