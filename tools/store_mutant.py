#!/usr/bin/env python3
"""usage: store_mutant.py <id> <property> <base-commit> <summary> <needs> <caught_by> [detection run lines...]
copies /tmp/mutout-<id>/{patch.diff,demo.c,NOTES.md,confirm.log} to /verif/seeded/<id>/ and writes meta.json,
then removes the scratch worktree /tmp/mut-<id> and /tmp/mutout-<id>."""
import json, os, shutil, subprocess, sys
mid, prop, base, summary, needs, caught = sys.argv[1:7]
runs = sys.argv[7:]
src = '/tmp/mutout-' + mid
d = os.path.join('/verif/seeded', mid)
os.makedirs(d, exist_ok=True)
for f in os.listdir(src):
    if f in ('patch.diff', 'NOTES.md', 'confirm.log') or f.startswith('demo') and f.endswith(('.c', '.sh', '.h')):
        shutil.copy(os.path.join(src, f), os.path.join(d, f))
conf = open(os.path.join(src, 'confirm.log')).read().strip().splitlines() if os.path.exists(os.path.join(src, 'confirm.log')) else []
files = subprocess.run(['grep', '-h', '^+++ b/', os.path.join(d, 'patch.diff')], capture_output=True, text=True).stdout.split()
meta = dict(property=prop, files=[f[2:] for f in files if f.startswith('b/')], summary=summary, needs=needs, caught_by=caught,
            base_commit=base, confirmed=conf,
            what_i_ran=["tools/confirm_mutant.sh /tmp/mut-%s /tmp/mutout-%s (build, full ctest with the change, demo with and without)" % (mid, mid)] + runs)
json.dump(meta, open(os.path.join(d, 'meta.json'), 'w'), indent=1)
subprocess.run(['git', '-C', '/repo', 'worktree', 'remove', '--force', '/tmp/mut-' + mid])
shutil.rmtree(src, ignore_errors=True)
print('stored', d)
