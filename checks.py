"""Check registry for ./vf: loads specs/CNN.py (one SPEC dict per property):
which harness runs, on which sanitizer flavor, how many workers/cases per
tier, coverage floors, and the level / technique texts for MANIFEST.json."""
import importlib
import os

CHECKS = {}
NOT_YET = {}
_d = os.path.join(os.path.dirname(os.path.abspath(__file__)), "specs")
for _f in sorted(os.listdir(_d)):
    if _f.startswith("C") and _f.endswith(".py"):
        _m = importlib.import_module("specs." + _f[:-3])
        CHECKS[_f[:-3]] = _m.SPEC
