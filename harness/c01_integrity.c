// C01: whole-message integrity on every transport under any segmentation.
// Two real nng sockets in this process are connected over a real transport;
// the short-I/O interposer (vfh) clamps nng's own sendmsg/readv/writev calls
// according to a cut plan, so every partial-transfer resume path is driven.
// Oracle: the receiver regenerates the i-th expected message (header and
// body) from the case seed and demands exact equality, in order, no extras.
#include "vfh.h"
#include <unistd.h>

typedef struct {
	const char *name;
	vf_open_fn  open_a, open_b;
	bool        bidir;
	int         kind; // 0 cooked, 1 pair1 raw, 2 xreq->xrep raw
} pairdesc;

static const pairdesc pairs[] = {
	{ "pair0", nng_pair0_open, nng_pair0_open, true, 0 },
	{ "pair1", nng_pair1_open, nng_pair1_open, true, 0 },
	{ "pair1raw", nng_pair1_open_raw, nng_pair1_open_raw, true, 1 },
	{ "pushpull", nng_push0_open, nng_pull0_open, false, 0 },
	{ "xreqxrep", nng_req0_open_raw, nng_rep0_open_raw, true, 2 },
	{ "pubsub", nng_pub0_open, nng_sub0_open, false, 0 },
};
#define NPAIRS ((int) (sizeof(pairs) / sizeof(pairs[0])))

static const size_t sizes[] = { 0, 1, 2, 7, 8, 9, 31, 32, 33, 63, 64, 65, 125,
	126, 127, 1023, 1024, 1025, 4095, 4096, 65535, 65536, 65537 };
#define NSIZES ((int) (sizeof(sizes) / sizeof(sizes[0])))

typedef struct {
	int         tran, pair;
	int         smode, rmode;
	long        sparam, rparam;
	int         eagain;
	int         nmsgs;
	size_t      maxsz;
	uint64_t    key;
	const char *plan;
	int         wsfrag;  // ws only: NNG_OPT_WS_SENDMAXFRAME on both ends (0 = default)
	bool        use_aio; // aio forms of send / receive instead of the blocking ones
} casecfg;

// ws with a small fragment size: the endpoints are made by hand so that the
// option can be set before they start
static int
connect_ws_frag(nng_socket lsock, nng_socket dsock, size_t frag)
{
	char         url[128], durl[128];
	nng_listener l;
	nng_dialer   d;
	int          rv;
	vf_url(VF_T_WS, url, sizeof(url));
	if ((rv = nng_listener_create(&l, lsock, url)) != 0) return rv;
	if ((rv = nng_listener_set_size(l, NNG_OPT_WS_SENDMAXFRAME, frag)) != 0) vf_harness_fail("listener %s: %s", NNG_OPT_WS_SENDMAXFRAME, nng_strerror(rv));
	if ((rv = nng_listener_start(l, 0)) != 0) return rv;
	if ((rv = vf_dial_url(l, VF_T_WS, url, durl, sizeof(durl))) != 0) return rv;
	if ((rv = nng_dialer_create(&d, dsock, durl)) != 0) return rv;
	if ((rv = nng_dialer_set_size(d, NNG_OPT_WS_SENDMAXFRAME, frag)) != 0) vf_harness_fail("dialer %s: %s", NNG_OPT_WS_SENDMAXFRAME, nng_strerror(rv));
	if ((rv = nng_dialer_start(d, 0)) != 0) return rv;
	for (int i = 0; vf_pipe_count(lsock) < 1 || vf_pipe_count(dsock) < 1; i++) {
		if (i > 10000) return NNG_ETIMEDOUT;
		vf_msleep(1);
	}
	return 0;
}

static int
send_one(nng_socket s, nng_msg *m, bool use_aio, nng_aio *aio)
{
	if (!use_aio) return nng_sendmsg(s, m, 0);
	nng_aio_set_msg(aio, m);
	nng_aio_set_timeout(aio, 10000);
	nng_socket_send(s, aio);
	nng_aio_wait(aio);
	int rv = (int) nng_aio_result(aio);
	if (rv != 0) nng_aio_set_msg(aio, NULL); // caller frees m
	return rv;
}

static int
recv_one(nng_socket s, nng_msg **mp, bool use_aio, nng_aio *aio)
{
	if (!use_aio) return nng_recvmsg(s, mp, 0);
	nng_aio_set_timeout(aio, 10000);
	nng_socket_recv(s, aio);
	nng_aio_wait(aio);
	int rv = (int) nng_aio_result(aio);
	if (rv == 0) {
		*mp = nng_aio_get_msg(aio);
		nng_aio_set_msg(aio, NULL);
	}
	return rv;
}

#define MAXHDR 64
typedef struct {
	uint8_t hdr[MAXHDR];
	size_t  hlen;
	size_t  blen;
	uint64_t bkey;
} expect;

static size_t
msg_size(const casecfg *c, int dir, int i)
{
	uint64_t x = vf_mix64(c->key ^ ((uint64_t) dir << 60) ^ (uint64_t) i * 977);
	size_t   sz;
	if ((x & 3) != 0) {
		sz = sizes[(x >> 8) % NSIZES];
	} else {
		sz = (size_t) ((x >> 8) % (c->maxsz + 1));
	}
	return sz > c->maxsz ? (size_t) ((x >> 8) % (c->maxsz + 1)) : sz;
}

// Build message i for direction dir (0: a->b, 1: b->a).  'ex' receives what
// the receiver must observe.  rx_pipe_word is the id of the pipe on which
// the xrep side received (needed to route xrep->xreq).
static nng_msg *
make_msg(const casecfg *c, int dir, int i, expect *ex, uint32_t route)
{
	const pairdesc *pd = &pairs[c->pair];
	nng_msg        *m;
	size_t          sz = msg_size(c, dir, i);
	uint64_t        k  = vf_mix64(c->key + (uint64_t) dir * 1000003 + (uint64_t) i);
	if (nng_msg_alloc(&m, sz) != 0) {
		vf_harness_fail("msg alloc %zu", sz);
	}
	vf_fill(nng_msg_body(m), sz, k);
	ex->blen = sz;
	ex->bkey = k;
	ex->hlen = 0;
	if (pd->kind == 1) {
		uint32_t hop = (uint32_t) (k % 14); // +1 on the wire, <= MAXTTL 15
		nng_msg_header_append_u32(m, hop);
		hop++;
		ex->hdr[0] = (uint8_t) (hop >> 24);
		ex->hdr[1] = (uint8_t) (hop >> 16);
		ex->hdr[2] = (uint8_t) (hop >> 8);
		ex->hdr[3] = (uint8_t) hop;
		ex->hlen   = 4;
	} else if (pd->kind == 2) {
		int nw = 1 + (int) ((k >> 20) % 14); // 1..14 words incl. request id
		if (dir == 1) {
			// xrep send: first word routes, is consumed
			nng_msg_header_append_u32(m, route);
		}
		for (int w = 0; w < nw; w++) {
			uint32_t v = (uint32_t) vf_mix64(k + (uint64_t) w);
			if (w == nw - 1) v |= 0x80000000u; else v &= 0x7fffffffu;
			nng_msg_header_append_u32(m, v);
			uint8_t *d = ex->hdr + ex->hlen + (dir == 0 ? 4 : 0);
			d[0] = (uint8_t) (v >> 24); d[1] = (uint8_t) (v >> 16);
			d[2] = (uint8_t) (v >> 8); d[3] = (uint8_t) v;
			ex->hlen += 4;
		}
		if (dir == 0) ex->hlen += 4; // pipe id word in front (checked loosely)
	}
	return m;
}

// Verify a received message.  For xreq (dir 1) the receiving raw REQ moves
// only the first word into the header; the rest stays in front of the body.
static bool
check_msg(const casecfg *c, int dir, int i, nng_msg *m, const expect *ex, uint32_t *pipe_word)
{
	const pairdesc *pd = &pairs[c->pair];
	const uint8_t  *h  = nng_msg_header(m);
	size_t          hl = nng_msg_header_len(m);
	const uint8_t  *b  = nng_msg_body(m);
	size_t          bl = nng_msg_len(m);
	uint8_t        *want;
	char            where[96];
	snprintf(where, sizeof(where), "%s/%s", vf_tran_names[c->tran], pd->name);

	if (pd->kind == 2 && dir == 1) {
		// raw REQ moves the whole backtrace (up to and including the
		// request id word) from the body into the header
		if (hl != ex->hlen || memcmp(h, ex->hdr, hl) != 0) {
			vf_violation("C01/raw-header", "%s dir=%d msg=%d: xreq header len %zu want %zu or words differ", where, dir, i, hl, ex->hlen);
			return false;
		}
	} else if (pd->kind == 2) {
		if (hl != ex->hlen || memcmp(h + 4, ex->hdr + 4, ex->hlen - 4) != 0) {
			vf_violation("C01/raw-header", "%s dir=%d msg=%d: xrep header len %zu want %zu or words differ", where, dir, i, hl, ex->hlen);
			return false;
		}
		uint32_t pw = ((uint32_t) h[0] << 24) | ((uint32_t) h[1] << 16) | ((uint32_t) h[2] << 8) | h[3];
		if (pw == 0 || (pw & 0x80000000u)) {
			vf_violation("C01/raw-header", "%s msg=%d: pipe id word %08x", where, i, pw);
			return false;
		}
		*pipe_word = pw;
	} else if (pd->kind == 1) {
		if (hl != 4 || memcmp(h, ex->hdr, 4) != 0) {
			vf_violation("C01/raw-header", "%s dir=%d msg=%d: pair1 raw hop header wrong (len %zu)", where, dir, i, hl);
			return false;
		}
	}
	// (what a cooked receive leaves in nng_msg_header is not specified by
	// the property - pair1 keeps the hop count there - so it is not judged)
	if (bl != ex->blen) {
		vf_violation("C01/body-length", "%s dir=%d msg=%d plan=%s: received %zu bytes, sent %zu", where, dir, i, c->plan, bl, ex->blen);
		return false;
	}
	want = malloc(bl + 1);
	vf_fill(want, bl, ex->bkey);
	if (bl && memcmp(b, want, bl) != 0) {
		size_t o = 0;
		while (o < bl && b[o] == want[o]) o++;
		vf_violation("C01/body-bytes", "%s dir=%d msg=%d plan=%s size=%zu: first difference at offset %zu", where, dir, i, c->plan, bl, o);
		free(want);
		return false;
	}
	free(want);
	return true;
}

static void
run_case(long idx, const casecfg *c)
{
	const pairdesc *pd = &pairs[c->pair];
	nng_socket      a, b;
	int             rv;
	uint32_t        route = 0;
	expect          ex[8];
	bool            ok = true;

	nng_aio        *aio = NULL;

	vf_case_begin(idx, "tran=%s pair=%s plan=%s n=%d max=%zu wsfrag=%d aio=%d key=%llx", vf_tran_names[c->tran], pd->name, c->plan, c->nmsgs, c->maxsz, c->wsfrag, c->use_aio, (unsigned long long) c->key);
	if (c->use_aio && nng_aio_alloc(&aio, NULL, NULL) != 0) vf_harness_fail("aio alloc");
	vf_io_plan(VF_IO_FULL, 0, VF_IO_FULL, 0, c->key);
	vf_io_eagain_every(0);
	if (pd->open_a(&a) != 0 || pd->open_b(&b) != 0) vf_harness_fail("open");
	nng_socket_set_ms(a, NNG_OPT_SENDTIMEO, 10000);
	nng_socket_set_ms(b, NNG_OPT_SENDTIMEO, 10000);
	nng_socket_set_ms(a, NNG_OPT_RECVTIMEO, 10000);
	nng_socket_set_ms(b, NNG_OPT_RECVTIMEO, 10000);
	// the window (4) must fit in the buffers: senders run ahead of receivers
	nng_socket_set_int(a, NNG_OPT_SENDBUF, 8);
	nng_socket_set_int(b, NNG_OPT_SENDBUF, 8);
	nng_socket_set_int(a, NNG_OPT_RECVBUF, 8);
	nng_socket_set_int(b, NNG_OPT_RECVBUF, 8);
	nng_socket_set_size(a, NNG_OPT_RECVMAXSZ, 0);
	nng_socket_set_size(b, NNG_OPT_RECVMAXSZ, 0);
	if (pd->kind == 2) {
		nng_socket_set_int(a, NNG_OPT_MAXTTL, 15);
		nng_socket_set_int(b, NNG_OPT_MAXTTL, 15);
	}
	if (pd->kind == 1) {
		nng_socket_set_int(a, NNG_OPT_MAXTTL, 15);
		nng_socket_set_int(b, NNG_OPT_MAXTTL, 15);
	}
	if (!strcmp(pd->name, "pubsub")) nng_sub0_socket_subscribe(b, "", 0);
	// the plan is active during connection setup too (handshake bytes)
	vf_io_plan(c->smode, c->sparam, c->rmode, c->rparam, c->key);
	vf_io_eagain_every(c->eagain);
	// listener on the receiving side b for one-way protocols
	if ((rv = (c->tran == VF_T_WS && c->wsfrag > 0) ? connect_ws_frag(b, a, (size_t) c->wsfrag) : vf_connect(b, a, c->tran)) != 0) {
		vf_io_plan(VF_IO_FULL, 0, VF_IO_FULL, 0, 0);
		vf_violation("C01/connect", "connect over %s with plan %s failed: %s", vf_tran_names[c->tran], c->plan, nng_strerror(rv));
		nng_socket_close(a); nng_socket_close(b);
		if (aio) nng_aio_free(aio);
		return;
	}
	if (!strcmp(pd->name, "pubsub")) vf_msleep(20);
	long ss0 = vf_io_short_sends(), sr0 = vf_io_short_recvs();
	int window = 4;
	for (int base = 0; base < c->nmsgs && ok; base += window) {
		int n = c->nmsgs - base < window ? c->nmsgs - base : window;
		if (!strcmp(pd->name, "pubsub")) n = 1;
		for (int dir = 0; dir < (pd->bidir ? 2 : 1) && ok; dir++) {
			nng_socket tx = dir == 0 ? a : b, rx = dir == 0 ? b : a;
			for (int j = 0; j < n; j++) {
				nng_msg *m = make_msg(c, dir, base + j, &ex[j], route);
				if (c->wsfrag > 0 && nng_msg_len(m) + nng_msg_header_len(m) > (size_t) c->wsfrag) vf_stat("ws_fragmented_msgs", 1);
				if ((rv = send_one(tx, m, c->use_aio, aio)) != 0) {
					nng_msg_free(m);
					vf_violation("C01/send-failed", "%s/%s dir=%d msg=%d plan=%s: send: %s", vf_tran_names[c->tran], pd->name, dir, base + j, c->plan, nng_strerror(rv));
					ok = false;
					break;
				}
				vf_stat("messages", 1);
			}
			for (int j = 0; j < n && ok; j++) {
				nng_msg *m = NULL;
				if ((rv = recv_one(rx, &m, c->use_aio, aio)) != 0) {
					vf_violation("C01/lost", "%s/%s dir=%d msg=%d plan=%s size=%zu: receive: %s", vf_tran_names[c->tran], pd->name, dir, base + j, c->plan, ex[j].blen, nng_strerror(rv));
					ok = false;
					break;
				}
				ok = check_msg(c, dir, base + j, m, &ex[j], &route);
				nng_msg_free(m);
				if (ok) {
					char k[40];
					vf_stat("verified", 1);
					snprintf(k, sizeof(k), "verified_%s", vf_tran_names[c->tran]);
					vf_stat(k, 1);
					if (c->use_aio) vf_stat("verified_aio_form", 1);
				}
			}
		}
		if (!strcmp(pd->name, "pubsub")) window = 1;
	}
	if (ok) {
		// nothing extra may arrive, on either side, once everything that
		// is in flight has been processed
		nng_msg *m = NULL;
		vf_quiesce(1, 200);
		if (nng_recvmsg(b, &m, NNG_FLAG_NONBLOCK) == 0 || (pd->bidir && nng_recvmsg(a, &m, NNG_FLAG_NONBLOCK) == 0)) {
			vf_violation("C01/extra-message", "%s/%s plan=%s: unexpected extra message of %zu bytes", vf_tran_names[c->tran], pd->name, c->plan, nng_msg_len(m));
			nng_msg_free(m);
		}
		vf_stat("extra_probes", 1);
	}
	long ds = vf_io_short_sends() - ss0, dr = vf_io_short_recvs() - sr0;
	vf_stat("short_sends", ds);
	vf_stat("short_recvs", dr);
	vf_class("%s/%s/%s/short%s%s", vf_tran_names[c->tran], pd->name, c->plan, ds ? "S" : "", dr ? "R" : "");
	vf_io_plan(VF_IO_FULL, 0, VF_IO_FULL, 0, 0);
	vf_io_eagain_every(0);
	nng_socket_close(a);
	nng_socket_close(b);
	if (aio) nng_aio_free(aio);
	vf_stat("cases", 1);
	vf_watchdog(120);
	// allocator balance: per case in sampled mode, every 64 cases otherwise
	if (strcmp(vf_mode, "cuts") != 0 || (idx & 63) == 0) {
		vf_nng_fini("C01");
		vf_nng_init(4, 2, 2);
	}
}

static char planbuf[64];

int
main(int argc, char **argv)
{
	vf_init(argc, argv);
	vf_nng_init(4, 2, 2);
	long   idx = 0;
	vf_rng r;
	bool   thorough = vf_tier == 1;

	if (!strcmp(vf_mode, "cuts")) {
		// every single cut position of small frames, per transport & pair,
		// first on the send side then on the receive side.  Sharded.
		static const int trans[] = { VF_T_TCP, VF_T_IPC, VF_T_SOCKFD, VF_T_WS };
		for (int ti = 0; ti < 4; ti++) {
			int t = trans[ti];
			// ws: HTTP upgrade (about 130-330) plus three small frames;
			// quick walks that stretch for one pair, thorough everything
			int minoff = (t == VF_T_WS && !thorough) ? 130 : 1;
			int maxoff = t == VF_T_WS ? (thorough ? 700 : 430) : 120;
			for (int p = 0; p < NPAIRS - 1; p++) {
				if (t == VF_T_WS && !thorough && p != 1) continue;
				for (int side = 0; side < 2; side++) {
					for (int off = minoff; off <= maxoff; off++, idx++) {
						if ((idx % vf_nshards) != vf_shard || !vf_want_case(idx)) continue;
						casecfg c = { .tran = t, .pair = p, .nmsgs = 3, .maxsz = 20, .key = vf_mix64(vf_seed ^ (uint64_t) idx) };
						c.smode = side == 0 ? VF_IO_CUT_ONCE : VF_IO_FULL;
						c.rmode = side == 1 ? VF_IO_CUT_ONCE : VF_IO_FULL;
						c.sparam = c.rparam = off;
						snprintf(planbuf, sizeof(planbuf), "cut-%s@%d", side ? "recv" : "send", off);
						c.plan = planbuf;
						run_case(idx, &c);
						if ((idx % 97) == 0) vf_sample("{\"tran\":\"%s\",\"pair\":\"%s\",\"plan\":\"%s\",\"msgs\":3}", vf_tran_names[t], pairs[p].name, planbuf);
					}
				}
			}
		}
	} else {
		// sampled plans over all transports / pairs / sizes
		for (long i = 0; i < vf_cases; i++, idx++) {
			if (!vf_want_case(idx)) continue;
			vf_rng_seed(&r, vf_seed, (uint64_t) idx);
			casecfg c;
			memset(&c, 0, sizeof(c));
			c.tran = (int) vf_below(&r, VF_T_N);
			c.pair = (int) vf_below(&r, NPAIRS);
			if (!strcmp(pairs[c.pair].name, "pubsub")) c.tran = vf_chance(&r, 2, 3) ? VF_T_INPROC : c.tran;
			c.key   = vf_rand(&r);
			c.nmsgs = (int) vf_range(&r, 4, 24);
			c.maxsz = thorough && vf_chance(&r, 1, 10) ? (4u << 20) : vf_chance(&r, 1, 4) ? (256u << 10) : 70000;
			switch (vf_below(&r, 6)) {
			case 0: c.smode = c.rmode = VF_IO_FULL; c.plan = "full"; break;
			case 1: c.smode = c.rmode = VF_IO_DRIBBLE; c.sparam = c.rparam = 1; c.plan = "dribble1"; c.maxsz = c.maxsz > 3000 ? 3000 : c.maxsz; break;
			case 2: c.smode = c.rmode = VF_IO_RANDOM; c.sparam = c.rparam = vf_range(&r, 2, 40); c.plan = "random-small"; c.maxsz = c.maxsz > 70000 ? 70000 : c.maxsz; break;
			case 3: c.smode = VF_IO_RANDOM; c.sparam = 5000; c.rmode = VF_IO_RANDOM; c.rparam = 3000; c.plan = "random-large"; break;
			case 4: c.smode = VF_IO_DRIBBLE; c.sparam = vf_range(&r, 1, 9); c.rmode = VF_IO_FULL; c.plan = "send-dribble"; c.maxsz = c.maxsz > 5000 ? 5000 : c.maxsz; break;
			default: c.smode = VF_IO_FULL; c.rmode = VF_IO_DRIBBLE; c.rparam = vf_range(&r, 1, 9); c.plan = "recv-dribble"; c.maxsz = c.maxsz > 5000 ? 5000 : c.maxsz; break;
			}
			if (vf_chance(&r, 1, 5) && c.smode != VF_IO_FULL) { c.eagain = (int) vf_range(&r, 3, 9); }
			if (c.tran == VF_T_WS && vf_chance(&r, 2, 3)) {
				static const int frags[] = { 1, 2, 16, 125, 126, 127, 1000 };
				c.wsfrag = frags[vf_below(&r, 7)];
				if (c.wsfrag <= 16 && c.maxsz > 3000) c.maxsz = 3000;
			}
			c.use_aio = vf_chance(&r, 1, 3);
			run_case(idx, &c);
			if ((idx & 31) == 0) vf_sample("{\"tran\":\"%s\",\"pair\":\"%s\",\"plan\":\"%s\",\"msgs\":%d,\"maxsize\":%zu,\"eagain_every\":%d}", vf_tran_names[c.tran], pairs[c.pair].name, c.plan, c.nmsgs, c.maxsz, c.eagain);
		}
	}
	vf_stat("io_send_calls", vf_io_send_calls());
	vf_stat("io_recv_calls", vf_io_recv_calls());
	vf_nng_fini("C01");
	return vf_finish();
}
