// C01: whole-message integrity on every transport under any segmentation.
// Modes cuts / sampled: two real nng sockets in this process are connected
// over a real transport; the short-I/O interposer (vfh) clamps nng's own
// sendmsg/readv/writev calls according to a cut plan, so every
// partial-transfer resume path is driven.  Oracle: the receiver regenerates
// the i-th expected message (header and body) from the case seed and demands
// exact equality, in order, no extras.
// Mode wire: one nng socket against a raw peer that speaks SP (and websocket)
// by hand on a plain fd - see the section "mode wire" below.
#include "vfh.h"
#include <errno.h>
#include <poll.h>
#include <pthread.h>
#include <stdatomic.h>
#include <sys/socket.h>
#include <unistd.h>

typedef struct {
	const char *name;
	vf_open_fn  open_a, open_b;
	bool        bidir;
	int         kind; // 0 cooked, 1 pair1 raw, 2 raw request/reply style (xreq->xrep, xsurveyor->xrespondent)
	bool        lock; // lossy protocol: one message at a time, so that nothing may legitimately be dropped
} pairdesc;

static const pairdesc pairs[] = {
	{ "pair0", nng_pair0_open, nng_pair0_open, true, 0, false },
	{ "pair1", nng_pair1_open, nng_pair1_open, true, 0, false },
	{ "pair1raw", nng_pair1_open_raw, nng_pair1_open_raw, true, 1, false },
	{ "pushpull", nng_push0_open, nng_pull0_open, false, 0, false },
	{ "xreqxrep", nng_req0_open_raw, nng_rep0_open_raw, true, 2, false },
	{ "pubsub", nng_pub0_open, nng_sub0_open, false, 0, true },
	// BUS drops when a queue is full, raw SURVEYOR / RESPONDENT put outgoing
	// messages into a small per-pipe queue without waiting: lock-step
	{ "busbus", nng_bus0_open, nng_bus0_open, true, 0, true },
	{ "xsurvxresp", nng_surveyor0_open_raw, nng_respondent0_open_raw, true, 2, true },
};
#define NPAIRS ((int) (sizeof(pairs) / sizeof(pairs[0])))
#define NPAIRS_CUTS 5 // the cuts mode walks the first five (lock-step pairs are sampled only)

static const size_t sizes[] = { 0, 1, 2, 7, 8, 9, 31, 32, 33, 63, 64, 65, 125,
	126, 127, 1023, 1024, 1025, 4095, 4096, 65535, 65536, 65537 };
#define NSIZES ((int) (sizeof(sizes) / sizeof(sizes[0])))

typedef struct {
	int         tran, pair;
	int         smode, rmode;
	long        sparam, rparam;
	int         eagain;
	int         nmsgs;
	size_t      maxsz;
	uint64_t    key;
	const char *plan;
	int         wsfrag;  // ws only: NNG_OPT_WS_SENDMAXFRAME on both ends (0 = default)
	bool        use_aio; // aio forms of send / receive instead of the blocking ones
} casecfg;

// ws with a small fragment size: the endpoints are made by hand so that the
// option can be set before they start
static int
connect_ws_frag(nng_socket lsock, nng_socket dsock, size_t frag)
{
	char         url[128], durl[128];
	nng_listener l;
	nng_dialer   d;
	int          rv;
	vf_url(VF_T_WS, url, sizeof(url));
	if ((rv = nng_listener_create(&l, lsock, url)) != 0) return rv;
	if ((rv = nng_listener_set_size(l, NNG_OPT_WS_SENDMAXFRAME, frag)) != 0) vf_harness_fail("listener %s: %s", NNG_OPT_WS_SENDMAXFRAME, nng_strerror(rv));
	if ((rv = nng_listener_start(l, 0)) != 0) return rv;
	if ((rv = vf_dial_url(l, VF_T_WS, url, durl, sizeof(durl))) != 0) return rv;
	if ((rv = nng_dialer_create(&d, dsock, durl)) != 0) return rv;
	if ((rv = nng_dialer_set_size(d, NNG_OPT_WS_SENDMAXFRAME, frag)) != 0) vf_harness_fail("dialer %s: %s", NNG_OPT_WS_SENDMAXFRAME, nng_strerror(rv));
	if ((rv = nng_dialer_start(d, 0)) != 0) return rv;
	for (int i = 0; vf_pipe_count(lsock) < 1 || vf_pipe_count(dsock) < 1; i++) {
		if (i > 10000) return NNG_ETIMEDOUT;
		vf_msleep(1);
	}
	return 0;
}

static int
send_one(nng_socket s, nng_msg *m, bool use_aio, nng_aio *aio)
{
	if (!use_aio) return nng_sendmsg(s, m, 0);
	nng_aio_set_msg(aio, m);
	nng_aio_set_timeout(aio, 10000);
	nng_socket_send(s, aio);
	nng_aio_wait(aio);
	int rv = (int) nng_aio_result(aio);
	if (rv != 0) nng_aio_set_msg(aio, NULL); // caller frees m
	return rv;
}

static int
recv_one(nng_socket s, nng_msg **mp, bool use_aio, nng_aio *aio)
{
	if (!use_aio) return nng_recvmsg(s, mp, 0);
	nng_aio_set_timeout(aio, 10000);
	nng_socket_recv(s, aio);
	nng_aio_wait(aio);
	int rv = (int) nng_aio_result(aio);
	if (rv == 0) {
		*mp = nng_aio_get_msg(aio);
		nng_aio_set_msg(aio, NULL);
	}
	return rv;
}

#define MAXHDR 64
typedef struct {
	uint8_t hdr[MAXHDR];
	size_t  hlen;
	size_t  blen;
	uint64_t bkey;
} expect;

static size_t
msg_size(const casecfg *c, int dir, int i)
{
	uint64_t x = vf_mix64(c->key ^ ((uint64_t) dir << 60) ^ (uint64_t) i * 977);
	size_t   sz;
	if ((x & 3) != 0) {
		sz = sizes[(x >> 8) % NSIZES];
	} else {
		sz = (size_t) ((x >> 8) % (c->maxsz + 1));
	}
	return sz > c->maxsz ? (size_t) ((x >> 8) % (c->maxsz + 1)) : sz;
}

// Build message i for direction dir (0: a->b, 1: b->a).  'ex' receives what
// the receiver must observe.  rx_pipe_word is the id of the pipe on which
// the xrep side received (needed to route xrep->xreq).
static nng_msg *
make_msg(const casecfg *c, int dir, int i, expect *ex, uint32_t route)
{
	const pairdesc *pd = &pairs[c->pair];
	nng_msg        *m;
	size_t          sz = msg_size(c, dir, i);
	uint64_t        k  = vf_mix64(c->key + (uint64_t) dir * 1000003 + (uint64_t) i);
	if (nng_msg_alloc(&m, sz) != 0) {
		vf_harness_fail("msg alloc %zu", sz);
	}
	vf_fill(nng_msg_body(m), sz, k);
	ex->blen = sz;
	ex->bkey = k;
	ex->hlen = 0;
	if (pd->kind == 1) {
		uint32_t hop = (uint32_t) (k % 14); // +1 on the wire, <= MAXTTL 15
		nng_msg_header_append_u32(m, hop);
		hop++;
		ex->hdr[0] = (uint8_t) (hop >> 24);
		ex->hdr[1] = (uint8_t) (hop >> 16);
		ex->hdr[2] = (uint8_t) (hop >> 8);
		ex->hdr[3] = (uint8_t) hop;
		ex->hlen   = 4;
	} else if (pd->kind == 2) {
		int nw = 1 + (int) ((k >> 20) % 14); // 1..14 words incl. request id
		if (dir == 1) {
			// xrep send: first word routes, is consumed
			nng_msg_header_append_u32(m, route);
		}
		for (int w = 0; w < nw; w++) {
			uint32_t v = (uint32_t) vf_mix64(k + (uint64_t) w);
			if (w == nw - 1) v |= 0x80000000u; else v &= 0x7fffffffu;
			nng_msg_header_append_u32(m, v);
			uint8_t *d = ex->hdr + ex->hlen + (dir == 0 ? 4 : 0);
			d[0] = (uint8_t) (v >> 24); d[1] = (uint8_t) (v >> 16);
			d[2] = (uint8_t) (v >> 8); d[3] = (uint8_t) v;
			ex->hlen += 4;
		}
		if (dir == 0) ex->hlen += 4; // pipe id word in front (checked loosely)
	}
	return m;
}

// Verify a received message.  For xreq (dir 1) the receiving raw REQ moves
// only the first word into the header; the rest stays in front of the body.
static bool
check_msg(const casecfg *c, int dir, int i, nng_msg *m, const expect *ex, uint32_t *pipe_word)
{
	const pairdesc *pd = &pairs[c->pair];
	const uint8_t  *h  = nng_msg_header(m);
	size_t          hl = nng_msg_header_len(m);
	const uint8_t  *b  = nng_msg_body(m);
	size_t          bl = nng_msg_len(m);
	uint8_t        *want;
	char            where[96];
	snprintf(where, sizeof(where), "%s/%s", vf_tran_names[c->tran], pd->name);

	if (pd->kind == 2 && dir == 1) {
		// raw REQ moves the whole backtrace (up to and including the
		// request id word) from the body into the header
		if (hl != ex->hlen || memcmp(h, ex->hdr, hl) != 0) {
			vf_violation("C01/raw-header", "%s dir=%d msg=%d: raw requester header len %zu want %zu or words differ", where, dir, i, hl, ex->hlen);
			return false;
		}
	} else if (pd->kind == 2) {
		if (hl != ex->hlen || memcmp(h + 4, ex->hdr + 4, ex->hlen - 4) != 0) {
			vf_violation("C01/raw-header", "%s dir=%d msg=%d: raw replier header len %zu want %zu or words differ", where, dir, i, hl, ex->hlen);
			return false;
		}
		uint32_t pw = ((uint32_t) h[0] << 24) | ((uint32_t) h[1] << 16) | ((uint32_t) h[2] << 8) | h[3];
		if (pw == 0 || (pw & 0x80000000u)) {
			vf_violation("C01/raw-header", "%s msg=%d: pipe id word %08x", where, i, pw);
			return false;
		}
		*pipe_word = pw;
	} else if (pd->kind == 1) {
		if (hl != 4 || memcmp(h, ex->hdr, 4) != 0) {
			vf_violation("C01/raw-header", "%s dir=%d msg=%d: pair1 raw hop header wrong (len %zu)", where, dir, i, hl);
			return false;
		}
	}
	// (what a cooked receive leaves in nng_msg_header is not specified by
	// the property - pair1 keeps the hop count there - so it is not judged)
	if (bl != ex->blen) {
		vf_violation("C01/body-length", "%s dir=%d msg=%d plan=%s: received %zu bytes, sent %zu", where, dir, i, c->plan, bl, ex->blen);
		return false;
	}
	want = malloc(bl + 1);
	vf_fill(want, bl, ex->bkey);
	if (bl && memcmp(b, want, bl) != 0) {
		size_t o = 0;
		while (o < bl && b[o] == want[o]) o++;
		vf_violation("C01/body-bytes", "%s dir=%d msg=%d plan=%s size=%zu: first difference at offset %zu", where, dir, i, c->plan, bl, o);
		free(want);
		return false;
	}
	free(want);
	return true;
}

static atomic_int added_a, added_b;

static void
pipe_added_cb(nng_pipe p, nng_pipe_ev ev, void *arg)
{
	(void) p;
	(void) ev;
	atomic_fetch_add((atomic_int *) arg, 1);
}

static void
run_case(long idx, const casecfg *c)
{
	const pairdesc *pd = &pairs[c->pair];
	nng_socket      a, b;
	int             rv;
	uint32_t        route = 0;
	expect          ex[8];
	bool            ok = true;

	nng_aio        *aio = NULL;

	vf_case_begin(idx, "tran=%s pair=%s plan=%s n=%d max=%zu wsfrag=%d aio=%d key=%llx", vf_tran_names[c->tran], pd->name, c->plan, c->nmsgs, c->maxsz, c->wsfrag, c->use_aio, (unsigned long long) c->key);
	if (c->use_aio && nng_aio_alloc(&aio, NULL, NULL) != 0) vf_harness_fail("aio alloc");
	vf_io_plan(VF_IO_FULL, 0, VF_IO_FULL, 0, c->key);
	vf_io_eagain_every(0);
	if (pd->open_a(&a) != 0 || pd->open_b(&b) != 0) vf_harness_fail("open");
	nng_socket_set_ms(a, NNG_OPT_SENDTIMEO, 10000);
	nng_socket_set_ms(b, NNG_OPT_SENDTIMEO, 10000);
	nng_socket_set_ms(a, NNG_OPT_RECVTIMEO, 10000);
	nng_socket_set_ms(b, NNG_OPT_RECVTIMEO, 10000);
	// the window (4) must fit in the buffers: senders run ahead of receivers
	nng_socket_set_int(a, NNG_OPT_SENDBUF, 8);
	nng_socket_set_int(b, NNG_OPT_SENDBUF, 8);
	nng_socket_set_int(a, NNG_OPT_RECVBUF, 8);
	nng_socket_set_int(b, NNG_OPT_RECVBUF, 8);
	nng_socket_set_size(a, NNG_OPT_RECVMAXSZ, 0);
	nng_socket_set_size(b, NNG_OPT_RECVMAXSZ, 0);
	if (pd->kind == 2) {
		nng_socket_set_int(a, NNG_OPT_MAXTTL, 15);
		nng_socket_set_int(b, NNG_OPT_MAXTTL, 15);
	}
	if (pd->kind == 1) {
		nng_socket_set_int(a, NNG_OPT_MAXTTL, 15);
		nng_socket_set_int(b, NNG_OPT_MAXTTL, 15);
	}
	if (!strcmp(pd->name, "pubsub")) nng_sub0_socket_subscribe(b, "", 0);
	atomic_store(&added_a, 0);
	atomic_store(&added_b, 0);
	if (pd->lock) {
		// a lossy protocol drops what is sent before its pipe has been
		// started: wait for the ADD_POST event, which comes after that
		nng_pipe_notify(a, NNG_PIPE_EV_ADD_POST, pipe_added_cb, &added_a);
		nng_pipe_notify(b, NNG_PIPE_EV_ADD_POST, pipe_added_cb, &added_b);
	}
	// the plan is active during connection setup too (handshake bytes)
	vf_io_plan(c->smode, c->sparam, c->rmode, c->rparam, c->key);
	vf_io_eagain_every(c->eagain);
	// listener on the receiving side b for one-way protocols
	if ((rv = (c->tran == VF_T_WS && c->wsfrag > 0) ? connect_ws_frag(b, a, (size_t) c->wsfrag) : vf_connect(b, a, c->tran)) != 0) {
		vf_io_plan(VF_IO_FULL, 0, VF_IO_FULL, 0, 0);
		vf_violation("C01/connect", "connect over %s with plan %s failed: %s", vf_tran_names[c->tran], c->plan, nng_strerror(rv));
		nng_socket_close(a); nng_socket_close(b);
		if (aio) nng_aio_free(aio);
		return;
	}
	if (!strcmp(pd->name, "pubsub")) vf_msleep(20);
	for (int i = 0; pd->lock && (atomic_load(&added_a) < 1 || atomic_load(&added_b) < 1); i++) {
		if (i > 10000) vf_harness_fail("%s over %s: pipes were never added", pd->name, vf_tran_names[c->tran]);
		vf_msleep(1);
	}
	long ss0 = vf_io_short_sends(), sr0 = vf_io_short_recvs();
	int window = pd->lock ? 1 : 4;
	for (int base = 0; base < c->nmsgs && ok; base += window) {
		int n = c->nmsgs - base < window ? c->nmsgs - base : window;
		for (int dir = 0; dir < (pd->bidir ? 2 : 1) && ok; dir++) {
			nng_socket tx = dir == 0 ? a : b, rx = dir == 0 ? b : a;
			for (int j = 0; j < n; j++) {
				nng_msg *m = make_msg(c, dir, base + j, &ex[j], route);
				if (c->wsfrag > 0 && nng_msg_len(m) + nng_msg_header_len(m) > (size_t) c->wsfrag) vf_stat("ws_fragmented_msgs", 1);
				if ((rv = send_one(tx, m, c->use_aio, aio)) != 0) {
					nng_msg_free(m);
					vf_violation("C01/send-failed", "%s/%s dir=%d msg=%d plan=%s: send: %s", vf_tran_names[c->tran], pd->name, dir, base + j, c->plan, nng_strerror(rv));
					ok = false;
					break;
				}
				vf_stat("messages", 1);
			}
			for (int j = 0; j < n && ok; j++) {
				nng_msg *m = NULL;
				if ((rv = recv_one(rx, &m, c->use_aio, aio)) != 0) {
					vf_violation("C01/lost", "%s/%s dir=%d msg=%d plan=%s size=%zu: receive: %s", vf_tran_names[c->tran], pd->name, dir, base + j, c->plan, ex[j].blen, nng_strerror(rv));
					ok = false;
					break;
				}
				ok = check_msg(c, dir, base + j, m, &ex[j], &route);
				nng_msg_free(m);
				if (ok) {
					char k[40];
					vf_stat("verified", 1);
					snprintf(k, sizeof(k), "verified_%s", vf_tran_names[c->tran]);
					vf_stat(k, 1);
					if (c->use_aio) vf_stat("verified_aio_form", 1);
				}
			}
		}
	}
	if (ok) {
		// nothing extra may arrive, on either side, once everything that
		// is in flight has been processed
		nng_msg *m = NULL;
		vf_quiesce(1, 200);
		if (nng_recvmsg(b, &m, NNG_FLAG_NONBLOCK) == 0 || (pd->bidir && nng_recvmsg(a, &m, NNG_FLAG_NONBLOCK) == 0)) {
			vf_violation("C01/extra-message", "%s/%s plan=%s: unexpected extra message of %zu bytes", vf_tran_names[c->tran], pd->name, c->plan, nng_msg_len(m));
			nng_msg_free(m);
		}
		vf_stat("extra_probes", 1);
	}
	long ds = vf_io_short_sends() - ss0, dr = vf_io_short_recvs() - sr0;
	vf_stat("short_sends", ds);
	vf_stat("short_recvs", dr);
	vf_class("%s/%s/%s/short%s%s", vf_tran_names[c->tran], pd->name, c->plan, ds ? "S" : "", dr ? "R" : "");
	vf_io_plan(VF_IO_FULL, 0, VF_IO_FULL, 0, 0);
	vf_io_eagain_every(0);
	nng_socket_close(a);
	nng_socket_close(b);
	if (aio) nng_aio_free(aio);
	vf_stat("cases", 1);
	vf_watchdog(120);
	// allocator balance: per case in sampled mode, every 64 cases otherwise
	if (strcmp(vf_mode, "cuts") != 0 || (idx & 63) == 0) {
		vf_nng_fini("C01");
		vf_nng_init(4, 2, 2);
	}
}

// ======================================================================
// mode wire: ONE nng socket <-> a raw peer that the harness implements on a
// plain fd.  The peer speaks SP by hand, so that an error nng makes the same
// way when sending and when receiving cannot cancel out:
//  * peer -> nng: the peer composes the byte stream of N well-formed frames
//    and decides itself how the stream is cut into write() calls; the nng
//    application must receive exactly those N messages;
//  * nng -> peer: a strict framer checks every byte nng puts on the wire.
// nng's own reads and writes are clamped by the interposer at the same time.
// ======================================================================
enum { WH_NONE, WH_PAIR1, WH_PAIR1RAW, WH_BUSRAW, WH_XREQ, WH_XREP, WH_REQ, WH_REP };
enum { WF_NONE, WF_STREAM, WF_LOCK };
enum { WR_PHASES, WR_OUT_IN, WR_IN_OUT };
enum { SEG_ONE, SEG_DRIBBLE, SEG_CHUNKS, SEG_CUT, SEG_N };
static const char *seg_names[SEG_N] = { "one", "dribble", "chunks", "cut" };

typedef struct {
	const char *name;  // discriminator in keys and classes
	const char *proto; // nng side, name in vf_protos[]
	bool        raw;
	int         in;  // peer -> nng: none / whole stream at once / one frame at a time
	int         out; // nng -> peer: none / windows of 4 / one message at a time
	int         rounds;
	int         hk; // which SP header travels in front of the body
} wentry;

// Lock-step where the protocol may legitimately drop: PUB/SUB and BUS drop when
// a queue is full; raw REP, raw SURVEYOR and raw RESPONDENT move outgoing
// messages into a per-pipe queue without waiting (nni_msgq_tryput).
static const wentry wents[] = {
	{ "pair0", "pair0", false, WF_STREAM, WF_STREAM, WR_PHASES, WH_NONE },
	{ "pair1", "pair1", false, WF_STREAM, WF_STREAM, WR_PHASES, WH_PAIR1 },
	{ "pair1raw", "pair1", true, WF_STREAM, WF_STREAM, WR_PHASES, WH_PAIR1RAW },
	{ "push", "push", false, WF_NONE, WF_STREAM, WR_PHASES, WH_NONE },
	{ "pull", "pull", false, WF_STREAM, WF_NONE, WR_PHASES, WH_NONE },
	{ "pub", "pub", false, WF_NONE, WF_LOCK, WR_PHASES, WH_NONE },
	{ "sub", "sub", false, WF_LOCK, WF_NONE, WR_PHASES, WH_NONE },
	{ "bus", "bus", false, WF_LOCK, WF_LOCK, WR_PHASES, WH_NONE },
	{ "busraw", "bus", true, WF_LOCK, WF_LOCK, WR_PHASES, WH_BUSRAW },
	{ "req", "req", false, WF_LOCK, WF_LOCK, WR_OUT_IN, WH_REQ },
	{ "rep", "rep", false, WF_LOCK, WF_LOCK, WR_IN_OUT, WH_REP },
	{ "surveyor", "surveyor", false, WF_LOCK, WF_LOCK, WR_OUT_IN, WH_REQ },
	{ "respondent", "respondent", false, WF_LOCK, WF_LOCK, WR_IN_OUT, WH_REP },
	{ "xreq", "req", true, WF_STREAM, WF_STREAM, WR_PHASES, WH_XREQ },
	{ "xrep", "rep", true, WF_STREAM, WF_LOCK, WR_PHASES, WH_XREP },
	{ "xsurveyor", "surveyor", true, WF_STREAM, WF_LOCK, WR_PHASES, WH_XREQ },
	{ "xrespondent", "respondent", true, WF_STREAM, WF_LOCK, WR_PHASES, WH_XREP },
};
#define NWENTS ((int) (sizeof(wents) / sizeof(wents[0])))

// ws://: the peer produces, the nng application receives.  SUB and BUS get a
// receive buffer that holds all N messages (the stream comes in one piece).
static const wentry wents_ws[] = {
	{ "ws-pull", "pull", false, WF_STREAM, WF_NONE, WR_PHASES, WH_NONE },
	{ "ws-sub", "sub", false, WF_STREAM, WF_NONE, WR_PHASES, WH_NONE },
	{ "ws-pair0", "pair0", false, WF_STREAM, WF_NONE, WR_PHASES, WH_NONE },
	{ "ws-pair1", "pair1", false, WF_STREAM, WF_NONE, WR_PHASES, WH_PAIR1 },
	{ "ws-bus", "bus", false, WF_STREAM, WF_NONE, WR_PHASES, WH_NONE },
};
#define NWENTS_WS ((int) (sizeof(wents_ws) / sizeof(wents_ws[0])))

#define WMAXHDR 64
typedef struct {
	uint8_t  wire[WMAXHDR]; // SP header bytes that travel in front of the body
	size_t   wlen;
	uint8_t  app[WMAXHDR + 4]; // nng_msg header the application supplies (out) / must see (in)
	size_t   alen;
	bool     app_judged; // in: the received nng_msg header is specified (raw sockets)
	int      pipe_slot;  // offset in app[] of the pipe id word, -1 none
	bool     id_open;    // out: wire[] is one id word chosen by nng, only the high bit is specified
	size_t   blen;
	uint64_t bkey;
} wmsg;

typedef struct {
	casecfg         c;
	const wentry   *e;
	const vf_proto *vp;
	bool            nng_listens;
	int             seg;
	long            segparam;
	nng_socket      s;
	nng_aio        *aio;
	int             fd;
	bool            ipc;
	uint32_t        pipe_id; // id of the one pipe, learned from received messages
	bool            failed;
	atomic_int      added;
	vf_rng          r; // cut positions
	long            in_ok, out_ok, coalesced, cuts, cuts_prefix, cuts_header, cuts_body, writes;
	bool            ws;     // websocket variant
	int             wsfrag; // 0 one frame per message, 1 fragments, 2 fragments and PINGs
	long            ws_behind, ws_straddle, ws_fragments, ws_pings;
} wctx;

#define WV(w, dir, what, ...) \
	do { \
		char k_[96]; \
		snprintf(k_, sizeof(k_), "C01/wire-%s/%s/%s", dir, what, (w)->e->name); \
		vf_violation(k_, __VA_ARGS__); \
		(w)->failed = true; \
	} while (0)

static void
put_be32(uint8_t *p, uint32_t v)
{
	p[0] = (uint8_t) (v >> 24);
	p[1] = (uint8_t) (v >> 16);
	p[2] = (uint8_t) (v >> 8);
	p[3] = (uint8_t) v;
}

static uint32_t
get_be32(const uint8_t *p)
{
	return ((uint32_t) p[0] << 24) | ((uint32_t) p[1] << 16) | ((uint32_t) p[2] << 8) | p[3];
}

static const char *
wwhere(const wctx *w)
{
	static char buf[160];
	snprintf(buf, sizeof(buf), "%s/%s %s peer=%s%s plan=%s", vf_tran_names[w->c.tran], w->e->name, w->nng_listens ? "nng-listens" : "nng-dials", seg_names[w->seg], w->wsfrag == 2 ? "+frag+ping" : w->wsfrag ? "+frag" : "", w->c.plan);
	return buf;
}

// Message i of direction dir (0: peer -> nng, 1: nng -> peer).
static void
wire_gen(const wctx *w, int dir, int i, wmsg *m)
{
	uint64_t k = vf_mix64(w->c.key + (uint64_t) (dir + 3) * 1000003 + (uint64_t) i);
	memset(m, 0, sizeof(*m));
	m->blen      = msg_size(&w->c, dir, i);
	m->bkey      = k;
	m->pipe_slot = -1;
	switch (w->e->hk) {
	case WH_NONE:
		break;
	case WH_PAIR1:
		// cooked PAIR1 sends hop count 1; it accepts what is <= MAXTTL
		put_be32(m->wire, dir == 0 ? 1 + (uint32_t) (k % 15) : 1);
		m->wlen = 4;
		break;
	case WH_PAIR1RAW:
		if (dir == 0) {
			// the hop word is moved into the header as it was received
			put_be32(m->wire, 1 + (uint32_t) (k % 15));
			memcpy(m->app, m->wire, 4);
			m->app_judged = true;
		} else {
			// and incremented when sent
			put_be32(m->app, (uint32_t) (k % 14));
			put_be32(m->wire, (uint32_t) (k % 14) + 1);
		}
		m->wlen = m->alen = 4;
		break;
	case WH_BUSRAW:
		if (dir == 0) {
			// raw BUS puts the id of the receiving pipe into the header
			m->alen       = 4;
			m->pipe_slot  = 0;
			m->app_judged = true;
		} else {
			// a first header word names the pipe that must not get
			// the message; it is stripped.  None, nobody, or some
			// id that is not our pipe's.
			switch ((k >> 8) % 3) {
			case 0:
				break;
			case 1:
				put_be32(m->app, 0);
				m->alen = 4;
				break;
			default:
				put_be32(m->app, w->pipe_id ? (w->pipe_id ^ 1u) : 0);
				m->alen = 4;
				break;
			}
		}
		break;
	case WH_XREQ:
	case WH_XREP: {
		// a backtrace of 1..15 words, the last one (request id) has the
		// high bit.  Raw REQ / SURVEYOR: header = the words.  Raw REP /
		// RESPONDENT: header = pipe id word, then the words; on send the
		// pipe id word is consumed for routing.
		int    nw  = 1 + (int) ((k >> 20) % 15);
		size_t off = 0;
		if (w->e->hk == WH_XREP) {
			m->pipe_slot = 0;
			off          = 4;
		}
		for (int j = 0; j < nw; j++) {
			uint32_t v = (uint32_t) vf_mix64(k + 77 + (uint64_t) j);
			if (j == nw - 1) v |= 0x80000000u; else v &= 0x7fffffffu;
			put_be32(m->wire + 4 * j, v);
			put_be32(m->app + off + 4 * j, v);
		}
		m->wlen       = 4 * (size_t) nw;
		m->alen       = off + 4 * (size_t) nw;
		m->app_judged = dir == 0;
		break;
	}
	case WH_REQ:
		// cooked REQ / SURVEYOR: one id word with the high bit, chosen by
		// nng; the answer carries the same word (filled in by the caller)
		m->wlen    = 4;
		m->id_open = dir == 1;
		break;
	case WH_REP:
		// cooked REP / RESPONDENT: the request arrives with k words without
		// and one with the high bit; the reply must carry exactly these
		// (dir 1: copied from the request by the caller)
		if (dir == 0) {
			int nw = 1 + (int) ((k >> 20) % 7);
			for (int j = 0; j < nw; j++) {
				uint32_t v = (uint32_t) vf_mix64(k + 77 + (uint64_t) j);
				if (j == nw - 1) v |= 0x80000000u; else v &= 0x7fffffffu;
				put_be32(m->wire + 4 * j, v);
			}
			m->wlen = 4 * (size_t) nw;
		}
		break;
	}
}

// ---------------------------------------------------------------- peer writer
// Runs in its own thread (the application must be able to receive while the
// peer is still writing, or both would wait for each other once the kernel
// buffers are full).  Plain write() calls: never touched by the interposer.
typedef struct {
	int            fd;
	const uint8_t *buf;
	size_t         len;
	int            seg;
	long           param;
	uint64_t       seed;
	const size_t  *ends; // offset of the end of every frame
	int            nends;
	int            err; // errno of the write that failed
	size_t         written;
	long           writes;
	bool           coalesced; // one write() carried at least two complete frames
	pthread_t      th;
} wjob;

static bool
wjob_write(wjob *j, size_t off, size_t n)
{
	if (n >= 16 && !j->coalesced) {
		int full = 0;
		for (int f = 0; f < j->nends; f++) {
			size_t st = f ? j->ends[f - 1] : 0;
			if (st >= off && j->ends[f] <= off + n) full++;
		}
		if (full >= 2) j->coalesced = true;
	}
	j->writes++;
	while (n > 0) {
		ssize_t r = write(j->fd, j->buf + off, n);
		if (r > 0) {
			off += (size_t) r;
			n -= (size_t) r;
			j->written += (size_t) r;
			continue;
		}
		if (r < 0 && errno == EINTR) continue;
		if (r < 0 && errno == EAGAIN) {
			struct pollfd p = { j->fd, POLLOUT, 0 };
			poll(&p, 1, 1000);
			continue;
		}
		j->err = r < 0 ? errno : EIO;
		return false;
	}
	return true;
}

static void *
wjob_main(void *arg)
{
	wjob  *j = arg;
	vf_rng r;
	size_t off = 0;
	vf_rng_seed(&r, j->seed, 4711);
	switch (j->seg) {
	case SEG_ONE:
		wjob_write(j, 0, j->len);
		break;
	case SEG_DRIBBLE:
		while (off < j->len) {
			size_t n = 1 + vf_below(&r, 7);
			if (n > j->len - off) n = j->len - off;
			if (!wjob_write(j, off, n)) break;
			off += n;
		}
		break;
	case SEG_CHUNKS: {
		// a handful of 1 ms pauses per stream, wherever they fall
		uint32_t every = (uint32_t) (j->len / ((size_t) j->param / 2 + 1) / 6 + 1);
		int      pauses = 0;
		while (off < j->len) {
			size_t n = 1 + vf_below(&r, (uint32_t) j->param);
			if (n > j->len - off) n = j->len - off;
			if (!wjob_write(j, off, n)) break;
			off += n;
			if (off < j->len && pauses < 8 && vf_below(&r, every) == 0) {
				vf_msleep(1);
				pauses++;
			}
		}
		break;
	}
	default: {
		size_t cut = (size_t) j->param;
		if (cut == 0 || cut >= j->len) {
			wjob_write(j, 0, j->len);
			break;
		}
		if (!wjob_write(j, 0, cut)) break;
		vf_msleep(3); // nng really sees the partial frame
		wjob_write(j, cut, j->len - cut);
		break;
	}
	}
	return NULL;
}

// Compose the byte stream of n frames.
static uint8_t *
wire_stream(const wctx *w, const wmsg *ms, int n, size_t *lenp, size_t *ends)
{
	size_t pl = w->ipc ? 9 : 8, total = 0;
	for (int i = 0; i < n; i++) total += pl + ms[i].wlen + ms[i].blen;
	uint8_t *buf = malloc(total + 1), *p = buf;
	if (buf == NULL) vf_harness_fail("stream of %zu bytes", total);
	for (int i = 0; i < n; i++) {
		uint64_t l = ms[i].wlen + ms[i].blen;
		if (w->ipc) *p++ = 1;
		for (int b = 7; b >= 0; b--) *p++ = (uint8_t) (l >> (8 * b));
		memcpy(p, ms[i].wire, ms[i].wlen);
		p += ms[i].wlen;
		vf_fill(p, ms[i].blen, ms[i].bkey);
		p += ms[i].blen;
		ends[i] = (size_t) (p - buf);
	}
	*lenp = total;
	return buf;
}

// Where the single cut goes: inside a length prefix, right behind it, inside
// the SP header, inside the body, one byte before the end of a frame, or
// exactly between two frames.
static size_t
wire_pick_cut(wctx *w, const wmsg *ms, int n, const size_t *ends, size_t len, int *kind)
{
	size_t pl = w->ipc ? 9 : 8;
	*kind = -1;
	if (len < 2) return 0;
	for (int tries = 0; tries < 16; tries++) {
		int    f  = (int) vf_below(&w->r, (uint32_t) n);
		size_t st = f ? ends[f - 1] : 0, fl = ends[f] - st, pos;
		int    kd;
		switch (vf_below(&w->r, 6)) {
		case 0: pos = 1 + vf_below(&w->r, (uint32_t) pl - 1); kd = 0; break;
		case 1: pos = pl; kd = pl == fl ? 3 : 0; break;
		case 2:
			if (ms[f].wlen == 0) continue;
			pos = pl + 1 + vf_below(&w->r, (uint32_t) ms[f].wlen);
			kd  = pos < pl + ms[f].wlen ? 1 : pos == fl ? 3 : 2;
			break;
		case 3:
			if (ms[f].blen < 2) continue;
			pos = pl + ms[f].wlen + 1 + vf_below(&w->r, (uint32_t) ms[f].blen - 1);
			kd  = 2;
			break;
		case 4: pos = fl - 1; kd = pos < pl ? 0 : pos < pl + ms[f].wlen ? 1 : 2; break;
		default: pos = fl; kd = 3; break;
		}
		if (st + pos == 0 || st + pos >= len) continue;
		*kind = kd;
		return st + pos;
	}
	*kind = 2;
	return len / 2; // (classification not needed for this fallback)
}

static nng_msg *
wire_app_msg(const wctx *w, const wmsg *m)
{
	nng_msg *msg;
	if (nng_msg_alloc(&msg, m->blen) != 0) vf_harness_fail("msg alloc %zu", m->blen);
	vf_fill(nng_msg_body(msg), m->blen, m->bkey);
	if (m->alen > 0) {
		uint8_t h[WMAXHDR + 4];
		memcpy(h, m->app, m->alen);
		if (m->pipe_slot >= 0) put_be32(h + m->pipe_slot, w->pipe_id);
		if (nng_msg_header_append(msg, h, m->alen) != 0) vf_harness_fail("header append");
	}
	return msg;
}

static size_t
first_diff(const uint8_t *a, const uint8_t *b, size_t n)
{
	size_t o = 0;
	while (o < n && a[o] == b[o]) o++;
	return o;
}

// What the application received as message i of the in direction.
static bool
wire_check_in(wctx *w, const wmsg *m, int i, nng_msg *msg)
{
	const uint8_t *h  = nng_msg_header(msg);
	size_t         hl = nng_msg_header_len(msg);
	const uint8_t *b  = nng_msg_body(msg);
	size_t         bl = nng_msg_len(msg);
	if (m->app_judged) {
		uint8_t want[WMAXHDR + 4];
		memcpy(want, m->app, m->alen);
		if (m->pipe_slot >= 0) {
			uint32_t pid = (uint32_t) nng_pipe_id(nng_msg_get_pipe(msg));
			if (w->pipe_id == 0) w->pipe_id = pid;
			// (one connection, so one pipe for the whole case)
			put_be32(want + m->pipe_slot, w->pipe_id);
			if (pid != w->pipe_id || pid == 0 || (pid & 0x80000000u)) {
				WV(w, "in", "header", "%s msg=%d: message is attributed to pipe %08x, earlier ones to %08x", wwhere(w), i, pid, w->pipe_id);
				return false;
			}
		}
		if (hl != m->alen || memcmp(h, want, hl) != 0) {
			WV(w, "in", "header", "%s msg=%d: received header has %zu bytes, specified are %zu; first difference at %zu (peer sent %zu header bytes)", wwhere(w), i, hl, m->alen, first_diff(h, want, hl < m->alen ? hl : m->alen), m->wlen);
			return false;
		}
	}
	if (bl != m->blen) {
		WV(w, "in", "body-length", "%s msg=%d: received %zu body bytes, peer sent %zu (after %zu header bytes)", wwhere(w), i, bl, m->blen, m->wlen);
		return false;
	}
	if (bl > 0) {
		uint8_t *want = malloc(bl);
		vf_fill(want, bl, m->bkey);
		if (memcmp(b, want, bl) != 0) {
			WV(w, "in", "body-bytes", "%s msg=%d size=%zu: first difference at offset %zu", wwhere(w), i, bl, first_diff(b, want, bl));
			free(want);
			return false;
		}
		free(want);
	}
	w->in_ok++;
	return true;
}

// The peer writes a stream that carries messages first..first+n-1 with its
// own segmentation, the application receives them.
static void
wire_in_run(wctx *w, wmsg *ms, int first, int n, const uint8_t *buf, size_t len, const size_t *ends, long cut, int cutkind)
{
	wjob j = { .fd = w->fd, .buf = buf, .len = len, .seg = w->seg, .param = w->seg == SEG_CUT ? cut : w->segparam, .seed = w->c.key ^ (uint64_t) first, .ends = ends, .nends = n };
	int  rv;
	if (pthread_create(&j.th, NULL, wjob_main, &j) != 0) vf_harness_fail("pthread_create");
	for (int i = 0; i < n; i++) {
		nng_msg *msg = NULL;
		if ((rv = recv_one(w->s, &msg, w->c.use_aio, w->aio)) != 0) {
			WV(w, "in", "lost", "%s msg=%d of %d (stream of %d frames, %zu bytes, cut at %ld; wire header %zu + body %zu bytes): receive: %s", wwhere(w), first + i, w->c.nmsgs, n, len, w->seg == SEG_CUT ? j.param : -1L, ms[i].wlen, ms[i].blen, nng_strerror(rv));
			break;
		}
		bool ok = wire_check_in(w, &ms[i], first + i, msg);
		nng_msg_free(msg);
		if (!ok) break;
	}
	if (w->failed) {
		// the writer may be blocked in write(): take the connection away
		shutdown(w->fd, SHUT_RDWR);
	}
	pthread_join(j.th, NULL);
	if (!w->failed) {
		if (j.err != 0 || j.written != len) vf_harness_fail("%s: peer wrote %zu of %zu bytes (%s) although everything was received", wwhere(w), j.written, len, strerror(j.err));
		w->writes += j.writes;
		if (j.coalesced) w->coalesced++;
		if (cutkind >= 0 && cutkind != 3) {
			w->cuts++;
			if (cutkind == 0) w->cuts_prefix++;
			if (cutkind == 1) w->cuts_header++;
			if (cutkind == 2) w->cuts_body++;
		}
	}
}

static void
wire_in(wctx *w, wmsg *ms, int first, int n)
{
	size_t   len, *ends = malloc(sizeof(size_t) * (size_t) n);
	uint8_t *buf = wire_stream(w, ms, n, &len, ends);
	int      cutkind = -1;
	long     cut = 0;
	if (w->seg == SEG_CUT) cut = (long) wire_pick_cut(w, ms, n, ends, len, &cutkind);
	wire_in_run(w, ms, first, n, buf, len, ends, cut, cutkind);
	free(buf);
	free(ends);
}

// Strict framer for message i that nng was asked to send.  got_hdr receives
// the SP header bytes that were really on the wire.
static bool
wire_read_frame(wctx *w, const wmsg *m, int i, uint8_t *got_hdr)
{
	uint8_t  pre[9];
	size_t   pl = w->ipc ? 9 : 8;
	uint64_t len = 0, want = m->wlen + m->blen;
	long     n = vf_fd_read_full(w->fd, pre, pl, 10000);
	if (n != (long) pl) {
		WV(w, "out", "missing-frame", "%s msg=%d of %d: %ld of %zu length-prefix bytes arrived (expected a frame of %zu header + %zu body bytes)", wwhere(w), i, w->c.nmsgs, n, pl, m->wlen, m->blen);
		return false;
	}
	if (w->ipc && pre[0] != 1) {
		WV(w, "out", "type-octet", "%s msg=%d: ipc message type octet is 0x%02x, must be 0x01", wwhere(w), i, pre[0]);
		return false;
	}
	for (size_t k = w->ipc ? 1 : 0; k < pl; k++) len = (len << 8) | pre[k];
	if (len != want) {
		WV(w, "out", "frame-length", "%s msg=%d: length prefix says %llu, the message has %zu header + %zu body bytes", wwhere(w), i, (unsigned long long) len, m->wlen, m->blen);
		return false;
	}
	uint8_t *buf = malloc((size_t) len + 1);
	if (buf == NULL) vf_harness_fail("frame of %llu bytes", (unsigned long long) len);
	n = vf_fd_read_full(w->fd, buf, (size_t) len, 10000);
	if (n != (long) len) {
		WV(w, "out", "missing-frame", "%s msg=%d: frame announced %llu bytes, only %ld arrived", wwhere(w), i, (unsigned long long) len, n);
		free(buf);
		return false;
	}
	if (m->id_open) {
		if ((buf[0] & 0x80) == 0) {
			WV(w, "out", "header-bytes", "%s msg=%d: request id word %08x has no high bit", wwhere(w), i, get_be32(buf));
			free(buf);
			return false;
		}
	} else if (m->wlen > 0 && memcmp(buf, m->wire, m->wlen) != 0) {
		WV(w, "out", "header-bytes", "%s msg=%d: the %zu header bytes on the wire differ from the specified ones at offset %zu (got %02x)", wwhere(w), i, m->wlen, first_diff(buf, m->wire, m->wlen), buf[first_diff(buf, m->wire, m->wlen)]);
		free(buf);
		return false;
	}
	if (got_hdr != NULL) memcpy(got_hdr, buf, m->wlen);
	if (m->blen > 0) {
		uint8_t *wb = malloc(m->blen);
		vf_fill(wb, m->blen, m->bkey);
		if (memcmp(buf + m->wlen, wb, m->blen) != 0) {
			WV(w, "out", "body-bytes", "%s msg=%d size=%zu: first difference at body offset %zu", wwhere(w), i, m->blen, first_diff(buf + m->wlen, wb, m->blen));
			free(wb);
			free(buf);
			return false;
		}
		free(wb);
	}
	free(buf);
	w->out_ok++;
	return true;
}

// The application sends messages first..first+n-1 (n <= the send buffer),
// then the peer reads n frames.
static void
wire_out(wctx *w, wmsg *ms, int first, int n, uint8_t *got_hdr)
{
	int rv;
	for (int i = 0; i < n; i++) {
		nng_msg *msg = wire_app_msg(w, &ms[i]);
		if ((rv = send_one(w->s, msg, w->c.use_aio, w->aio)) != 0) {
			nng_msg_free(msg);
			// (refusing a message is "not at all", but nothing here
			// gives a socket a reason to refuse)
			WV(w, "out", "missing-frame", "%s msg=%d: send: %s", wwhere(w), first + i, nng_strerror(rv));
			return;
		}
	}
	for (int i = 0; i < n; i++) {
		if (!wire_read_frame(w, &ms[i], first + i, got_hdr)) return;
	}
}

// ---------------------------------------------------------------- wire: ws://
// The peer is a raw websocket endpoint on a plain TCP socket.  As the SERVER
// it answers the dialer's upgrade request and writes the "101" reply PLUS all
// N (unmasked) frames in one write(), so that nng finds websocket frames in
// the buffer of its HTTP connection right behind the reply and a frame
// straddles the end of that buffer; as the CLIENT it sends masked frames once
// it has the reply.  One websocket message = SP header || body.
static uint32_t
ws_rol(uint32_t v, int s)
{
	return (v << s) | (v >> (32 - s));
}

static void
ws_sha1(const uint8_t *msg, size_t len, uint8_t out[20])
{
	uint32_t h[5] = { 0x67452301, 0xEFCDAB89, 0x98BADCFE, 0x10325476, 0xC3D2E1F0 };
	size_t   total = ((len + 8) / 64 + 1) * 64;
	uint8_t *m = calloc(total, 1);
	memcpy(m, msg, len);
	m[len] = 0x80;
	uint64_t bits = (uint64_t) len * 8;
	for (int i = 0; i < 8; i++) m[total - 1 - i] = (uint8_t) (bits >> (8 * i));
	for (size_t off = 0; off < total; off += 64) {
		uint32_t w[80];
		for (int i = 0; i < 16; i++) w[i] = ((uint32_t) m[off + 4 * i] << 24) | ((uint32_t) m[off + 4 * i + 1] << 16) | ((uint32_t) m[off + 4 * i + 2] << 8) | m[off + 4 * i + 3];
		for (int i = 16; i < 80; i++) w[i] = ws_rol(w[i - 3] ^ w[i - 8] ^ w[i - 14] ^ w[i - 16], 1);
		uint32_t a = h[0], b = h[1], c = h[2], d = h[3], e = h[4];
		for (int i = 0; i < 80; i++) {
			uint32_t f, k;
			if (i < 20) { f = (b & c) | (~b & d); k = 0x5A827999; }
			else if (i < 40) { f = b ^ c ^ d; k = 0x6ED9EBA1; }
			else if (i < 60) { f = (b & c) | (b & d) | (c & d); k = 0x8F1BBCDC; }
			else { f = b ^ c ^ d; k = 0xCA62C1D6; }
			uint32_t t = ws_rol(a, 5) + f + e + k + w[i];
			e = d; d = c; c = ws_rol(b, 30); b = a; a = t;
		}
		h[0] += a; h[1] += b; h[2] += c; h[3] += d; h[4] += e;
	}
	free(m);
	for (int i = 0; i < 5; i++) put_be32(out + 4 * i, h[i]);
}

static void
ws_b64enc(const uint8_t *in, size_t n, char *out)
{
	static const char tab[] = "ABCDEFGHIJKLMNOPQRSTUVWXYZabcdefghijklmnopqrstuvwxyz0123456789+/";
	size_t            o = 0;
	for (size_t i = 0; i < n; i += 3) {
		uint32_t v = (uint32_t) in[i] << 16;
		if (i + 1 < n) v |= (uint32_t) in[i + 1] << 8;
		if (i + 2 < n) v |= in[i + 2];
		out[o++] = tab[(v >> 18) & 63];
		out[o++] = tab[(v >> 12) & 63];
		out[o++] = i + 1 < n ? tab[(v >> 6) & 63] : '=';
		out[o++] = i + 2 < n ? tab[v & 63] : '=';
	}
	out[o] = 0;
}

static void
ws_accept_for(const char *key, char out[32])
{
	char    cat[160];
	uint8_t dig[20];
	snprintf(cat, sizeof(cat), "%s258EAFA5-E914-47DA-95CA-C5AB0DC85B11", key);
	ws_sha1((const uint8_t *) cat, strlen(cat), dig);
	ws_b64enc(dig, 20, out);
}

// Read up to and including the empty line of an HTTP head; returns its length
// (buf is NUL terminated, *total = bytes read), -1 if it never completes.
static long
ws_read_head(int fd, char *buf, size_t cap, size_t *total)
{
	size_t   n   = 0;
	uint64_t end = vf_now_ns() + 10000ull * 1000000ull;
	buf[0] = 0;
	while (n < cap - 1) {
		struct pollfd p    = { fd, POLLIN, 0 };
		int64_t       left = ((int64_t) end - (int64_t) vf_now_ns()) / 1000000;
		if (left <= 0 || poll(&p, 1, (int) left) <= 0) return -1;
		ssize_t r = read(fd, buf + n, cap - 1 - n);
		if (r < 0 && (errno == EINTR || errno == EAGAIN)) continue;
		if (r <= 0) return -1;
		n += (size_t) r;
		buf[n] = 0;
		char *e = strstr(buf, "\r\n\r\n");
		if (e != NULL) {
			*total = n;
			return (long) (e + 4 - buf);
		}
	}
	return -1;
}

static bool
ws_header(const char *head, const char *name, char *out, size_t cap)
{
	size_t nl = strlen(name);
	for (const char *p = strstr(head, "\r\n"); p != NULL; p = strstr(p + 2, "\r\n")) {
		if (strncasecmp(p + 2, name, nl) == 0 && p[2 + nl] == ':') {
			const char *v = p + 3 + nl;
			size_t      o = 0;
			while (*v == ' ' || *v == '\t') v++;
			while (*v && *v != '\r' && o < cap - 1) out[o++] = *v++;
			while (o > 0 && (out[o - 1] == ' ' || out[o - 1] == '\t')) o--;
			out[o] = 0;
			return true;
		}
	}
	return false;
}

static uint8_t *
ws_put_frame(uint8_t *p, bool fin, int op, bool masked, uint32_t mask, const uint8_t *data, size_t len)
{
	*p++ = (uint8_t) ((fin ? 0x80 : 0) | op);
	uint8_t mb = masked ? 0x80 : 0;
	if (len < 126) {
		*p++ = (uint8_t) (mb | len);
	} else if (len < 65536) {
		*p++ = (uint8_t) (mb | 126);
		*p++ = (uint8_t) (len >> 8);
		*p++ = (uint8_t) len;
	} else {
		*p++ = (uint8_t) (mb | 127);
		for (int b = 7; b >= 0; b--) *p++ = (uint8_t) ((uint64_t) len >> (8 * b));
	}
	if (masked) {
		uint8_t mk[4];
		put_be32(mk, mask);
		memcpy(p, mk, 4);
		p += 4;
		for (size_t i = 0; i < len; i++) p[i] = data[i] ^ mk[i & 3];
	} else if (len > 0) {
		memcpy(p, data, len);
	}
	return p + len;
}

// 'pre' (the 101 reply, or nothing) followed by the N messages as websocket
// frames: one frame each, or 2..5 fragments (FIN on the last), optionally
// with PINGs in between.
static uint8_t *
ws_stream(wctx *w, const wmsg *ms, int n, const char *pre, size_t prelen, bool masked, size_t *lenp, size_t *ends)
{
	size_t cap = prelen + 16;
	for (int i = 0; i < n; i++) cap += ms[i].wlen + ms[i].blen + 5 * 14 + 5 * 32;
	uint8_t *buf = malloc(cap), *p = buf;
	if (buf == NULL) vf_harness_fail("ws stream of %zu bytes", cap);
	memcpy(p, pre, prelen);
	p += prelen;
	for (int i = 0; i < n; i++) {
		size_t   pl  = ms[i].wlen + ms[i].blen;
		uint8_t *pay = malloc(pl + 1);
		memcpy(pay, ms[i].wire, ms[i].wlen);
		vf_fill(pay + ms[i].wlen, ms[i].blen, ms[i].bkey);
		int nfr = w->wsfrag ? 2 + (int) vf_below(&w->r, 4) : 1;
		if ((size_t) nfr > pl) nfr = pl > 0 ? (int) pl : 1;
		size_t off = 0;
		for (int k = 0; k < nfr; k++) {
			size_t left = pl - off, fl = left;
			if (k < nfr - 1) {
				// leave at least one byte for every later fragment
				size_t maxl = left - (size_t) (nfr - 1 - k);
				fl          = 1 + vf_below(&w->r, (uint32_t) maxl);
			}
			p = ws_put_frame(p, k == nfr - 1, k == 0 ? 2 : 0, masked, (uint32_t) vf_rand(&w->r), pay + off, fl);
			off += fl;
			if (nfr > 1) w->ws_fragments++;
			if (w->wsfrag == 2 && k < nfr - 1 && vf_chance(&w->r, 1, 2)) {
				uint8_t pd[8];
				size_t  pn = vf_below(&w->r, 9);
				vf_fill(pd, pn, vf_rand(&w->r));
				p = ws_put_frame(p, true, 9, masked, (uint32_t) vf_rand(&w->r), pd, pn);
				w->ws_pings++;
			}
		}
		free(pay);
		ends[i] = (size_t) (p - buf);
	}
	*lenp = (size_t) (p - buf);
	if (*lenp > cap) vf_harness_fail("ws stream overflow");
	return buf;
}

static void
ws_flow(wctx *w, wmsg *ms)
{
	char   head[4096], url[96], key[64], proto[96], acc[32], pre[512];
	size_t total = 0, prelen = 0;
	long   hl;
	int    rv, n = w->c.nmsgs;
	w->fd = -1;
	if (!w->nng_listens) {
		// peer is the server
		uint16_t port = 0;
		int      lfd  = vf_tcp_listen(&port);
		if (lfd < 0) vf_harness_fail("peer cannot listen on tcp: %s", strerror(errno));
		snprintf(url, sizeof(url), "ws://127.0.0.1:%u/vfw", port);
		if ((rv = nng_dial(w->s, url, NULL, NNG_FLAG_NONBLOCK)) != 0) vf_harness_fail("dial %s: %s", url, nng_strerror(rv));
		w->fd = vf_tcp_accept(lfd, 10000);
		close(lfd);
		if (w->fd < 0) vf_harness_fail("%s: the dialer never connected", wwhere(w));
		if ((hl = ws_read_head(w->fd, head, sizeof(head), &total)) < 0) vf_harness_fail("%s: no complete upgrade request", wwhere(w));
		if (strncmp(head, "GET ", 4) != 0 || !ws_header(head, "Sec-WebSocket-Key", key, sizeof(key)) || !ws_header(head, "Sec-WebSocket-Protocol", proto, sizeof(proto))) {
			vf_harness_fail("%s: upgrade request without key or subprotocol", wwhere(w));
		}
		ws_accept_for(key, acc);
		prelen = (size_t) snprintf(pre, sizeof(pre), "HTTP/1.1 101 Switching Protocols\r\nUpgrade: websocket\r\nConnection: Upgrade\r\nSec-WebSocket-Accept: %s\r\nSec-WebSocket-Protocol: %s\r\n\r\n", acc, proto);
	} else {
		// peer is the client: request, wait for the reply (RFC 6455 4.1:
		// no data before the server's handshake), then frames
		nng_listener l;
		const char  *pn = NULL;
		int          port = 0;
		uint8_t      rnd[16];
		if ((rv = nng_listen(w->s, "ws://127.0.0.1:0/vfw", &l, 0)) != 0) vf_harness_fail("listen ws: %s", nng_strerror(rv));
		if ((rv = nng_listener_get_int(l, NNG_OPT_BOUND_PORT, &port)) != 0) vf_harness_fail("bound port: %s", nng_strerror(rv));
		if (nng_socket_proto_name(w->s, &pn) != 0) vf_harness_fail("proto name");
		if ((w->fd = vf_tcp_connect((uint16_t) port, 10000)) < 0) vf_harness_fail("%s: cannot connect to the ws listener", wwhere(w));
		vf_fill(rnd, sizeof(rnd), w->c.key ^ 0x77);
		ws_b64enc(rnd, 16, key);
		ws_accept_for(key, acc);
		int rl = snprintf(head, sizeof(head), "GET /vfw HTTP/1.1\r\nHost: 127.0.0.1:%d\r\nUpgrade: websocket\r\nConnection: Upgrade\r\nSec-WebSocket-Key: %s\r\nSec-WebSocket-Version: 13\r\nSec-WebSocket-Protocol: %s.sp.nanomsg.org\r\n\r\n", port, key, pn);
		if (vf_fd_write_all(w->fd, head, (size_t) rl, 10000) != 0) vf_harness_fail("%s: cannot send the upgrade request", wwhere(w));
		if ((hl = ws_read_head(w->fd, head, sizeof(head), &total)) < 0) vf_harness_fail("%s: upgrade request was not answered", wwhere(w));
		if (strncmp(head, "HTTP/1.1 101", 12) != 0 || !ws_header(head, "Sec-WebSocket-Accept", proto, sizeof(proto)) || strcmp(proto, acc) != 0) {
			vf_harness_fail("%s: upgrade refused: %.40s", wwhere(w), head);
		}
	}
	size_t   len, *ends = malloc(sizeof(size_t) * (size_t) n);
	uint8_t *buf = ws_stream(w, ms, n, pre, prelen, w->nng_listens, &len, ends);
	long     cut = 0;
	if (w->seg == SEG_CUT) cut = len >= 2 ? (long) (1 + vf_below(&w->r, (uint32_t) len - 1)) : 0;
	bool behind = prelen > 0 && (w->seg == SEG_ONE || (size_t) cut > prelen);
	wire_in_run(w, ms, 0, n, buf, len, ends, cut, -1);
	if (!w->failed) {
		if (behind) w->ws_behind++;
		// (the reply is about 170 bytes; nng reads up to 8160 at once)
		if (behind && len > 8160 && (w->seg == SEG_ONE || cut > 8160)) w->ws_straddle++;
	}
	free(buf);
	free(ends);
}

static void
wire_phase_in(wctx *w)
{
	int    n = w->c.nmsgs, step = w->e->in == WF_STREAM ? n : 1;
	wmsg  *ms = calloc((size_t) n, sizeof(wmsg));
	for (int i = 0; i < n; i++) wire_gen(w, 0, i, &ms[i]);
	for (int base = 0; base < n && !w->failed; base += step) wire_in(w, ms + base, base, step);
	free(ms);
}

static void
wire_phase_out(wctx *w)
{
	int  n = w->c.nmsgs, step = w->e->out == WF_STREAM ? 4 : 1;
	wmsg ms[4];
	for (int base = 0; base < n && !w->failed; base += step) {
		int k = n - base < step ? n - base : step;
		for (int i = 0; i < k; i++) wire_gen(w, 1, base + i, &ms[i]);
		wire_out(w, ms, base, k, NULL);
	}
}

static void
wire_added_cb(nng_pipe p, nng_pipe_ev ev, void *arg)
{
	(void) p;
	(void) ev;
	atomic_fetch_add(&((wctx *) arg)->added, 1);
}

// Bring up the connection and shake hands; everything that goes wrong here on
// a healthy library is the harness's problem.
static void
wire_connect(wctx *w)
{
	char     url[160];
	int      rv, lfd = -1;
	uint16_t port = 0, got = 0;
	w->fd = -1;
	switch (w->c.tran) {
	case VF_T_TCP:
		if (w->nng_listens) {
			nng_listener l;
			int          p = 0;
			if ((rv = nng_listen(w->s, "tcp://127.0.0.1:0", &l, 0)) != 0) vf_harness_fail("listen tcp: %s", nng_strerror(rv));
			if ((rv = nng_listener_get_int(l, NNG_OPT_BOUND_PORT, &p)) != 0) vf_harness_fail("bound port: %s", nng_strerror(rv));
			w->fd = vf_tcp_connect((uint16_t) p, 10000);
		} else {
			if ((lfd = vf_tcp_listen(&port)) < 0) vf_harness_fail("peer cannot listen on tcp: %s", strerror(errno));
			snprintf(url, sizeof(url), "tcp://127.0.0.1:%u", port);
			if ((rv = nng_dial(w->s, url, NULL, NNG_FLAG_NONBLOCK)) != 0) vf_harness_fail("dial %s: %s", url, nng_strerror(rv));
			w->fd = vf_tcp_accept(lfd, 10000);
		}
		break;
	case VF_T_IPC:
		vf_url(VF_T_IPC, url, sizeof(url)); // ipc:///tmp/...
		if (w->nng_listens) {
			if ((rv = nng_listen(w->s, url, NULL, 0)) != 0) vf_harness_fail("listen %s: %s", url, nng_strerror(rv));
			w->fd = vf_unix_connect(url + 6, 10000);
		} else {
			if ((lfd = vf_unix_listen(url + 6)) < 0) vf_harness_fail("peer cannot listen on %s: %s", url + 6, strerror(errno));
			if ((rv = nng_dial(w->s, url, NULL, NNG_FLAG_NONBLOCK)) != 0) vf_harness_fail("dial %s: %s", url, nng_strerror(rv));
			w->fd = vf_tcp_accept(lfd, 10000);
			unlink(url + 6);
		}
		break;
	default: {
		int          fds[2];
		nng_listener l;
		if (socketpair(AF_UNIX, SOCK_STREAM | SOCK_CLOEXEC, 0, fds) != 0) vf_harness_fail("socketpair: %s", strerror(errno));
		if ((rv = nng_listener_create(&l, w->s, "socket://")) != 0 || (rv = nng_listener_start(l, 0)) != 0 ||
		    (rv = nng_listener_set_int(l, NNG_OPT_SOCKET_FD, fds[0])) != 0) {
			vf_harness_fail("socket:// listener: %s", nng_strerror(rv));
		}
		w->fd = fds[1];
		break;
	}
	}
	if (lfd >= 0) close(lfd); // (one connection only: a re-dial finds nobody)
	if (w->fd < 0) vf_harness_fail("%s: no connection with the peer", wwhere(w));
	if ((rv = vf_sp_handshake(w->fd, w->vp->peer, &got, 10000)) != 0) vf_harness_fail("%s: SP handshake did not complete (%d)", wwhere(w), rv);
	if (got != w->vp->self) vf_harness_fail("%s: nng announced protocol 0x%x, expected 0x%x", wwhere(w), got, w->vp->self);
	// a protocol may drop (or refuse) what is sent before its pipe has been
	// started; ADD_POST comes after that
	for (int i = 0; atomic_load(&w->added) < 1; i++) {
		if (i > 10000) vf_harness_fail("%s: pipe was never added after a complete handshake", wwhere(w));
		vf_msleep(1);
	}
}

static void
run_wire_case(long idx, wctx *w)
{
	const wentry *e = w->e;
	int           rv;
	vf_case_begin(idx, "wire tran=%s proto=%s %s peer=%s/%ld wsfrag=%d plan=%s eagain=%d n=%d max=%zu aio=%d key=%llx", vf_tran_names[w->c.tran], e->name, w->nng_listens ? "nng-listens" : "nng-dials", seg_names[w->seg], w->segparam, w->wsfrag, w->c.plan, w->c.eagain, w->c.nmsgs, w->c.maxsz, w->c.use_aio, (unsigned long long) w->c.key);
	w->aio = NULL;
	if (w->c.use_aio && nng_aio_alloc(&w->aio, NULL, NULL) != 0) vf_harness_fail("aio alloc");
	vf_io_plan(VF_IO_FULL, 0, VF_IO_FULL, 0, w->c.key);
	vf_io_eagain_every(0);
	if ((rv = (e->raw ? w->vp->open_raw : w->vp->open)(&w->s)) != 0) vf_harness_fail("open %s: %s", e->name, nng_strerror(rv));
	nng_socket_set_ms(w->s, NNG_OPT_SENDTIMEO, 10000);
	nng_socket_set_ms(w->s, NNG_OPT_RECVTIMEO, 10000);
	// windows of 4 outgoing messages must fit without a reader
	nng_socket_set_int(w->s, NNG_OPT_SENDBUF, 8);
	nng_socket_set_int(w->s, NNG_OPT_RECVBUF, w->ws ? 32 : 8);
	nng_socket_set_size(w->s, NNG_OPT_RECVMAXSZ, 0);
	nng_socket_set_int(w->s, NNG_OPT_MAXTTL, 15); // (where a TTL applies)
	if (!strcmp(e->proto, "sub")) nng_sub0_socket_subscribe(w->s, "", 0);
	if (!strcmp(e->name, "req")) nng_socket_set_ms(w->s, NNG_OPT_REQ_RESENDTIME, NNG_DURATION_INFINITE);
	if (!strcmp(e->name, "surveyor")) nng_socket_set_ms(w->s, NNG_OPT_SURVEYOR_SURVEYTIME, 60000);
	atomic_store(&w->added, 0);
	nng_pipe_notify(w->s, NNG_PIPE_EV_ADD_POST, wire_added_cb, w);
	// the plan is active during connection setup too (handshake bytes)
	vf_io_plan(w->c.smode, w->c.sparam, w->c.rmode, w->c.rparam, w->c.key);
	vf_io_eagain_every(w->c.eagain);
	long ss0 = vf_io_short_sends(), sr0 = vf_io_short_recvs();
	if (w->ws) {
		wmsg *ms = calloc((size_t) w->c.nmsgs, sizeof(wmsg));
		for (int i = 0; i < w->c.nmsgs; i++) wire_gen(w, 0, i, &ms[i]);
		ws_flow(w, ms);
		free(ms);
	} else {
		wire_connect(w);
		ss0 = vf_io_short_sends();
		sr0 = vf_io_short_recvs();
	}

	if (w->ws) {
		// (done above)
	} else if (e->rounds == WR_PHASES) {
		// raw REP / RESPONDENT learn the pipe id from what they receive
		bool in_first = e->hk == WH_XREP || (vf_mix64(w->c.key ^ 0x5a5a) & 1);
		for (int ph = 0; ph < 2 && !w->failed; ph++) {
			bool in = (ph == 0) == in_first;
			if (in && e->in != WF_NONE) wire_phase_in(w);
			if (!in && e->out != WF_NONE) wire_phase_out(w);
		}
	} else {
		for (int i = 0; i < w->c.nmsgs && !w->failed; i++) {
			wmsg mi, mo;
			wire_gen(w, 0, i, &mi);
			wire_gen(w, 1, i, &mo);
			if (e->rounds == WR_OUT_IN) {
				// request out, the peer answers under the same id
				wire_out(w, &mo, i, 1, mi.wire);
				if (!w->failed) wire_in(w, &mi, i, 1);
			} else {
				// request in, the reply must carry its backtrace
				wire_in(w, &mi, i, 1);
				memcpy(mo.wire, mi.wire, mi.wlen);
				mo.wlen = mi.wlen;
				if (!w->failed) wire_out(w, &mo, i, 1, NULL);
			}
		}
	}
	if (!w->failed) {
		// nothing more may come out of either end once the library is idle
		nng_msg      *m = NULL;
		struct pollfd p = { w->fd, POLLIN, 0 };
		uint8_t       extra[64];
		ssize_t       n;
		vf_quiesce(1, 200);
		if (nng_recvmsg(w->s, &m, NNG_FLAG_NONBLOCK) == 0) {
			WV(w, "in", "extra", "%s: an extra message of %zu bytes after the %d that the peer sent", wwhere(w), nng_msg_len(m), w->c.nmsgs);
			nng_msg_free(m);
		}
		// (a websocket peer gets PONGs, which are not judged here)
		if (!w->ws && poll(&p, 1, 20) > 0 && (n = read(w->fd, extra, sizeof(extra))) > 0) {
			WV(w, "out", "extra-bytes", "%s: %zd or more bytes after the last frame, starting %02x %02x", wwhere(w), n, extra[0], n > 1 ? extra[1] : 0);
		}
		vf_stat("wire_extra_probes", 1);
	}
	long ds = vf_io_short_sends() - ss0, dr = vf_io_short_recvs() - sr0;
	vf_io_plan(VF_IO_FULL, 0, VF_IO_FULL, 0, 0);
	vf_io_eagain_every(0);
	nng_socket_close(w->s);
	close(w->fd);
	if (w->aio) nng_aio_free(w->aio);

	char k[48];
	snprintf(k, sizeof(k), "wire_verified_%s", vf_tran_names[w->c.tran]);
	vf_stat(k, w->in_ok + w->out_ok);
	vf_stat("wire_in_verified", w->in_ok);
	vf_stat("wire_out_verified", w->out_ok);
	vf_stat("wire_verified", w->in_ok + w->out_ok);
	if (w->c.use_aio) vf_stat("wire_verified_aio_form", w->in_ok + w->out_ok);
	vf_stat("wire_coalesced_streams", w->coalesced);
	vf_stat("wire_peer_cuts", w->cuts);
	vf_stat("wire_peer_cuts_prefix", w->cuts_prefix);
	vf_stat("wire_peer_cuts_header", w->cuts_header);
	vf_stat("wire_peer_cuts_body", w->cuts_body);
	vf_stat("wire_peer_writes", w->writes);
	vf_stat(w->nng_listens ? "wire_cases_nng_listens" : "wire_cases_nng_dials", 1);
	vf_stat("wire_short_sends", ds);
	vf_stat("wire_short_recvs", dr);
	if (w->ws) {
		vf_stat("wire_ws_frames_behind_handshake", w->ws_behind);
		vf_stat("wire_ws_stream_beyond_http_buffer", w->ws_straddle);
		vf_stat("wire_ws_fragments", w->ws_fragments);
		vf_stat("wire_ws_pings", w->ws_pings);
		vf_stat(w->nng_listens ? "wire_ws_cases_nng_listens" : "wire_ws_cases_nng_dials", 1);
	}
	if (!w->failed) vf_class("wire/%s/%s/%s%s/%s%s", vf_tran_names[w->c.tran], e->name, seg_names[w->seg], w->wsfrag == 2 ? "+frag+ping" : w->wsfrag ? "+frag" : "", w->c.plan, ds || dr ? "" : "-noshort");
	vf_stat("cases", 1);
	vf_watchdog(120);
	vf_nng_fini("C01");
	vf_nng_init(4, 2, 2);
}

static void
wire_main(void)
{
	static const int trans[] = { VF_T_TCP, VF_T_IPC, VF_T_SOCKFD };
	bool             thorough = vf_tier == 1;
	for (long idx = 0; idx < vf_cases; idx++) {
		if (!vf_want_case(idx)) continue;
		wctx w;
		memset(&w, 0, sizeof(w));
		vf_rng_seed(&w.r, vf_seed, (uint64_t) idx);
		vf_rng *r = &w.r;
		casecfg *c = &w.c;
		uint32_t tsel = vf_below(r, 4);
		w.ws    = tsel == 3;
		c->tran = w.ws ? VF_T_WS : trans[tsel];
		w.ipc   = c->tran == VF_T_IPC;
		w.e     = w.ws ? &wents_ws[vf_below(r, NWENTS_WS)] : &wents[vf_below(r, NWENTS)];
		if ((w.vp = vf_proto_by_name(w.e->proto)) == NULL) vf_harness_fail("no protocol %s", w.e->proto);
		w.nng_listens = c->tran == VF_T_SOCKFD || vf_chance(r, 1, 2);
		c->key        = vf_rand(r);
		c->nmsgs      = (int) vf_range(r, 3, 24);
		c->maxsz      = thorough && vf_chance(r, 1, 10) ? (4u << 20) : vf_chance(r, 1, 6) ? (256u << 10) : 70000;
		// what the peer does with the stream it writes
		w.seg = (int) vf_below(r, SEG_N);
		switch (w.seg) {
		case SEG_DRIBBLE: c->maxsz = c->maxsz > 3000 ? 3000 : c->maxsz; break;
		case SEG_CHUNKS:
			w.segparam = vf_chance(r, 1, 2) ? (long) vf_range(r, 2, 40) : (long) vf_range(r, 41, 5000);
			if (w.segparam <= 40 && c->maxsz > 20000) c->maxsz = 20000;
			break;
		default: break;
		}
		// and what happens to nng's own reads and writes at the same time
		switch (vf_below(r, 7)) {
		case 0: c->smode = c->rmode = VF_IO_FULL; c->plan = "full"; break;
		case 1: c->smode = c->rmode = VF_IO_DRIBBLE; c->sparam = c->rparam = 1; c->plan = "dribble1"; c->maxsz = c->maxsz > 3000 ? 3000 : c->maxsz; break;
		case 2: c->smode = c->rmode = VF_IO_RANDOM; c->sparam = c->rparam = vf_range(r, 2, 40); c->plan = "random-small"; c->maxsz = c->maxsz > 70000 ? 70000 : c->maxsz; break;
		case 3: c->smode = VF_IO_RANDOM; c->sparam = 5000; c->rmode = VF_IO_RANDOM; c->rparam = 3000; c->plan = "random-large"; break;
		case 4: c->smode = VF_IO_DRIBBLE; c->sparam = vf_range(r, 1, 9); c->rmode = VF_IO_FULL; c->plan = "send-dribble"; c->maxsz = c->maxsz > 5000 ? 5000 : c->maxsz; break;
		case 5: c->smode = VF_IO_FULL; c->rmode = VF_IO_DRIBBLE; c->rparam = vf_range(r, 1, 9); c->plan = "recv-dribble"; c->maxsz = c->maxsz > 5000 ? 5000 : c->maxsz; break;
		default: c->smode = c->rmode = VF_IO_CUT_ONCE; c->sparam = vf_range(r, 1, 120); c->rparam = vf_range(r, 1, 120); c->plan = "cut-once"; break;
		}
		if (vf_chance(r, 1, 5) && c->smode != VF_IO_FULL) c->eagain = (int) vf_range(r, 3, 9);
		if (c->maxsz > (1u << 20) && c->nmsgs > 6) c->nmsgs = 6;
		c->use_aio = vf_chance(r, 1, 3);
		if (w.ws) {
			// 2..40 KB behind the reply, so that frames sit around the
			// end of the 8160-byte buffer of nng's HTTP connection
			static const size_t wsmax[] = { 800, 3000, 6000, 12000 };
			c->maxsz      = wsmax[vf_below(r, 4)];
			if (c->nmsgs < 6) c->nmsgs += 6;
			w.nng_listens = vf_chance(r, 1, 3);
			w.seg         = vf_chance(r, 3, 5) ? SEG_ONE : SEG_CUT;
			w.segparam    = 0;
			w.wsfrag      = (int) vf_below(r, 3);
			if (vf_chance(r, 1, 2)) {
				// the first read must be able to take everything
				c->smode = c->rmode = VF_IO_FULL;
				c->sparam = c->rparam = 0;
				c->eagain = 0;
				c->plan   = "full";
			}
		}
		run_wire_case(idx, &w);
		if ((idx & 31) == 0) vf_sample("{\"mode\":\"wire\",\"tran\":\"%s\",\"proto\":\"%s\",\"nng\":\"%s\",\"peer_segmentation\":\"%s\",\"nng_plan\":\"%s\",\"msgs\":%d,\"maxsize\":%zu,\"eagain_every\":%d,\"in_verified\":%ld,\"out_verified\":%ld}", vf_tran_names[c->tran], w.e->name, w.nng_listens ? "listens" : "dials", seg_names[w.seg], c->plan, c->nmsgs, c->maxsz, c->eagain, w.in_ok, w.out_ok);
	}
}

static char planbuf[64];

// ---------------------------------------------------------------- fanout mode
// One sender whose protocol copies a message to several connections (PUB, BUS;
// cooked, so the message has no protocol header when it reaches the
// transport) and 2-3 receivers of every kind - cooked and raw SUB / BUS.
// Every receiver must get exactly the bytes that were sent, whatever the other
// receivers do with THEIR copy: each one overwrites and trims its message as
// soon as it has checked it, receivers take turns being first, and the raw
// ones must see exactly their own 4-byte header (BUS) or none (SUB).
static void
fanout_case(long idx)
{
	vf_rng r;
	vf_rng_seed(&r, vf_seed, (uint64_t) idx ^ 0x46414e4fULL);
	bool       bus   = (idx & 1) != 0;
	int        tran  = (int[]){ VF_T_INPROC, VF_T_INPROC, VF_T_IPC, VF_T_TCP }[(idx >> 1) & 3];
	int        nrecv = 2 + (int) vf_below(&r, 2);
	int        nmsgs = vf_tier ? 60 : 24;
	nng_socket snd, rcv[3];
	bool       raw[3];
	char       kinds[40] = "";
	vf_case_begin(idx, "fanout: %s sender, %d receivers over %s", bus ? "bus" : "pub", nrecv, vf_tran_names[tran]);
	vf_watchdog(60);
	if ((bus ? nng_bus0_open(&snd) : nng_pub0_open(&snd)) != 0) vf_harness_fail("fanout open");
	nng_socket_set_int(snd, NNG_OPT_SENDBUF, 64);
	for (int i = 0; i < nrecv; i++) {
		raw[i] = vf_chance(&r, 2, 3);
		int rv = bus ? (raw[i] ? nng_bus0_open_raw(&rcv[i]) : nng_bus0_open(&rcv[i])) : (raw[i] ? nng_sub0_open_raw(&rcv[i]) : nng_sub0_open(&rcv[i]));
		if (rv != 0) vf_harness_fail("fanout open");
		if (!bus && !raw[i]) nng_sub0_socket_subscribe(rcv[i], "", 0);
		nng_socket_set_int(rcv[i], NNG_OPT_RECVBUF, 64);
		nng_socket_set_ms(rcv[i], NNG_OPT_RECVTIMEO, 15000);
		if (vf_connect(snd, rcv[i], tran) != 0) vf_harness_fail("fanout connect over %s", vf_tran_names[tran]);
		// (vf_connect is content with one pipe on each side: the sender must have one per receiver)
		for (int w = 0; w < 5000 && (vf_pipe_count(snd) < i + 1 || vf_pipe_count(rcv[i]) < 1); w++) vf_msleep(1);
		if (vf_pipe_count(snd) < i + 1) vf_harness_fail("fanout: receiver %d not connected", i);
		snprintf(kinds + strlen(kinds), sizeof(kinds) - strlen(kinds), "%s%s", i ? "+" : "", raw[i] ? "raw" : "cooked");
	}
	vf_quiesce(1, 2000);
	for (int k = 0; k < nmsgs; k++) {
		size_t   len = vf_body_size(k % 5 == 0 ? 1000 + vf_below(&r, 3000) : 24 + vf_below(&r, 80));
		nng_msg *m;
		if (nng_msg_alloc(&m, len) != 0) vf_harness_fail("msg");
		vf_body_make(nng_msg_body(m), len, 0xFA00u + (uint32_t) (idx & 0xff), (uint64_t) k);
		// sometimes the sender keeps a clone (one more holder of the same message)
		nng_msg *keep = NULL;
		if (vf_chance(&r, 1, 4)) nng_msg_dup(&keep, m);
		if (nng_sendmsg(snd, m, 0) != 0) {
			nng_msg_free(m);
			vf_harness_fail("fanout send");
		}
		int first = (int) vf_below(&r, (uint32_t) nrecv);
		for (int j = 0; j < nrecv; j++) {
			int      i  = (first + j) % nrecv;
			nng_msg *g  = NULL;
			int      rv = nng_recvmsg(rcv[i], &g, 0);
			char     key[96];
			if (rv != 0) {
				// PUB and BUS may drop when a queue is full; these queues are
				// never full (one message in flight, depth 64)
				snprintf(key, sizeof(key), "C01/fanout/lost/%s-%s", bus ? "bus" : "pub", vf_tran_names[tran]);
				vf_violation(key, "%s sender, %d receivers (%s) over %s: receiver %d (%s) did not get message %d (%s) although every queue was empty", bus ? "bus" : "pub", nrecv, kinds, vf_tran_names[tran], i, raw[i] ? "raw" : "cooked", k, nng_strerror(rv));
				k = nmsgs; // the receivers are out of step from here on: end of this case
				break;
			}
			uint32_t tag = 0;
			uint64_t seq = 0;
			size_t   hl  = nng_msg_header_len(g);
			size_t   want_h = (bus && raw[i]) ? 4 : 0;
			int      bad = vf_body_check(nng_msg_body(g), nng_msg_len(g), &tag, &seq);
			if (bad != 0 || nng_msg_len(g) != len || seq != (uint64_t) k) {
				snprintf(key, sizeof(key), "C01/fanout/body-bytes/%s-%s", bus ? "bus" : "pub", vf_tran_names[tran]);
				vf_violation(key, "%s sender, %d receivers (%s) over %s: receiver %d (%s), taking message %d as number %d of the receivers, got %zu body bytes (sent %zu) that %s: another receiver's edits or header reached this receiver's message", bus ? "bus" : "pub", nrecv, kinds,
				    vf_tran_names[tran], i, raw[i] ? "raw" : "cooked", k, j + 1, nng_msg_len(g), len, bad != 0 ? "do not check" : "carry another sequence number");
			} else if (hl != want_h) {
				snprintf(key, sizeof(key), "C01/fanout/raw-header/%s-%s", bus ? "bus" : "pub", vf_tran_names[tran]);
				vf_violation(key, "%s sender, %d receivers (%s) over %s: receiver %d (%s) got a header of %zu bytes, expected %zu", bus ? "bus" : "pub", nrecv, kinds, vf_tran_names[tran], i, raw[i] ? "raw" : "cooked", hl, want_h);
			} else {
				vf_stat("fanout_deliveries_verified", 1);
			}
			// this receiver now does what it likes with ITS message
			memset(nng_msg_body(g), 0xEE, nng_msg_len(g));
			if (nng_msg_len(g) >= 8) nng_msg_trim(g, 5);
			nng_msg_insert(g, "scribble", 8);
			nng_msg_header_clear(g);
			nng_msg_free(g);
		}
		if (keep != NULL) {
			uint32_t tag = 0;
			uint64_t seq = 0;
			if (vf_body_check(nng_msg_body(keep), nng_msg_len(keep), &tag, &seq) != 0 || seq != (uint64_t) k) {
				vf_violation("C01/fanout/sender-copy-changed", "the duplicate the sender kept of message %d changed after the receivers edited theirs", k);
			}
			nng_msg_free(keep);
		}
	}
	vf_stat("fanout_cases", 1);
	vf_stat("cases", 1);
	vf_class("fanout/%s/%s/%s", bus ? "bus" : "pub", vf_tran_names[tran], kinds);
	nng_socket_close(snd);
	for (int i = 0; i < nrecv; i++) nng_socket_close(rcv[i]);
}

int
main(int argc, char **argv)
{
	vf_init(argc, argv);
	vf_nng_init(4, 2, 2);
	long   idx = 0;
	vf_rng r;
	bool   thorough = vf_tier == 1;

	if (!strcmp(vf_mode, "cuts")) {
		// every single cut position of small frames, per transport & pair,
		// first on the send side then on the receive side.  Sharded.
		static const int trans[] = { VF_T_TCP, VF_T_IPC, VF_T_SOCKFD, VF_T_WS };
		for (int ti = 0; ti < 4; ti++) {
			int t = trans[ti];
			// ws: HTTP upgrade (about 130-330) plus three small frames;
			// quick walks that stretch for one pair, thorough everything
			int minoff = (t == VF_T_WS && !thorough) ? 130 : 1;
			int maxoff = t == VF_T_WS ? (thorough ? 700 : 430) : 120;
			for (int p = 0; p < NPAIRS_CUTS; p++) {
				if (t == VF_T_WS && !thorough && p != 1) continue;
				for (int side = 0; side < 2; side++) {
					for (int off = minoff; off <= maxoff; off++, idx++) {
						if ((idx % vf_nshards) != vf_shard || !vf_want_case(idx)) continue;
						casecfg c = { .tran = t, .pair = p, .nmsgs = 3, .maxsz = 20, .key = vf_mix64(vf_seed ^ (uint64_t) idx) };
						c.smode = side == 0 ? VF_IO_CUT_ONCE : VF_IO_FULL;
						c.rmode = side == 1 ? VF_IO_CUT_ONCE : VF_IO_FULL;
						c.sparam = c.rparam = off;
						snprintf(planbuf, sizeof(planbuf), "cut-%s@%d", side ? "recv" : "send", off);
						c.plan = planbuf;
						run_case(idx, &c);
						if ((idx % 97) == 0) vf_sample("{\"tran\":\"%s\",\"pair\":\"%s\",\"plan\":\"%s\",\"msgs\":3}", vf_tran_names[t], pairs[p].name, planbuf);
					}
				}
			}
		}
	} else if (!strcmp(vf_mode, "wire")) {
		wire_main();
	} else if (!strcmp(vf_mode, "fanout")) {
		for (long i = 0; i < vf_cases; i++, idx++) {
			if (!vf_want_case(idx)) continue;
			fanout_case(idx);
		}
	} else {
		// sampled plans over all transports / pairs / sizes
		for (long i = 0; i < vf_cases; i++, idx++) {
			if (!vf_want_case(idx)) continue;
			vf_rng_seed(&r, vf_seed, (uint64_t) idx);
			casecfg c;
			memset(&c, 0, sizeof(c));
			c.tran = (int) vf_below(&r, VF_T_N);
			c.pair = (int) vf_below(&r, NPAIRS);
			if (!strcmp(pairs[c.pair].name, "pubsub")) c.tran = vf_chance(&r, 2, 3) ? VF_T_INPROC : c.tran;
			c.key   = vf_rand(&r);
			c.nmsgs = (int) vf_range(&r, 4, 24);
			c.maxsz = thorough && vf_chance(&r, 1, 10) ? (4u << 20) : vf_chance(&r, 1, 4) ? (256u << 10) : 70000;
			switch (vf_below(&r, 6)) {
			case 0: c.smode = c.rmode = VF_IO_FULL; c.plan = "full"; break;
			case 1: c.smode = c.rmode = VF_IO_DRIBBLE; c.sparam = c.rparam = 1; c.plan = "dribble1"; c.maxsz = c.maxsz > 3000 ? 3000 : c.maxsz; break;
			case 2: c.smode = c.rmode = VF_IO_RANDOM; c.sparam = c.rparam = vf_range(&r, 2, 40); c.plan = "random-small"; c.maxsz = c.maxsz > 70000 ? 70000 : c.maxsz; break;
			case 3: c.smode = VF_IO_RANDOM; c.sparam = 5000; c.rmode = VF_IO_RANDOM; c.rparam = 3000; c.plan = "random-large"; break;
			case 4: c.smode = VF_IO_DRIBBLE; c.sparam = vf_range(&r, 1, 9); c.rmode = VF_IO_FULL; c.plan = "send-dribble"; c.maxsz = c.maxsz > 5000 ? 5000 : c.maxsz; break;
			default: c.smode = VF_IO_FULL; c.rmode = VF_IO_DRIBBLE; c.rparam = vf_range(&r, 1, 9); c.plan = "recv-dribble"; c.maxsz = c.maxsz > 5000 ? 5000 : c.maxsz; break;
			}
			if (vf_chance(&r, 1, 5) && c.smode != VF_IO_FULL) { c.eagain = (int) vf_range(&r, 3, 9); }
			if (c.tran == VF_T_WS && vf_chance(&r, 2, 3)) {
				static const int frags[] = { 1, 2, 16, 125, 126, 127, 1000 };
				c.wsfrag = frags[vf_below(&r, 7)];
				if (c.wsfrag <= 16 && c.maxsz > 3000) c.maxsz = 3000;
			}
			c.use_aio = vf_chance(&r, 1, 3);
			run_case(idx, &c);
			if ((idx & 31) == 0) vf_sample("{\"tran\":\"%s\",\"pair\":\"%s\",\"plan\":\"%s\",\"msgs\":%d,\"maxsize\":%zu,\"eagain_every\":%d}", vf_tran_names[c.tran], pairs[c.pair].name, c.plan, c.nmsgs, c.maxsz, c.eagain);
		}
	}
	vf_stat("io_send_calls", vf_io_send_calls());
	vf_stat("io_recv_calls", vf_io_recv_calls());
	vf_nng_fini("C01");
	return vf_finish();
}
