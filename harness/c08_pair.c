// C08: PAIR - one peer at a time, ordered lossless exchange, hop limit.
//
// mode "stream": two real PAIR sockets (pair0, pair1, pair1 raw, pair1
//   cooked<->raw) over inproc/ipc/tcp exchange seq-tagged streams in both
//   directions from concurrent threads (blocking calls, single aio, windows of
//   outstanding aios) with SENDBUF/RECVBUF 0..4, growth-only resizes while the
//   stream runs, readers that pause (back-pressure) and, at seeded instants,
//   extra peers (nng PAIR dialers, raw TCP/IPC peers that complete the SP
//   handshake as PAIR, a decoy listener reached by a second dialer) that try
//   to get in and inject a message.
// mode "hop": a raw TCP/IPC peer is THE partner of a PAIRv1 socket (cooked or
//   raw) and sends frames with crafted hop words x NNG_OPT_MAXTTL 1..15, and
//   frames shorter than a hop word; it also reads what the socket puts on
//   the wire.  Besides the lock-step frames it sends bursts of 3-6 frames
//   (valid / over-TTL mixed, ending in a valid or a malformed frame) in one
//   write, so that they meet a full receive queue, a parked receive or a
//   socket that is sending.
// stream additions: senders whose sends time out / are cancelled / get EAGAIN
//   and are retried with the same message, receivers whose receives time out /
//   are cancelled / poll with NONBLOCK; in a quarter of the cases the only
//   connection is closed under traffic (on either socket) and re-established
//   by the dialer: order and at-most-once must hold across the cut, and every
//   message submitted after the successor is attached must arrive.
// audit r2 additions:
//   contended start (every 6th stream case): 3-6 contenders (redialling nng
//   dialers, raw peers) are released together onto a socket that has NO peer
//   yet; contended replacement: raw peers compete with the redialling peer
//   for the slot freed by a cut; quiescent resize: both senders parked at a
//   gate and everything delivered -> SENDBUF/RECVBUF set to any value 0..8
//   (shrinks); streams of empty messages and frames that are exactly one hop
//   word; a cooked PAIRv1 socket sends received messages back (wire hop 1); a
//   raw PAIRv1 socket must refuse headers that are not one hop word < 0xff;
//   MAXTTL changed while a burst is in flight.
//
// Oracle (exactly the property):
//   one-peer   - per socket, pipes between ADD_POST and REM_POST never > 1;
//                an extra peer is closed without ever seeing a byte after the
//                handshake and nothing it sends is ever delivered;
//   order      - the receiver sees seq 0,1,2,.. of the sender's tag: no gap,
//                duplicate, reorder, foreign or corrupt message while the
//                connection is up; nothing extra at the end;
//   lossless   - every accepted send is delivered; a stream that makes no
//                progress for 20 s although both ends are active is a loss
//                (accepted > delivered) or a wedge;
//   back-press - over inproc (no kernel buffering) accepted-but-undelivered
//                never exceeds SENDBUF + RECVBUF + 2 (+ posted receives);
//   hop        - hop word > 0xff or frame < 4 bytes: never delivered, sender
//                disconnected; hop <= 0xff and > MAXTTL: not delivered, not
//                disconnected (the next valid frame on the same connection is
//                the next message delivered); hop <= MAXTTL: delivered with
//                the exact body (raw socket: header == hop word); wire hop of
//                a cooked send == 1, of a raw send with header h == h+1.
#include "vfh.h"
#include <errno.h>
#include <poll.h>
#include <pthread.h>
#include <stdatomic.h>
#include <sys/socket.h>
#include <unistd.h>

#define TAG_AB 0x0C08A00Bu
#define TAG_BA 0x0C08B00Au
#define TAG_INTRUDER 0x0BAD0BADu
#define TAG_HOP 0x0C081100u
#define TAG_OUT 0x0C082200u
#define TAG_CONT 0x0C08C000u // + index of the contender
#define TAG_HELLO 0x0C08E110u
#define XCONT_SEQ 11u // seq of the one message a contender at a replaced connection sends

#define STALL_NS (20ULL * 1000000000ULL)

// ------------------------------------------------------------ pipe monitor
typedef struct {
	pthread_mutex_t mtx;
	const char     *proto;
	uint32_t        ids[16];
	bool            isx[16]; // attached through the contenders' listener
	int             live, maxlive;
	long            pre, post, rem_live, rem_refused;
	int             xlid;  // id of the listener only contenders connect to (0: none)
	long            xpost; // pipes attached through it
} pmon;

static void
mon_cb(nng_pipe p, nng_pipe_ev ev, void *arg)
{
	pmon    *m  = arg;
	uint32_t id = (uint32_t) nng_pipe_id(p);
	pthread_mutex_lock(&m->mtx);
	switch (ev) {
	case NNG_PIPE_EV_ADD_PRE:
		m->pre++;
		break;
	case NNG_PIPE_EV_ADD_POST:
		m->post++;
		if (m->live < 16) {
			m->ids[m->live] = id;
			m->isx[m->live] = false;
		}
		if (m->xlid != 0 && nng_listener_id(nng_pipe_listener(p)) == m->xlid) {
			m->xpost++;
			if (m->live < 16) {
				m->isx[m->live] = true;
			}
		}
		m->live++;
		if (m->live > m->maxlive) {
			m->maxlive = m->live;
		}
		if (m->live > 1) {
			vf_violation("C08/one-peer/two-pipes-live",
			    "%s socket has %d pipes between ADD_POST and REM_POST (new pipe %u, first %u)",
			    m->proto, m->live, id, m->ids[0]);
		}
		break;
	case NNG_PIPE_EV_REM_POST: {
		int found = -1;
		for (int i = 0; i < m->live && i < 16; i++) {
			if (m->ids[i] == id) {
				found = i;
			}
		}
		if (found >= 0) {
			m->ids[found] = m->ids[(m->live < 16 ? m->live : 16) - 1];
			m->isx[found] = m->isx[(m->live < 16 ? m->live : 16) - 1];
			m->live--;
			m->rem_live++;
		} else {
			m->rem_refused++;
		}
		break;
	}
	default:
		break;
	}
	pthread_mutex_unlock(&m->mtx);
}

static void
mon_attach(nng_socket s, pmon *m, const char *proto)
{
	memset(m, 0, sizeof(*m));
	pthread_mutex_init(&m->mtx, NULL);
	m->proto = proto;
	if (nng_pipe_notify(s, NNG_PIPE_EV_ADD_PRE, mon_cb, m) != 0 ||
	    nng_pipe_notify(s, NNG_PIPE_EV_ADD_POST, mon_cb, m) != 0 ||
	    nng_pipe_notify(s, NNG_PIPE_EV_REM_POST, mon_cb, m) != 0) {
		vf_harness_fail("nng_pipe_notify");
	}
}

static void
mon_set_xlid(pmon *m, int lid)
{
	pthread_mutex_lock(&m->mtx);
	m->xlid = lid;
	pthread_mutex_unlock(&m->mtx);
}

typedef struct {
	long     post, rem_live, rem_refused, xpost;
	int      live, maxlive;
	uint32_t first_id;
	bool     first_is_x;
} monsnap;

static monsnap
mon_get(pmon *m)
{
	monsnap s;
	pthread_mutex_lock(&m->mtx);
	s.post        = m->post;
	s.rem_live    = m->rem_live;
	s.rem_refused = m->rem_refused;
	s.live        = m->live;
	s.maxlive     = m->maxlive;
	s.first_id    = m->live > 0 ? m->ids[0] : 0;
	s.first_is_x  = m->live > 0 && m->isx[0];
	s.xpost       = m->xpost;
	pthread_mutex_unlock(&m->mtx);
	return s;
}

static bool
mon_wait_post(pmon *m, long want, int timeout_ms)
{
	uint64_t end = vf_now_ns() + (uint64_t) timeout_ms * 1000000ULL;
	while (mon_get(m).post < want) {
		if (vf_now_ns() > end) {
			return false;
		}
		vf_usleep(200);
	}
	return true;
}

// ------------------------------------------------------------ raw peer bits
// Wait until the peer closes.  1: closed without data, 2: data was seen,
// 0: still open after the timeout.
static int
fd_wait_closed_nodata(int fd, int timeout_ms)
{
	uint64_t end = vf_now_ns() + (uint64_t) timeout_ms * 1000000ULL;
	uint8_t  tmp[512];
	for (;;) {
		int64_t left = ((int64_t) end - (int64_t) vf_now_ns()) / 1000000;
		if (left <= 0) {
			return 0;
		}
		struct pollfd p = { fd, POLLIN, 0 };
		int           r = poll(&p, 1, (int) left);
		if (r < 0 && errno == EINTR) {
			continue;
		}
		if (r <= 0) {
			return 0;
		}
		ssize_t n = read(fd, tmp, sizeof(tmp));
		if (n == 0) {
			return 1;
		}
		if (n > 0) {
			return 2;
		}
		if (errno != EAGAIN && errno != EINTR) {
			return 1; // reset
		}
	}
}

// non-blocking look: has the peer closed already?
static bool
fd_is_closed(int fd)
{
	struct pollfd p = { fd, POLLIN, 0 };
	uint8_t       b;
	if (poll(&p, 1, 0) <= 0) {
		return false;
	}
	ssize_t n = recv(fd, &b, 1, MSG_PEEK | MSG_DONTWAIT);
	return n == 0 || (n < 0 && errno != EAGAIN && errno != EINTR);
}

typedef struct {
	int  tran; // VF_T_TCP or VF_T_IPC (or inproc: nng extras only)
	int  owner; // 0 = A, 1 = B
	char url[160];
	int  port;
	int  lid;
} lsn;

static int
lsn_open(nng_socket s, int owner, int tran, lsn *l)
{
	char         url[160];
	nng_listener nl;
	int          rv;
	vf_url(tran, url, sizeof(url));
	if ((rv = nng_listen(s, url, &nl, 0)) != 0) {
		return rv;
	}
	l->tran  = tran;
	l->owner = owner;
	l->port  = 0;
	l->lid   = nng_listener_id(nl);
	if ((rv = vf_dial_url(nl, tran, url, l->url, sizeof(l->url))) != 0) {
		return rv;
	}
	if (tran == VF_T_TCP) {
		nng_listener_get_int(nl, NNG_OPT_BOUND_PORT, &l->port);
	}
	return 0;
}

static int
lsn_raw_connect(const lsn *l)
{
	if (l->tran == VF_T_TCP) {
		return vf_tcp_connect((uint16_t) l->port, 5000);
	}
	return vf_unix_connect(l->url + 6, 5000); // "ipc://" + path
}

static void
put32(uint8_t *p, uint32_t v)
{
	p[0] = (uint8_t) (v >> 24);
	p[1] = (uint8_t) (v >> 16);
	p[2] = (uint8_t) (v >> 8);
	p[3] = (uint8_t) v;
}
static uint32_t
get32(const uint8_t *p)
{
	return ((uint32_t) p[0] << 24) | ((uint32_t) p[1] << 16) |
	    ((uint32_t) p[2] << 8) | p[3];
}

// An extra raw peer: connects, completes the SP handshake as PAIR 'proto',
// optionally sends an intruder frame, and must be closed by the socket
// without ever receiving a byte.  Returns true if it was properly refused.
static bool
raw_extra(const lsn *l, uint16_t proto, bool v1, bool send_frame, const char *pname)
{
	uint16_t peer = 0;
	uint8_t  frame[4 + 64];
	int      fd = lsn_raw_connect(l);
	bool     ok = false;
	if (fd < 0) {
		vf_stat("extra_raw_connect_failed", 1);
		return false;
	}
	int hs = vf_sp_handshake(fd, proto, &peer, 10000);
	if (hs != 0) {
		// closed before / during the handshake: refused even earlier
		vf_stat("extra_raw_closed_in_handshake", 1);
		close(fd);
		return true;
	}
	if (send_frame) {
		size_t off = 0;
		if (v1) {
			put32(frame, 1);
			off = 4;
		}
		vf_body_make(frame + off, 40, TAG_INTRUDER, 7);
		(void) vf_sp_send_frame(fd, l->tran == VF_T_IPC, frame, off + 40);
	}
	switch (fd_wait_closed_nodata(fd, 10000)) {
	case 1:
		ok = true;
		vf_stat("extra_raw_refused", 1);
		break;
	case 2:
		vf_violation("C08/one-peer/extra-peer-got-data",
		    "%s over %s: a second (raw) peer received bytes after the handshake while the first peer was connected",
		    pname, vf_tran_names[l->tran]);
		break;
	default:
		vf_violation("C08/one-peer/extra-peer-not-refused",
		    "%s over %s: a second (raw) peer that completed the SP handshake was not closed within 10 s while the first peer was connected",
		    pname, vf_tran_names[l->tran]);
		break;
	}
	close(fd);
	return ok;
}

// ======================================================================
// mode stream
// ======================================================================
typedef struct {
	const char *name;
	vf_open_fn  open_a, open_b;
	bool        v1, raw_a, raw_b;
	uint16_t    id;
} pkind;

static const pkind pkinds[] = {
	{ "pair0", nng_pair0_open, nng_pair0_open, false, false, false, 0x10 },
	{ "pair0raw", nng_pair0_open_raw, nng_pair0_open_raw, false, false, false, 0x10 },
	{ "pair1", nng_pair1_open, nng_pair1_open, true, false, false, 0x11 },
	{ "pair1raw", nng_pair1_open_raw, nng_pair1_open_raw, true, true, true, 0x11 },
	{ "pair1mix", nng_pair1_open, nng_pair1_open_raw, true, false, true, 0x11 },
};
#define NPKINDS ((int) (sizeof(pkinds) / sizeof(pkinds[0])))

typedef struct scase scase;
typedef struct dirst dirst;

typedef struct {
	dirst   *d;
	nng_aio *aio;
	int      busy;
} sslot;

#define MAXWIN 160

struct dirst {
	scase     *c;
	int        dir; // 0: A->B, 1: B->A
	nng_socket tx, rx;
	bool       tx_raw, rx_raw;
	uint32_t   tag;
	int        n;    // messages of the stream proper
	int        ntot; // n, plus a trailer sent after the connection was replaced
	bool       bulk;
	uint64_t   key;
	int        smode, swin; // SM_*
	int        rmode, rwin; // RM_*
	int        pause_at[3], npause;
	int        sjit, rjit; // 1-in-N chance of a small sleep per message (0 off)

	_Atomic long submitted, accepted, received;
	_Atomic long send_fails, recv_fails; // timed out / cancelled / EAGAIN attempts
	_Atomic long lost_at_cut;            // seqs skipped around a replaced connection
	_Atomic int  in_send, in_recv;
	_Atomic int  send_done, recv_done;
	_Atomic int  send_rv, recv_rv;
	_Atomic int  paused, bad;
	_Atomic int  resume;
	_Atomic int  gate_ack; // generation of the sender gate this sender is parked at
	_Atomic long intruders; // messages of a contender that was THE peer for a while
	pthread_mutex_t mtx;
	pthread_cond_t  cv;
	sslot           slots[MAXWIN];
	pthread_t       sth, rth;
};

typedef struct {
	nng_socket s;
	nng_aio   *raio;
	bool       decoy;
	nng_dialer dialer; // decoy: the second dialer of the socket under test
	int        sent;
	int        tran;
	pmon       mon; // the extra's own view: attached, then dropped
} xnng;

struct scase {
	long         idx;
	const pkind *pk;
	int          tran;
	nng_socket   a, b;
	pmon         ma, mb;
	_Atomic int  sbuf[2], rbuf[2]; // current values, [0]=A [1]=B
	_Atomic bool sb_grown[2];
	_Atomic int  abort;
	bool         empty;         // every message of the case is empty (0 bytes)
	_Atomic int  gate;          // != 0: senders park before submitting the next message
	int          gate_gen;
	bool         contend;       // contenders race for the slot when the connection is replaced
	int          xlaunched;     // how many of them were started
	bool         replace;       // the connection is cut and re-established mid-stream
	_Atomic int  cuts;          // connections cut on purpose so far
	_Atomic int  cut_started, cut_done, cut_skipped;
	_Atomic long cut_hi[2];     // per direction: sends submitted before the successor was attached
	dirst        d[2];
	lsn          lsns[4];
	int          nlsn;
	xnng         x[8];
	int          nx;
	char         ctx[96];
};

// sender styles: blocking call / window of outstanding aios / one aio with a
// 1-3 ms timeout or an explicit cancel, retried with the same message until
// accepted / NNG_FLAG_NONBLOCK retried on EAGAIN
enum { SM_BLOCK = 0, SM_WINDOW, SM_SHORT, SM_NONBLOCK, SM_N };
// receiver styles: blocking call / one aio / ring of posted aios / one aio
// with a 1-15 ms timeout or an explicit cancel, retried / NONBLOCK polling
enum { RM_BLOCK = 0, RM_AIO, RM_RING, RM_SHORT, RM_NONBLOCK, RM_N };
static const char *sm_names[SM_N] = { "blk", "aio", "short", "nonblock" };
static const char *sm_long[SM_N]  = { "blocking", "aio-window", "short-timeout", "nonblock" };
static const char *rm_names[RM_N] = { "blk", "aio", "ring", "short", "nonblock" };

static const char *
smode_name(const dirst *d)
{
	return sm_names[d->smode];
}

static size_t
msg_size(const dirst *d, int i)
{
	uint64_t x = vf_mix64(d->key ^ ((uint64_t) i * 0x9e3779b97f4a7c15ULL));
	if (d->c->empty) {
		return 0;
	}
	if (d->bulk) {
		// big enough to fill the kernel's socket buffers while paused
		size_t base = d->c->tran == VF_T_TCP ? 65536 : 32768;
		return base + (size_t) ((x >> 8) % base);
	}
	if ((x & 15) == 0) {
		return VF_BODY_MIN + (size_t) ((x >> 8) % 8000);
	}
	return VF_BODY_MIN + (size_t) ((x >> 8) % 100);
}

static uint32_t
msg_hop(const dirst *d, int i)
{
	return (uint32_t) (vf_mix64(d->key + (uint64_t) i * 31) % 14);
}

static nng_msg *
make_msg(const dirst *d, int i)
{
	nng_msg *m;
	size_t   sz = msg_size(d, i);
	if (nng_msg_alloc(&m, sz) != 0) {
		vf_harness_fail("msg alloc %zu", sz);
	}
	if (sz != 0) {
		vf_body_make(nng_msg_body(m), sz, d->tag, (uint64_t) i);
	}
	if (d->tx_raw) {
		nng_msg_header_append_u32(m, msg_hop(d, i));
	}
	return m;
}

static bool
main_pipes_up(scase *c)
{
	// (a connection cut on purpose is announced in c->cuts before the cut)
	long    cuts = atomic_load(&c->cuts);
	monsnap a = mon_get(&c->ma), b = mon_get(&c->mb);
	// (the dialling side may have attached and lost refused attempts while
	// the listening side had not yet noticed that the old peer was gone)
	// (with contenders at the cut, 'cuts' also counts contenders that held
	// the slot for a while; the dialling side lost at least its first pipe)
	return a.live == 1 && b.live == 1 && !a.first_is_x && a.rem_live == cuts &&
	    (cuts != 0 ? b.rem_live >= 1 : b.rem_live == 0);
}

// Judge a received message when seq 'exp' is the next one expected.
// Returns the sequence number that was accepted (== exp, or larger when the
// skipped ones may legitimately have been lost with a replaced connection),
// or -1 when the stream is broken (verdict already recorded where due).
static long
check_msg(dirst *d, long exp, nng_msg *m)
{
	scase   *c   = d->c;
	uint32_t tag = 0;
	uint64_t seq = 0;
	int      rc;
	if (c->empty && nng_msg_len(m) == 0) {
		// a stream of empty messages is judged by count (and, on a raw
		// PAIRv1 receiver, by the per-position hop word)
		rc  = 0;
		tag = d->tag;
		seq = (uint64_t) exp;
	} else {
		rc = vf_body_check(nng_msg_body(m), nng_msg_len(m), &tag, &seq);
	}
	if (rc != 0) {
		vf_violation("C08/order/corrupt-message",
		    "%s %s dir=%d: message at position %ld failed its self-check (rc %d, %zu bytes)",
		    c->pk->name, vf_tran_names[c->tran], d->dir, exp, rc, nng_msg_len(m));
		return -1;
	}
	if (tag == TAG_INTRUDER && seq == XCONT_SEQ && c->contend && d->dir == 1 && atomic_load(&c->cut_started)) {
		// a contender that got the free slot when the connection was cut was
		// THE peer for a while: its message is legitimate (how many of them
		// is judged at the end against the contenders that were attached)
		atomic_fetch_add(&d->intruders, 1);
		return -2;
	}
	if (tag == TAG_INTRUDER) {
		if (main_pipes_up(c)) {
			vf_violation("C08/one-peer/intruder-message-delivered",
			    "%s %s dir=%d: a message sent by an extra peer was delivered at position %ld while the first peer stayed connected",
			    c->pk->name, vf_tran_names[c->tran], d->dir, exp);
		}
		return -1;
	}
	if (tag != d->tag) {
		vf_violation("C08/order/foreign-message",
		    "%s %s dir=%d: message with tag %08x delivered at position %ld",
		    c->pk->name, vf_tran_names[c->tran], d->dir, tag, exp);
		return -1;
	}
	if (seq != (uint64_t) exp) {
		char key[160];
		bool dup = seq < (uint64_t) exp;
		snprintf(key, sizeof(key), "C08/order/%s/%s-senders/%s%s",
		    dup ? "duplicate-or-late" : "skipped-or-early", sm_long[d->smode],
		    atomic_load(&c->sb_grown[d->dir]) ? "sendbuf-grown-midstream" : "sendbuf-fixed",
		    c->replace ? "/connection-replaced" : "");
		if (dup) {
			// at most once and in order holds whatever happens to
			// the connection
			if (c->replace || main_pipes_up(c)) {
				vf_violation(key,
				    "%s %s dir=%d: expected seq %ld, received seq %llu again or late (sender %s/%d, receiver %s, sendbuf now %d, recvbuf %d)",
				    c->pk->name, vf_tran_names[c->tran], d->dir, exp, (unsigned long long) seq,
				    smode_name(d), d->swin, rm_names[d->rmode], c->sbuf[d->dir], c->rbuf[1 - d->dir]);
			}
			return -1;
		}
		bool lost_ok = false;
		if (c->replace && atomic_load(&c->cut_started)) {
			// the connection was cut on purpose: messages submitted
			// before the successor was attached on both sides may be
			// lost, later ones may not
			while (!atomic_load(&c->cut_done) && !atomic_load(&c->abort)) {
				vf_usleep(200);
			}
			long hi = atomic_load(&c->cut_hi[d->dir]);
			if (atomic_load(&c->cut_done) && (long) seq - 1 < hi) {
				lost_ok = true;
				atomic_fetch_add(&d->lost_at_cut, (long) seq - exp);
			} else if (atomic_load(&c->cut_done)) {
				vf_violation("C08/lossless/lost-after-replacement",
				    "%s %s dir=%d: expected seq %ld, received seq %llu; seqs from %ld on were submitted after the successor connection was attached on both sides (sender %s/%d, receiver %s)",
				    c->pk->name, vf_tran_names[c->tran], d->dir, exp, (unsigned long long) seq, hi,
				    smode_name(d), d->swin, rm_names[d->rmode]);
				return -1;
			}
		}
		if (!lost_ok) {
			if (main_pipes_up(c) || (c->replace && !atomic_load(&c->cut_started))) {
				vf_violation(key,
				    "%s %s dir=%d: expected seq %ld, received seq %llu (sender %s/%d, receiver %s, sendbuf now %d, recvbuf %d)",
				    c->pk->name, vf_tran_names[c->tran], d->dir, exp, (unsigned long long) seq,
				    smode_name(d), d->swin, rm_names[d->rmode], c->sbuf[d->dir], c->rbuf[1 - d->dir]);
			}
			return -1;
		}
	}
	int i = (int) seq;
	if (nng_msg_len(m) != msg_size(d, i)) {
		vf_violation("C08/order/corrupt-message",
		    "%s %s dir=%d: message %d has %zu bytes, sent %zu", c->pk->name,
		    vf_tran_names[c->tran], d->dir, i, nng_msg_len(m), msg_size(d, i));
		return -1;
	}
	if (d->rx_raw) {
		// raw PAIRv1 receive: header is the hop word that was on the wire
		uint32_t want = d->tx_raw ? msg_hop(d, i) + 1 : 1;
		if (nng_msg_header_len(m) != 4 ||
		    get32(nng_msg_header(m)) != want) {
			vf_violation("C08/hop/increment-nng-to-nng",
			    "%s dir=%d msg %d: raw receiver sees header len %zu value %u, expected hop %u (sender header %s)",
			    c->pk->name, d->dir, i, nng_msg_header_len(m),
			    nng_msg_header_len(m) == 4 ? get32(nng_msg_header(m)) : 0, want,
			    d->tx_raw ? "h -> h+1" : "cooked -> 1");
			return -1;
		}
	}
	return (long) seq;
}

static void
jitter(vf_rng *r, int one_in)
{
	if (one_in > 0 && vf_below(r, (uint32_t) one_in) == 0) {
		vf_usleep((int) vf_range(r, 50, 2500));
	}
}

static void
send_cb(void *arg)
{
	sslot *s  = arg;
	dirst *d  = s->d;
	int    rv = (int) nng_aio_result(s->aio);
	if (rv != 0) {
		nng_msg *m = nng_aio_get_msg(s->aio);
		if (m != NULL) {
			nng_msg_free(m);
			nng_aio_set_msg(s->aio, NULL);
		}
		int z = 0;
		atomic_compare_exchange_strong(&d->send_rv, &z, rv);
	} else {
		atomic_fetch_add(&d->accepted, 1);
	}
	pthread_mutex_lock(&d->mtx);
	s->busy = 0;
	pthread_cond_broadcast(&d->cv);
	pthread_mutex_unlock(&d->mtx);
}

static void
cv_wait_ms(dirst *d, int ms)
{
	struct timespec ts;
	clock_gettime(CLOCK_REALTIME, &ts);
	ts.tv_nsec += (long) ms * 1000000L;
	if (ts.tv_nsec >= 1000000000L) {
		ts.tv_sec++;
		ts.tv_nsec -= 1000000000L;
	}
	pthread_cond_timedwait(&d->cv, &d->mtx, &ts);
}

// With a replaced connection the tail of a stream may be lost with the old
// connection; one trailer (seq n) submitted after the successor is attached on
// both sides must arrive and tells the receiver that the stream is over.
// The sender gate: while c->gate != 0 a sender parks before it submits its
// next message and says so (generation number, so that a stale acknowledgement
// of an earlier gate is never taken for this one).
static void
wait_cut(dirst *d)
{
	scase *c = d->c;
	while (!atomic_load(&c->cut_done) && !atomic_load(&c->cut_skipped) && !atomic_load(&c->abort)) {
		int g = atomic_load(&c->gate);
		if (g != 0) {
			atomic_store(&d->gate_ack, g); // (cut_done is only set by who holds the gate)
		}
		vf_usleep(300);
	}
}

static void
gate_wait(dirst *d)
{
	scase *c = d->c;
	int    g;
	while ((g = atomic_load(&c->gate)) != 0 && !atomic_load(&c->abort)) {
		atomic_store(&d->gate_ack, g);
		vf_usleep(150);
	}
}

static void *
sender_thread(void *arg)
{
	dirst *d = arg;
	scase *c = d->c;
	vf_rng r;
	vf_rng_seed(&r, d->key, 0x5e);
	if (d->smode == SM_BLOCK) {
		for (int i = 0; i < d->ntot && !atomic_load(&c->abort); i++) {
			if (i == d->n) {
				wait_cut(d);
			}
			gate_wait(d);
			jitter(&r, d->sjit);
			nng_msg *m = make_msg(d, i);
			atomic_fetch_add(&d->submitted, 1);
			atomic_store(&d->in_send, 1);
			int rv = nng_sendmsg(d->tx, m, 0);
			atomic_store(&d->in_send, 0);
			if (rv != 0) {
				nng_msg_free(m);
				atomic_store(&d->send_rv, rv);
				break;
			}
			atomic_fetch_add(&d->accepted, 1);
		}
	} else if (d->smode == SM_SHORT || d->smode == SM_NONBLOCK) {
		// A send that fails (timed out, cancelled, EAGAIN) was not sent:
		// the message stays with the caller, who retries the same one.
		// If the library kept or delivered it anyway the receiver sees a
		// duplicate; if it dropped a later one, a gap.
		nng_aio *aio = NULL;
		if (nng_aio_alloc(&aio, NULL, NULL) != 0) {
			vf_harness_fail("aio alloc");
		}
		for (int i = 0; i < d->ntot && !atomic_load(&c->abort); i++) {
			if (i == d->n) {
				wait_cut(d);
			}
			gate_wait(d);
			jitter(&r, d->sjit);
			nng_msg *m  = make_msg(d, i);
			int      rv = 0;
			atomic_fetch_add(&d->submitted, 1);
			for (;;) {
				if (atomic_load(&c->abort)) {
					rv = NNG_ECLOSED;
					break;
				}
				if (d->smode == SM_NONBLOCK) {
					rv = nng_sendmsg(d->tx, m, NNG_FLAG_NONBLOCK);
					if (rv == NNG_EAGAIN) {
						atomic_fetch_add(&d->send_fails, 1);
						vf_usleep((int) vf_range(&r, 50, 400));
						continue;
					}
					break;
				}
				bool cancel = vf_chance(&r, 1, 3);
				nng_aio_set_timeout(aio, cancel ? NNG_DURATION_INFINITE : (nng_duration) vf_range(&r, 1, 3));
				nng_aio_set_msg(aio, m);
				nng_socket_send(d->tx, aio);
				if (cancel) {
					if (vf_chance(&r, 1, 2)) {
						vf_usleep((int) vf_below(&r, 300));
					}
					nng_aio_cancel(aio);
				}
				nng_aio_wait(aio);
				rv = (int) nng_aio_result(aio);
				if (rv == 0) {
					break;
				}
				if (nng_aio_get_msg(aio) != m) {
					vf_violation("C08/lossless/failed-send-took-message",
					    "%s %s dir=%d seq %d: aio send failed with %s but the message is no longer attached to the aio (%p)",
					    c->pk->name, vf_tran_names[c->tran], d->dir, i, nng_strerror(rv), (void *) nng_aio_get_msg(aio));
					atomic_store(&d->bad, 1);
					m = NULL;
					break;
				}
				nng_aio_set_msg(aio, NULL);
				if (rv != NNG_ETIMEDOUT && rv != NNG_ECANCELED) {
					break;
				}
				atomic_fetch_add(&d->send_fails, 1);
			}
			if (rv != 0) {
				if (m != NULL) {
					nng_msg_free(m);
				}
				if (!atomic_load(&c->abort) && !atomic_load(&d->bad)) {
					atomic_store(&d->send_rv, rv);
				}
				break;
			}
			atomic_fetch_add(&d->accepted, 1);
		}
		nng_aio_free(aio);
	} else {
		for (int j = 0; j < d->swin; j++) {
			d->slots[j].d    = d;
			d->slots[j].busy = 0;
			if (nng_aio_alloc(&d->slots[j].aio, send_cb, &d->slots[j]) != 0) {
				vf_harness_fail("aio alloc");
			}
			nng_aio_set_timeout(d->slots[j].aio, NNG_DURATION_INFINITE);
		}
		for (int i = 0; i < d->ntot; i++) {
			int j = -1;
			if (i == d->n) {
				wait_cut(d);
			}
			gate_wait(d);
			pthread_mutex_lock(&d->mtx);
			for (;;) {
				for (int k = 0; k < d->swin; k++) {
					if (!d->slots[k].busy) {
						j = k;
						break;
					}
				}
				if (j >= 0 || atomic_load(&c->abort)) {
					break;
				}
				cv_wait_ms(d, 20);
			}
			if (j >= 0) {
				d->slots[j].busy = 1;
			}
			pthread_mutex_unlock(&d->mtx);
			if (j < 0) {
				break;
			}
			if (atomic_load(&c->abort) || atomic_load(&d->send_rv) != 0) {
				pthread_mutex_lock(&d->mtx);
				d->slots[j].busy = 0;
				pthread_mutex_unlock(&d->mtx);
				break;
			}
			jitter(&r, d->sjit);
			nng_aio_set_msg(d->slots[j].aio, make_msg(d, i));
			atomic_fetch_add(&d->submitted, 1);
			nng_socket_send(d->tx, d->slots[j].aio);
		}
		// drain: every submitted aio completes (accepted, or ECLOSED when
		// the main thread aborts the case by closing the sockets)
		pthread_mutex_lock(&d->mtx);
		for (;;) {
			int busy = 0;
			for (int k = 0; k < d->swin; k++) {
				busy += d->slots[k].busy;
			}
			if (!busy) {
				break;
			}
			cv_wait_ms(d, 20);
		}
		pthread_mutex_unlock(&d->mtx);
		for (int j = 0; j < d->swin; j++) {
			nng_aio_free(d->slots[j].aio);
		}
	}
	atomic_store(&d->send_done, 1);
	return NULL;
}

static void
maybe_pause(dirst *d, int i)
{
	for (int k = 0; k < d->npause; k++) {
		if (d->pause_at[k] != i) {
			continue;
		}
		pthread_mutex_lock(&d->mtx);
		atomic_store(&d->paused, 1);
		while (!atomic_load(&d->resume) && !atomic_load(&d->c->abort)) {
			cv_wait_ms(d, 20);
		}
		atomic_store(&d->resume, 0);
		atomic_store(&d->paused, 0);
		pthread_mutex_unlock(&d->mtx);
	}
}

static void *
receiver_thread(void *arg)
{
	dirst   *d = arg;
	scase   *c = d->c;
	vf_rng   r;
	nng_aio *aios[8] = { 0 };
	int      w = d->rmode == RM_RING ? d->rwin : (d->rmode == RM_AIO || d->rmode == RM_SHORT) ? 1 : 0;
	vf_rng_seed(&r, d->key, 0x7e);
	for (int j = 0; j < w; j++) {
		if (nng_aio_alloc(&aios[j], NULL, NULL) != 0) {
			vf_harness_fail("aio alloc");
		}
		nng_aio_set_timeout(aios[j], NNG_DURATION_INFINITE);
	}
	long posted = 0; // number of receives submitted so far (ring mode)
	if (d->rmode == RM_RING) {
		for (int j = 0; j < w && posted < d->ntot; j++, posted++) {
			nng_socket_recv(d->rx, aios[j]);
		}
	}
	long exp  = 0; // next sequence number expected
	long nget = 0; // messages taken so far
	long skip = 0; // of those: messages of a contender that was legitimately the peer
	while (exp < d->ntot && !atomic_load(&c->abort)) {
		nng_msg *m  = NULL;
		int      rv = 0;
		maybe_pause(d, (int) exp);
		jitter(&r, d->rjit);
		atomic_store(&d->in_recv, 1);
		switch (d->rmode) {
		case RM_BLOCK:
			rv = nng_recvmsg(d->rx, &m, 0);
			break;
		case RM_AIO:
			nng_socket_recv(d->rx, aios[0]);
			nng_aio_wait(aios[0]);
			rv = (int) nng_aio_result(aios[0]);
			if (rv == 0) {
				m = nng_aio_get_msg(aios[0]);
				nng_aio_set_msg(aios[0], NULL);
			}
			break;
		case RM_RING: {
			// receives were submitted in order 0,1,2..; the k-th
			// submission must complete with the k-th message
			// (post #k uses aio k % w, take #k waits on it; at most w are
			// outstanding, at most ntot + skipped are ever posted)
			while (posted - nget < w && posted < d->ntot + skip) {
				nng_socket_recv(d->rx, aios[posted % w]);
				posted++;
			}
			nng_aio *a = aios[nget % w];
			nng_aio_wait(a);
			rv = (int) nng_aio_result(a);
			if (rv == 0) {
				m = nng_aio_get_msg(a);
				nng_aio_set_msg(a, NULL);
			}
			break;
		}
		case RM_SHORT:
			// a receive that times out or is cancelled must not
			// swallow a message
			for (;;) {
				bool cancel = vf_chance(&r, 1, 3);
				nng_aio_set_timeout(aios[0], cancel ? NNG_DURATION_INFINITE : (nng_duration) vf_range(&r, 1, 15));
				nng_socket_recv(d->rx, aios[0]);
				if (cancel) {
					if (vf_chance(&r, 1, 2)) {
						vf_usleep((int) vf_below(&r, 300));
					}
					nng_aio_cancel(aios[0]);
				}
				nng_aio_wait(aios[0]);
				rv = (int) nng_aio_result(aios[0]);
				if (rv == 0) {
					m = nng_aio_get_msg(aios[0]);
					nng_aio_set_msg(aios[0], NULL);
					break;
				}
				if ((rv != NNG_ETIMEDOUT && rv != NNG_ECANCELED) || atomic_load(&c->abort)) {
					break;
				}
				atomic_fetch_add(&d->recv_fails, 1);
			}
			break;
		default: // RM_NONBLOCK
			for (;;) {
				rv = nng_recvmsg(d->rx, &m, NNG_FLAG_NONBLOCK);
				if (rv != NNG_EAGAIN || atomic_load(&c->abort)) {
					break;
				}
				atomic_fetch_add(&d->recv_fails, 1);
				vf_usleep((int) vf_range(&r, 50, 400));
			}
			break;
		}
		atomic_store(&d->in_recv, 0);
		if (rv != 0) {
			if (!atomic_load(&c->abort)) {
				atomic_store(&d->recv_rv, rv);
			}
			break;
		}
		if (m == NULL) {
			vf_violation("C08/lossless/receive-succeeded-without-message",
			    "%s %s dir=%d: a receive (%s) completed successfully without a message at position %ld (taken %ld, posted %ld, skipped %ld, total %d)",
			    c->pk->name, vf_tran_names[c->tran], d->dir, rm_names[d->rmode], exp, nget, posted, skip, d->ntot);
			atomic_store(&d->bad, 1);
			break;
		}
		long got = check_msg(d, exp, m);
		nng_msg_free(m);
		if (got == -2) {
			nget++;
			skip++;
			continue;
		}
		if (got < 0) {
			atomic_store(&d->bad, 1);
			break;
		}
		exp = got + 1;
		nget++;
		// (a seq lost with a replaced connection counts as consumed: it
		// occupies no buffer any more)
		atomic_store(&d->received, exp);
		if (d->rmode == RM_RING && exp < d->ntot) {
			// keep the ring full while the application looks at the message
			while (posted - nget < w && posted < d->ntot + skip) {
				nng_socket_recv(d->rx, aios[posted % w]);
				posted++;
			}
		}
	}
	for (int j = 0; j < w; j++) {
		nng_aio_stop(aios[j]);
		nng_msg *m = nng_aio_result(aios[j]) == 0 ? nng_aio_get_msg(aios[j]) : NULL;
		if (m != NULL && d->rmode == RM_RING && exp < d->ntot) {
			nng_msg_free(m); // completed but unprocessed after an abort
		}
		nng_aio_free(aios[j]);
	}
	atomic_store(&d->recv_done, 1);
	return NULL;
}

static void
set_buf(scase *c, int who, int opt, int val)
{
	nng_socket s  = who == 0 ? c->a : c->b;
	int        rv = nng_socket_set_int(s, opt == 0 ? NNG_OPT_SENDBUF : NNG_OPT_RECVBUF, val);
	if (rv != 0) {
		vf_harness_fail("set buffer: %s", nng_strerror(rv));
	}
	if (opt == 0) {
		c->sbuf[who] = val;
	} else {
		c->rbuf[who] = val;
	}
}

static void
grow_buf(scase *c, vf_rng *r, bool started)
{
	int who = (int) vf_below(r, 2), opt = (int) vf_below(r, 2);
	int cur = opt == 0 ? c->sbuf[who] : c->rbuf[who];
	int nv  = cur + (int) vf_range(r, 1, 2);
	if (nv > 6) {
		return;
	}
	if (opt == 0 && started) {
		atomic_store(&c->sb_grown[who], true);
	}
	set_buf(c, who, opt, nv);
	vf_stat("resizes_midstream", 1);
}

static void
intruder_send(scase *c, xnng *x, int tries)
{
	for (int k = 0; k < tries; k++) {
		nng_msg *m;
		if (nng_msg_alloc(&m, 48) != 0) {
			vf_harness_fail("msg alloc");
		}
		vf_body_make(nng_msg_body(m), 48, TAG_INTRUDER, (uint64_t) x->sent);
		if (nng_sendmsg(x->s, m, NNG_FLAG_NONBLOCK) != 0) {
			nng_msg_free(m);
			return;
		}
		x->sent++;
		vf_stat("intruder_msgs_sent", 1);
	}
	(void) c;
}

static void
launch_extra_nng(scase *c, vf_rng *r)
{
	if (c->nx >= 8 || c->nlsn == 0) {
		return;
	}
	const lsn *l = &c->lsns[vf_below(r, (uint32_t) c->nlsn)];
	xnng      *x = &c->x[c->nx];
	memset(x, 0, sizeof(*x));
	if ((c->pk->v1 ? nng_pair1_open(&x->s) : nng_pair0_open(&x->s)) != 0) {
		vf_harness_fail("open extra");
	}
	mon_attach(x->s, &x->mon, c->pk->name);
	x->tran = l->tran;
	nng_socket_set_ms(x->s, NNG_OPT_RECONNMINT, (nng_duration) vf_range(r, 30, 90));
	nng_socket_set_ms(x->s, NNG_OPT_RECONNMAXT, 100);
	nng_socket_set_int(x->s, NNG_OPT_SENDBUF, 2);
	if (nng_aio_alloc(&x->raio, NULL, NULL) != 0) {
		vf_harness_fail("aio alloc");
	}
	nng_aio_set_timeout(x->raio, NNG_DURATION_INFINITE);
	nng_socket_recv(x->s, x->raio);
	int rv = nng_dial(x->s, l->url, NULL, vf_chance(r, 1, 2) ? 0 : NNG_FLAG_NONBLOCK);
	if (rv != 0) {
		vf_stat("extra_nng_dial_failed", 1);
	}
	c->nx++;
	vf_stat("extra_nng_dialers", 1);
	intruder_send(c, x, 2);
}

static void
launch_decoy(scase *c, vf_rng *r)
{
	// the socket under test (B, already connected through its first
	// dialer) gets a second dialer towards another PAIR listener
	if (c->nx >= 8) {
		return;
	}
	xnng *x = &c->x[c->nx];
	char  url[160], durl[160];
	nng_listener nl;
	int   t = (int) vf_below(r, 3);
	memset(x, 0, sizeof(*x));
	x->decoy = true;
	if ((c->pk->v1 ? nng_pair1_open(&x->s) : nng_pair0_open(&x->s)) != 0) {
		vf_harness_fail("open decoy");
	}
	mon_attach(x->s, &x->mon, c->pk->name);
	x->tran = t;
	nng_socket_set_int(x->s, NNG_OPT_SENDBUF, 0);
	vf_url(t, url, sizeof(url));
	if (nng_listen(x->s, url, &nl, 0) != 0 ||
	    vf_dial_url(nl, t, url, durl, sizeof(durl)) != 0) {
		vf_harness_fail("decoy listen %s", url);
	}
	if (nng_aio_alloc(&x->raio, NULL, NULL) != 0) {
		vf_harness_fail("aio alloc");
	}
	nng_aio_set_timeout(x->raio, NNG_DURATION_INFINITE);
	nng_socket_recv(x->s, x->raio);
	int rv = nng_dial(c->b, durl, &x->dialer, NNG_FLAG_NONBLOCK);
	if (rv != 0) {
		vf_harness_fail("second dialer: %s", nng_strerror(rv));
	}
	c->nx++;
	vf_stat("decoy_listeners", 1);
}

static void
close_extras(scase *c)
{
	// Orderly: stop whoever dials first and let the listeners finish what
	// is in flight, so that this check does not depend on how the library
	// tears down half-negotiated connections (that is C10's subject).
	for (int k = 0; k < c->nx; k++) {
		if (c->x[k].decoy) {
			nng_dialer_close(c->x[k].dialer);
		}
	}
	if (c->nx > 0) {
		vf_quiesce(2, 3000);
	}
	for (int k = 0; k < c->nx; k++) {
		xnng *x = &c->x[k];
		nng_aio_stop(x->raio);
		if (nng_aio_result(x->raio) == 0) {
			nng_msg *m = nng_aio_get_msg(x->raio);
			if (main_pipes_up(c)) {
				vf_violation("C08/one-peer/extra-peer-received-message",
				    "%s %s: %s received a message of %zu bytes while the socket's first peer stayed connected",
				    c->pk->name, vf_tran_names[c->tran],
				    x->decoy ? "a second listener reached by the socket's second dialer" : "an extra nng dialer",
				    m ? nng_msg_len(m) : 0);
			}
			if (m != NULL) {
				nng_msg_free(m);
			}
		}
		nng_aio_free(x->raio);
		nng_socket_close(x->s);
		// every pipe the extra saw attached on its own side was refused
		// by the socket under test (whose live count stayed <= 1)
		monsnap xs = mon_get(&x->mon);
		if (xs.post > 0) {
			vf_stat(x->decoy ? "second_dialer_connections_refused" : "extra_nng_connections_refused", xs.post);
			vf_class("refused/%s/%s/%s", x->decoy ? "second-dialer" : "nng", c->pk->name, vf_tran_names[x->tran]);
		}
	}
	if (c->nx > 0) {
		vf_quiesce(2, 3000);
	}
	c->nx = 0;
}

enum { EV_RESIZE, EV_XNNG, EV_XRAW, EV_DECOY, EV_SIDEDOOR, EV_REPLACE, EV_QUIESCE };
typedef struct {
	long at;
	int  kind;
} sevent;

static void
stall_report(scase *c)
{
	bool up = main_pipes_up(c);
	for (int k = 0; k < 2; k++) {
		dirst *d = &c->d[k];
		if (atomic_load(&d->recv_done) && atomic_load(&d->send_done)) {
			continue;
		}
		long acc = atomic_load(&d->accepted), rec = atomic_load(&d->received),
		     sub = atomic_load(&d->submitted);
		if (!up) {
			continue;
		}
		int g = atomic_load(&c->gate);
		if (g != 0 && (atomic_load(&d->gate_ack) == g || atomic_load(&d->send_done)) && sub == acc && acc == rec) {
			continue; // parked at the sender gate with nothing in flight
		}
		if (rec < acc) {
			vf_violation("C08/lossless/accepted-not-delivered",
			    "%s: %s dir=%d: %ld sends accepted, only %ld delivered and no progress for 20 s while the receiver waits and the connection is up (sendbuf %d recvbuf %d)",
			    c->ctx, vf_tran_names[c->tran], d->dir, acc, rec,
			    c->sbuf[d->dir], c->rbuf[1 - d->dir]);
		} else {
			vf_violation("C08/lossless/send-never-accepted-while-peer-reads",
			    "%s: %s dir=%d: submitted %ld accepted %ld delivered %ld of %d, no progress for 20 s although the receiver is waiting and the connection is up",
			    c->ctx, vf_tran_names[c->tran], d->dir, sub, acc, rec, d->n);
		}
	}
}

static void
handle_pause(scase *c, dirst *d, vf_rng *r)
{
	// receiver is parked.  Wait until the sender's accepted count is stable.
	long last = -1;
	int  same = 0;
	uint64_t end = vf_now_ns() + 1500ULL * 1000000ULL;
	while (vf_now_ns() < end) {
		long acc = atomic_load(&d->accepted);
		if (atomic_load(&d->send_done)) {
			break;
		}
		if (acc == last) {
			if (++same >= 5) {
				break;
			}
		} else {
			same = 0;
			last = acc;
		}
		vf_msleep(4);
	}
	long acc = atomic_load(&d->accepted);
	long rec = atomic_load(&d->received);
	long sub = atomic_load(&d->submitted);
	long inflight = acc - rec;
	bool blocked  = !atomic_load(&d->send_done) && sub > acc;
	vf_stat("pauses", 1);
	vf_stat(blocked ? "pauses_sender_blocked" : "pauses_all_absorbed", 1);
	vf_stat_max("max_accepted_while_paused", inflight);
	int txw = d->dir, rxw = 1 - d->dir;
	if (c->tran == VF_T_INPROC && !(c->replace && atomic_load(&c->cut_started))) {
		// (not after a replaced connection: what died with the old pipe
		// is still counted as undelivered until the receiver sees the gap)
		// inproc has no buffering of its own: wmq + 1 in the pipe's send
		// aio + rmq + 1 held in the pipe's recv aio (+ posted receives)
		long bound = c->sbuf[txw] + c->rbuf[rxw] + 2 + (d->rmode == RM_RING ? d->rwin : 0);
		if (inflight > bound) {
			vf_violation("C08/backpressure/accepted-beyond-buffers",
			    "%s: inproc dir=%d: reader paused, %ld sends accepted but not delivered; SENDBUF %d + RECVBUF %d + 2 in-flight slots%s = %ld",
			    c->ctx, d->dir, inflight, c->sbuf[txw], c->rbuf[rxw],
			    d->rmode == RM_RING ? " + posted receives" : "", bound);
		}
		if (blocked) {
			vf_stat("inproc_blocked_pauses", 1);
		}
	}
	vf_class("pause/%s/%s/%s/%s/sb%d/rb%d", c->pk->name, vf_tran_names[c->tran],
	    smode_name(d), blocked ? "blocked" : "absorbed", c->sbuf[txw], c->rbuf[rxw]);
	// sometimes grow a buffer while senders are blocked
	if (vf_chance(r, 1, 3)) {
		grow_buf(c, r, true);
	}
	pthread_mutex_lock(&d->mtx);
	atomic_store(&d->resume, 1);
	pthread_cond_broadcast(&d->cv);
	pthread_mutex_unlock(&d->mtx);
	// wait for the receiver to leave the pause so that we do not handle
	// the same pause twice
	while (atomic_load(&d->paused) && atomic_load(&d->resume)) {
		vf_usleep(100);
	}
}

// A loss-free point for ANY buffer change: both senders parked at the gate
// and everything they submitted accepted and taken by the receiving
// application - all four queues are empty.  Sets 1-3 of the buffers to any
// value 0..8 (at least one of them shrinks when one is > 0).
// returns 0 done / skipped, -1 a stream thread reported a failure, -2 stalled
static int
quiesce_resize(scase *c, vf_rng *r)
{
	if (c->replace && atomic_load(&c->cut_started)) {
		return 0; // what died with the old connection is never "received"
	}
	int g = ++c->gate_gen;
	atomic_store(&c->gate, g);
	uint64_t last    = vf_now_ns();
	long     lastsum = -1;
	for (;;) {
		bool quiet = true;
		long sum   = 0;
		for (int k = 0; k < 2; k++) {
			dirst *d = &c->d[k];
			// (order matters: once the sender is seen parked, submitted is
			// final; accepted and received only grow towards it)
			bool parked = atomic_load(&d->send_done) || atomic_load(&d->gate_ack) == g;
			long sub = atomic_load(&d->submitted), acc = atomic_load(&d->accepted),
			     rec = atomic_load(&d->received);
			sum += sub + acc + rec;
			if (!parked || sub != acc || acc != rec) {
				quiet = false;
			}
			if (atomic_load(&d->bad) || atomic_load(&d->send_rv) || atomic_load(&d->recv_rv)) {
				return -1; // (gate stays closed: the case is over)
			}
			if (atomic_load(&d->paused) && !atomic_load(&d->resume)) {
				handle_pause(c, d, r); // a parked reader would keep the stream from draining
				last = vf_now_ns();
			}
		}
		if (quiet) {
			break;
		}
		if (sum != lastsum) {
			lastsum = sum;
			last    = vf_now_ns();
		}
		if (vf_now_ns() - last > STALL_NS) {
			return -2; // (gate stays closed for stall_report)
		}
		vf_usleep(200);
	}
	int nset = (int) vf_range(r, 1, 3), shrunk = 0;
	for (int j = 0; j < nset; j++) {
		int who = (int) vf_below(r, 2), opt = (int) vf_below(r, 2);
		int cur = opt == 0 ? c->sbuf[who] : c->rbuf[who];
		int nv  = (int) vf_below(r, 9);
		if (j == 0) {
			// prefer a buffer that can shrink
			for (int t = 0; t < 4 && cur == 0; t++) {
				who = t & 1;
				opt = t >> 1;
				cur = opt == 0 ? c->sbuf[who] : c->rbuf[who];
			}
			if (cur > 0) {
				nv = (int) vf_below(r, (uint32_t) cur);
			}
		}
		if (nv == cur) {
			continue;
		}
		if (opt == 0 && nv > cur) {
			atomic_store(&c->sb_grown[who], true);
		}
		set_buf(c, who, opt, nv);
		if (nv < cur) {
			shrunk++;
			vf_stat("shrinks_at_quiescence", 1);
			if (nv == 0) {
				vf_stat("shrinks_to_zero_at_quiescence", 1);
			}
		} else {
			vf_stat("grows_at_quiescence", 1);
		}
	}
	vf_stat("quiescent_points", 1);
	if (shrunk) {
		vf_class("shrink/%s/%s/%s", c->pk->name, vf_tran_names[c->tran], c->d[0].rmode == RM_RING || c->d[1].rmode == RM_RING ? "ring-posted" : "plain");
	}
	atomic_store(&c->gate, 0);
	return 0;
}

// Contenders for the slot that becomes free when the only connection is cut:
// raw peers that connect through a listener of their own (so that the monitor
// can tell their pipes from the redialling peer's), complete the handshake,
// send one message and leave after a short while.  ANY one of them or the
// redialling peer may get the slot; never two at a time (pipe monitor), and
// no more contender messages are delivered than contenders were attached.
typedef struct {
	const lsn  *l;
	uint16_t    proto;
	bool        v1;
	int         delay_us, patience_ms;
	_Atomic int *go;
	int         outcome; // 1 refused (EOF, no data), 2 was the peer (got data), 0 undecided, -1 no connection
	pthread_t   th;
} xcont;

static void *
xcont_thread(void *arg)
{
	xcont   *x = arg;
	uint16_t peer = 0;
	uint8_t  frame[4 + 64];
	size_t   off = 0;
	while (!atomic_load(x->go)) {
		vf_usleep(50);
	}
	if (x->delay_us > 0) {
		vf_usleep(x->delay_us);
	}
	int fd = lsn_raw_connect(x->l);
	if (fd < 0) {
		x->outcome = -1;
		return NULL;
	}
	if (vf_sp_handshake(fd, x->proto, &peer, 10000) != 0) {
		x->outcome = 1;
		close(fd);
		return NULL;
	}
	if (x->v1) {
		put32(frame, 1);
		off = 4;
	}
	vf_body_make(frame + off, 40, TAG_INTRUDER, XCONT_SEQ);
	(void) vf_sp_send_frame(fd, x->l->tran == VF_T_IPC, frame, off + 40);
	x->outcome = fd_wait_closed_nodata(fd, x->patience_ms);
	close(fd);
	return NULL;
}

static void
stream_case(long idx, vf_rng *r)
{
	scase *c = calloc(1, sizeof(*c));
	int    rv;
	bool   thorough = vf_tier == 1;
	c->idx  = idx;
	c->pk   = &pkinds[vf_below(r, NPKINDS)];
	c->tran = (int) vf_below(r, 3); // inproc, ipc, tcp
	for (int k = 0; k < 2; k++) {
		c->sbuf[k] = (int) vf_below(r, 5);
		c->rbuf[k] = (int) vf_below(r, 5);
	}
	int  pert  = (int) vf_below(r, 3);
	bool bulk  = c->tran != VF_T_INPROC && vf_chance(r, 1, 8);
	int  nbase = bulk ? 90 : (int) vf_range(r, 30, thorough ? 400 : 160);
	c->replace = !bulk && vf_chance(r, 1, 4);
	c->contend = c->replace && vf_chance(r, 1, 2);
	c->empty   = !bulk && !c->replace && vf_chance(r, 1, 12);
	for (int k = 0; k < 2; k++) {
		dirst *d = &c->d[k];
		d->c     = c;
		d->dir   = k;
		d->tag   = k == 0 ? TAG_AB : TAG_BA;
		d->n     = nbase + (int) vf_below(r, 20);
		d->bulk  = bulk;
		d->key   = vf_rand(r);
		static const int smodes[] = { SM_BLOCK, SM_BLOCK, SM_WINDOW, SM_WINDOW, SM_WINDOW, SM_SHORT, SM_SHORT, SM_NONBLOCK };
		d->smode = smodes[vf_below(r, 8)];
		d->swin  = 0;
		if (d->smode == SM_WINDOW) {
			static const int wins[] = { 2, 3, 5, 8, 16 };
			d->swin = vf_chance(r, 1, 6) ? (d->n < MAXWIN ? d->n : MAXWIN) : wins[vf_below(r, 5)];
		}
		static const int rmodes[] = { RM_BLOCK, RM_BLOCK, RM_AIO, RM_RING, RM_RING, RM_SHORT, RM_SHORT, RM_NONBLOCK };
		d->rmode  = rmodes[vf_below(r, 8)];
		d->rwin   = d->rmode == RM_RING ? (int) vf_range(r, 2, 4) : 0;
		d->npause = (int) vf_range(r, 1, bulk ? 1 : 3);
		for (int p = 0; p < d->npause; p++) {
			d->pause_at[p] = (int) vf_range(r, 1, (uint32_t) d->n - 2);
		}
		d->sjit = vf_chance(r, 1, 2) ? (int) vf_range(r, 3, 30) : 0;
		d->rjit = vf_chance(r, 1, 2) ? (int) vf_range(r, 3, 30) : 0;
		d->ntot = d->n + (c->replace ? 1 : 0);
		pthread_mutex_init(&d->mtx, NULL);
		pthread_cond_init(&d->cv, NULL);
	}
	snprintf(c->ctx, sizeof(c->ctx), "%s", c->pk->name);
	vf_case_begin(idx, "stream %s %s sb=%d/%d rb=%d/%d n=%d/%d smode=%d.%d/%d.%d rmode=%d/%d pert=%d bulk=%d replace=%d contend=%d empty=%d",
	    c->pk->name, vf_tran_names[c->tran], c->sbuf[0], c->sbuf[1], c->rbuf[0], c->rbuf[1],
	    c->d[0].n, c->d[1].n, c->d[0].smode, c->d[0].swin, c->d[1].smode, c->d[1].swin,
	    c->d[0].rmode, c->d[1].rmode, pert, bulk, (int) c->replace, (int) c->contend, (int) c->empty);
	vf_watchdog(180);

	if (pert == 1) {
		vf_pt_jitter(vf_rand(r), (int) vf_range(r, 5, 60), (int) vf_range(r, 20, 300));
	} else if (pert == 2) {
		vf_pt_jitter(vf_rand(r), 5, 50);
	} else {
		vf_pt_off();
	}

	if (c->pk->open_a(&c->a) != 0 || c->pk->open_b(&c->b) != 0) {
		vf_harness_fail("open");
	}
	mon_attach(c->a, &c->ma, c->pk->name);
	mon_attach(c->b, &c->mb, c->pk->name);
	for (int k = 0; k < 2; k++) {
		nng_socket s = k == 0 ? c->a : c->b;
		nng_socket_set_ms(s, NNG_OPT_SENDTIMEO, NNG_DURATION_INFINITE);
		nng_socket_set_ms(s, NNG_OPT_RECVTIMEO, NNG_DURATION_INFINITE);
		nng_socket_set_size(s, NNG_OPT_RECVMAXSZ, 0);
		nng_socket_set_ms(s, NNG_OPT_RECONNMINT, (nng_duration) vf_range(r, 20, 80));
		nng_socket_set_ms(s, NNG_OPT_RECONNMAXT, 100);
		set_buf(c, k, 0, c->sbuf[k]);
		set_buf(c, k, 1, c->rbuf[k]);
		if (c->pk->v1) {
			nng_socket_set_int(s, NNG_OPT_MAXTTL, 15);
		}
	}
	// A listens, B dials
	if ((rv = lsn_open(c->a, 0, c->tran, &c->lsns[0])) != 0) {
		vf_harness_fail("listen: %s", nng_strerror(rv));
	}
	c->nlsn = 1;
	if ((rv = nng_dial(c->b, c->lsns[0].url, NULL, 0)) != 0) {
		vf_harness_fail("dial %s: %s", c->lsns[0].url, nng_strerror(rv));
	}
	if (!mon_wait_post(&c->ma, 1, 10000) || !mon_wait_post(&c->mb, 1, 10000)) {
		vf_harness_fail("first connection did not come up");
	}

	// contenders for the slot at the cut come in through a listener of
	// their own on A
	lsn xl;
	memset(&xl, 0, sizeof(xl));
	if (c->contend) {
		if ((rv = lsn_open(c->a, 0, vf_chance(r, 1, 2) ? VF_T_TCP : VF_T_IPC, &xl)) != 0) {
			vf_harness_fail("contender listen: %s", nng_strerror(rv));
		}
		mon_set_xlid(&c->ma, xl.lid);
	}

	// event plan, keyed by total messages delivered
	sevent evs[20];
	int    nev   = 0;
	long   total = c->d[0].n + c->d[1].n;
	int    nres  = (int) vf_below(r, 5);
	int    nxtra = bulk ? (int) vf_below(r, 2) : (int) vf_below(r, 4);
	for (int k = 0; k < nres; k++) {
		evs[nev++] = (sevent){ (long) vf_below(r, (uint32_t) total), EV_RESIZE };
	}
	if (vf_chance(r, 1, 2)) {
		evs[nev++] = (sevent){ (long) vf_below(r, (uint32_t) total / 4 + 1), EV_SIDEDOOR };
	}
	for (int k = 0; k < nxtra; k++) {
		static const int kinds[] = { EV_XNNG, EV_XRAW, EV_XRAW, EV_DECOY };
		int              kind    = kinds[vf_below(r, 4)];
		// while the connection is being replaced a redialling extra peer
		// could legitimately become THE peer: only one-shot raw extras then
		evs[nev++] = (sevent){ (long) vf_below(r, (uint32_t) total), c->replace ? EV_XRAW : kind };
	}
	if (c->replace) {
		// early, so that most of the stream is judged for loss
		evs[nev++] = (sevent){ (long) vf_range(r, (uint32_t) total / 10, (uint32_t) (total / 3)), EV_REPLACE };
	}
	int nq = (int) vf_range(r, 1, 3);
	for (int k = 0; k < nq; k++) {
		evs[nev++] = (sevent){ (long) vf_below(r, (uint32_t) total), EV_QUIESCE };
	}
	for (int i = 1; i < nev; i++) { // insertion sort by threshold
		sevent e = evs[i];
		int    j = i - 1;
		while (j >= 0 && evs[j].at > e.at) {
			evs[j + 1] = evs[j];
			j--;
		}
		evs[j + 1] = e;
	}

	c->d[0].tx = c->a; c->d[0].rx = c->b; c->d[0].tx_raw = c->pk->raw_a; c->d[0].rx_raw = c->pk->raw_b;
	c->d[1].tx = c->b; c->d[1].rx = c->a; c->d[1].tx_raw = c->pk->raw_b; c->d[1].rx_raw = c->pk->raw_a;
	for (int k = 0; k < 2; k++) {
		pthread_create(&c->d[k].rth, NULL, receiver_thread, &c->d[k]);
		pthread_create(&c->d[k].sth, NULL, sender_thread, &c->d[k]);
	}

	uint64_t last_prog = vf_now_ns();
	long     last_sum  = -1;
	int      evi       = 0;
	bool     failed = false, stalled = false;
	long     refused_raw = 0;
	for (;;) {
		long sum = evi, recvd = 0;
		bool done = true;
		for (int k = 0; k < 2; k++) {
			dirst *d = &c->d[k];
			sum += atomic_load(&d->submitted) + atomic_load(&d->accepted) + atomic_load(&d->received);
			recvd += atomic_load(&d->received);
			if (!atomic_load(&d->send_done) || !atomic_load(&d->recv_done)) {
				done = false;
			}
			if (atomic_load(&d->bad) || atomic_load(&d->send_rv) || atomic_load(&d->recv_rv)) {
				failed = true;
			}
		}
		if (done || failed) {
			break;
		}
		if (sum != last_sum) {
			last_sum  = sum;
			last_prog = vf_now_ns();
		}
		for (int k = 0; k < 2; k++) {
			if (atomic_load(&c->d[k].paused) && !atomic_load(&c->d[k].resume)) {
				handle_pause(c, &c->d[k], r);
				last_prog = vf_now_ns();
			}
		}
		while (evi < nev && evs[evi].at <= recvd) {
			switch (evs[evi].kind) {
			case EV_RESIZE:
				grow_buf(c, r, true);
				break;
			case EV_SIDEDOOR: {
				// another listener on A or B over some transport
				int who = (int) vf_below(r, 2), t = (int) vf_below(r, 3);
				if (c->nlsn < 4 &&
				    lsn_open(who == 0 ? c->a : c->b, who, t, &c->lsns[c->nlsn]) == 0) {
					c->nlsn++;
					vf_stat("side_listeners", 1);
				}
				break;
			}
			case EV_XNNG:
				launch_extra_nng(c, r);
				break;
			case EV_XRAW: {
				int cand[4], nc = 0;
				for (int k = 0; k < c->nlsn; k++) {
					if (c->lsns[k].tran != VF_T_INPROC) {
						cand[nc++] = k;
					}
				}
				if (nc > 0) {
					const lsn *l = &c->lsns[cand[vf_below(r, (uint32_t) nc)]];
					if (raw_extra(l, c->pk->id, c->pk->v1, vf_chance(r, 3, 4), c->pk->name)) {
						refused_raw++;
						vf_class("refused/raw/%s/%s/%s", c->pk->name, vf_tran_names[l->tran],
						    l->owner == 0 ? "listening-side" : "dialing-side");
					}
				}
				break;
			}
			case EV_DECOY:
				launch_decoy(c, r);
				break;
			case EV_QUIESCE: {
				int q = quiesce_resize(c, r);
				if (q == -1) {
					failed = true;
				} else if (q == -2) {
					stalled = true;
				}
				break;
			}
			case EV_REPLACE: {
				// The connection goes away under traffic (closed on the
				// listening or on the dialling socket); B's dialer
				// brings up the successor.  From then on the stream
				// must again be lossless; across the cut it must stay
				// in order and at-most-once (check_msg).
				int      side = (int) vf_below(r, 2);
				monsnap  m0   = mon_get(side == 0 ? &c->ma : &c->mb);
				nng_pipe np;
				memset(&np, 0, sizeof(np));
				np.id = m0.first_id;
				if (m0.live != 1 || np.id == 0) {
					atomic_store(&c->cut_skipped, 1);
					break; // (unexpected disconnect: handled at the end)
				}
				xcont       xc[2];
				int         nxc = c->contend ? (int) vf_range(r, 1, 2) : 0;
				_Atomic int go  = 0;
				c->xlaunched += nxc;
				for (int k = 0; k < nxc; k++) {
					memset(&xc[k], 0, sizeof(xc[k]));
					xc[k].l           = &xl;
					xc[k].proto       = c->pk->id;
					xc[k].v1          = c->pk->v1;
					xc[k].delay_us    = vf_chance(r, 1, 2) ? 0 : (int) vf_below(r, 3000);
					xc[k].patience_ms = (int) vf_range(r, 20, 200);
					xc[k].go          = &go;
					pthread_create(&xc[k].th, NULL, xcont_thread, &xc[k]);
				}
				// (while contenders may hold the slot nothing is "up")
				atomic_store(&c->cuts, c->contend ? 1000000 : 1);
				atomic_store(&c->cut_started, 1);
				nng_pipe_close(np);
				atomic_store(&go, 1);
				for (int k = 0; k < nxc; k++) {
					pthread_join(xc[k].th, NULL); // bounded: every contender leaves by itself
					vf_stat(xc[k].outcome == 2 ? "contenders_attached_at_replacement" : xc[k].outcome == 1 ? "contenders_refused_at_replacement" : "contenders_undecided_at_replacement", 1);
				}
				uint64_t end = vf_now_ns() + 10000ULL * 1000000ULL;
				bool     up  = false;
				while (vf_now_ns() < end) {
					monsnap a = mon_get(&c->ma), b = mon_get(&c->mb);
					// A's pipe is the redialling peer's (not a contender that is
					// on its way out) and every pipe A had before is gone
					if (a.post >= 2 && b.post >= 2 && a.live == 1 && b.live == 1 && !a.first_is_x &&
					    a.rem_live == a.post - 1 && a.rem_live >= 1 && b.rem_live >= 1) {
						atomic_store(&c->cuts, (int) a.rem_live);
						up = true;
						break;
					}
					// A socket that neither reads nor sends cannot notice
					// that its peer has gone (and rightly refuses the
					// successor): keep both applications reading.
					for (int k = 0; k < 2; k++) {
						dirst *d = &c->d[k];
						if (atomic_load(&d->paused) && !atomic_load(&d->resume)) {
							pthread_mutex_lock(&d->mtx);
							atomic_store(&d->resume, 1);
							pthread_cond_broadcast(&d->cv);
							pthread_mutex_unlock(&d->mtx);
							vf_stat("pauses_cut_short_by_replacement", 1);
						}
					}
					vf_usleep(200);
				}
				if (!up) {
					monsnap a = mon_get(&c->ma), b = mon_get(&c->mb);
					vf_violation("C08/one-peer/successor-not-accepted",
					    "%s %s: 10 s after the only connection was closed (on the %s socket) the redialling peer is still not attached (listener side: %ld attached, %ld refused; dialer side: %ld attached, %ld refused)",
					    c->pk->name, vf_tran_names[c->tran], side == 0 ? "listening" : "dialling",
					    a.post, a.rem_refused, b.post, b.rem_refused);
					failed = true;
					break;
				}
				for (int k = 0; k < 2; k++) {
					atomic_store(&c->cut_hi[k], atomic_load(&c->d[k].submitted));
				}
				atomic_store(&c->cut_done, 1);
				vf_stat("replacements", 1);
				if (nxc > 0) {
					vf_stat("replacements_with_contenders", 1);
					vf_class("replace-contended/%s/%s/%s", c->pk->name, vf_tran_names[c->tran],
					    mon_get(&c->ma).xpost > 0 ? "contender-seen-attached" : "no-contender-seen-attached");
				}
				vf_class("replace/%s/%s/%s-side", c->pk->name, vf_tran_names[c->tran], side == 0 ? "listening" : "dialling");
				break;
			}
			}
			if (failed) {
				break;
			}
			evi++;
			last_prog = vf_now_ns();
		}
		if (failed) {
			break;
		}
		for (int k = 0; k < c->nx; k++) {
			if (c->x[k].sent < 3) {
				intruder_send(c, &c->x[k], 1);
			}
		}
		if (vf_now_ns() - last_prog > STALL_NS) {
			stalled = true;
			break;
		}
		vf_usleep(300);
	}

	if (stalled) {
		stall_report(c);
	}
	bool up_at_end = main_pipes_up(c);
	if (!up_at_end) {
		vf_stat("unexpected_disconnects", 1);
	}
	for (int k = 0; k < 2; k++) {
		dirst *d = &c->d[k];
		int    srv = atomic_load(&d->send_rv), rrv = atomic_load(&d->recv_rv);
		if (srv != 0 || rrv != 0) {
			// with infinite timeouts and open sockets no call may fail;
			// not a C08 verdict, but the run cannot be trusted
			vf_harness_fail("stream %s %s dir=%d: send rv=%d recv rv=%d on open sockets",
			    c->pk->name, vf_tran_names[c->tran], k, srv, rrv);
		}
	}
	bool clean = !failed && !stalled;
	if (!clean) {
		// The library has just been shown broken (or the connection fell
		// apart).  The four stream threads may be inside nng calls; tearing
		// the sockets down under them only adds hangs and crashes that are
		// not C08's subject.  End this worker here with what it found.
		vf_stat("cases_aborted", 1);
		if (vf_violations() == 0) {
			vf_harness_fail("stream %s %s: case aborted without a verdict (connection up: %d)",
			    c->pk->name, vf_tran_names[c->tran], (int) up_at_end);
		}
		int code = vf_finish();
		_exit(code != 0 ? code : 1);
	}
	// extra peers go away first so that none of them can become the peer
	monsnap sa = mon_get(&c->ma), sb = mon_get(&c->mb);
	close_extras(c);
	if (clean && c->contend) {
		// at most once also for what a contender sent while it was the peer.
		// (Whether a contender was attached cannot be told from the pipe
		// events: ADD_POST is not delivered for a pipe that is already gone
		// again when its turn comes.)
		long got = atomic_load(&c->d[1].intruders);
		if (got > c->xlaunched) {
			vf_violation("C08/order/duplicate-or-late/contender-message",
			    "%s %s: %ld messages of contending raw peers were delivered after the connection was cut, but only %d contenders connected (each sent one message)",
			    c->pk->name, vf_tran_names[c->tran], got, c->xlaunched);
		}
		vf_stat("contender_messages_delivered_legitimately", got);
	}
	if (clean) {
		// nothing more may arrive in either direction
		vf_quiesce(2, 3000);
		for (int k = 0; k < 2; k++) {
			nng_msg *m = NULL;
			if (nng_recvmsg(k == 0 ? c->a : c->b, &m, NNG_FLAG_NONBLOCK) == 0) {
				uint32_t tag = 0;
				uint64_t seq = 0;
				int      rc  = vf_body_check(nng_msg_body(m), nng_msg_len(m), &tag, &seq);
				if (up_at_end) {
					vf_violation(rc == 0 && tag == TAG_INTRUDER ? "C08/one-peer/intruder-message-delivered" : "C08/order/extra-message-at-end",
					    "%s: %s: after all %d messages were received in order another message (tag %08x seq %llu) was delivered",
					    c->ctx, vf_tran_names[c->tran], c->d[1 - k].n, tag, (unsigned long long) seq);
				}
				nng_msg_free(m);
			}
		}
	}
	atomic_store(&c->abort, 1);
	nng_socket_close(c->a);
	nng_socket_close(c->b);
	for (int k = 0; k < 2; k++) {
		pthread_join(c->d[k].sth, NULL);
		pthread_join(c->d[k].rth, NULL);
	}
	vf_pt_off();
	if (clean) {
		long refused = sa.rem_refused + sb.rem_refused;
		vf_stat("cases", 1);
		vf_stat("stream_cases", 1);
		long lost = atomic_load(&c->d[0].lost_at_cut) + atomic_load(&c->d[1].lost_at_cut);
		vf_stat("delivered_in_order", c->d[0].ntot + c->d[1].ntot - lost);
		if (c->replace && atomic_load(&c->cut_done)) {
			vf_stat("replaced_streams_completed", 2);
			vf_stat("lost_at_cut", lost);
			for (int k = 0; k < 2; k++) {
				vf_stat("delivered_after_replacement", c->d[k].ntot - atomic_load(&c->cut_hi[k]));
			}
			if (c->contend) {
				vf_stat("contended_replaced_streams_completed", 2);
			}
			if (lost > 0) {
				vf_stat("replacements_with_loss", 1);
			}
		}
		for (int k = 0; k < 2; k++) {
			dirst *d = &c->d[k];
			long   sf = atomic_load(&d->send_fails), rf = atomic_load(&d->recv_fails);
			if (d->smode == SM_SHORT) {
				vf_stat("send_timeouts_or_cancels", sf);
			} else if (d->smode == SM_NONBLOCK) {
				vf_stat("send_eagain", sf);
			}
			if (d->rmode == RM_SHORT) {
				vf_stat("recv_timeouts_or_cancels", rf);
			} else if (d->rmode == RM_NONBLOCK) {
				vf_stat("recv_eagain", rf);
			}
			if (d->smode == SM_SHORT || d->smode == SM_NONBLOCK || d->rmode == RM_SHORT || d->rmode == RM_NONBLOCK) {
				vf_stat("delivered_with_failing_ops", d->n - atomic_load(&d->lost_at_cut));
			}
		}
		if (c->empty) {
			vf_stat("empty_msgs_delivered", c->d[0].ntot + c->d[1].ntot);
			vf_class("stream-empty/%s/%s", c->pk->name, vf_tran_names[c->tran]);
		}
		vf_stat("refused_pipes", refused);
		if (sa.maxlive == 1 && sb.maxlive == 1) {
			vf_stat("onepeer_cases_with_extras", (refused > 0 || refused_raw > 0) ? 1 : 0);
		}
		for (int k = 0; k < 2; k++) {
			dirst *d = &c->d[k];
			vf_class("stream/%s/%s/s%s%s/r%s/sb%d/rb%d%s", c->pk->name, vf_tran_names[c->tran],
			    smode_name(d), d->swin >= 16 ? "-wide" : "", rm_names[d->rmode],
			    c->sbuf[k] > 4 ? 5 : c->sbuf[k], c->rbuf[1 - k] > 4 ? 5 : c->rbuf[1 - k],
			    atomic_load(&c->sb_grown[k]) ? "/sbgrown" : "");
		}
		if ((idx % 16) == 0) {
			vf_sample("{\"mode\":\"stream\",\"proto\":\"%s\",\"tran\":\"%s\",\"msgs\":[%d,%d],\"sendbuf_end\":[%d,%d],\"recvbuf_end\":[%d,%d],\"sender\":[\"%s/%d\",\"%s/%d\"],\"receiver\":[\"%s\",\"%s\"],\"pauses\":[%d,%d],\"refused_pipes\":%ld,\"raw_extras_refused\":%ld,\"connection_replaced\":%d,\"lost_at_cut\":%ld}",
			    c->pk->name, vf_tran_names[c->tran], c->d[0].n, c->d[1].n, c->sbuf[0], c->sbuf[1],
			    c->rbuf[0], c->rbuf[1], smode_name(&c->d[0]), c->d[0].swin, smode_name(&c->d[1]),
			    c->d[1].swin, rm_names[c->d[0].rmode], rm_names[c->d[1].rmode], c->d[0].npause, c->d[1].npause,
			    refused, refused_raw, (int) atomic_load(&c->cut_done), lost);
		}
	} else {
		vf_stat("cases_aborted", 1);
	}
	for (int k = 0; k < c->nlsn; k++) {
		if (c->lsns[k].tran == VF_T_IPC) {
			unlink(c->lsns[k].url + 6);
		}
	}
	if (c->contend && xl.tran == VF_T_IPC) {
		unlink(xl.url + 6);
	}
	free(c);
}

// ======================================================================
// mode hop
// ======================================================================
static const uint32_t hop_special[] = { 0, 1, 2, 3, 4, 5, 6, 7, 8, 9, 10, 11, 12,
	13, 14, 15, 16, 254, 255, 256, 257, 0xffff, 0x10000, 0x7fffffff,
	0x80000000u, 0xffffffffu };
#define NSPECIAL ((int) (sizeof(hop_special) / sizeof(hop_special[0])))

typedef struct {
	int      kind; // 0 hop word frame, 1 short frame, 2 frame that is exactly one hop word (empty message)
	uint32_t hop;  // kind 2: 0 -> hop 0, 1 -> hop MAXTTL, 2 -> hop MAXTTL+1 (resolved when sent)
	int      shortlen;
	char     cls[24];
} hframe;

typedef struct {
	nng_socket  s;
	pmon        mon;
	lsn         l;
	bool        sraw, ipc;
	int         fd;
	int         ttl;
	uint64_t    rxseq;  // sequence of frames sent by the raw partner
	uint64_t    outseq; // sequence of messages sent by the socket
	long        conns;
	int         rcvbuf;
	const char *sname;
} hcase;

static const char *
hopname(uint32_t hop, char *buf, size_t sz)
{
	snprintf(buf, sz, "0x%x", hop);
	return buf;
}

static bool
hop_pipe_up(hcase *h)
{
	return mon_get(&h->mon).live == 1;
}

// (re)connect the raw partner and wait until the socket has attached it
static void
hop_connect(hcase *h)
{
	for (int attempt = 0; attempt < 200; attempt++) {
		uint16_t peer = 0;
		long     post = mon_get(&h->mon).post;
		int      fd   = lsn_raw_connect(&h->l);
		if (fd < 0) {
			vf_harness_fail("raw partner connect");
		}
		if (vf_sp_handshake(fd, 0x11, &peer, 10000) != 0) {
			close(fd);
			vf_stat("partner_retries", 1);
			vf_msleep(2);
			continue;
		}
		if (peer != 0x11) {
			vf_harness_fail("peer announced protocol %x", peer);
		}
		uint64_t end = vf_now_ns() + 10000ULL * 1000000ULL;
		bool     up  = false;
		while (vf_now_ns() < end) {
			if (mon_get(&h->mon).post > post) {
				up = true;
				break;
			}
			if (fd_is_closed(fd)) {
				break; // previous pipe not yet gone: refused, retry
			}
			vf_usleep(200);
		}
		if (up) {
			h->fd = fd;
			h->conns++;
			return;
		}
		close(fd);
		vf_stat("partner_retries", 1);
		vf_msleep(2);
	}
	vf_harness_fail("raw partner could not attach");
}

typedef struct {
	int      rc; // 0 got a well-formed message, 1 nothing within 10 s, 2 malformed body
	uint32_t tag;
	uint64_t seq;
	size_t   len;
	size_t   hlen;
	uint32_t hdr;
	nng_msg *msg;
} hrecv;

// infinite-timeout receive bounded by our own deadline (cancel after 10 s)
static nng_aio *
hop_recv_post(hcase *h)
{
	nng_aio *a = NULL;
	if (nng_aio_alloc(&a, NULL, NULL) != 0) {
		vf_harness_fail("aio alloc");
	}
	nng_aio_set_timeout(a, NNG_DURATION_INFINITE);
	nng_socket_recv(h->s, a);
	return a;
}

static hrecv
hop_recv_wait(nng_aio *a, int wait_ms)
{
	hrecv o;
	memset(&o, 0, sizeof(o));
	uint64_t end = vf_now_ns() + (uint64_t) wait_ms * 1000000ULL;
	while (nng_aio_busy(a) && vf_now_ns() < end) {
		vf_usleep(100);
	}
	if (nng_aio_busy(a)) {
		nng_aio_cancel(a);
	}
	nng_aio_wait(a);
	if (nng_aio_result(a) != 0) {
		o.rc = 1;
		nng_aio_free(a);
		return o;
	}
	o.msg = nng_aio_get_msg(a);
	nng_aio_free(a);
	o.len  = nng_msg_len(o.msg);
	o.hlen = nng_msg_header_len(o.msg);
	o.hdr  = o.hlen == 4 ? get32(nng_msg_header(o.msg)) : 0;
	if (vf_body_check(nng_msg_body(o.msg), o.len, &o.tag, &o.seq) != 0) {
		o.rc = 2;
	}
	return o;
}

static hrecv
hop_recv(hcase *h, int wait_ms)
{
	return hop_recv_wait(hop_recv_post(h), wait_ms);
}

static bool hop_outgoing(hcase *h, nng_msg *fwd, uint32_t inhop, vf_rng *r);
static void hop_connect(hcase *h);

// A burst: 3-6 frames (valid and over-TTL mixed, then a valid sentinel or a
// malformed frame) written back-to-back in one write before anything is
// received - so that over-TTL / malformed frames arrive while the receive
// queue holds messages or is full (RECVBUF 0..2 < burst), optionally while a
// receive is already parked and while the socket is sending.  Expected: the
// valid frames, in order, exactly; nothing else; a malformed last frame
// disconnects after the valid ones before it were delivered.
// returns false if the case must stop (verdict recorded)
typedef struct {
	uint32_t hop;
	uint64_t seq;
	size_t   len;
	int      kind; // 0 valid, 1 over-TTL, 2 malformed hop, 3 short frame
} bframe;

// message 'o' was delivered where valid frame #k of the burst is expected
// (first candidate #from); frees the message; false = verdict recorded
static bool
burst_judge(hcase *h, int tran, const char *pat, hrecv *o, const bframe *f, int n, int k, int from)
{
	bool ok = k < n && f[k].kind == 0 && o->rc == 0 && o->tag == TAG_HOP && o->seq == f[k].seq && o->len == f[k].len;
	if (!ok) {
		const char *key = "C08/order/foreign-message";
		if (o->rc == 0 && o->tag == TAG_INTRUDER) {
			key = "C08/one-peer/intruder-message-delivered";
		} else if (o->rc == 0 && o->tag == TAG_HOP) {
			key = (from < n && o->seq < f[from].seq) ? "C08/order/duplicate-or-late/hop-burst" : "C08/order/skipped-or-early/hop-burst";
			for (int j = 0; j < n; j++) {
				if (f[j].kind == 1 && f[j].seq == o->seq) {
					key = "C08/hop/over-ttl-delivered";
				} else if (f[j].kind == 2 && f[j].seq == o->seq) {
					key = "C08/hop/malformed-delivered/hop-over-0xff";
				} else if (f[j].kind == 0 && f[j].seq == o->seq && j < from) {
					key = "C08/order/duplicate-or-late/hop-burst";
				}
			}
		} else if (o->rc == 2 && pat[n - 1] == 'S') {
			key = "C08/hop/malformed-delivered/short-frame";
		}
		vf_violation(key,
		    "%s %s ttl=%d burst %s (recvbuf %d): expecting valid frame #%d or later, received tag %08x seq %llu len %zu rc %d",
		    h->sname, vf_tran_names[tran], h->ttl, pat, h->rcvbuf, from, o->tag, (unsigned long long) o->seq, o->len, o->rc);
		nng_msg_free(o->msg);
		return false;
	}
	if (h->sraw && (o->hlen != 4 || o->hdr != f[k].hop)) {
		vf_violation("C08/hop/raw-header-not-wire-hop",
		    "%s ttl=%d burst %s: frame with hop word %u delivered with header len %zu value %u", h->sname, h->ttl, pat, f[k].hop, o->hlen, o->hdr);
		nng_msg_free(o->msg);
		return false;
	}
	nng_msg_free(o->msg);
	return true;
}

static bool
hop_burst(hcase *h, vf_rng *r, int tran)
{
	bframe f[8];
	uint8_t buf[8 * (9 + 4 + VF_BODY_MIN + 64)];
	size_t  off = 0;
	char    pat[12];
	int     n        = (int) vf_range(r, 3, 6);
	bool    mal_last = vf_chance(r, 1, 4);
	bool    parked   = vf_chance(r, 1, 3);
	bool    sending  = !mal_last && vf_chance(r, 1, 3);
	int     nvalid = 0, ndrop = 0;
	// MAXTTL may change while the burst is in flight: frames are then chosen
	// so that their fate is the same under the old and the new limit
	bool    flip   = vf_chance(r, 1, 4);
	int     newttl = flip ? (int) vf_range(r, 1, 15) : h->ttl;
	int     lo     = newttl < h->ttl ? newttl : h->ttl;
	int     hi     = newttl > h->ttl ? newttl : h->ttl;
	for (int k = 0; k < n; k++) {
		bool last = k == n - 1;
		f[k].len  = VF_BODY_MIN + vf_below(r, 64);
		f[k].seq  = 0;
		if (last && mal_last) {
			f[k].kind = vf_chance(r, 1, 3) ? 3 : 2;
			f[k].hop  = vf_chance(r, 1, 2) ? 0x100u + vf_below(r, 0x100) : ((uint32_t) vf_rand(r) | 0x100u);
			if (f[k].kind == 3) {
				f[k].len = vf_below(r, 4);
			}
		} else if (last || vf_chance(r, 1, 2)) {
			f[k].kind = 0;
			f[k].hop  = vf_below(r, (uint32_t) lo + 1);
		} else {
			f[k].kind = 1;
			f[k].hop  = vf_range(r, (uint32_t) hi + 1, 0xff);
		}
		if (f[k].kind != 3) {
			f[k].seq = h->rxseq++;
		}
		pat[k] = "VDMS"[f[k].kind];
		nvalid += f[k].kind == 0;
		ndrop += f[k].kind == 1;
		// frame: [ipc: 1][8-byte length][payload]
		size_t plen = f[k].kind == 3 ? f[k].len : 4 + f[k].len;
		if (h->ipc) {
			buf[off++] = 1;
		}
		for (int b = 7; b >= 0; b--) {
			buf[off++] = (uint8_t) ((uint64_t) plen >> (8 * b));
		}
		if (f[k].kind == 3) {
			memset(buf + off, 0, plen);
		} else {
			put32(buf + off, f[k].hop);
			vf_body_make(buf + off + 4, f[k].len, TAG_HOP, f[k].seq);
		}
		off += plen;
	}
	pat[n] = 0;
	nng_aio *pre = parked ? hop_recv_post(h) : NULL;
	if (parked) {
		vf_usleep((int) vf_below(r, 500)); // give it a chance to be parked
	}
	if (vf_fd_write_all(h->fd, buf, off, 5000) != 0) {
		vf_harness_fail("raw partner burst write");
	}
	if (flip) {
		h->ttl = newttl;
		if (nng_socket_set_int(h->s, NNG_OPT_MAXTTL, h->ttl) != 0) {
			vf_harness_fail("set maxttl");
		}
		vf_stat("bursts_with_maxttl_change_in_flight", 1);
	}
	if (sending && !hop_outgoing(h, NULL, 0, r)) {
		if (pre != NULL) {
			nng_aio_stop(pre);
			if (nng_aio_result(pre) == 0) {
				nng_msg_free(nng_aio_get_msg(pre));
			}
			nng_aio_free(pre);
		}
		return false;
	}
	bool dropped_before = false;
	int  delivered = 0;
	for (int k = 0; k < n && !mal_last; k++) {
		// the connection stays up: every valid frame, in order, exactly
		if (f[k].kind == 1) {
			dropped_before = true;
		}
		if (f[k].kind != 0) {
			continue;
		}
		hrecv o = pre != NULL ? hop_recv_wait(pre, 10000) : hop_recv(h, 10000);
		pre     = NULL;
		if (o.rc == 1) {
			bool closed = vf_fd_wait_eof(h->fd, 50) != 0;
			vf_violation(!dropped_before ? "C08/hop/within-ttl-not-delivered" : closed ? "C08/hop/over-ttl-disconnected" : "C08/hop/valid-frame-after-drop-not-delivered",
			    "%s %s ttl=%d burst %s (recvbuf %d): valid frame #%d (hop %u) not delivered within 10 s; connection %s",
			    h->sname, vf_tran_names[tran], h->ttl, pat, h->rcvbuf, k, f[k].hop, closed ? "was closed by the socket" : "still open");
			return false;
		}
		if (!burst_judge(h, tran, pat, &o, f, n, k, k)) {
			return false;
		}
		delivered++;
	}
	if (mal_last) {
		// The malformed last frame ends the connection; what was sent
		// before it may or may not make it (the connection does not stay
		// up), but whatever is delivered is an in-order, duplicate-free
		// selection of the valid frames - never a dropped or the malformed
		// one - and the sender is disconnected.  The socket reads on only
		// as the application drains, so drain while waiting for EOF.
		bool     shortf = f[n - 1].kind == 3;
		int      next   = 0;
		bool     closed = false;
		uint64_t end    = vf_now_ns() + 10000ULL * 1000000ULL;
		for (;;) {
			hrecv o = pre != NULL ? hop_recv_wait(pre, 20) : hop_recv(h, closed ? 0 : delivered >= nvalid ? 1 : 20);
			pre     = NULL;
			if (o.rc != 1) {
				int j = next;
				while (j < n && !(f[j].kind == 0 && o.rc == 0 && o.tag == TAG_HOP && o.seq == f[j].seq)) {
					j++;
				}
				if (!burst_judge(h, tran, pat, &o, f, n, j < n ? j : next, next)) {
					return false;
				}
				next = j + 1;
				delivered++;
				continue;
			}
			if (closed) {
				break; // closed, quiescent, and nothing more to take
			}
			if (fd_is_closed(h->fd)) {
				closed = true;
				vf_quiesce(1, 3000);
				continue;
			}
			if (vf_now_ns() > end) {
				vf_violation(shortf ? "C08/hop/malformed-not-disconnected/short-frame" : "C08/hop/malformed-not-disconnected/hop-over-0xff",
				    "%s %s ttl=%d burst %s: sender still connected 10 s after the malformed last frame (application drained %d messages)",
				    h->sname, vf_tran_names[tran], h->ttl, pat, delivered);
				return false;
			}
		}
		close(h->fd);
		h->fd = -1;
		hop_connect(h);
		vf_stat("burst_malformed_last_verified", 1);
		if (delivered == nvalid) {
			vf_stat("burst_malformed_last_all_valid_delivered", 1);
		}
	}
	vf_stat("bursts_verified", 1);
	vf_stat("burst_frames_judged", n);
	vf_stat("burst_drops_verified", ndrop);
	if (parked) {
		vf_stat("bursts_with_parked_receive", 1);
	}
	if (sending) {
		vf_stat("bursts_while_sending", 1);
	}
	if (nvalid > h->rcvbuf + 1) {
		vf_stat("bursts_overrunning_recvbuf", 1);
	}
	vf_class("burst/%s/rb%d/%s%s%s", h->sname, h->rcvbuf, pat, parked ? "/parked" : "", sending ? "/sending" : "");
	return true;
}

// A raw PAIRv1 socket must refuse a send whose header is not exactly one hop
// word below 0xff (what it would put on the wire is a malformed frame that
// makes the PEER hang up): the call fails, the message stays with the caller
// and nothing reaches the wire (the caller's next legal send is the next
// frame the raw partner reads - checked by hop_outgoing right behind).
static bool
hop_refused_send(hcase *h, vf_rng *r)
{
	static const char *vn[] = { "hop-0xff", "hop-0x100", "hop-0xffffffff", "no-header", "two-word-header" };
	int      v = (int) vf_below(r, 5);
	nng_msg *m;
	size_t   blen = VF_BODY_MIN + vf_below(r, 60);
	if (nng_msg_alloc(&m, blen) != 0) {
		vf_harness_fail("msg alloc");
	}
	vf_body_make(nng_msg_body(m), blen, TAG_INTRUDER, 99);
	switch (v) {
	case 0: nng_msg_header_append_u32(m, 0xff); break;
	case 1: nng_msg_header_append_u32(m, 0x100); break;
	case 2: nng_msg_header_append_u32(m, 0xffffffffu); break;
	case 3: break;
	default:
		nng_msg_header_append_u32(m, 1);
		nng_msg_header_append_u32(m, 1);
		break;
	}
	int rv;
	if (vf_chance(r, 1, 2)) {
		rv = nng_sendmsg(h->s, m, vf_chance(r, 1, 2) ? NNG_FLAG_NONBLOCK : 0);
	} else {
		nng_aio *a = NULL;
		if (nng_aio_alloc(&a, NULL, NULL) != 0) {
			vf_harness_fail("aio alloc");
		}
		nng_aio_set_msg(a, m);
		nng_socket_send(h->s, a);
		nng_aio_wait(a);
		rv = (int) nng_aio_result(a);
		if (rv != 0 && nng_aio_get_msg(a) != m) {
			vf_violation("C08/lossless/failed-send-took-message",
			    "%s: raw send with %s failed with %s but the message is no longer attached to the aio",
			    h->sname, vn[v], nng_strerror(rv));
			nng_aio_free(a);
			return false;
		}
		nng_aio_free(a);
	}
	if (rv == 0) {
		char key[96];
		snprintf(key, sizeof(key), "C08/hop/outgoing-hop-word/raw-send-accepted-%s", vn[v]);
		vf_violation(key,
		    "%s: a raw send whose header is %s was accepted (the frame it puts on the wire cannot carry a hop count <= 0xff)",
		    h->sname, vn[v]);
		return false;
	}
	nng_msg_free(m); // still ours: a second free inside the library is an ASan report
	if (rv != NNG_EPROTO) {
		vf_stat("raw_send_refusals_other_error", 1);
	}
	vf_stat("raw_send_refusals_verified", 1);
	vf_class("out/%s/refused/%s", h->sname, vn[v]);
	return true;
}

// The socket sends; the raw partner must read hop word 'want'.
// returns false if the case must stop
static bool
hop_outgoing(hcase *h, nng_msg *fwd, uint32_t inhop, vf_rng *r)
{
	uint8_t     buf[4 + 512];
	nng_msg    *m;
	uint32_t    want, tag = 0;
	uint64_t    seq = 0;
	size_t      blen;
	const char *how;
	bool        refused_before = false;
	if (fwd != NULL) {
		m    = fwd;
		blen = nng_msg_len(m);
		if (blen != 0 && vf_body_check(nng_msg_body(m), blen, &tag, &seq) != 0) {
			vf_harness_fail("forward body");
		}
		if (h->sraw) {
			// raw socket forwards what it received: header h -> wire h+1
			want = inhop + 1;
			how  = "forward";
		} else {
			// cooked socket sends a received message back (the reply
			// idiom): whatever header it carries, the wire hop is 1
			want = 1;
			how  = "cooked-resend";
		}
	} else {
		if (h->sraw && vf_chance(r, 1, 8)) {
			if (!hop_refused_send(h, r)) {
				return false;
			}
			refused_before = true;
		}
		blen = VF_BODY_MIN + vf_below(r, 100);
		seq  = h->outseq++;
		tag  = TAG_OUT;
		if (nng_msg_alloc(&m, blen) != 0) {
			vf_harness_fail("msg alloc");
		}
		vf_body_make(nng_msg_body(m), blen, tag, seq);
		if (h->sraw) {
			uint32_t hh = vf_chance(r, 1, 4) ? 0xfe : vf_below(r, 0xff);
			nng_msg_header_append_u32(m, hh);
			want = hh + 1;
			how  = "raw-send";
		} else {
			want = 1;
			how  = "cooked-send";
		}
	}
	int rv = nng_sendmsg(h->s, m, 0);
	if (rv != 0) {
		nng_msg_free(m);
		vf_harness_fail("hop: send on the socket failed: %s (want hop %u)", nng_strerror(rv), want);
	}
	long n = vf_sp_recv_frame(h->fd, h->ipc, buf, sizeof(buf), 10000);
	if (n < 0) {
		if (hop_pipe_up(h)) {
			vf_violation("C08/lossless/accepted-not-delivered",
			    "%s: %s: message accepted by nng_sendmsg never reached the raw partner (rc %ld) although the connection is up",
			    h->sname, how, n);
		}
		return false;
	}
	uint32_t t2 = 0;
	uint64_t s2 = 0;
	bool     same;
	if (blen == 0) {
		same = n == 4;
	} else {
		same = n >= 4 && vf_body_check(buf + 4, (size_t) n - 4, &t2, &s2) == 0 && t2 == tag && s2 == seq && (size_t) n - 4 == blen;
	}
	if (!same) {
		vf_violation(refused_before && t2 == TAG_INTRUDER ? "C08/lossless/failed-send-was-sent" : "C08/order/wire-frame-mismatch",
		    "%s: %s: raw partner read a frame of %ld bytes that is not hop word + the body sent (tag %08x seq %llu, %zu body bytes sent%s)",
		    h->sname, how, n, t2, (unsigned long long) s2, blen, refused_before ? "; a refused send preceded it" : "");
		return false;
	}
	uint32_t got = get32(buf);
	if (got != want) {
		vf_violation(fwd != NULL && h->sraw ? "C08/hop/outgoing-hop-word/forward" : h->sraw ? "C08/hop/outgoing-hop-word/raw-send" : "C08/hop/outgoing-hop-word/cooked-send",
		    "%s: %s: hop word on the wire is %u, expected %u", h->sname, how, got, want);
		return false;
	}
	vf_stat("outgoing_hop_checked", 1);
	if (fwd != NULL && !h->sraw) {
		vf_stat("cooked_resend_of_received_checked", 1);
	}
	if (blen == 0) {
		vf_stat("empty_body_sends_checked", 1);
	}
	vf_class("out/%s/%s%s", h->sname, fwd != NULL ? (h->sraw ? "forward" : "resend") : want == 1 ? "hop1" : want == 0xff ? "hop255" : "hopN", blen == 0 ? "/empty" : "");
	return true;
}

static bool
hop_send_frame(hcase *h, uint32_t hop, uint64_t seq, size_t blen)
{
	uint8_t buf[4 + 512];
	put32(buf, hop);
	if (blen != 0) {
		vf_body_make(buf + 4, blen, TAG_HOP, seq);
	}
	return vf_sp_send_frame(h->fd, h->ipc, buf, 4 + blen) == 0;
}

static void
hop_case(long idx, int ttl0, bool sraw, int tran, vf_rng *r)
{
	hcase  h;
	hframe fr[NSPECIAL + 4 + 3 + 24];
	int    nf = 0, rv;
	bool   thorough = vf_tier == 1;
	char   hn[16];
	memset(&h, 0, sizeof(h));
	h.sraw  = sraw;
	h.ipc   = tran == VF_T_IPC;
	h.sname = sraw ? "pair1raw" : "pair1";
	h.ttl   = ttl0;
	h.fd    = -1;
	int pert = (int) vf_below(r, 3);
	vf_case_begin(idx, "hop %s %s ttl=%d pert=%d", h.sname, vf_tran_names[tran], ttl0, pert);
	vf_watchdog(180);
	if (pert == 1) {
		vf_pt_jitter(vf_rand(r), (int) vf_range(r, 5, 60), (int) vf_range(r, 20, 300));
	} else if (pert == 2) {
		vf_pt_jitter(vf_rand(r), 5, 50);
	} else {
		vf_pt_off();
	}
	if ((sraw ? nng_pair1_open_raw(&h.s) : nng_pair1_open(&h.s)) != 0) {
		vf_harness_fail("open");
	}
	mon_attach(h.s, &h.mon, h.sname);
	nng_socket_set_ms(h.s, NNG_OPT_SENDTIMEO, NNG_DURATION_INFINITE);
	nng_socket_set_ms(h.s, NNG_OPT_RECVTIMEO, NNG_DURATION_INFINITE);
	nng_socket_set_int(h.s, NNG_OPT_SENDBUF, (int) vf_below(r, 3));
	h.rcvbuf = (int) vf_below(r, 3);
	nng_socket_set_int(h.s, NNG_OPT_RECVBUF, h.rcvbuf);
	if ((rv = nng_socket_set_int(h.s, NNG_OPT_MAXTTL, h.ttl)) != 0) {
		vf_harness_fail("set maxttl %d: %s", h.ttl, nng_strerror(rv));
	}
	if ((rv = lsn_open(h.s, 0, tran, &h.l)) != 0) {
		vf_harness_fail("listen: %s", nng_strerror(rv));
	}
	hop_connect(&h);

	for (int k = 0; k < NSPECIAL; k++) {
		fr[nf].kind = 0;
		fr[nf].hop  = hop_special[k];
		snprintf(fr[nf].cls, sizeof(fr[nf].cls), "%s", hopname(hop_special[k], hn, sizeof(hn)));
		nf++;
	}
	for (int k = 0; k < 4; k++) {
		fr[nf].kind     = 1;
		fr[nf].shortlen = k;
		snprintf(fr[nf].cls, sizeof(fr[nf].cls), "short%d", k);
		nf++;
	}
	for (int k = 0; k < 3; k++) {
		static const char *hn3[] = { "hoponly-0", "hoponly-ttl", "hoponly-ttl+1" };
		fr[nf].kind = 2;
		fr[nf].hop  = (uint32_t) k;
		snprintf(fr[nf].cls, sizeof(fr[nf].cls), "%s", hn3[k]);
		nf++;
	}
	int nrand = thorough ? 20 : 10;
	for (int k = 0; k < nrand; k++) {
		fr[nf].kind = 0;
		if (k & 1) {
			fr[nf].hop = (uint32_t) vf_rand(r);
			snprintf(fr[nf].cls, sizeof(fr[nf].cls), fr[nf].hop > 0xff ? "rand32" : "rand8");
		} else {
			fr[nf].hop = vf_below(r, 256);
			snprintf(fr[nf].cls, sizeof(fr[nf].cls), "rand8");
		}
		nf++;
	}
	for (int k = nf - 1; k > 0; k--) { // shuffle
		int    j = (int) vf_below(r, (uint32_t) k + 1);
		hframe t = fr[k];
		fr[k]    = fr[j];
		fr[j]    = t;
	}

	bool stop = false;
	for (int k = 0; k < nf && !stop; k++) {
		hframe *f = &fr[k];
		if (vf_chance(r, 1, 5)) {
			h.ttl = (int) vf_range(r, 1, 15);
			if (nng_socket_set_int(h.s, NNG_OPT_MAXTTL, h.ttl) != 0) {
				vf_harness_fail("set maxttl");
			}
		}
		if (vf_chance(r, 1, 12)) {
			if (raw_extra(&h.l, 0x11, true, true, h.sname)) {
				vf_class("refused/raw/%s/%s/partner-is-raw", h.sname, vf_tran_names[tran]);
			}
		}
		bool hoponly = f->kind == 2;
		if (hoponly) {
			// boundary: the frame is exactly the hop word, a legal empty message
			f->hop = f->hop == 0 ? 0 : f->hop == 1 ? (uint32_t) h.ttl : (uint32_t) h.ttl + 1;
		}
		bool malformed = f->kind == 1 || f->hop > 0xff;
		bool dropped   = !malformed && (int) f->hop > h.ttl;
		size_t   blen  = hoponly ? 0 : VF_BODY_MIN + vf_below(r, 200);
		uint64_t seq   = 0;
		const char *outcome;
		if (f->kind == 1) {
			uint8_t junk[4] = { 0, 0, 0, 1 };
			if (vf_sp_send_frame(h.fd, h.ipc, junk, (size_t) f->shortlen) != 0) {
				vf_harness_fail("raw partner write");
			}
		} else {
			seq = hoponly ? 0 : h.rxseq++;
			if (!hop_send_frame(&h, f->hop, seq, blen)) {
				vf_harness_fail("raw partner write");
			}
		}
		if (malformed) {
			outcome = "disconnect";
			if (!vf_fd_wait_eof(h.fd, 10000)) {
				vf_violation(f->kind == 1 ? "C08/hop/malformed-not-disconnected/short-frame" : "C08/hop/malformed-not-disconnected/hop-over-0xff",
				    "%s %s ttl=%d: %s: sender still connected after 10 s", h.sname, vf_tran_names[tran], h.ttl,
				    f->kind == 1 ? "frame shorter than a hop word" : hopname(f->hop, hn, sizeof(hn)));
				stop = true;
			}
			vf_quiesce(1, 3000);
			hrecv o = hop_recv(&h, 0);
			if (o.rc != 1) {
				vf_violation(f->kind == 1 ? "C08/hop/malformed-delivered/short-frame" : "C08/hop/malformed-delivered/hop-over-0xff",
				    "%s %s ttl=%d: %s (%d payload bytes): a message of %zu bytes was delivered (tag %08x seq %llu)",
				    h.sname, vf_tran_names[tran], h.ttl, f->kind == 1 ? "short frame" : hopname(f->hop, hn, sizeof(hn)),
				    f->kind == 1 ? f->shortlen : (int) (4 + blen), o.len, o.tag, (unsigned long long) o.seq);
				nng_msg_free(o.msg);
				stop = true;
			}
			if (!stop) {
				vf_stat("malformed_disconnects_verified", 1);
				close(h.fd);
				h.fd = -1;
				hop_connect(&h);
			}
		} else if (dropped) {
			outcome = "drop";
			// a valid frame right behind it must be the next delivery
			uint32_t vhop = vf_below(r, (uint32_t) h.ttl + 1);
			uint64_t vseq = h.rxseq++;
			size_t   vlen = VF_BODY_MIN + vf_below(r, 64);
			// (if this write fails the socket has hung up: reported below)
			(void) hop_send_frame(&h, vhop, vseq, vlen);
			hrecv o = hop_recv(&h, 10000);
			if (o.rc == 1) {
				bool closed = vf_fd_wait_eof(h.fd, 50) != 0;
				vf_violation(closed ? "C08/hop/over-ttl-disconnected" : "C08/hop/valid-frame-after-drop-not-delivered",
				    "%s %s ttl=%d hop=%u: the valid frame (hop %u) sent behind the over-TTL frame was not delivered within 10 s; connection %s",
				    h.sname, vf_tran_names[tran], h.ttl, f->hop, vhop, closed ? "was closed by the socket" : "still open");
				stop = true;
			} else if (hoponly ? o.len == 0 : (o.rc == 0 && o.tag == TAG_HOP && o.seq == seq)) {
				vf_violation("C08/hop/over-ttl-delivered",
				    "%s %s ttl=%d: frame with hop word %u (> MAXTTL) was delivered", h.sname, vf_tran_names[tran], h.ttl, f->hop);
				nng_msg_free(o.msg);
				stop = true;
			} else if (o.rc != 0 || o.tag != TAG_HOP || o.seq != vseq || o.len != vlen) {
				if (!(o.rc == 0 && o.tag == TAG_INTRUDER)) {
					vf_violation("C08/order/foreign-message",
					    "%s %s ttl=%d: expected seq %llu after a dropped frame, received tag %08x seq %llu len %zu rc %d",
					    h.sname, vf_tran_names[tran], h.ttl, (unsigned long long) vseq, o.tag, (unsigned long long) o.seq, o.len, o.rc);
				} else {
					vf_violation("C08/one-peer/intruder-message-delivered",
					    "%s %s: a frame sent by an extra raw peer was delivered", h.sname, vf_tran_names[tran]);
				}
				nng_msg_free(o.msg);
				stop = true;
			} else {
				if (h.sraw && (o.hlen != 4 || o.hdr != vhop)) {
					vf_violation("C08/hop/raw-header-not-wire-hop",
					    "%s ttl=%d: frame with hop word %u delivered with header len %zu value %u", h.sname, h.ttl, vhop, o.hlen, o.hdr);
					stop = true;
				}
				nng_msg_free(o.msg);
				vf_stat("over_ttl_drops_verified", 1);
			}
		} else {
			outcome = "deliver";
			hrecv o = hop_recv(&h, 10000);
			if (o.rc == 1) {
				bool closed = vf_fd_wait_eof(h.fd, 50) != 0;
				vf_violation("C08/hop/within-ttl-not-delivered",
				    "%s %s ttl=%d: frame with hop word %u (<= MAXTTL) not delivered within 10 s; connection %s",
				    h.sname, vf_tran_names[tran], h.ttl, f->hop, closed ? "was closed by the socket" : "still open");
				stop = true;
			} else if (hoponly ? o.len != 0 : (o.rc != 0 || o.tag != TAG_HOP || o.seq != seq || o.len != blen)) {
				vf_violation(o.rc == 0 && o.tag == TAG_INTRUDER ? "C08/one-peer/intruder-message-delivered" : "C08/order/foreign-message",
				    "%s %s ttl=%d hop=%u: expected seq %llu (%zu bytes), received tag %08x seq %llu len %zu rc %d",
				    h.sname, vf_tran_names[tran], h.ttl, f->hop, (unsigned long long) seq, blen, o.tag, (unsigned long long) o.seq, o.len, o.rc);
				nng_msg_free(o.msg);
				stop = true;
			} else {
				bool fwd = false;
				if (h.sraw && (o.hlen != 4 || o.hdr != f->hop)) {
					vf_violation("C08/hop/raw-header-not-wire-hop",
					    "%s ttl=%d: frame with hop word %u delivered with header len %zu value %u", h.sname, h.ttl, f->hop, o.hlen, o.hdr);
					stop = true;
				} else if (vf_chance(r, 1, 2)) {
					// raw: forward it; cooked: send the received message back
					fwd = true;
					if (!hop_outgoing(&h, o.msg, f->hop, r)) {
						stop = true;
					}
				}
				if (!fwd) {
					nng_msg_free(o.msg);
				}
				vf_stat("within_ttl_delivered", 1);
			}
		}
		if (!stop && vf_chance(r, 1, 4)) {
			if (!hop_outgoing(&h, NULL, 0, r)) {
				stop = true;
			}
		}
		if (!stop && vf_chance(r, 1, 5)) {
			if (!hop_burst(&h, r, tran)) {
				stop = true;
			}
		}
		if (!stop && hoponly) {
			vf_stat("hop_only_frames_verified", 1);
		}
		if (!stop) {
			vf_stat("frames_judged", 1);
			vf_class("hop/%s/ttl%d/%s/%s", f->cls, h.ttl, h.sname, outcome);
			if (f->kind != 1 && (int) f->hop == h.ttl) {
				vf_stat("hop_equals_ttl_delivered", 1);
			}
			if (f->kind != 1 && (int) f->hop == h.ttl + 1 && f->hop <= 0xff) {
				vf_stat("hop_ttl_plus_one_dropped", 1);
			}
		}
	}
	monsnap ms = mon_get(&h.mon);
	if (h.fd >= 0) {
		close(h.fd);
	}
	nng_socket_close(h.s);
	vf_pt_off();
	if (h.ipc) {
		unlink(h.l.url + 6);
	}
	if (!stop) {
		vf_stat("cases", 1);
		vf_stat("hop_cases", 1);
		vf_stat("hop_connections", h.conns);
		vf_stat("refused_pipes", ms.rem_refused);
		if ((idx % 8) == 0) {
			vf_sample("{\"mode\":\"hop\",\"socket\":\"%s\",\"tran\":\"%s\",\"maxttl_start\":%d,\"frames\":%d,\"connections\":%ld,\"last_frame\":\"%s\"}",
			    h.sname, vf_tran_names[tran], ttl0, nf, h.conns, fr[nf - 1].cls);
		}
	} else {
		// one verdict per worker is enough; every further frame against
		// a broken library would cost another 10 s deadline
		vf_stat("cases_aborted", 1);
		int code = vf_finish();
		_exit(code != 0 ? code : 1);
	}
}

// ======================================================================
// contended start (part of mode stream): several peers compete for the FREE
// slot of a socket that has no peer yet
// ======================================================================
// Socket A (pair0, pair0 raw, pair1, pair1 raw) listens on 1-3 transports;
// 3-6 contenders (nng PAIR dialers that keep redialling, raw peers that
// complete the handshake) are released together, each sends 2-3 messages
// with its own tag.  As long as the pipe that got the slot stays attached:
//  - never two pipes attached (pipe monitor),
//  - every message A delivers carries ONE tag (the winner's), in order,
//    complete, from the attached pipe; nothing else, ever,
//  - the one message A sends is received by the winner and by nobody else,
//  - every losing raw peer is closed without having seen a byte.
typedef struct {
	int          kind; // 0 nng dialer, 1 raw peer
	int          k;
	const lsn   *l;
	const pkind *pk;
	int          nmsg, delay_us;
	bool         blocking_start;
	pthread_barrier_t *bar;
	pthread_t    th;
	// nng
	nng_socket   s;
	nng_dialer   dl;
	nng_aio     *raio;
	pmon         mon;
	// raw
	int          fd;
	int          outcome; // 1 EOF without data, 2 data, 0 neither within 10 s, 3 closed in handshake, -1 no connection
	bool         got_hello, bad_data;
} cont;

static nng_msg *
cont_msg(const pkind *pk, bool raw, uint32_t tag, uint64_t seq)
{
	nng_msg *m;
	if (nng_msg_alloc(&m, 40) != 0) {
		vf_harness_fail("msg alloc");
	}
	vf_body_make(nng_msg_body(m), 40, tag, seq);
	if (raw && pk->v1) {
		nng_msg_header_append_u32(m, 0);
	}
	return m;
}

static void *
cont_thread(void *arg)
{
	cont *x = arg;
	pthread_barrier_wait(x->bar);
	if (x->delay_us > 0) {
		vf_usleep(x->delay_us);
	}
	if (x->kind == 0) {
		int rv = nng_dialer_start(x->dl, x->blocking_start ? 0 : NNG_FLAG_NONBLOCK);
		if (rv != 0) {
			vf_stat("contender_dial_first_attempt_failed", 1); // (keeps redialling all the same)
		}
		for (int j = 0; j < x->nmsg; j++) {
			nng_msg *m = cont_msg(x->pk, false, TAG_CONT + (uint32_t) x->k, (uint64_t) j);
			if ((rv = nng_sendmsg(x->s, m, NNG_FLAG_NONBLOCK)) != 0) {
				nng_msg_free(m);
				vf_harness_fail("contender send: %s", nng_strerror(rv));
			}
		}
		return NULL;
	}
	uint16_t peer = 0;
	uint8_t  buf[4 + 256];
	bool     ipc = x->l->tran == VF_T_IPC;
	x->fd        = lsn_raw_connect(x->l);
	if (x->fd < 0) {
		x->outcome = -1;
		return NULL;
	}
	if (vf_sp_handshake(x->fd, x->pk->id, &peer, 10000) != 0) {
		x->outcome = 3;
		return NULL;
	}
	for (int j = 0; j < x->nmsg; j++) {
		size_t off = 0;
		if (x->pk->v1) {
			put32(buf, 1);
			off = 4;
		}
		vf_body_make(buf + off, 40, TAG_CONT + (uint32_t) x->k, (uint64_t) j);
		(void) vf_sp_send_frame(x->fd, ipc, buf, off + 40);
	}
	// EOF (refused), or data: only the winner may ever see any
	uint64_t end = vf_now_ns() + 10000ULL * 1000000ULL;
	for (;;) {
		int64_t left = ((int64_t) end - (int64_t) vf_now_ns()) / 1000000;
		if (left <= 0) {
			x->outcome = 0;
			return NULL;
		}
		struct pollfd pf = { x->fd, POLLIN, 0 };
		int           pr = poll(&pf, 1, (int) left);
		if (pr < 0 && errno == EINTR) {
			continue;
		}
		if (pr <= 0) {
			x->outcome = 0;
			return NULL;
		}
		uint8_t b;
		ssize_t n = recv(x->fd, &b, 1, MSG_PEEK | MSG_DONTWAIT);
		if (n == 0 || (n < 0 && errno != EAGAIN && errno != EINTR)) {
			x->outcome = 1;
			return NULL;
		}
		if (n > 0) {
			break;
		}
	}
	x->outcome = 2;
	long n = vf_sp_recv_frame(x->fd, ipc, buf, sizeof(buf), 10000);
	size_t   off = x->pk->v1 ? 4 : 0;
	uint32_t tag = 0;
	uint64_t seq = 0;
	if (n >= (long) off && vf_body_check(buf + off, (size_t) n - off, &tag, &seq) == 0 && tag == TAG_HELLO) {
		x->got_hello = true;
	} else {
		x->bad_data = true;
	}
	return NULL;
}

static void
contend_case(long idx, vf_rng *r)
{
	static const int apk[] = { 0, 1, 2, 3 }; // pair0, pair0raw, pair1, pair1raw
	const pkind     *pk   = &pkinds[apk[vf_below(r, 4)]];
	bool             araw = pk->open_a == nng_pair0_open_raw || pk->open_a == nng_pair1_open_raw;
	nng_socket       a;
	pmon             ma;
	lsn              ls[3];
	cont             x[6];
	int              nl = (int) vf_range(r, 1, 3), nc = (int) vf_range(r, 3, 6);
	int              pert = (int) vf_below(r, 3), rv;
	int              nmsg = (int) vf_range(r, 2, 3);
	pthread_barrier_t bar;
	vf_case_begin(idx, "contended start %s listeners=%d contenders=%d pert=%d", pk->name, nl, nc, pert);
	vf_watchdog(180);
	if (pert == 1) {
		vf_pt_jitter(vf_rand(r), (int) vf_range(r, 5, 60), (int) vf_range(r, 20, 300));
	} else if (pert == 2) {
		vf_pt_jitter(vf_rand(r), 5, 50);
	} else {
		vf_pt_off();
	}
	if (pk->open_a(&a) != 0) {
		vf_harness_fail("open");
	}
	mon_attach(a, &ma, pk->name);
	nng_socket_set_ms(a, NNG_OPT_SENDTIMEO, NNG_DURATION_INFINITE);
	nng_socket_set_ms(a, NNG_OPT_RECVTIMEO, NNG_DURATION_INFINITE);
	nng_socket_set_int(a, NNG_OPT_SENDBUF, (int) vf_below(r, 5));
	nng_socket_set_int(a, NNG_OPT_RECVBUF, (int) vf_below(r, 5));
	if (pk->v1) {
		nng_socket_set_int(a, NNG_OPT_MAXTTL, 15);
	}
	bool has_stream_lsn = false;
	for (int k = 0; k < nl; k++) {
		if ((rv = lsn_open(a, 0, (int) vf_below(r, 3), &ls[k])) != 0) {
			vf_harness_fail("listen: %s", nng_strerror(rv));
		}
		has_stream_lsn = has_stream_lsn || ls[k].tran != VF_T_INPROC;
	}
	pthread_barrier_init(&bar, NULL, (unsigned) nc + 1);
	int nraw = 0;
	for (int k = 0; k < nc; k++) {
		cont *c = &x[k];
		memset(c, 0, sizeof(*c));
		c->k    = k;
		c->pk   = pk;
		c->bar  = &bar;
		c->nmsg = nmsg;
		c->fd   = -1;
		c->l    = &ls[vf_below(r, (uint32_t) nl)];
		c->kind = (int) vf_below(r, 2);
		if (c->kind == 1 && c->l->tran == VF_T_INPROC) {
			// raw peers need a stream transport
			for (int t = 0; t < nl && has_stream_lsn; t++) {
				if (ls[t].tran != VF_T_INPROC) {
					c->l = &ls[t];
				}
			}
			if (c->l->tran == VF_T_INPROC) {
				c->kind = 0;
			}
		}
		c->delay_us       = vf_chance(r, 2, 3) ? 0 : (int) vf_below(r, 400);
		c->blocking_start = vf_chance(r, 1, 2);
		if (c->kind == 0) {
			if ((pk->v1 ? nng_pair1_open(&c->s) : nng_pair0_open(&c->s)) != 0) {
				vf_harness_fail("open contender");
			}
			mon_attach(c->s, &c->mon, pk->name);
			nng_socket_set_ms(c->s, NNG_OPT_RECONNMINT, (nng_duration) vf_range(r, 10, 50));
			nng_socket_set_ms(c->s, NNG_OPT_RECONNMAXT, 60);
			nng_socket_set_int(c->s, NNG_OPT_SENDBUF, 4);
			if (nng_aio_alloc(&c->raio, NULL, NULL) != 0) {
				vf_harness_fail("aio alloc");
			}
			nng_aio_set_timeout(c->raio, NNG_DURATION_INFINITE);
			nng_socket_recv(c->s, c->raio);
			if ((rv = nng_dialer_create(&c->dl, c->s, c->l->url)) != 0) {
				vf_harness_fail("dialer create %s: %s", c->l->url, nng_strerror(rv));
			}
		} else {
			nraw++;
		}
		pthread_create(&c->th, NULL, cont_thread, c);
	}
	pthread_barrier_wait(&bar);
	if (!mon_wait_post(&ma, 1, 10000)) {
		vf_harness_fail("contended start: nobody was attached within 10 s");
	}
	// the one message A sends
	nng_msg *hello = cont_msg(pk, araw, TAG_HELLO, 0);
	if ((rv = nng_sendmsg(a, hello, 0)) != 0) {
		nng_msg_free(hello);
		vf_harness_fail("contended start: send on A: %s", nng_strerror(rv));
	}
	for (int k = 0; k < nc; k++) {
		pthread_join(x[k].th, NULL);
	}
	// what A delivers: one tag, seq 0..nmsg-1, from the attached pipe
	const char *vkey = NULL; // verdicts are held back until the slot holder is known to have stayed
	char        vtxt[256] = "";
	int         winner = -1;
	long        got    = 0;
	for (int j = 0; j < nmsg && vkey == NULL; j++) {
		nng_aio *ra = NULL;
		if (nng_aio_alloc(&ra, NULL, NULL) != 0) {
			vf_harness_fail("aio alloc");
		}
		nng_aio_set_timeout(ra, NNG_DURATION_INFINITE);
		nng_socket_recv(a, ra);
		hrecv o = hop_recv_wait(ra, 10000);
		if (o.rc == 1) {
			vkey = "C08/lossless/accepted-not-delivered";
			snprintf(vtxt, sizeof(vtxt), "only %ld of the %d messages every contender sent were delivered within 10 s", got, nmsg);
			break;
		}
		int      w    = (int) (o.tag - TAG_CONT);
		uint32_t from = (uint32_t) nng_pipe_id(nng_msg_get_pipe(o.msg));
		monsnap  ms   = mon_get(&ma);
		if (o.rc != 0 || w < 0 || w >= nc) {
			vkey = "C08/order/foreign-message";
			snprintf(vtxt, sizeof(vtxt), "delivery %d is not a contender's message (rc %d tag %08x len %zu)", j, o.rc, o.tag, o.len);
		} else if (winner >= 0 && w != winner) {
			vkey = "C08/one-peer/two-contenders-delivered";
			snprintf(vtxt, sizeof(vtxt), "messages of contender %d (%s) and of contender %d (%s) were delivered", winner,
			    x[winner].kind ? "raw" : "nng", w, x[w].kind ? "raw" : "nng");
		} else if (o.seq != (uint64_t) j) {
			vkey = o.seq < (uint64_t) j ? "C08/order/duplicate-or-late/contended-start" : "C08/order/skipped-or-early/contended-start";
			snprintf(vtxt, sizeof(vtxt), "expected seq %d of contender %d, received seq %llu", j, w, (unsigned long long) o.seq);
		} else if (ms.live == 1 && from != ms.first_id) {
			vkey = "C08/one-peer/message-from-unattached-pipe";
			snprintf(vtxt, sizeof(vtxt), "a message was delivered from pipe %u while pipe %u is the attached one", from, ms.first_id);
		}
		winner = winner < 0 && w >= 0 && w < nc ? w : winner;
		got++;
		nng_msg_free(o.msg);
	}
	// the winner, and only the winner, has A's message
	int hellos = 0;
	for (int k = 0; k < nc && vkey == NULL; k++) {
		cont *c = &x[k];
		bool  has = false, junk = false;
		if (c->kind == 1) {
			has  = c->got_hello;
			junk = c->bad_data;
		} else {
			if (k == winner) {
				uint64_t end = vf_now_ns() + 10000ULL * 1000000ULL;
				while (nng_aio_busy(c->raio) && vf_now_ns() < end) {
					vf_usleep(100);
				}
			}
			if (!nng_aio_busy(c->raio) && nng_aio_result(c->raio) == 0) {
				nng_msg *m   = nng_aio_get_msg(c->raio);
				uint32_t tag = 0;
				uint64_t seq = 0;
				has  = true;
				junk = vf_body_check(nng_msg_body(m), nng_msg_len(m), &tag, &seq) != 0 || tag != TAG_HELLO;
			}
		}
		if (junk) {
			vkey = "C08/order/foreign-message";
			snprintf(vtxt, sizeof(vtxt), "contender %d (%s) received something that is not the message A sent", k, c->kind ? "raw" : "nng");
		} else if (has && k != winner) {
			vkey = c->kind ? "C08/one-peer/extra-peer-got-data" : "C08/one-peer/extra-peer-received-message";
			snprintf(vtxt, sizeof(vtxt), "contender %d (%s) received A's message, but A delivers the messages of contender %d", k, c->kind ? "raw" : "nng", winner);
		} else if (!has && k == winner) {
			vkey = "C08/lossless/accepted-not-delivered";
			snprintf(vtxt, sizeof(vtxt), "the message A sent did not reach the attached contender %d (%s) within 10 s", k, c->kind ? "raw" : "nng");
		} else if (c->kind == 1 && k != winner && c->outcome == 0) {
			vkey = "C08/one-peer/extra-peer-not-refused";
			snprintf(vtxt, sizeof(vtxt), "losing raw contender %d completed the SP handshake and was not closed within 10 s", k);
		}
		hellos += has;
	}
	// losers go away; nothing more may have been delivered
	for (int k = 0; k < nc; k++) {
		if (k != winner && x[k].kind == 0) {
			nng_dialer_close(x[k].dl);
		} else if (k != winner && x[k].fd >= 0) {
			close(x[k].fd);
			x[k].fd = -1;
		}
	}
	vf_quiesce(2, 3000);
	if (vkey == NULL) {
		nng_msg *m = NULL;
		if (nng_recvmsg(a, &m, NNG_FLAG_NONBLOCK) == 0) {
			uint32_t tag = 0;
			uint64_t seq = 0;
			int      rc  = vf_body_check(nng_msg_body(m), nng_msg_len(m), &tag, &seq);
			int      w   = (int) (tag - TAG_CONT);
			if (rc == 0 && w >= 0 && w < nc && w != winner) {
				vkey = "C08/one-peer/two-contenders-delivered";
				snprintf(vtxt, sizeof(vtxt), "after the %d messages of contender %d a message of contender %d (%s, seq %llu) was delivered",
				    nmsg, winner, w, x[w].kind ? "raw" : "nng", (unsigned long long) seq);
			} else {
				vkey = "C08/order/extra-message-at-end";
				snprintf(vtxt, sizeof(vtxt), "after the %d messages of the attached contender another message (rc %d tag %08x seq %llu) was delivered",
				    nmsg, rc, tag, (unsigned long long) seq);
			}
			nng_msg_free(m);
		}
	}
	monsnap fin    = mon_get(&ma);
	bool    stable = fin.post == 1 && fin.live == 1 && fin.rem_live == 0;
	if (vkey != NULL && stable) {
		vf_violation(vkey, "contended start, %s, %d listeners, %d contenders (%d raw): %s; the pipe that got the slot stayed attached, %ld others were refused",
		    pk->name, nl, nc, nraw, vtxt, fin.rem_refused);
	}
	long nng_attempts = 0;
	for (int k = 0; k < nc; k++) {
		cont *c = &x[k];
		if (c->kind == 0) {
			nng_aio_stop(c->raio);
			if (nng_aio_result(c->raio) == 0 && nng_aio_get_msg(c->raio) != NULL) {
				nng_msg_free(nng_aio_get_msg(c->raio));
			}
			nng_aio_free(c->raio);
			nng_socket_close(c->s);
			if (k != winner) {
				nng_attempts += mon_get(&c->mon).post;
			}
		} else if (c->fd >= 0) {
			close(c->fd);
		}
	}
	nng_socket_close(a);
	vf_pt_off();
	pthread_barrier_destroy(&bar);
	for (int k = 0; k < nl; k++) {
		if (ls[k].tran == VF_T_IPC) {
			unlink(ls[k].url + 6);
		}
	}
	if (vkey != NULL && stable) {
		vf_stat("cases_aborted", 1);
		int code = vf_finish();
		_exit(code != 0 ? code : 1);
	}
	if (!stable || winner < 0) {
		vf_stat("contended_starts_unstable", 1);
		return;
	}
	vf_stat("cases", 1);
	vf_stat("contended_starts", 1);
	vf_stat("contenders_refused", nc - 1);
	vf_stat("contender_nng_attempts_refused", nng_attempts);
	vf_stat("refused_pipes", fin.rem_refused);
	vf_stat(x[winner].kind ? "contended_starts_won_by_raw" : "contended_starts_won_by_nng", 1);
	vf_class("contend/%s/%s-wins/%dof%d-raw/%dl", pk->name, x[winner].kind ? "raw" : "nng", nraw, nc, nl);
	(void) hellos;
}

int
main(int argc, char **argv)
{
	vf_init(argc, argv);
	if (getenv("C08_ALLOC_SITES") != NULL) {
		vf_alloc_profile(true); // debugging aid: print the site of a leaked block
	}
	vf_nng_init(4, 2, 2);
	vf_rng r;
	if (!strcmp(vf_mode, "hop")) {
		long rounds = vf_cases > 0 ? vf_cases : 1;
		long idx    = 0, ran = 0;
		static const int trans[] = { VF_T_TCP, VF_T_IPC };
		for (long round = 0; round < rounds; round++) {
			for (int ttl = 1; ttl <= 15; ttl++) {
				for (int sraw = 0; sraw < 2; sraw++) {
					for (int ti = 0; ti < 2; ti++, idx++) {
						if ((long) (vf_mix64((uint64_t) idx + 0x5bd1e995u) % (uint64_t) vf_nshards) != vf_shard || !vf_want_case(idx)) {
							continue;
						}
						vf_rng_seed(&r, vf_seed, (uint64_t) idx);
						hop_case(idx, ttl, sraw != 0, trans[ti], &r);
						if ((++ran % 16) == 0) {
							vf_nng_fini("C08");
							vf_nng_init(4, 2, 2);
						}
					}
				}
			}
		}
	} else {
		long ran = 0;
		for (long i = 0; i < vf_cases; i++) {
			if (!vf_want_case(i)) {
				continue;
			}
			vf_rng_seed(&r, vf_seed, (uint64_t) i);
			if ((i % 6) == 5) {
				contend_case(i, &r);
			} else {
				stream_case(i, &r);
			}
			if ((++ran % 16) == 0) {
				vf_nng_fini("C08");
				vf_nng_init((int) vf_range(&r, 2, 8), 2, 2);
			}
		}
	}
	vf_nng_fini("C08");
	return vf_finish();
}
