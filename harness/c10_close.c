// C10: close always terminates, completes everything, invalidates handles.
//
// A case builds one victim socket V (protocol x transport, cooked or raw, or a
// pair of raw sockets under nng_device_aio) with pending work: aio senders /
// receivers on the socket and on contexts (infinite timeout), threads blocked
// in synchronous calls, dialers to dead addresses (redial timers armed), dials
// and accepts stalled mid-handshake against raw harness peers, idle listeners,
// REQ retry timers, surveys, queued messages.  Then 1-3 closer threads issue
// nng_socket_close / nng_ctx_close / nng_dialer_close / nng_listener_close /
// nng_pipe_close (same handle twice, parent and child concurrently, both ends)
// while submitter threads keep calling the API on the same handles.
//
// A close plan is issued by a harness thread or from inside a library callback
// (completion of a dedicated nng_sleep_aio, or of one of the case's pending
// operations - the latter only for closes that do not have to wait for that
// very callback: nng_ctx_close, nng_pipe_close, device cancel).  Transports: inproc, ipc, tcp, ws,
// socket:// and udp.
//
// Oracles: (1) every close returns (watchdog, 30 s per case); (2) every operation pending on
// a closed object has its callback / returns within GRACE after the closes
// returned; (3) any call that begins after a close of the handle (or of its
// socket) returned yields NNG_ECLOSED / NNG_ENOENT (or the documented value
// for the *_id functions): concurrent form in the submitters, table-driven
// form in the main thread; (4) sanitizer/panic/allocator balance.
#ifndef _GNU_SOURCE
#define _GNU_SOURCE
#endif
#include "vfh.h"
#include <arpa/inet.h>
#include <errno.h>
#include <fcntl.h>
#include <netinet/in.h>
#include <poll.h>
#include <pthread.h>
#include <stdatomic.h>
#include <sys/socket.h>
#include <sys/un.h>
#include <unistd.h>

#define GRACE_MS 5000
#define MAXS 4
#define MAXH 160
#define MAXR 56
#define MAXB 4
#define MAXFD 12
#define MAXCL 3
#define MAXSUB 2
#define T_UDP VF_T_N // transports: the five of vfh plus udp (local to this harness)

enum { H_SOCK, H_CTX, H_DIALER, H_LISTENER, H_PIPE, H_NKINDS };
static const char *hkind_names[] = { "socket", "ctx", "dialer", "listener", "pipe" };

typedef struct hnd {
	int         kind;
	uint32_t    id;
	int         owner; // socket index
	int         ep;    // for pipes: handle index of the endpoint, or -1
	_Atomic int dead;  // a close of it / of its socket has returned 0
	_Atomic int dying; // pipes: closed (or endpoint closed); reaped asynchronously
	_Atomic int probed;
	const char *role; // pending element this handle owns (NULL: none)
} hnd;

enum { OP_SOCK_RECV, OP_SOCK_SEND, OP_CTX_RECV, OP_CTX_SEND, OP_DIAL_AIO, OP_DEVICE, OP_NK };
static const char *op_names[] = { "sock-recv", "sock-send", "ctx-recv", "ctx-send", "dial-aio", "device" };

struct casectx;
struct closer;
typedef struct rec {
	nng_aio         *aio;
	int              op;
	int              hidx; // handle operated on
	int              tmo;  // ms, -1 infinite
	int              owner_sub; // -1: main, else submitter index
	_Atomic int      n_submit, n_cb;
	_Atomic int      last_rv;
	_Atomic int      dead_at_submit;
	_Atomic int      pending_at_close;
	_Atomic uint64_t t_cb;
	struct closer *_Atomic on_cb; // close plan to run from inside this record's callback
	bool             lost, is_trigger;
	int              big;     // body size of a send (0: 4 bytes)
	int              rearm;   // 0 never, 1 this record again, 2 the partner (request/reply ping-pong)
	struct rec      *pair;
	_Atomic int      rearms;
	struct casectx  *cx;
} rec;

enum { B_RECVMSG, B_SENDMSG, B_CTX_RECVMSG, B_DIAL_SYNC, B_RECV_BUF, B_SEND_BUF, B_NK };
static const char *b_names[] = { "sync-recvmsg", "sync-sendmsg", "sync-ctx-recvmsg", "sync-dial", "sync-nng_recv", "sync-nng_send" };
typedef struct blocker {
	pthread_t       th;
	int             op;
	int             hidx;
	_Atomic int     started, done;
	int             rv;
	bool            lost;
	struct casectx *cx;
} blocker;

enum { CA_SOCK, CA_CTX, CA_DIALER, CA_LISTENER, CA_PIPE, CA_DEVCANCEL, CA_RAWFD, CA_NK };
static const char *ca_names[] = { "nng_socket_close", "nng_ctx_close", "nng_dialer_close", "nng_listener_close", "nng_pipe_close", "device-cancel", "rawfd-close" };
typedef struct cact {
	int         kind, hidx, delay_us, rv;
	double      ms;
	const char *ctx_name; // where the call was made from
} cact;
// who issues the close calls: a harness thread, the completion callback of a
// dedicated nng_sleep_aio (a library task thread), or the completion callback
// of one of the case's own pending operations
// or a pipe-notify callback (ADD_POST: the endpoint's accept/connect completion on
// a task thread; REM_POST: the reaper thread)
enum { CM_THREAD, CM_SLEEP_CB, CM_OP_CB, CM_PIPE_ADD, CM_PIPE_REM };
static const char *cm_names[] = { "thread", "sleep-aio-callback", "operation-callback", "pipe-ADD_POST", "pipe-REM_POST" };
typedef struct closer {
	pthread_t       th;
	struct casectx *cx;
	cact            a[4];
	int             na;
	int             mode;
	nng_aio        *aio;      // CM_SLEEP_CB
	struct rec     *trigger;  // CM_OP_CB
	int             psock, pev; // CM_PIPE_*: socket index whose event runs the plan, 0 ADD_POST / 1 REM_POST
	_Atomic int     claimed, done, cur;
} closer;

// traffic towards the victim while it is being closed: one thread per peer socket
typedef struct pump {
	pthread_t       th;
	struct casectx *cx;
	int             si, big;
	vf_rng          rng;
	bool            running;
	long            sent, sent_win, sent_big_win, recvd;
} pump;
#define MAXCALLS 24

typedef struct subm {
	pthread_t       th;
	struct casectx *cx;
	int             k;
	vf_rng          rng;
	int             nctx, ndial, nlist;
	long            calls, post_close_calls;
} subm;

typedef struct flaky {
	pthread_t       th;
	struct casectx *cx;
	int             lfd;
	int             mode; // 0 close at once, 1 some bytes then close, 2 hold
	uint16_t        proto;
	vf_rng          rng;
	_Atomic int     accepted;
	int             held[16];
	int             nheld;
	bool            running;
} flaky;

typedef struct casectx {
	long            idx;
	const vf_proto *proto;
	int             tran;
	bool            device, expiry, rawv, notify, keep;
	const char     *key_tag; // discriminator of the lost-operation keys (default: protocol)
	_Atomic int     hold_in, hold_release, add_pre; // mode parked: the blocking ADD_PRE callback
	int             ns;
	nng_socket      s[MAXS];
	int             sh[MAXS];
	const vf_proto *sp[MAXS];
	pthread_mutex_t hmtx;
	hnd             h[MAXH];
	_Atomic int     nh;
	rec             r[MAXR];
	int             nr;
	rec            *devrec;
	blocker         b[MAXB];
	int             nb;
	closer          cl[MAXCL];
	int             ncl;
	subm            sub[MAXSUB];
	int             nsub;
	flaky           fk;
	int             fds[MAXFD];
	int             nfd;
	char            unl[4][112];
	int             nunl;
	_Atomic int     go, stop;
	_Atomic int     win; // 0 before the first close call began, 1 during the planned closes, 2 all of them returned
	_Atomic int     ncalls;
	uint64_t        call_t0[MAXCALLS], call_t1[MAXCALLS];
	_Atomic long    ok_win_v, ok_win_peer;
	bool            rearm;
	pump            pm[2];
	int             npm;
	struct closer *_Atomic pplan[MAXS][2];
	_Atomic int     rem_post, add_post;
	int             stall_dials, stall_accepts;
	char            dead_url[96];
	struct {
		struct casectx *cx;
		int             si;
	} cbarg[MAXS];
} casectx;

static const char *
resname(int rv)
{
	switch (rv) {
	case 0: return "ok";
	case NNG_EINTR: return "eintr";
	case NNG_ENOMEM: return "enomem";
	case NNG_EINVAL: return "einval";
	case NNG_EBUSY: return "ebusy";
	case NNG_ETIMEDOUT: return "etimedout";
	case NNG_ECONNREFUSED: return "econnrefused";
	case NNG_ECLOSED: return "eclosed";
	case NNG_EAGAIN: return "eagain";
	case NNG_ENOTSUP: return "enotsup";
	case NNG_EADDRINUSE: return "eaddrinuse";
	case NNG_ESTATE: return "estate";
	case NNG_ENOENT: return "enoent";
	case NNG_EPROTO: return "eproto";
	case NNG_EUNREACHABLE: return "eunreachable";
	case NNG_EADDRINVAL: return "eaddrinval";
	case NNG_EPERM: return "eperm";
	case NNG_EMSGSIZE: return "emsgsize";
	case NNG_ECONNABORTED: return "econnaborted";
	case NNG_ECONNRESET: return "econnreset";
	case NNG_ECANCELED: return "ecanceled";
	case NNG_ENOFILES: return "enofiles";
	case NNG_ENOSPC: return "enospc";
	case NNG_EEXIST: return "eexist";
	case NNG_EREADONLY: return "ereadonly";
	case NNG_EWRITEONLY: return "ewriteonly";
	case NNG_ECRYPTO: return "ecrypto";
	case NNG_EPEERAUTH: return "epeerauth";
	case NNG_EBADTYPE: return "ebadtype";
	case NNG_ECONNSHUT: return "econnshut";
	case NNG_ESTOPPED: return "estopped";
	case NNG_EINTERNAL: return "einternal";
	default: return "other";
	}
}

static bool
dead_code(int rv)
{
	return rv == NNG_ECLOSED || rv == NNG_ENOENT;
}

// ------------------------------------------------------------------ handles
static int
h_add(casectx *cx, int kind, uint32_t id, int owner, int ep)
{
	pthread_mutex_lock(&cx->hmtx);
	int n = atomic_load(&cx->nh);
	if (n >= MAXH) {
		pthread_mutex_unlock(&cx->hmtx);
		return -1;
	}
	hnd *h   = &cx->h[n];
	h->kind  = kind;
	h->id    = id;
	h->owner = owner;
	h->ep    = ep;
	int dead = 0, dying = 0;
	if (kind != H_SOCK && owner >= 0) {
		dead = atomic_load(&cx->h[cx->sh[owner]].dead);
	}
	if (kind == H_PIPE && ep >= 0 && atomic_load(&cx->h[ep].dead)) {
		dying = 1;
	}
	atomic_store(&h->dead, dead);
	atomic_store(&h->dying, dying);
	atomic_store(&h->probed, 0);
	h->role = NULL;
	atomic_store(&cx->nh, n + 1);
	pthread_mutex_unlock(&cx->hmtx);
	return n;
}

// a close call on handle hi returned 0
static void
h_closed(casectx *cx, int hi)
{
	pthread_mutex_lock(&cx->hmtx);
	hnd *h = &cx->h[hi];
	int  n = atomic_load(&cx->nh);
	switch (h->kind) {
	case H_SOCK:
		atomic_store(&h->dead, 1);
		for (int j = 0; j < n; j++) {
			if (cx->h[j].kind != H_SOCK && cx->h[j].owner == h->owner) {
				atomic_store(&cx->h[j].dead, 1);
			}
		}
		break;
	case H_PIPE:
		atomic_store(&h->dying, 1);
		break;
	case H_DIALER:
	case H_LISTENER:
		atomic_store(&h->dead, 1);
		for (int j = 0; j < n; j++) {
			if (cx->h[j].kind == H_PIPE && cx->h[j].ep == hi) {
				atomic_store(&cx->h[j].dying, 1);
			}
		}
		break;
	default:
		atomic_store(&h->dead, 1);
		break;
	}
	pthread_mutex_unlock(&cx->hmtx);
}

static int
h_find(casectx *cx, int kind, uint32_t id)
{
	int n = atomic_load(&cx->nh);
	for (int j = 0; j < n; j++) {
		if (cx->h[j].kind == kind && cx->h[j].id == id) return j;
	}
	return -1;
}

// pick a random handle of a kind owned by socket si (or any if si < 0)
static int
h_pick(casectx *cx, vf_rng *r, int kind, int si)
{
	int n = atomic_load(&cx->nh), cand[MAXH], nc = 0;
	for (int j = 0; j < n; j++) {
		if (cx->h[j].kind == kind && (si < 0 || cx->h[j].owner == si)) cand[nc++] = j;
	}
	return nc ? cand[vf_below(r, (uint32_t) nc)] : -1;
}

// Check the result of a call that began when the handle's 'dead' flag was
// dead0.  The concurrent form of the dead-handle oracle.
static void
chk(casectx *cx, int hi, const char *name, int dead0, int rv)
{
	(void) cx;
	if (hi < 0) return;
	if (dead0) {
		if (!dead_code(rv)) {
			char key[128];
			snprintf(key, sizeof(key), "C10/dead-handle/%s/%s", name, resname(rv));
			vf_violation(key, "%s on a %s whose close (or whose socket's close) had already returned gave %s instead of NNG_ECLOSED/NNG_ENOENT", name, hkind_names[cx->h[hi].kind], resname(rv));
		}
		vf_stat("calls_on_dead_handle_concurrent", 1);
	}
	vf_class("call=%s/%s/%s", name, resname(rv), dead0 ? "dead" : "live-or-closing");
}

static void closer_run(struct closer *c, int from);
static bool can_recv(const vf_proto *p);
static bool can_send(const vf_proto *p);

// May close plan c run inside a pipe event of socket si?  The callback must not
// touch its own socket (documented: nng_pipe_notify; closing the endpoint whose
// accept/connect completion is delivering the event would wait for that very
// callback): of the event's socket only contexts and pipes are closed.
static bool
pplan_ok(casectx *cx, closer *c, int si, int ep)
{
	for (int i = 0; i < c->na; i++) {
		cact *a = &c->a[i];
		if ((a->kind == CA_SOCK || a->kind == CA_DIALER || a->kind == CA_LISTENER) && cx->h[a->hidx].owner == si) return false;
	}
	(void) ep;
	return true;
}

static void
pipe_cb(nng_pipe p, nng_pipe_ev ev, void *arg)
{
	struct {
		casectx *cx;
		int      si;
	} *a        = arg;
	casectx *cx = a->cx;
	int      ep = -1, ek = ev == NNG_PIPE_EV_ADD_POST ? 0 : 1;
	if (ev != NNG_PIPE_EV_ADD_POST && ev != NNG_PIPE_EV_REM_POST) return;
	if (ev == NNG_PIPE_EV_ADD_POST || atomic_load(&cx->pplan[a->si][ek]) != NULL) {
		nng_dialer d = nng_pipe_dialer(p);
		if (nng_dialer_id(d) > 0) {
			ep = h_find(cx, H_DIALER, (uint32_t) nng_dialer_id(d));
		} else {
			nng_listener l = nng_pipe_listener(p);
			if (nng_listener_id(l) > 0) ep = h_find(cx, H_LISTENER, (uint32_t) nng_listener_id(l));
		}
	}
	if (ev == NNG_PIPE_EV_ADD_POST) {
		h_add(cx, H_PIPE, (uint32_t) nng_pipe_id(p), a->si, ep);
		atomic_fetch_add(&cx->add_post, 1);
	} else {
		atomic_fetch_add(&cx->rem_post, 1);
	}
	// a close plan waiting for this socket's next event of this kind
	closer *c = atomic_load(&cx->pplan[a->si][ek]);
	if (c != NULL && pplan_ok(cx, c, a->si, ep) && atomic_compare_exchange_strong(&cx->pplan[a->si][ek], &c, NULL)) closer_run(c, ek == 0 ? CM_PIPE_ADD : CM_PIPE_REM);
}

// pipes of socket si from the statistics tree (no callbacks installed)
static void
discover_pipes(casectx *cx, int si)
{
	nng_stat *st = NULL;
	if (nng_stats_get(&st) != 0) return;
	uint32_t sid = (uint32_t) nng_socket_id(cx->s[si]);
	for (const nng_stat *c = nng_stat_child(st); c != NULL; c = nng_stat_next(c)) {
		if (strcmp(nng_stat_name(c), "pipe") != 0) continue;
		const nng_stat *ss = nng_stat_find(c, "socket"), *is = nng_stat_find(c, "id");
		if (ss == NULL || is == NULL || (uint32_t) nng_stat_value(ss) != sid) continue;
		uint32_t pid = (uint32_t) nng_stat_value(is);
		if (pid == 0 || h_find(cx, H_PIPE, pid) >= 0) continue;
		int             ep = -1;
		const nng_stat *es;
		if ((es = nng_stat_find(c, "dialer")) != NULL) ep = h_find(cx, H_DIALER, (uint32_t) nng_stat_value(es));
		else if ((es = nng_stat_find(c, "listener")) != NULL) ep = h_find(cx, H_LISTENER, (uint32_t) nng_stat_value(es));
		h_add(cx, H_PIPE, pid, si, ep);
	}
	nng_stats_free(st);
}

static nng_socket
sock_of(casectx *cx, int hi)
{
	return cx->s[cx->h[hi].owner];
}
#define MK(T, hi) ((T){ .id = cx->h[hi].id })

// ------------------------------------------------------------------ records

static void rec_submit(rec *r);
static bool rec_idle(rec *r);

static bool
is_proto(const vf_proto *p, const char *name)
{
	return !strcmp(p->name, name);
}

// Can an operation of this kind on socket si (timeout tmo, -1 infinite) end with
// rv?  The terminal results the documentation lists for the operation, under
// the conditions this harness creates: nothing fails allocations, nobody
// cancels a user operation (only the device), timeouts are infinite unless
// tmo >= 0 (a survey bounds the receives of its surveyor socket).
static bool
result_possible(casectx *cx, int si, bool send, bool dial, int tmo, int rv)
{
	const vf_proto *p      = cx->sp[si];
	bool            raw    = (si == 0 && (cx->device || cx->rawv)) || (si == 2 && cx->device);
	bool            devown = cx->device && (si == 0 || si == 2);
	if (rv == 0 || rv == NNG_ECLOSED) return true;
	if (rv == NNG_ETIMEDOUT) return tmo >= 0 || dial /* negotiation timeout */ || (!send && is_proto(p, "surveyor"));
	if (dial) {
		return rv == NNG_ESTOPPED || rv == NNG_ECONNREFUSED || rv == NNG_ECONNABORTED || rv == NNG_ECONNRESET || rv == NNG_ECONNSHUT || rv == NNG_ENOENT || rv == NNG_EADDRINVAL ||
		    rv == NNG_ESTATE || rv == NNG_EPROTO || rv == NNG_EUNREACHABLE || rv == NNG_EBUSY || rv == NNG_EPERM;
	}
	switch (rv) {
	case NNG_ESTATE: return true;
	case NNG_ECANCELED: // a newer request / survey / reply replaces the operation
		return !raw && (is_proto(p, "req") || is_proto(p, "rep") || is_proto(p, "surveyor") || is_proto(p, "respondent"));
	case NNG_ECONNRESET: return !send && is_proto(p, "req");
	case NNG_EBUSY: return devown;
	case NNG_ENOTSUP: return send ? !can_send(p) : !can_recv(p);
	case NNG_EPROTO: return send && raw;
	default: return false;
	}
}

static void
rec_cb(void *arg)
{
	rec     *r  = arg;
	casectx *cx = r->cx;
	int      rv = (int) nng_aio_result(r->aio);
	nng_msg *m  = nng_aio_get_msg(r->aio);
	// a completion must carry a result an operation of this kind can end
	// with: never an internal error, an allocation failure (nothing is
	// failing allocations here) or a code nng does not define; a receive
	// that reports success must deliver a message
	bool possible = !(rv == NNG_EINTERNAL || rv == NNG_ENOMEM || rv == NNG_EINTR || rv == NNG_EBADTYPE || rv == NNG_EINVAL || !strcmp(resname(rv), "other"));
	if (possible && r->op != OP_DEVICE) possible = result_possible(cx, cx->h[r->hidx].owner, r->op == OP_SOCK_SEND || r->op == OP_CTX_SEND, r->op == OP_DIAL_AIO, r->tmo, rv);
	if (!possible) {
		char key[128];
		snprintf(key, sizeof(key), "C10/pending-result/%s/%s", op_names[r->op], resname(rv));
		vf_violation(key, "%s (timeout %d ms) on a %s%s socket completed with %s (%d), which no operation of this kind can end with here", op_names[r->op], r->tmo,
		    cx->sp[cx->h[r->hidx].owner]->name, cx->h[r->hidx].owner == 0 && (cx->device || cx->rawv) ? "(raw)" : "", resname(rv), rv);
	}
	switch (r->op) {
	case OP_SOCK_RECV:
	case OP_CTX_RECV:
		if (rv == 0 && m == NULL) {
			char key[128];
			snprintf(key, sizeof(key), "C10/pending-result/%s/ok-without-message", op_names[r->op]);
			vf_violation(key, "%s completed with 0 but delivered no message", op_names[r->op]);
		}
		if (rv == 0 && m != NULL) {
			nng_msg_free(m);
			nng_aio_set_msg(r->aio, NULL);
		}
		break;
	case OP_SOCK_SEND:
	case OP_CTX_SEND:
		if (rv != 0 && m != NULL) {
			nng_msg_free(m);
			nng_aio_set_msg(r->aio, NULL);
		}
		break;
	default:
		break;
	}
	if (atomic_load(&r->dead_at_submit)) {
		if (!dead_code(rv)) {
			char key[128];
			snprintf(key, sizeof(key), "C10/dead-handle/aio-%s/%s", op_names[r->op], resname(rv));
			vf_violation(key, "%s submitted after the close of its %s had returned completed with %s instead of NNG_ECLOSED/NNG_ENOENT", op_names[r->op], hkind_names[r->cx->h[r->hidx].kind], resname(rv));
		}
		vf_stat("calls_on_dead_handle_concurrent", 1);
	}
	vf_class("aio=%s/%s/%s", op_names[r->op], resname(rv), atomic_load(&r->dead_at_submit) ? "submitted-dead" : atomic_load(&r->pending_at_close) ? "pending-at-close" : atomic_load(&r->rearms) ? "resubmitted-in-callback" : "other");
	if (r->big && atomic_load(&r->pending_at_close)) vf_class("aio=%s/%s/parked-behind-busy-pipe/%s", op_names[r->op], resname(rv), cx->sp[cx->h[r->hidx].owner]->name);
	atomic_store(&r->last_rv, rv);
	atomic_store(&r->t_cb, vf_now_ns());
	// the data axis: an operation that succeeded while the planned closes ran
	if (rv == 0 && r->op != OP_DEVICE && atomic_load(&cx->win) == 1) atomic_fetch_add(cx->h[r->hidx].owner == 0 ? &cx->ok_win_v : &cx->ok_win_peer, 1);
	struct closer *c = atomic_exchange(&r->on_cb, NULL);
	if (c != NULL) closer_run(c, CM_OP_CB);
	// the application's receive / send loop: the callback starts the next
	// operation (on whatever the handle has become) until one fails
	if (rv == 0 && r->rearm && cx->rearm && atomic_load(&cx->go) && !atomic_load(&cx->stop) && atomic_load(&r->rearms) < (r->op == OP_SOCK_RECV || r->op == OP_CTX_RECV ? 200 : 24)) {
		rec *nx = r->rearm == 2 ? r->pair : r;
		// (the partner is started by this callback only, and only when its
		// own callback has returned)
		if (nx == r || (nx != NULL && rec_idle(nx))) {
			atomic_fetch_add(&nx->rearms, 1);
			rec_submit(nx);
		}
	}
	atomic_fetch_add(&r->n_cb, 1);
}

static bool
rec_idle(rec *r)
{
	return atomic_load(&r->n_cb) >= atomic_load(&r->n_submit);
}

static rec *
rec_new(casectx *cx, int op, int hidx, int tmo, int owner_sub)
{
	if (cx->nr >= MAXR) return NULL;
	rec *r = &cx->r[cx->nr];
	memset(r, 0, sizeof(*r));
	r->op        = op;
	r->hidx      = hidx;
	r->tmo       = tmo;
	r->owner_sub = owner_sub;
	r->cx        = cx;
	if (nng_aio_alloc(&r->aio, rec_cb, r) != 0) vf_harness_fail("aio alloc");
	cx->nr++;
	return r;
}

static void
rec_submit(rec *r)
{
	casectx *cx = r->cx;
	nng_msg *m;
	atomic_store(&r->pending_at_close, 0);
	atomic_store(&r->dead_at_submit, r->op == OP_DEVICE ? 0 : atomic_load(&cx->h[r->hidx].dead));
	nng_aio_set_timeout(r->aio, r->tmo < 0 ? NNG_DURATION_INFINITE : r->tmo);
	atomic_fetch_add(&r->n_submit, 1);
	switch (r->op) {
	case OP_SOCK_RECV:
		nng_socket_recv(MK(nng_socket, r->hidx), r->aio);
		break;
	case OP_SOCK_SEND:
		if (nng_msg_alloc(&m, 0) != 0) vf_harness_fail("msg alloc");
		nng_msg_append_u32(m, 0xC10C10u);
		nng_aio_set_msg(r->aio, m);
		nng_socket_send(MK(nng_socket, r->hidx), r->aio);
		break;
	case OP_CTX_RECV:
		nng_ctx_recv(MK(nng_ctx, r->hidx), r->aio);
		break;
	case OP_CTX_SEND:
		if (nng_msg_alloc(&m, (size_t) r->big) != 0) vf_harness_fail("msg alloc");
		nng_msg_append_u32(m, 0xC10C11u);
		nng_aio_set_msg(r->aio, m);
		nng_ctx_send(MK(nng_ctx, r->hidx), r->aio);
		break;
	case OP_DIAL_AIO:
		nng_dialer_start_aio(MK(nng_dialer, r->hidx), NNG_FLAG_NONBLOCK, r->aio);
		break;
	case OP_DEVICE:
		nng_device_aio(r->aio, cx->s[0], cx->s[2]);
		break;
	}
}

// wait until the record has no outstanding submission; false on timeout
static bool
rec_wait(rec *r, int ms)
{
	uint64_t end = vf_now_ns() + (uint64_t) ms * 1000000ULL;
	int      spin = 0;
	while (!rec_idle(r)) {
		if (vf_now_ns() > end) return false;
		if (++spin < 50) sched_yield();
		else vf_usleep(200);
	}
	return true;
}

// ------------------------------------------------------------------ blockers
static void *
blocker_thread(void *arg)
{
	blocker *b  = arg;
	casectx *cx = b->cx;
	nng_msg *m  = NULL;
	atomic_store(&b->started, 1);
	switch (b->op) {
	case B_RECVMSG:
		b->rv = nng_recvmsg(MK(nng_socket, b->hidx), &m, 0);
		if (b->rv == 0) nng_msg_free(m);
		break;
	case B_SENDMSG:
		// keep sending until it blocks and is woken by close (bounded)
		for (int i = 0; i < 64; i++) {
			if (nng_msg_alloc(&m, 0) != 0) vf_harness_fail("msg alloc");
			nng_msg_append_u32(m, (uint32_t) i);
			b->rv = nng_sendmsg(MK(nng_socket, b->hidx), m, 0);
			if (b->rv != 0) {
				nng_msg_free(m);
				break;
			}
		}
		break;
	case B_CTX_RECVMSG:
		b->rv = nng_ctx_recvmsg(MK(nng_ctx, b->hidx), &m, 0);
		if (b->rv == 0) nng_msg_free(m);
		break;
	case B_DIAL_SYNC:
		b->rv = nng_dialer_start(MK(nng_dialer, b->hidx), 0);
		break;
	case B_RECV_BUF: {
		char   buf[64];
		size_t n = sizeof(buf);
		b->rv    = nng_recv(MK(nng_socket, b->hidx), buf, &n, 0);
		break;
	}
	case B_SEND_BUF:
		for (int i = 0; i < 64; i++) {
			if ((b->rv = nng_send(MK(nng_socket, b->hidx), "c10-buffer", 10, 0)) != 0) break;
		}
		break;
	}
	vf_class("sync=%s/%s", b_names[b->op], resname(b->rv));
	if (!result_possible(cx, cx->h[b->hidx].owner, b->op == B_SENDMSG || b->op == B_SEND_BUF, b->op == B_DIAL_SYNC, -1, b->rv)) {
		char key[128];
		snprintf(key, sizeof(key), "C10/pending-result/%s/%s", b_names[b->op], resname(b->rv));
		vf_violation(key, "%s on a %s socket returned %s (%d), which no call of this kind can return here", b_names[b->op], cx->sp[cx->h[b->hidx].owner]->name, resname(b->rv), b->rv);
	}
	atomic_store(&b->done, 1);
	return NULL;
}

static void
blocker_add(casectx *cx, int op, int hidx)
{
	if (cx->nb >= MAXB || hidx < 0) return;
	blocker *b = &cx->b[cx->nb++];
	memset(b, 0, sizeof(*b));
	b->op   = op;
	b->hidx = hidx;
	b->cx   = cx;
	b->rv   = -1;
	if (pthread_create(&b->th, NULL, blocker_thread, b) != 0) vf_harness_fail("pthread_create");
}

// ------------------------------------------------------------------ raw peers
static void
fd_keep(casectx *cx, int fd)
{
	if (fd < 0) return;
	if (cx->nfd < MAXFD) cx->fds[cx->nfd++] = fd;
	else close(fd);
}

// a TCP port that refuses connections and cannot be taken by anybody else:
// bound, never listening.
static int
tcp_reserved_port(uint16_t *port)
{
	struct sockaddr_in sin;
	socklen_t          sl = sizeof(sin);
	int                fd = socket(AF_INET, SOCK_STREAM | SOCK_CLOEXEC, 0);
	if (fd < 0) vf_harness_fail("socket: %s", strerror(errno));
	memset(&sin, 0, sizeof(sin));
	sin.sin_family      = AF_INET;
	sin.sin_addr.s_addr = htonl(INADDR_LOOPBACK);
	if (bind(fd, (struct sockaddr *) &sin, sizeof(sin)) != 0 || getsockname(fd, (struct sockaddr *) &sin, &sl) != 0) vf_harness_fail("bind: %s", strerror(errno));
	*port = ntohs(sin.sin_port);
	return fd;
}

// a UDP port where nobody ever answers (bound, never read)
static int
udp_reserved_port(uint16_t *port)
{
	struct sockaddr_in sin;
	socklen_t          sl = sizeof(sin);
	int                fd = socket(AF_INET, SOCK_DGRAM | SOCK_CLOEXEC, 0);
	if (fd < 0) vf_harness_fail("socket: %s", strerror(errno));
	memset(&sin, 0, sizeof(sin));
	sin.sin_family      = AF_INET;
	sin.sin_addr.s_addr = htonl(INADDR_LOOPBACK);
	if (bind(fd, (struct sockaddr *) &sin, sizeof(sin)) != 0 || getsockname(fd, (struct sockaddr *) &sin, &sl) != 0) vf_harness_fail("bind: %s", strerror(errno));
	*port = ntohs(sin.sin_port);
	return fd;
}

static void
stall_bytes(int fd, uint16_t proto, int k, bool ws)
{
	if (k <= 0) return;
	if (ws) {
		static const char req[] = "GET /vf HTTP/1.1\r\nHost: 127.0.0.1\r\nUpgrade: websocket\r\nConnection: Upgrade\r\n";
		size_t            n     = (size_t) k * 11;
		if (n > sizeof(req) - 1) n = sizeof(req) - 1;
		vf_fd_write_all(fd, req, n, 1000);
		return;
	}
	uint8_t hello[8];
	vf_sp_hello(hello, proto);
	vf_fd_write_all(fd, hello, (size_t) (k > 7 ? 7 : k), 1000);
}

// accepts whatever arrives on lfd and misbehaves: closes at once, sends part of
// the SP header and closes, or holds the connection without speaking.
static void *
flaky_thread(void *arg)
{
	flaky   *f  = arg;
	casectx *cx = f->cx;
	while (!atomic_load(&cx->stop)) {
		struct pollfd pfd = { .fd = f->lfd, .events = POLLIN };
		if (poll(&pfd, 1, 2) <= 0) continue;
		int fd = accept4(f->lfd, NULL, NULL, SOCK_CLOEXEC);
		if (fd < 0) continue;
		atomic_fetch_add(&f->accepted, 1);
		int mode = f->mode == 3 ? (int) vf_below(&f->rng, 3) : f->mode;
		if (mode == 1) stall_bytes(fd, f->proto, (int) vf_range(&f->rng, 1, 7), false);
		if (mode == 2 && f->nheld < 16) {
			f->held[f->nheld++] = fd;
			continue;
		}
		if (vf_chance(&f->rng, 1, 2)) {
			struct linger lg = { 1, 0 }; // RST
			setsockopt(fd, SOL_SOCKET, SO_LINGER, &lg, sizeof(lg));
		}
		close(fd);
	}
	return NULL;
}

// ------------------------------------------------------------------ dead-handle probes
// Each probe performs one API call on a handle whose close has returned and
// reports the code.  P_DOC means "behaved as documented for a dead handle"
// (the *_id functions return the number; nng_pipe_socket etc. return the
// zero handle).
#define P_DOC (-1000)
#define P_BAD (-1001)
typedef struct penv {
	casectx *cx;
	int      hi;
	uint32_t id;
	nng_aio *aio; // no callback: nng_aio_wait
} penv;

static int
aio_rv(penv *e)
{
	nng_aio_wait(e->aio);
	int      rv = (int) nng_aio_result(e->aio);
	nng_msg *m  = nng_aio_get_msg(e->aio);
	if (m != NULL) {
		nng_msg_free(m);
		nng_aio_set_msg(e->aio, NULL);
	}
	return rv;
}
static nng_msg *
mkmsg(void)
{
	nng_msg *m;
	if (nng_msg_alloc(&m, 4) != 0) vf_harness_fail("msg alloc");
	return m;
}
#define S(e) ((nng_socket){ .id = (e)->id })
#define C(e) ((nng_ctx){ .id = (e)->id })
#define D(e) ((nng_dialer){ .id = (e)->id })
#define L(e) ((nng_listener){ .id = (e)->id })
#define P(e) ((nng_pipe){ .id = (e)->id })

// socket
static int ps_close(penv *e) { return nng_socket_close(S(e)); }
static int ps_sendmsg(penv *e) { nng_msg *m = mkmsg(); int rv = nng_sendmsg(S(e), m, NNG_FLAG_NONBLOCK); if (rv != 0) nng_msg_free(m); return rv; }
static int ps_recvmsg(penv *e) { nng_msg *m = NULL; int rv = nng_recvmsg(S(e), &m, NNG_FLAG_NONBLOCK); if (rv == 0) nng_msg_free(m); return rv; }
static int ps_send(penv *e) { return nng_send(S(e), "abcd", 4, NNG_FLAG_NONBLOCK); }
static int ps_recv(penv *e) { char b[16]; size_t n = sizeof(b); return nng_recv(S(e), b, &n, NNG_FLAG_NONBLOCK); }
static int ps_send_aio(penv *e) { nng_aio_set_msg(e->aio, mkmsg()); nng_aio_set_timeout(e->aio, 2000); nng_socket_send(S(e), e->aio); return aio_rv(e); }
static int ps_recv_aio(penv *e) { nng_aio_set_timeout(e->aio, 2000); nng_socket_recv(S(e), e->aio); return aio_rv(e); }
static int ps_get_int(penv *e) { int v; return nng_socket_get_int(S(e), NNG_OPT_RECVBUF, &v); }
static int ps_set_int(penv *e) { return nng_socket_set_int(S(e), NNG_OPT_SENDBUF, 2); }
static int ps_get_ms(penv *e) { nng_duration v; return nng_socket_get_ms(S(e), NNG_OPT_RECVTIMEO, &v); }
static int ps_set_ms(penv *e) { return nng_socket_set_ms(S(e), NNG_OPT_SENDTIMEO, 100); }
static int ps_get_size(penv *e) { size_t v; return nng_socket_get_size(S(e), NNG_OPT_RECVMAXSZ, &v); }
static int ps_set_size(penv *e) { return nng_socket_set_size(S(e), NNG_OPT_RECVMAXSZ, 4096); }
static int ps_get_bool(penv *e) { bool v; return nng_socket_get_bool(S(e), NNG_OPT_TCP_NODELAY, &v); }
static int ps_set_bool(penv *e) { return nng_socket_set_bool(S(e), NNG_OPT_TCP_KEEPALIVE, true); }
static int ps_set_proto_ms(penv *e) { return nng_socket_set_ms(S(e), NNG_OPT_REQ_RESENDTIME, 100); }
static int ps_get_proto_ms(penv *e) { nng_duration v; return nng_socket_get_ms(S(e), NNG_OPT_SURVEYOR_SURVEYTIME, &v); }
static int ps_subscribe(penv *e) { return nng_sub0_socket_subscribe(S(e), "", 0); }
static int ps_recv_fd(penv *e) { int fd; return nng_socket_get_recv_poll_fd(S(e), &fd); }
static int ps_send_fd(penv *e) { int fd; return nng_socket_get_send_poll_fd(S(e), &fd); }
static int ps_proto_id(penv *e) { uint16_t v; return nng_socket_proto_id(S(e), &v); }
static int ps_peer_id(penv *e) { uint16_t v; return nng_socket_peer_id(S(e), &v); }
static int ps_proto_name(penv *e) { const char *v; return nng_socket_proto_name(S(e), &v); }
static int ps_peer_name(penv *e) { const char *v; return nng_socket_peer_name(S(e), &v); }
static int ps_raw(penv *e) { bool v; return nng_socket_raw(S(e), &v); }
static void nop_pipe_cb(nng_pipe p, nng_pipe_ev ev, void *a) { (void) p; (void) ev; (void) a; }
static int ps_notify(penv *e) { return (int) nng_pipe_notify(S(e), NNG_PIPE_EV_ADD_POST, nop_pipe_cb, NULL); }
static int ps_ctx_open(penv *e) { nng_ctx c; int rv = nng_ctx_open(&c, S(e)); if (rv == 0) nng_ctx_close(c); return rv; }
static int ps_dial(penv *e) { nng_dialer d; int rv = nng_dial(S(e), e->cx->dead_url, &d, NNG_FLAG_NONBLOCK); if (rv == 0) nng_dialer_close(d); return rv; }
static int ps_listen(penv *e) { nng_listener l; char u[96]; vf_url(VF_T_INPROC, u, sizeof(u)); int rv = nng_listen(S(e), u, &l, 0); if (rv == 0) nng_listener_close(l); return rv; }
static int ps_dialer_create(penv *e) { nng_dialer d; int rv = nng_dialer_create(&d, S(e), e->cx->dead_url); if (rv == 0) nng_dialer_close(d); return rv; }
static int ps_listener_create(penv *e) { nng_listener l; char u[96]; vf_url(VF_T_INPROC, u, sizeof(u)); int rv = nng_listener_create(&l, S(e), u); if (rv == 0) nng_listener_close(l); return rv; }
static int ps_device(penv *e) { nng_aio_set_timeout(e->aio, 2000); nng_device_aio(e->aio, S(e), S(e)); int rv = aio_rv(e); return rv; }
static int ps_id(penv *e) { return nng_socket_id(S(e)) == (int) e->id ? P_DOC : P_BAD; }
// context
static int pc_close(penv *e) { return nng_ctx_close(C(e)); }
static int pc_send_aio(penv *e) { nng_aio_set_msg(e->aio, mkmsg()); nng_aio_set_timeout(e->aio, 2000); nng_ctx_send(C(e), e->aio); return aio_rv(e); }
static int pc_recv_aio(penv *e) { nng_aio_set_timeout(e->aio, 2000); nng_ctx_recv(C(e), e->aio); return aio_rv(e); }
static int pc_sendmsg(penv *e) { nng_msg *m = mkmsg(); int rv = nng_ctx_sendmsg(C(e), m, NNG_FLAG_NONBLOCK); if (rv != 0) nng_msg_free(m); return rv; }
static int pc_recvmsg(penv *e) { nng_msg *m = NULL; int rv = nng_ctx_recvmsg(C(e), &m, NNG_FLAG_NONBLOCK); if (rv == 0) nng_msg_free(m); return rv; }
static int pc_get_ms(penv *e) { nng_duration v; return nng_ctx_get_ms(C(e), NNG_OPT_RECVTIMEO, &v); }
static int pc_set_ms(penv *e) { return nng_ctx_set_ms(C(e), NNG_OPT_SENDTIMEO, 100); }
static int pc_get_int(penv *e) { int v; return nng_ctx_get_int(C(e), NNG_OPT_RECVBUF, &v); }
static int pc_set_proto_ms(penv *e) { return nng_ctx_set_ms(C(e), NNG_OPT_REQ_RESENDTIME, 100); }
static int pc_get_bool(penv *e) { bool v; return nng_ctx_get_bool(C(e), NNG_OPT_SUB_PREFNEW, &v); }
static int pc_subscribe(penv *e) { return nng_sub0_ctx_subscribe(C(e), "x", 1); }
static int pc_set_int(penv *e) { return nng_ctx_set_int(C(e), NNG_OPT_RECVBUF, 1); }
static int pc_set_bool(penv *e) { return nng_ctx_set_bool(C(e), NNG_OPT_SUB_PREFNEW, true); }
static int pc_set_size(penv *e) { return nng_ctx_set_size(C(e), NNG_OPT_RECVMAXSZ, 1024); }
static int pc_get_size(penv *e) { size_t v; return nng_ctx_get_size(C(e), NNG_OPT_RECVMAXSZ, &v); }
static int pc_unsubscribe(penv *e) { return nng_sub0_ctx_unsubscribe(C(e), "x", 1); }
static int ps_unsubscribe(penv *e) { return nng_sub0_socket_unsubscribe(S(e), "", 0); }
static int pd_set_tls(penv *e) { return nng_dialer_set_tls(D(e), NULL); }
static int pd_set_bool(penv *e) { return nng_dialer_set_bool(D(e), NNG_OPT_TCP_NODELAY, true); }
static int pd_set_string(penv *e) { return nng_dialer_set_string(D(e), NNG_OPT_WS_PROTOCOL, "x"); }
static int pd_get_string(penv *e) { const char *v; return nng_dialer_get_string(D(e), NNG_OPT_WS_PROTOCOL, &v); }
static int pl_set_tls(penv *e) { return nng_listener_set_tls(L(e), NULL); }
static int pl_set_ms(penv *e) { return nng_listener_set_ms(L(e), NNG_OPT_RECVTIMEO, 10); }
static int pl_get_string(penv *e) { const char *v; return nng_listener_get_string(L(e), NNG_OPT_WS_PROTOCOL, &v); }
static int pl_get_bool(penv *e) { bool v; return nng_listener_get_bool(L(e), NNG_OPT_TCP_NODELAY, &v); }
static int pc_id(penv *e) { return nng_ctx_id(C(e)) == (int) e->id ? P_DOC : P_BAD; }
// dialer
static int pd_close(penv *e) { return nng_dialer_close(D(e)); }
static int pd_start(penv *e) { return nng_dialer_start(D(e), NNG_FLAG_NONBLOCK); }
static int pd_start_aio(penv *e) { nng_aio_set_timeout(e->aio, 2000); nng_dialer_start_aio(D(e), NNG_FLAG_NONBLOCK, e->aio); return aio_rv(e); }
static int pd_get_ms(penv *e) { nng_duration v; return nng_dialer_get_ms(D(e), NNG_OPT_RECONNMINT, &v); }
static int pd_set_ms(penv *e) { return nng_dialer_set_ms(D(e), NNG_OPT_RECONNMAXT, 100); }
static int pd_get_size(penv *e) { size_t v; return nng_dialer_get_size(D(e), NNG_OPT_RECVMAXSZ, &v); }
static int pd_set_size(penv *e) { return nng_dialer_set_size(D(e), NNG_OPT_RECVMAXSZ, 4096); }
static int pd_get_bool(penv *e) { bool v; return nng_dialer_get_bool(D(e), NNG_OPT_TCP_NODELAY, &v); }
static int pd_get_int(penv *e) { int v; return nng_dialer_get_int(D(e), NNG_OPT_RECVBUF, &v); }
static int pd_get_url(penv *e) { const nng_url *u; return nng_dialer_get_url(D(e), &u); }
static int pd_get_tls(penv *e) { nng_tls_config *c; return nng_dialer_get_tls(D(e), &c); }
static int pd_id(penv *e) { return nng_dialer_id(D(e)) == (int) e->id ? P_DOC : P_BAD; }
// listener
static int pl_close(penv *e) { return nng_listener_close(L(e)); }
static int pl_start(penv *e) { return nng_listener_start(L(e), 0); }
static int pl_get_int(penv *e) { int v; return nng_listener_get_int(L(e), NNG_OPT_BOUND_PORT, &v); }
static int pl_get_size(penv *e) { size_t v; return nng_listener_get_size(L(e), NNG_OPT_RECVMAXSZ, &v); }
static int pl_set_size(penv *e) { return nng_listener_set_size(L(e), NNG_OPT_RECVMAXSZ, 4096); }
static int pl_get_ms(penv *e) { nng_duration v; return nng_listener_get_ms(L(e), NNG_OPT_RECVTIMEO, &v); }
static int pl_set_bool(penv *e) { return nng_listener_set_bool(L(e), NNG_OPT_TCP_NODELAY, true); }
static int pl_get_url(penv *e) { const nng_url *u; return nng_listener_get_url(L(e), &u); }
static int pl_get_tls(penv *e) { nng_tls_config *c; return nng_listener_get_tls(L(e), &c); }
static int pl_id(penv *e) { return nng_listener_id(L(e)) == (int) e->id ? P_DOC : P_BAD; }
// pipe
static int pp_close(penv *e) { return (int) nng_pipe_close(P(e)); }
static int pp_get_size(penv *e) { size_t v; return (int) nng_pipe_get_size(P(e), NNG_OPT_RECVMAXSZ, &v); }
static int pp_get_int(penv *e) { int v; return (int) nng_pipe_get_int(P(e), NNG_OPT_RECVBUF, &v); }
static int pp_get_bool(penv *e) { bool v; return (int) nng_pipe_get_bool(P(e), NNG_OPT_TCP_NODELAY, &v); }
static int pp_get_ms(penv *e) { nng_duration v; return (int) nng_pipe_get_ms(P(e), NNG_OPT_RECVTIMEO, &v); }
static int pp_get_string(penv *e) { const char *v; return (int) nng_pipe_get_string(P(e), NNG_OPT_TLS_PEER_CN, &v); }
static int pp_get_strdup(penv *e) { char *v = NULL; int rv = (int) nng_pipe_get_strdup(P(e), NNG_OPT_TLS_PEER_CN, &v); if (rv == 0 && v) nng_strfree(v); return rv; }
static int pp_get_strcpy(penv *e) { char b[32]; return (int) nng_pipe_get_strcpy(P(e), NNG_OPT_TLS_PEER_CN, b, sizeof(b)); }
static int pp_get_strlen(penv *e) { size_t n; return (int) nng_pipe_get_strlen(P(e), NNG_OPT_TLS_PEER_CN, &n); }
static int pp_scheme(penv *e) { const char *v; return (int) nng_pipe_get_scheme(P(e), &v); }
static int pp_peer_addr(penv *e) { nng_sockaddr sa; return (int) nng_pipe_peer_addr(P(e), &sa); }
static int pp_self_addr(penv *e) { nng_sockaddr sa; return (int) nng_pipe_self_addr(P(e), &sa); }
static int pp_peer_cert(penv *e) { nng_tls_cert *c; return (int) nng_pipe_peer_cert(P(e), &c); }
static int pp_socket(penv *e) { return nng_socket_id(nng_pipe_socket(P(e))) <= 0 ? P_DOC : P_BAD; }
static int pp_dialer(penv *e) { return nng_dialer_id(nng_pipe_dialer(P(e))) <= 0 ? P_DOC : P_BAD; }
static int pp_listener(penv *e) { return nng_listener_id(nng_pipe_listener(P(e))) <= 0 ? P_DOC : P_BAD; }
static int pp_id(penv *e) { return nng_pipe_id(P(e)) == (int) e->id ? P_DOC : P_BAD; }

static const struct probe {
	int         kind;
	const char *name;
	int (*fn)(penv *);
} probes[] = {
	{ H_SOCK, "nng_sendmsg", ps_sendmsg }, { H_SOCK, "nng_recvmsg", ps_recvmsg }, { H_SOCK, "nng_send", ps_send }, { H_SOCK, "nng_recv", ps_recv },
	{ H_SOCK, "nng_socket_send", ps_send_aio }, { H_SOCK, "nng_socket_recv", ps_recv_aio }, { H_SOCK, "nng_socket_get_int", ps_get_int },
	{ H_SOCK, "nng_socket_set_int", ps_set_int }, { H_SOCK, "nng_socket_get_ms", ps_get_ms }, { H_SOCK, "nng_socket_set_ms", ps_set_ms },
	{ H_SOCK, "nng_socket_get_size", ps_get_size }, { H_SOCK, "nng_socket_set_size", ps_set_size }, { H_SOCK, "nng_socket_get_bool", ps_get_bool },
	{ H_SOCK, "nng_socket_set_bool", ps_set_bool }, { H_SOCK, "nng_socket_set_ms(req:resend-time)", ps_set_proto_ms },
	{ H_SOCK, "nng_socket_get_ms(surveyor:survey-time)", ps_get_proto_ms }, { H_SOCK, "nng_sub0_socket_subscribe", ps_subscribe },
	{ H_SOCK, "nng_socket_get_recv_poll_fd", ps_recv_fd }, { H_SOCK, "nng_socket_get_send_poll_fd", ps_send_fd }, { H_SOCK, "nng_socket_proto_id", ps_proto_id },
	{ H_SOCK, "nng_socket_peer_id", ps_peer_id }, { H_SOCK, "nng_socket_proto_name", ps_proto_name }, { H_SOCK, "nng_socket_peer_name", ps_peer_name },
	{ H_SOCK, "nng_socket_raw", ps_raw }, { H_SOCK, "nng_pipe_notify", ps_notify }, { H_SOCK, "nng_ctx_open", ps_ctx_open }, { H_SOCK, "nng_dial", ps_dial },
	{ H_SOCK, "nng_listen", ps_listen }, { H_SOCK, "nng_dialer_create", ps_dialer_create }, { H_SOCK, "nng_listener_create", ps_listener_create },
	{ H_SOCK, "nng_device_aio", ps_device }, { H_SOCK, "nng_socket_id", ps_id }, { H_SOCK, "nng_socket_close", ps_close },
	{ H_CTX, "nng_ctx_send", pc_send_aio }, { H_CTX, "nng_ctx_recv", pc_recv_aio }, { H_CTX, "nng_ctx_sendmsg", pc_sendmsg }, { H_CTX, "nng_ctx_recvmsg", pc_recvmsg },
	{ H_CTX, "nng_ctx_get_ms", pc_get_ms }, { H_CTX, "nng_ctx_set_ms", pc_set_ms }, { H_CTX, "nng_ctx_get_int", pc_get_int },
	{ H_CTX, "nng_ctx_set_ms(req:resend-time)", pc_set_proto_ms }, { H_CTX, "nng_ctx_get_bool", pc_get_bool }, { H_CTX, "nng_sub0_ctx_subscribe", pc_subscribe },
	{ H_CTX, "nng_ctx_set_int", pc_set_int }, { H_CTX, "nng_ctx_set_bool", pc_set_bool }, { H_CTX, "nng_ctx_set_size", pc_set_size }, { H_CTX, "nng_ctx_get_size", pc_get_size },
	{ H_CTX, "nng_sub0_ctx_unsubscribe", pc_unsubscribe }, { H_SOCK, "nng_sub0_socket_unsubscribe", ps_unsubscribe },
	{ H_DIALER, "nng_dialer_set_tls", pd_set_tls }, { H_DIALER, "nng_dialer_set_bool", pd_set_bool }, { H_DIALER, "nng_dialer_set_string", pd_set_string },
	{ H_DIALER, "nng_dialer_get_string", pd_get_string },
	{ H_LISTENER, "nng_listener_set_tls", pl_set_tls }, { H_LISTENER, "nng_listener_set_ms", pl_set_ms }, { H_LISTENER, "nng_listener_get_string", pl_get_string },
	{ H_LISTENER, "nng_listener_get_bool", pl_get_bool },
	{ H_CTX, "nng_ctx_id", pc_id }, { H_CTX, "nng_ctx_close", pc_close },
	{ H_DIALER, "nng_dialer_start", pd_start }, { H_DIALER, "nng_dialer_start_aio", pd_start_aio }, { H_DIALER, "nng_dialer_get_ms", pd_get_ms },
	{ H_DIALER, "nng_dialer_set_ms", pd_set_ms }, { H_DIALER, "nng_dialer_get_size", pd_get_size }, { H_DIALER, "nng_dialer_set_size", pd_set_size },
	{ H_DIALER, "nng_dialer_get_bool", pd_get_bool }, { H_DIALER, "nng_dialer_get_int", pd_get_int }, { H_DIALER, "nng_dialer_get_url", pd_get_url },
	{ H_DIALER, "nng_dialer_get_tls", pd_get_tls }, { H_DIALER, "nng_dialer_id", pd_id }, { H_DIALER, "nng_dialer_close", pd_close },
	{ H_LISTENER, "nng_listener_start", pl_start }, { H_LISTENER, "nng_listener_get_int", pl_get_int }, { H_LISTENER, "nng_listener_get_size", pl_get_size },
	{ H_LISTENER, "nng_listener_set_size", pl_set_size }, { H_LISTENER, "nng_listener_get_ms", pl_get_ms }, { H_LISTENER, "nng_listener_set_bool", pl_set_bool },
	{ H_LISTENER, "nng_listener_get_url", pl_get_url }, { H_LISTENER, "nng_listener_get_tls", pl_get_tls }, { H_LISTENER, "nng_listener_id", pl_id },
	{ H_LISTENER, "nng_listener_close", pl_close },
	{ H_PIPE, "nng_pipe_get_size", pp_get_size }, { H_PIPE, "nng_pipe_get_int", pp_get_int }, { H_PIPE, "nng_pipe_get_bool", pp_get_bool },
	{ H_PIPE, "nng_pipe_get_ms", pp_get_ms }, { H_PIPE, "nng_pipe_get_string", pp_get_string }, { H_PIPE, "nng_pipe_get_strdup", pp_get_strdup },
	{ H_PIPE, "nng_pipe_get_strcpy", pp_get_strcpy }, { H_PIPE, "nng_pipe_get_strlen", pp_get_strlen }, { H_PIPE, "nng_pipe_get_scheme", pp_scheme },
	{ H_PIPE, "nng_pipe_peer_addr", pp_peer_addr }, { H_PIPE, "nng_pipe_self_addr", pp_self_addr }, { H_PIPE, "nng_pipe_peer_cert", pp_peer_cert },
	{ H_PIPE, "nng_pipe_socket", pp_socket }, { H_PIPE, "nng_pipe_dialer", pp_dialer }, { H_PIPE, "nng_pipe_listener", pp_listener },
	{ H_PIPE, "nng_pipe_id", pp_id }, { H_PIPE, "nng_pipe_close", pp_close },
};
#define NPROBES ((int) (sizeof(probes) / sizeof(probes[0])))

// Probe one dead handle with every call of its kind.
static void
probe_handle(casectx *cx, int hi, nng_aio *aio)
{
	hnd *h = &cx->h[hi];
	penv e = { cx, hi, h->id, aio };
	if (atomic_exchange(&h->probed, 1)) return;
	if (h->kind == H_PIPE && !atomic_load(&h->dead)) {
		// closed pipe / pipe of a closed endpoint: torn down by the reaper
		// after the close call returned; must be gone within the grace
		uint64_t end = vf_now_ns() + (uint64_t) GRACE_MS * 1000000ULL;
		int      rv;
		long     polls = 0;
		// (nng_pipe_peer_addr depends on nothing but the lookup of the id)
		while (!dead_code(rv = pp_peer_addr(&e))) {
			polls++;
			if (vf_now_ns() > end) {
				char key[128];
				snprintf(key, sizeof(key), "C10/dead-handle/pipe-still-valid/%s", resname(rv));
				vf_violation(key, "pipe handle still usable (%s) %d ms after nng_pipe_close / close of its endpoint returned", resname(rv), GRACE_MS);
				return;
			}
			vf_usleep(100);
		}
		if (polls) vf_stat("pipe_valid_after_async_close", 1);
	}
	for (int i = 0; i < NPROBES; i++) {
		if (probes[i].kind != h->kind) continue;
		int rv = probes[i].fn(&e);
		vf_stat("dead_handle_probes", 1);
		if (rv == P_DOC || dead_code(rv)) {
			vf_class("probe=%s/%s", probes[i].name, rv == P_DOC ? "documented-value" : resname(rv));
			continue;
		}
		char key[160];
		snprintf(key, sizeof(key), "C10/dead-handle/%s/%s", probes[i].name, rv == P_BAD ? "wrong-value" : resname(rv));
		vf_violation(key, "%s on a %s (id %u) after its close%s returned: %s, expected NNG_ECLOSED or NNG_ENOENT", probes[i].name, hkind_names[h->kind], h->id,
		    h->kind == H_SOCK ? "" : " or its socket's close", rv == P_BAD ? "wrong value" : resname(rv));
	}
	vf_stat("dead_handles_probed", 1);
	vf_class("probed/%s", hkind_names[h->kind]);
}

static void
probe_all_dead(casectx *cx, nng_aio *aio)
{
	int n = atomic_load(&cx->nh);
	for (int j = 0; j < n; j++) {
		hnd *h = &cx->h[j];
		if (atomic_load(&h->dead) || (h->kind == H_PIPE && atomic_load(&h->dying))) probe_handle(cx, j, aio);
	}
}

// ------------------------------------------------------------------ closers
static void
do_close(casectx *cx, cact *a)
{
	hnd     *h     = (a->hidx >= 0 && a->kind != CA_DEVCANCEL && a->kind != CA_RAWFD) ? &cx->h[a->hidx] : NULL;
	int      dead0 = h ? atomic_load(&h->dead) : 0;
	int      rv    = 0, z = 0;
	atomic_compare_exchange_strong(&cx->win, &z, 1);
	int      ci    = atomic_fetch_add(&cx->ncalls, 1);
	uint64_t t0    = vf_now_ns();
	switch (a->kind) {
	case CA_SOCK: rv = nng_socket_close(MK(nng_socket, a->hidx)); break;
	case CA_CTX: rv = nng_ctx_close(MK(nng_ctx, a->hidx)); break;
	case CA_DIALER: rv = nng_dialer_close(MK(nng_dialer, a->hidx)); break;
	case CA_LISTENER: rv = nng_listener_close(MK(nng_listener, a->hidx)); break;
	case CA_PIPE: rv = (int) nng_pipe_close(MK(nng_pipe, a->hidx)); break;
	case CA_DEVCANCEL:
		if (cx->devrec) nng_aio_cancel(cx->devrec->aio);
		break;
	case CA_RAWFD:
		// the raw peer of a stalled handshake goes away during teardown
		for (int i = 0; i < cx->nfd; i++) {
			if (cx->fds[i] >= 0) shutdown(cx->fds[i], SHUT_RDWR);
		}
		break;
	}
	a->ms = (double) (vf_now_ns() - t0) / 1e6;
	a->rv = rv;
	if (ci < MAXCALLS) {
		cx->call_t0[ci] = t0;
		cx->call_t1[ci] = vf_now_ns();
	}
	vf_stat("close_calls", 1);
	vf_stat_max("max_close_call_ms", (long) a->ms);
	if (h == NULL) return;
	if (rv == 0) {
		h_closed(cx, a->hidx);
		vf_stat("close_calls_ok", 1);
	}
	bool busy_ok = cx->device && h->kind == H_SOCK && (h->owner == 0 || h->owner == 2);
	if (dead0) {
		chk(cx, a->hidx, ca_names[a->kind], 1, rv);
	} else if (rv != 0 && !dead_code(rv) && !(busy_ok && rv == NNG_EBUSY)) {
		char key[128];
		snprintf(key, sizeof(key), "C10/close-result/%s/%s", ca_names[a->kind], resname(rv));
		vf_violation(key, "%s returned %s", ca_names[a->kind], resname(rv));
	}
	vf_class("close=%s/%s/%s", ca_names[a->kind], resname(rv), dead0 ? "after-close-returned" : "first-or-concurrent");
	if (a->ctx_name != cm_names[CM_THREAD]) vf_class("close-in-callback=%s/%s/%s", ca_names[a->kind], a->ctx_name, resname(rv));
	if (h->role != NULL && !dead0) {
		// which pending element met which close
		vf_class("pair=%s/%s/%s", h->role, resname(rv), a->ctx_name);
		vf_stat("closes_of_handle_owning_pending_element", 1);
	}
}

// run a close plan (once), from whatever context
static void
closer_run(closer *c, int from)
{
	casectx *cx = c->cx;
	if (atomic_exchange(&c->claimed, 1)) return;
	for (int i = 0; i < c->na; i++) {
		c->a[i].ctx_name = cm_names[from];
		if (c->a[i].delay_us > 0) vf_usleep(c->a[i].delay_us);
		atomic_store(&c->cur, i);
		do_close(cx, &c->a[i]);
	}
	if (from != CM_THREAD) {
		vf_stat("close_plans_run_in_callback", 1);
		vf_stat("close_calls_from_callback", c->na);
	}
	if (from == CM_PIPE_ADD || from == CM_PIPE_REM) {
		vf_stat("close_plans_run_in_pipe_callback", 1);
		vf_stat("close_calls_from_pipe_callback", c->na);
	}
	atomic_store(&c->done, 1);
}

static void *
closer_thread(void *arg)
{
	closer  *c  = arg;
	casectx *cx = c->cx;
	while (!atomic_load(&cx->go)) sched_yield();
	closer_run(c, CM_THREAD);
	return NULL;
}

static void
closer_sleep_cb(void *arg)
{
	closer_run(arg, CM_SLEEP_CB);
}

// ------------------------------------------------------------------ submitters
static bool no_late_aio; // mode nolate: submitters start no asynchronous operation while a close runs
static rec *
sub_free_rec(casectx *cx, int k, int op_a, int op_b)
{
	for (int i = 0; i < cx->nr; i++) {
		rec *r = &cx->r[i];
		if (r->owner_sub == k && (r->op == op_a || r->op == op_b) && rec_idle(r)) return r;
	}
	return NULL;
}

#define CALL(hi, name, expr)                                   \
	do {                                                   \
		int d0_ = atomic_load(&cx->h[hi].dead);        \
		int rv_ = (int) (expr);                        \
		chk(cx, hi, name, d0_, rv_);                   \
		sb->calls++;                                   \
		if (d0_) sb->post_close_calls++;               \
	} while (0)

static void *
submitter_thread(void *arg)
{
	subm    *sb = arg;
	casectx *cx = sb->cx;
	vf_rng  *r  = &sb->rng;
	int      vh = cx->sh[0];
	while (!atomic_load(&cx->go)) sched_yield();
	for (int it = 0; it < 400 && !atomic_load(&cx->stop); it++) {
		int      hi;
		nng_msg *m;
		rec     *rc;
		switch (vf_below(r, 14)) {
		case 0:
			m = mkmsg();
			{
				int d0 = atomic_load(&cx->h[vh].dead);
				int rv = nng_sendmsg(cx->s[0], m, NNG_FLAG_NONBLOCK);
				if (rv != 0) nng_msg_free(m);
				chk(cx, vh, "nng_sendmsg", d0, rv);
				sb->calls++;
			}
			break;
		case 1: {
			int d0 = atomic_load(&cx->h[vh].dead);
			m      = NULL;
			int rv = nng_recvmsg(cx->s[0], &m, NNG_FLAG_NONBLOCK);
			if (rv == 0) nng_msg_free(m);
			chk(cx, vh, "nng_recvmsg", d0, rv);
			sb->calls++;
			break;
		}
		case 2: {
			int v;
			if (vf_chance(r, 1, 2)) CALL(vh, "nng_socket_get_int", nng_socket_get_int(cx->s[0], NNG_OPT_RECVBUF, &v));
			else CALL(vh, "nng_socket_set_int", nng_socket_set_int(cx->s[0], vf_chance(r, 1, 2) ? NNG_OPT_RECVBUF : NNG_OPT_SENDBUF, (int) vf_below(r, 6)));
			break;
		}
		case 3:
			if (sb->nctx < 6) {
				nng_ctx c;
				int     d0 = atomic_load(&cx->h[vh].dead);
				int     rv = nng_ctx_open(&c, cx->s[0]);
				chk(cx, vh, "nng_ctx_open", d0, rv);
				sb->calls++;
				if (rv == 0) {
					sb->nctx++;
					h_add(cx, H_CTX, (uint32_t) nng_ctx_id(c), 0, -1);
				}
			}
			break;
		case 4:
			if (no_late_aio) break;
			if ((rc = sub_free_rec(cx, sb->k, OP_SOCK_RECV, OP_SOCK_SEND)) != NULL) {
				rec_submit(rc);
				sb->calls++;
			}
			break;
		case 5:
			if (no_late_aio) break;
			if ((hi = h_pick(cx, r, H_CTX, 0)) >= 0 && (rc = sub_free_rec(cx, sb->k, OP_CTX_RECV, OP_CTX_SEND)) != NULL) {
				rc->hidx = hi;
				rec_submit(rc);
				sb->calls++;
			}
			break;
		case 6:
			if (sb->ndial < 2) {
				nng_dialer d;
				int        d0 = atomic_load(&cx->h[vh].dead);
				int        rv = nng_dialer_create(&d, cx->s[0], cx->dead_url);
				chk(cx, vh, "nng_dialer_create", d0, rv);
				sb->calls++;
				if (rv == 0) {
					sb->ndial++;
					int nh = h_add(cx, H_DIALER, (uint32_t) nng_dialer_id(d), 0, -1);
					nng_dialer_set_ms(d, NNG_OPT_RECONNMINT, 1);
					nng_dialer_set_ms(d, NNG_OPT_RECONNMAXT, 5);
					if (nh >= 0) CALL(nh, "nng_dialer_start", nng_dialer_start(d, NNG_FLAG_NONBLOCK));
				}
			}
			break;
		case 7:
			if (sb->nlist < 2) {
				nng_listener l;
				char         u[96];
				vf_url(VF_T_INPROC, u, sizeof(u));
				int d0 = atomic_load(&cx->h[vh].dead);
				int rv = nng_listener_create(&l, cx->s[0], u);
				chk(cx, vh, "nng_listener_create", d0, rv);
				sb->calls++;
				if (rv == 0) {
					sb->nlist++;
					int nh = h_add(cx, H_LISTENER, (uint32_t) nng_listener_id(l), 0, -1);
					if (nh >= 0) CALL(nh, "nng_listener_start", nng_listener_start(l, 0));
				}
			}
			break;
		case 8:
			if ((hi = h_pick(cx, r, H_PIPE, 0)) >= 0) {
				size_t v;
				CALL(hi, "nng_pipe_get_size", nng_pipe_get_size(MK(nng_pipe, hi), NNG_OPT_RECVMAXSZ, &v));
			}
			break;
		case 9:
			if ((hi = h_pick(cx, r, H_DIALER, 0)) >= 0) {
				nng_duration v;
				if (vf_chance(r, 1, 2)) CALL(hi, "nng_dialer_get_ms", nng_dialer_get_ms(MK(nng_dialer, hi), NNG_OPT_RECONNMINT, &v));
				else CALL(hi, "nng_dialer_set_ms", nng_dialer_set_ms(MK(nng_dialer, hi), NNG_OPT_RECONNMAXT, (nng_duration) vf_range(r, 1, 20)));
			}
			break;
		case 10:
			if ((hi = h_pick(cx, r, H_LISTENER, 0)) >= 0) {
				size_t v;
				CALL(hi, "nng_listener_get_size", nng_listener_get_size(MK(nng_listener, hi), NNG_OPT_RECVMAXSZ, &v));
			}
			break;
		case 11:
			if ((hi = h_pick(cx, r, H_CTX, 0)) >= 0) {
				nng_duration v;
				if (vf_chance(r, 1, 2)) CALL(hi, "nng_ctx_get_ms", nng_ctx_get_ms(MK(nng_ctx, hi), NNG_OPT_RECVTIMEO, &v));
				else {
					int d0 = atomic_load(&cx->h[hi].dead);
					m      = NULL;
					int rv = nng_ctx_recvmsg(MK(nng_ctx, hi), &m, NNG_FLAG_NONBLOCK);
					if (rv == 0) nng_msg_free(m);
					chk(cx, hi, "nng_ctx_recvmsg", d0, rv);
					sb->calls++;
				}
			}
			break;
		case 12: {
			uint16_t v;
			CALL(vh, "nng_socket_proto_id", nng_socket_proto_id(cx->s[0], &v));
			break;
		}
		case 13:
			// a late pipe close racing the teardown of the same pipe
			if (vf_chance(r, 1, 6) && (hi = h_pick(cx, r, H_PIPE, 0)) >= 0) {
				int d0 = atomic_load(&cx->h[hi].dead);
				int rv = (int) nng_pipe_close(MK(nng_pipe, hi));
				if (rv == 0) h_closed(cx, hi);
				chk(cx, hi, "nng_pipe_close", d0, rv);
				sb->calls++;
			}
			break;
		}
		int z = (int) vf_below(r, 120);
		if (z > 20) vf_usleep(z);
		else sched_yield();
	}
	return NULL;
}

// ------------------------------------------------------------------ pumps
// A peer socket (W; X behind a device) keeps sending towards the victim from
// `go` to `stop`, so that transport receive completions, the protocols' pipe
// receive callbacks and the hand-up into user aios / queues race the teardown.
// One message in three is large (half received when the pipe closes).  REQ /
// SURVEYOR peers also drain the answers; REP / RESPONDENT peers answer what
// they receive.  The calls are judged like the submitters' (dead-handle form).
static void
pump_chk(casectx *cx, int sh, const char *name, int d0, int rv, unsigned *seen)
{
	unsigned bit = 1u << (rv == 0 ? 0 : rv == NNG_EAGAIN ? 1 : rv == NNG_ECLOSED ? 2 : rv == NNG_ESTATE ? 3 : 4);
	if (d0 || rv == 0 || !(*seen & bit) || bit == 16) chk(cx, sh, name, d0, rv);
	*seen |= bit;
}

static void *
pump_thread(void *arg)
{
	pump           *pm = arg;
	casectx        *cx = pm->cx;
	nng_socket      s  = cx->s[pm->si];
	int             sh = cx->sh[pm->si];
	const vf_proto *q  = cx->sp[pm->si];
	bool            echo = is_proto(q, "rep") || is_proto(q, "respondent");
	bool            drain = is_proto(q, "req") || is_proto(q, "surveyor");
	unsigned        seen_s = 0, seen_r = 0;
	while (!atomic_load(&cx->go)) sched_yield();
	while (!atomic_load(&cx->stop)) {
		nng_msg *m  = NULL;
		int      rv = NNG_EAGAIN, d0;
		if (echo || drain) {
			d0     = atomic_load(&cx->h[sh].dead);
			int rr = nng_recvmsg(s, &m, NNG_FLAG_NONBLOCK);
			if (rr == 0) {
				nng_msg_free(m);
				pm->recvd++;
			}
			pump_chk(cx, sh, "peer:nng_recvmsg", d0, rr, &seen_r);
		}
		bool   big = vf_chance(&pm->rng, 1, 3);
		size_t n   = big ? (size_t) pm->big : (size_t) vf_range(&pm->rng, 4, 64);
		if (nng_msg_alloc(&m, n) != 0) vf_harness_fail("msg alloc");
		d0 = atomic_load(&cx->h[sh].dead);
		int w = atomic_load(&cx->win);
		rv = nng_sendmsg(s, m, NNG_FLAG_NONBLOCK);
		if (rv != 0) nng_msg_free(m);
		pump_chk(cx, sh, "peer:nng_sendmsg", d0, rv, &seen_s);
		if (rv == 0) {
			pm->sent++;
			if (w == 1 && atomic_load(&cx->win) == 1) {
				pm->sent_win++;
				if (big) pm->sent_big_win++;
			}
		}
		if (rv == NNG_ECLOSED) break;
		if (rv != 0) vf_usleep((int) vf_range(&pm->rng, 10, 60));
		else if (vf_chance(&pm->rng, 1, 4)) sched_yield();
	}
	return NULL;
}

static void
pump_add(casectx *cx, int si, uint64_t seed)
{
	if (cx->npm >= 2 || !can_send(cx->sp[si])) return;
	pump *pm = &cx->pm[cx->npm++];
	memset(pm, 0, sizeof(*pm));
	pm->cx  = cx;
	pm->si  = si;
	pm->big = cx->tran == T_UDP ? 8000 : 65536;
	vf_rng_seed(&pm->rng, seed, 77 + (uint64_t) si);
}

// ------------------------------------------------------------------ scenario
static int
open_sock(casectx *cx, const vf_proto *p, bool raw)
{
	int i  = cx->ns;
	int rv = raw ? p->open_raw(&cx->s[i]) : p->open(&cx->s[i]);
	if (rv != 0) vf_harness_fail("open %s: %s", p->name, nng_strerror(rv));
	cx->sp[i] = p;
	cx->ns++;
	cx->sh[i] = h_add(cx, H_SOCK, (uint32_t) nng_socket_id(cx->s[i]), i, -1);
	if (cx->notify) {
		cx->cbarg[i].cx = cx;
		cx->cbarg[i].si = i;
		nng_pipe_notify(cx->s[i], NNG_PIPE_EV_ADD_POST, pipe_cb, &cx->cbarg[i]);
		nng_pipe_notify(cx->s[i], NNG_PIPE_EV_REM_POST, pipe_cb, &cx->cbarg[i]);
	}
	return i;
}

static bool
has_ctx(const vf_proto *p)
{
	return !strcmp(p->name, "req") || !strcmp(p->name, "rep") || !strcmp(p->name, "surveyor") || !strcmp(p->name, "respondent") || !strcmp(p->name, "sub");
}
static bool
can_recv(const vf_proto *p)
{
	return strcmp(p->name, "pub") && strcmp(p->name, "push");
}
static bool
can_send(const vf_proto *p)
{
	return strcmp(p->name, "sub") && strcmp(p->name, "pull");
}

static int
wait_pipes_n(nng_socket s, int n, int ms)
{
	for (int i = 0; i < ms * 2; i++) {
		if (vf_pipe_count(s) >= n) return 0;
		vf_usleep(500);
	}
	return NNG_ETIMEDOUT;
}

static const char *
tname(int t)
{
	return t == T_UDP ? "udp" : vf_tran_names[t];
}

// socket://: both sockets get a started listener and one end of a socketpair
static void
connect_sockfd(casectx *cx, int a, int b, int *lh_out)
{
	int          fds[2], rv;
	nng_listener la, lb;
	if ((rv = nng_socket_pair(fds)) != 0) vf_harness_fail("nng_socket_pair: %s", nng_strerror(rv));
	if ((rv = nng_listener_create(&la, cx->s[a], "socket://")) != 0 || (rv = nng_listener_create(&lb, cx->s[b], "socket://")) != 0) vf_harness_fail("socket:// listener_create: %s", nng_strerror(rv));
	int lh = h_add(cx, H_LISTENER, (uint32_t) nng_listener_id(la), a, -1);
	h_add(cx, H_LISTENER, (uint32_t) nng_listener_id(lb), b, -1);
	if ((rv = nng_listener_start(la, 0)) != 0 || (rv = nng_listener_start(lb, 0)) != 0 || (rv = nng_listener_set_int(la, NNG_OPT_SOCKET_FD, fds[0])) != 0 ||
	    (rv = nng_listener_set_int(lb, NNG_OPT_SOCKET_FD, fds[1])) != 0)
		vf_harness_fail("socket:// start: %s", nng_strerror(rv));
	if (wait_pipes_n(cx->s[a], 1, 4000) != 0 || wait_pipes_n(cx->s[b], 1, 4000) != 0) vf_harness_fail("no pipe after connect over socket://");
	if (lh_out) *lh_out = lh;
}

// socket li listens, di dials (blocking dial), both handles registered
static void
connect_socks(casectx *cx, int li, int di, int tran, char *lurl_out, size_t lsz, int *lh_out)
{
	char         url[128], durl[128];
	nng_listener l;
	nng_dialer   d;
	int          rv;
	if (tran == VF_T_SOCKFD) {
		connect_sockfd(cx, li, di, lh_out);
		if (lurl_out) lurl_out[0] = 0;
		return;
	}
	if (tran == T_UDP) snprintf(url, sizeof(url), "udp://127.0.0.1:0");
	else vf_url(tran, url, sizeof(url));
	if ((rv = nng_listener_create(&l, cx->s[li], url)) != 0) vf_harness_fail("listener_create %s: %s", url, nng_strerror(rv));
	int lh = h_add(cx, H_LISTENER, (uint32_t) nng_listener_id(l), li, -1);
	if ((rv = nng_listener_start(l, 0)) != 0) vf_harness_fail("listener_start %s: %s", url, nng_strerror(rv));
	if (tran == T_UDP) {
		int port = 0;
		if ((rv = nng_listener_get_int(l, NNG_OPT_BOUND_PORT, &port)) != 0) vf_harness_fail("udp bound port: %s", nng_strerror(rv));
		snprintf(durl, sizeof(durl), "udp://127.0.0.1:%d", port);
	} else if ((rv = vf_dial_url(l, tran, url, durl, sizeof(durl))) != 0) vf_harness_fail("dial url: %s", nng_strerror(rv));
	if ((rv = nng_dialer_create(&d, cx->s[di], durl)) != 0) vf_harness_fail("dialer_create %s: %s", durl, nng_strerror(rv));
	h_add(cx, H_DIALER, (uint32_t) nng_dialer_id(d), di, -1);
	nng_dialer_set_ms(d, NNG_OPT_RECONNMINT, 2);
	nng_dialer_set_ms(d, NNG_OPT_RECONNMAXT, 20);
	if ((rv = nng_dialer_start(d, 0)) != 0) vf_harness_fail("dialer_start %s: %s", durl, nng_strerror(rv));
	if (wait_pipes_n(cx->s[li], 1, 4000) != 0 || wait_pipes_n(cx->s[di], 1, 4000) != 0) vf_harness_fail("no pipe after connect over %s", tname(tran));
	if (lurl_out) snprintf(lurl_out, lsz, "%s", durl);
	if (lh_out) *lh_out = lh;
}

static int
raw_connect_url(const char *durl, int tran)
{
	if (tran == VF_T_IPC) return vf_unix_connect(durl + 6, 2000);
	const char *c = strrchr(durl, ':');
	return c ? vf_tcp_connect((uint16_t) atoi(c + 1), 2000) : -1;
}

// like raw_connect_url, but a tcp client advertises a small receive window, so
// that the sender's kernel buffers fill after little data
static int
raw_connect_small_rcvbuf(const char *durl, int tran)
{
	if (tran == VF_T_IPC) return vf_unix_connect(durl + 6, 2000);
	const char *c = strrchr(durl, ':');
	if (c == NULL) return -1;
	struct sockaddr_in sin;
	int                fd = socket(AF_INET, SOCK_STREAM | SOCK_CLOEXEC, 0), sz = 2048;
	if (fd < 0) return -1;
	setsockopt(fd, SOL_SOCKET, SO_RCVBUF, &sz, sizeof(sz));
	memset(&sin, 0, sizeof(sin));
	sin.sin_family      = AF_INET;
	sin.sin_addr.s_addr = htonl(INADDR_LOOPBACK);
	sin.sin_port        = htons((uint16_t) atoi(c + 1));
	if (connect(fd, (struct sockaddr *) &sin, sizeof(sin)) != 0) {
		close(fd);
		return -1;
	}
	return fd;
}

static int
pick_child(casectx *cx, vf_rng *r, int si, int *ca_kind)
{
	static const int kinds[] = { H_CTX, H_DIALER, H_LISTENER, H_PIPE };
	static const int cas[]   = { CA_CTX, CA_DIALER, CA_LISTENER, CA_PIPE };
	int              start   = (int) vf_below(r, 4);
	// half of the time: a handle that owns a pending element
	if (vf_chance(r, 1, 2)) {
		int n = atomic_load(&cx->nh), cand[MAXH], nc = 0;
		for (int j = 0; j < n; j++) {
			if (cx->h[j].owner == si && cx->h[j].kind != H_SOCK && cx->h[j].role != NULL) cand[nc++] = j;
		}
		if (nc > 0) {
			int hi = cand[vf_below(r, (uint32_t) nc)];
			*ca_kind = cas[cx->h[hi].kind - 1];
			return hi;
		}
	}
	for (int k = 0; k < 4; k++) {
		int j  = (start + k) % 4;
		int hi = h_pick(cx, r, kinds[j], si);
		if (hi >= 0) {
			*ca_kind = cas[j];
			return hi;
		}
	}
	return -1;
}

static void
plan_add(casectx *cx, vf_rng *r, int thread, int kind, int hidx)
{
	if (kind != CA_DEVCANCEL && kind != CA_RAWFD && hidx < 0) return;
	if (thread >= MAXCL) return;
	if (thread >= cx->ncl) cx->ncl = thread + 1;
	closer *c = &cx->cl[thread];
	c->cx     = cx;
	if (c->na >= 4) return;
	cact *a     = &c->a[c->na++];
	a->kind     = kind;
	a->hidx     = hidx;
	a->delay_us = vf_chance(r, 1, 2) ? 0 : (int) vf_below(r, cx->expiry ? 6000 : 2500);
	a->rv       = -1;
}

static const int teardown_sites[] = { NNI_VP_PIPE_REAP_BEFORE_STOP, NNI_VP_PIPE_CLOSE_FLAGGED, NNI_VP_SOCK_SHUTDOWN_EPS, NNI_VP_SOCK_CLOSE_BEFORE_WAIT, NNI_VP_REAP_BEFORE_FUNC, NNI_VP_PIPE_REMOVE, NNI_VP_PIPE_REAP_BEFORE_CLOSE, NNI_VP_PIPE_RUN_CB, NNI_VP_AIO_STOP_BEFORE_WAIT, NNI_VP_TASK_BEFORE_CB };
#define NSITES ((int) (sizeof(teardown_sites) / sizeof(teardown_sites[0])))

static casectx *prev_cx[2];
static int      cur_task_threads = 2;
static int      pcb_other = 1; // mode pipecb: plans in pipe callbacks close endpoints of the other socket / the other socket
#define PCB_CLOSE_MS 10000

static void
stat_mode_case(void)
{
	char k[48];
	snprintf(k, sizeof(k), "cases/%s", vf_mode[0] ? vf_mode : "default");
	vf_stat(k, 1);
}
static int      wd_secs = 30;

// An operation that the library lost sits on a list of an object that has been
// freed: cancelling, stopping or freeing its aio would touch that memory, and
// a thread that never returns cannot be joined.  After the verdict the record
// (and its case context) is abandoned, the allocator balance of this
// nng_init/nng_fini period is not judged, and later losses in this process
// are only counted (with a short wait), so that a tree with such a defect
// does not cost GRACE_MS per occurrence.
static int      tainted, tainted_alloc;
static casectx *kept[512];
static int      nkept;

static int
grace_ms(void)
{
	return tainted ? 300 : GRACE_MS;
}

static void
lost(casectx *cx, const char *key, const char *what, const char *phase)
{
	char cmd[256];
	cx->keep = true;
	tainted_alloc = 1;
	if (tainted) {
		vf_stat("operations_lost_after_first_verdict", 1);
		return;
	}
	tainted = 1;
	vf_violation(key, "%s %d ms after every close call had returned (%s)", what, GRACE_MS, phase);
	vf_stat("operations_lost", 1);
	fflush(NULL);
	// where is everybody?  (diagnostics only)
	snprintf(cmd, sizeof(cmd), "gdb -q -batch -p %d -ex 'thread apply all bt 12' 2>&1 | grep -v '^\\[New\\|^Reading\\|^warning' | head -300 >&2", (int) getpid());
	if (system(cmd) != 0) fprintf(stderr, "(no stacks)\n");
}

static void
check_pending(casectx *cx, const char *phase)
{
	char key[128], what[200];
	for (int i = 0; i < cx->nr; i++) {
		rec *rc = &cx->r[i];
		if (rc->lost || rc->op == OP_DEVICE) continue;
		if (!atomic_load(&cx->h[rc->hidx].dead)) continue;
		uint64_t t0 = vf_now_ns();
		if (!rec_wait(rc, grace_ms())) {
			rc->lost = true;
			snprintf(key, sizeof(key), "C10/pending-forever/%s/%s", op_names[rc->op], cx->key_tag ? cx->key_tag : cx->sp[cx->h[rc->hidx].owner]->name);
			snprintf(what, sizeof(what), "%s on a %s still has no callback", op_names[rc->op], hkind_names[cx->h[rc->hidx].kind]);
			lost(cx, key, what, phase);
		} else {
			vf_stat_max("max_completion_wait_after_close_ms", (long) ((vf_now_ns() - t0) / 1000000ULL));
		}
	}
	for (int i = 0; i < cx->nb; i++) {
		blocker *b = &cx->b[i];
		if (b->lost || !atomic_load(&cx->h[b->hidx].dead)) continue;
		uint64_t end = vf_now_ns() + (uint64_t) grace_ms() * 1000000ULL;
		while (!atomic_load(&b->done)) {
			if (vf_now_ns() > end) {
				b->lost = true;
				snprintf(key, sizeof(key), "C10/pending-forever/%s/%s", b_names[b->op], cx->key_tag ? cx->key_tag : cx->sp[cx->h[b->hidx].owner]->name);
				snprintf(what, sizeof(what), "thread blocked in %s (on a %s that was closed) has not returned", b_names[b->op], hkind_names[cx->h[b->hidx].kind]);
				lost(cx, key, what, phase);
				break;
			}
			vf_usleep(200);
		}
	}
}

static void
run_case(long idx, vf_rng *r)
{
	casectx *cx = calloc(1, sizeof(*cx));
	char     vurl[128] = "", durl[128], url[128];
	int      v_lh = -1, rv;
	bool     m_expiry = !strcmp(vf_mode, "expiry"), m_redial = !strcmp(vf_mode, "redial"), m_device = !strcmp(vf_mode, "device");

	pthread_mutex_init(&cx->hmtx, NULL);
	cx->idx = idx;
	// decisions of the later additions (traffic pumps, callback loops, plans
	// in pipe callbacks, parked replies) come from a generator of their own
	vf_rng x;
	vf_rng_seed(&x, vf_seed, (uint64_t) idx | (1ULL << 40));
	bool pump_on  = vf_chance(&x, 3, 4);
	bool m_pipecb = !strcmp(vf_mode, "pipecb");
	bool pcb_cand = m_pipecb || (!strcmp(vf_mode, "mixed") || !strcmp(vf_mode, "nolate") || !strcmp(vf_mode, "device") ? vf_chance(&x, 2, 5) : false);
	bool rp_elem  = !m_expiry && !m_redial && vf_chance(&x, 2, 5);
	cx->rearm     = !no_late_aio && vf_chance(&x, 1, 2);
	// development knobs (not used by the check): switch the additions off
	if (getenv("C10_NOPUMP")) pump_on = cx->rearm = false;
	if (getenv("C10_NORP")) rp_elem = false;
	const vf_proto *P = &vf_protos[vf_below(r, (uint32_t) vf_nprotos)];
	if (m_redial && vf_chance(r, 2, 3)) P = vf_proto_by_name(vf_chance(r, 1, 2) ? "pair0" : "pair1");
	const vf_proto *Q = vf_proto_by_name(P->peer_name);
	cx->proto         = P;
	uint32_t tsel     = vf_below(r, 100);
	cx->tran          = tsel < 36 ? VF_T_INPROC : tsel < 52 ? VF_T_IPC : tsel < 79 ? VF_T_TCP : tsel < 84 ? VF_T_WS : tsel < 92 ? VF_T_SOCKFD : T_UDP;
	if (m_redial) cx->tran = VF_T_TCP;
	// development knobs (not used by the check): pin protocol / transport
	if (getenv("C10_PROTO") && vf_proto_by_name(getenv("C10_PROTO"))) {
		P = vf_proto_by_name(getenv("C10_PROTO"));
		Q = vf_proto_by_name(P->peer_name);
		cx->proto = P;
	}
	if (getenv("C10_TRAN")) cx->tran = atoi(getenv("C10_TRAN"));
	cx->device = m_device || (!m_redial && vf_chance(r, 1, 10));
	cx->rawv   = !cx->device && vf_chance(r, 1, 7);
	if (getenv("C10_RAW")) cx->rawv = !cx->device;
	cx->notify = vf_chance(r, 1, 2);
	if (pcb_cand) cx->notify = true;
	cx->expiry = m_expiry;
	int tmo    = -1; // operations pending at close time never expire by themselves
	int base_us = 0;
	if (m_expiry) {
		tmo     = (int) vf_range(r, 3, 12);
		base_us = tmo * 1000;
	}

	int pert = (int) vf_below(r, 10), site = -1;
	vf_pt_off();
	if (pert >= 2 && pert < 5) vf_pt_jitter(vf_rand(r), (int) vf_range(r, 5, 60), (int) vf_range(r, 20, 300));
	else if (pert >= 5) {
		site = teardown_sites[vf_below(r, NSITES)];
		vf_pt_jitter(vf_rand(r), 5, 50);
		vf_pt_target(site, (int) vf_range(r, 300, 1000), 100, (int) vf_range(r, 300, 3000));
	}
	int shape = (int) vf_below(r, 10);
	vf_case_begin(idx, "proto=%s%s tran=%s%s shape=%d pert=%s mode=%s", P->name, cx->rawv ? "(raw)" : "", tname(cx->tran), cx->device ? " device" : "", shape,
	    pert < 2 ? "none" : pert < 5 ? "jitter" : vf_pt_name(site), vf_mode);
	vf_url(VF_T_INPROC, cx->dead_url, sizeof(cx->dead_url)); // nobody ever listens there

	// ---- sockets
	int V = open_sock(cx, P, cx->device || cx->rawv);
	int W = open_sock(cx, Q, false);
	int V2 = -1, X = -1;
	if (cx->device) {
		V2 = open_sock(cx, Q, true);
		X  = open_sock(cx, P, false);
	}
	nng_socket sv = cx->s[V], sw = cx->s[W];
	int        bufv = (int) vf_below(r, 5);
	nng_socket_set_int(sv, NNG_OPT_RECVBUF, bufv);
	nng_socket_set_int(sv, NNG_OPT_SENDBUF, (int) vf_below(r, 5));
	nng_socket_set_int(sw, NNG_OPT_RECVBUF, (int) vf_below(r, 3));
	nng_socket_set_ms(sv, NNG_OPT_RECONNMINT, (nng_duration) vf_range(r, 1, 8));
	nng_socket_set_ms(sv, NNG_OPT_RECONNMAXT, (nng_duration) vf_range(r, 8, 30));
	bool retry_armed = false;
	if (!strcmp(P->name, "req") && !cx->rawv && !cx->device && vf_chance(r, 2, 3)) {
		nng_socket_set_ms(sv, NNG_OPT_REQ_RESENDTIME, (nng_duration) vf_range(r, 5, 40));
		nng_socket_set_ms(sv, NNG_OPT_REQ_RESENDTICK, (nng_duration) vf_range(r, 1, 10));
		retry_armed = true;
	}
	if (!strcmp(P->name, "surveyor")) nng_socket_set_ms(sv, NNG_OPT_SURVEYOR_SURVEYTIME, m_expiry ? tmo : 60000);
	if (!strcmp(P->name, "sub") && !cx->rawv && !cx->device) nng_sub0_socket_subscribe(sv, "", 0);
	if (!strcmp(Q->name, "sub")) nng_sub0_socket_subscribe(sw, "", 0);
	if (cx->device && !strcmp(P->name, "sub")) nng_sub0_socket_subscribe(cx->s[X], "", 0);

	// ---- connections
	bool connected = cx->device || vf_chance(r, 3, 4);
	bool v_listens = cx->device || vf_chance(r, 1, 2);
	if (connected) {
		if (v_listens) connect_socks(cx, V, W, cx->tran, vurl, sizeof(vurl), &v_lh);
		else connect_socks(cx, W, V, cx->tran, NULL, 0, NULL);
		if (cx->device) connect_socks(cx, V2, X, vf_chance(r, 1, 2) ? VF_T_INPROC : VF_T_TCP, NULL, 0, NULL);
		vf_class("element=connected/%s/%s", tname(cx->tran), v_listens ? "listens" : "dials");
	}
	// second pipe from the same peer (not for the one-peer protocols)
	if (connected && v_listens && vurl[0] && !cx->device && strncmp(P->name, "pair", 4) && vf_chance(r, 1, 4)) {
		nng_dialer d2;
		if (nng_dial(sw, vurl, &d2, NNG_FLAG_NONBLOCK) == 0) {
			h_add(cx, H_DIALER, (uint32_t) nng_dialer_id(d2), W, -1);
			wait_pipes_n(sv, 2, 1000);
		}
	}

	// ---- dialer to a dead address: connection refused / redial timer armed
	int dead_dh = -1;
	if (vf_chance(r, 2, 5) || m_redial) {
		uint16_t port;
		int      k = (int) vf_below(r, 3);
		if (m_redial) k = 1;
		else if (cx->tran == T_UDP || vf_chance(r, 1, 8)) k = 3;
		if (k == 3) {
			fd_keep(cx, udp_reserved_port(&port));
			snprintf(durl, sizeof(durl), "udp://127.0.0.1:%u", port);
		} else if (k == 0) snprintf(durl, sizeof(durl), "%s", cx->dead_url);
		else if (k == 1) {
			fd_keep(cx, tcp_reserved_port(&port));
			snprintf(durl, sizeof(durl), "tcp://127.0.0.1:%u", port);
		} else snprintf(durl, sizeof(durl), "ipc:///tmp/vf-c10-none-%d-%ld.sock", (int) getpid(), idx);
		nng_dialer d;
		if ((rv = nng_dialer_create(&d, sv, durl)) != 0) vf_harness_fail("dialer_create %s: %s", durl, nng_strerror(rv));
		dead_dh = h_add(cx, H_DIALER, (uint32_t) nng_dialer_id(d), V, -1);
		int how = (int) vf_below(r, 4);
		if (dead_dh >= 0) cx->h[dead_dh].role = how <= 1 ? "dialer-redialing-dead-address" : how == 2 ? "dialer-start-aio-dead-address" : NULL;
		if (how <= 1) nng_dialer_start(d, NNG_FLAG_NONBLOCK);
		else if (how == 2) {
			rec *rc = rec_new(cx, OP_DIAL_AIO, dead_dh, -1, -1);
			if (rc) rec_submit(rc);
		} // else: created, never started
		vf_class("element=dead-dialer/%s/%s", k == 0 ? "inproc" : k == 1 ? "tcp" : k == 3 ? "udp" : "ipc", how <= 1 ? "nonblock" : how == 2 ? "start-aio" : "unstarted");
	}

	// ---- dial that stalls mid-handshake against a raw peer (or a flaky one)
	if ((vf_chance(r, 1, 4) || m_redial)) {
		bool     ipc = !m_redial && vf_chance(r, 1, 3);
		int      lfd;
		uint16_t port = 0;
		if (ipc) {
			snprintf(cx->unl[cx->nunl], sizeof(cx->unl[0]), "/tmp/vf-c10-raw-%d-%ld.sock", (int) getpid(), idx);
			lfd = vf_unix_listen(cx->unl[cx->nunl]);
			snprintf(durl, sizeof(durl), "ipc://%s", cx->unl[cx->nunl]);
			cx->nunl++;
		} else {
			lfd = vf_tcp_listen(&port);
			snprintf(durl, sizeof(durl), "tcp://127.0.0.1:%u", port);
		}
		if (lfd < 0) vf_harness_fail("raw listen");
		nng_dialer d;
		if ((rv = nng_dialer_create(&d, sv, durl)) != 0) vf_harness_fail("dialer_create %s: %s", durl, nng_strerror(rv));
		int dh = h_add(cx, H_DIALER, (uint32_t) nng_dialer_id(d), V, -1);
		bool flk = m_redial || vf_chance(r, 1, 3);
		if (flk) {
			cx->fk.cx      = cx;
			cx->fk.lfd     = lfd;
			cx->fk.mode    = (int) vf_below(r, 4);
			cx->fk.proto   = P->peer;
			cx->fk.running = true;
			vf_rng_seed(&cx->fk.rng, vf_rand(r), 3);
			if (pthread_create(&cx->fk.th, NULL, flaky_thread, &cx->fk) != 0) vf_harness_fail("pthread_create");
		}
		int how = (int) vf_below(r, 3);
		if (dh >= 0) cx->h[dh].role = flk ? "dialer-flaky-peer" : how == 0 ? "dialer-stalled-handshake" : how == 1 ? "dialer-start-aio-stalled-handshake" : "dialer-sync-start-blocked";
		if (how == 0 || flk) nng_dialer_start(d, NNG_FLAG_NONBLOCK);
		else if (how == 1) {
			rec *rc = rec_new(cx, OP_DIAL_AIO, dh, -1, -1);
			if (rc) rec_submit(rc);
		} else blocker_add(cx, B_DIAL_SYNC, dh);
		if (!flk) {
			int fd = vf_tcp_accept(lfd, 2000); // works for any listening fd
			if (fd >= 0) {
				stall_bytes(fd, P->peer, (int) vf_below(r, 8), false);
				fd_keep(cx, fd);
				cx->stall_dials++;
			}
		}
		fd_keep(cx, lfd);
		vf_class("element=stalled-dial/%s/%s", ipc ? "ipc" : "tcp", flk ? "flaky-peer" : how == 0 ? "nonblock" : how == 1 ? "start-aio" : "sync");
	}

	// ---- accept that stalls mid-handshake: raw client connects to V's listener
	if (!m_redial && vf_chance(r, 1, 4)) {
		int  t    = cx->tran;
		bool have = connected && v_listens && (t == VF_T_TCP || t == VF_T_IPC || t == VF_T_WS);
		if (!have && !cx->device) {
			nng_listener l;
			t = vf_chance(r, 2, 3) ? VF_T_TCP : VF_T_IPC;
			vf_url(t, url, sizeof(url));
			if (nng_listener_create(&l, sv, url) == 0) {
				v_lh = h_add(cx, H_LISTENER, (uint32_t) nng_listener_id(l), V, -1);
				if (nng_listener_start(l, 0) == 0 && vf_dial_url(l, t, url, vurl, sizeof(vurl)) == 0) have = true;
			}
		}
		if (have) {
			int n = (int) vf_range(r, 1, 2);
			for (int i = 0; i < n; i++) {
				int fd = raw_connect_url(vurl, t);
				if (fd >= 0) {
					stall_bytes(fd, P->peer, (int) vf_below(r, 8), t == VF_T_WS);
					fd_keep(cx, fd);
					cx->stall_accepts++;
					if (v_lh >= 0) cx->h[v_lh].role = "listener-stalled-accept";
				}
			}
			vf_class("element=stalled-accept/%s", tname(t));
		}
	}

	// ---- listener with nothing to accept
	if (!cx->device && vf_chance(r, 1, 5)) {
		nng_listener l;
		int          t = (int) vf_below(r, 3);
		vf_url(t, url, sizeof(url));
		if (nng_listener_create(&l, sv, url) == 0) {
			int ih = h_add(cx, H_LISTENER, (uint32_t) nng_listener_id(l), V, -1);
			if (ih >= 0) cx->h[ih].role = "listener-idle";
			if (vf_chance(r, 4, 5)) nng_listener_start(l, 0);
			vf_class("element=idle-listener/%s", tname(t));
		}
	}

	// ---- device
	if (cx->device) {
		cx->devrec = rec_new(cx, OP_DEVICE, cx->sh[V], -1, -1);
		rec_submit(cx->devrec);
		vf_class("element=device/%s", P->name);
	}

	// ---- pending operations
	int  nctx = 0;
	bool cooked = !cx->device && !cx->rawv;
	if (cooked && has_ctx(P)) nctx = (int) vf_below(r, 4);
	int  ctxh[4];
	rec *crv[4] = { NULL, NULL, NULL, NULL }, *csn[4] = { NULL, NULL, NULL, NULL };
	bool sendfirst = !strcmp(P->name, "req") || !strcmp(P->name, "surveyor");
	bool replier   = !strcmp(P->name, "rep") || !strcmp(P->name, "respondent");
	// the element "replies parked behind a busy pipe" (below) wants two or three contexts
	int  nctx_rp   = rp_elem && cooked && replier ? (int) vf_range(&x, 2, 3) : 0;
	for (int i = 0; i < nctx || i < nctx_rp; i++) {
		nng_ctx c;
		if ((rv = nng_ctx_open(&c, sv)) != 0) vf_harness_fail("ctx_open: %s", nng_strerror(rv));
		ctxh[i] = h_add(cx, H_CTX, (uint32_t) nng_ctx_id(c), V, -1);
		if (!strcmp(P->name, "sub")) nng_sub0_ctx_subscribe(c, "", 0);
		rec *a = rec_new(cx, sendfirst ? OP_CTX_SEND : OP_CTX_RECV, ctxh[i], tmo, -1);
		if (ctxh[i] >= 0) cx->h[ctxh[i]].role = sendfirst ? "ctx-request-outstanding" : "ctx-recv-pending";
		if (a) a->rearm = 1;
		if (a) rec_submit(a);
		if (sendfirst && a) {
			rec_wait(a, 100);
			rec *b = rec_new(cx, OP_CTX_RECV, ctxh[i], tmo, -1);
			if (b) {
				// request, reply, next request ... from the callbacks
				a->rearm = b->rearm = 2;
				a->pair  = b;
				b->pair  = a;
			}
			if (b && rec_idle(a)) rec_submit(b);
		}
		if (replier && a) {
			// the context's reply record: started by the receive's callback
			// (callback loops) or by the parked-replies element
			rec *b = rec_new(cx, OP_CTX_SEND, ctxh[i], -1, -1);
			if (b) {
				a->rearm = b->rearm = 2;
				a->pair  = b;
				b->pair  = a;
			}
			crv[i] = a;
			csn[i] = b;
		}
	}
	int nctx_all = nctx > nctx_rp ? nctx : nctx_rp;
	if (!cx->device) {
		int nsend = can_send(P) ? (int) vf_below(r, 4) : vf_chance(r, 1, 8);
		int nrecv = can_recv(P) ? (int) vf_below(r, 4) : vf_chance(r, 1, 8);
		for (int i = 0; i < nsend; i++) {
			rec *a = rec_new(cx, OP_SOCK_SEND, cx->sh[V], tmo, -1);
			if (a) a->rearm = !sendfirst && !replier;
			if (a) rec_submit(a);
		}
		if (nsend && sendfirst) vf_msleep(1);
		for (int i = 0; i < nrecv; i++) {
			rec *a = rec_new(cx, OP_SOCK_RECV, cx->sh[V], tmo, -1);
			if (a) a->rearm = 1;
			if (a) rec_submit(a);
		}
		int nblk = (int) vf_below(r, 3);
		for (int i = 0; i < nblk && !m_expiry; i++) {
			int k = (int) vf_below(r, 3);
			if (k == 0 && can_recv(P)) blocker_add(cx, vf_chance(r, 1, 3) ? B_RECV_BUF : B_RECVMSG, cx->sh[V]);
			else if (k == 1 && can_send(P) && strcmp(P->name, "pub") && strcmp(P->name, "bus")) blocker_add(cx, vf_chance(r, 1, 3) ? B_SEND_BUF : B_SENDMSG, cx->sh[V]);
			else if (k == 2 && nctx > 0 && !sendfirst) blocker_add(cx, B_CTX_RECVMSG, ctxh[vf_below(r, (uint32_t) nctx)]);
		}
	}
	// ---- replies parked behind a busy pipe: a raw peer speaks SP as REQ /
	// SURVEYOR over tcp or ipc, sends requests and never reads; V's contexts
	// answer with large bodies until a reply stays queued behind the pipe
	// whose transport send cannot make progress
	int rp_parked = 0;
	if (nctx_rp > 0) {
		int          t = vf_chance(&x, 1, 2) ? VF_T_IPC : VF_T_TCP, fd = -1, lh = -1;
		char         rurl[128];
		nng_listener l;
		vf_url(t, url, sizeof(url));
		if (nng_listener_create(&l, sv, url) == 0) {
			lh = h_add(cx, H_LISTENER, (uint32_t) nng_listener_id(l), V, -1);
			if (nng_listener_start(l, 0) == 0 && vf_dial_url(l, t, url, rurl, sizeof(rurl)) == 0) fd = raw_connect_small_rcvbuf(rurl, t);
		}
		if (fd >= 0 && vf_sp_handshake(fd, P->peer, NULL, 3000) == 0) {
			for (int i = 0; i < 8; i++) {
				uint8_t rq[16] = { 0x80, 0, 0, (uint8_t) (i + 1), 'c', '1', '0' };
				vf_sp_send_frame(fd, t == VF_T_IPC, rq, sizeof(rq));
			}
			for (int round = 0; round < 3 && rp_parked < nctx_all; round++) {
				for (int i = 0; i < nctx_all; i++) {
					rec *rr = crv[i], *rs = csn[i];
					if (rr == NULL || rs == NULL || !rec_idle(rs)) continue;
					if (!rec_wait(rr, 40) || atomic_load(&rr->last_rv) != 0) continue; // no request for this context
					rs->big = t == VF_T_IPC ? 256 * 1024 : 512 * 1024;
					rec_submit(rs);
					if (!rec_wait(rs, 25)) {
						rp_parked++; // stays busy
						if (ctxh[i] >= 0) cx->h[ctxh[i]].role = "ctx-reply-parked";
					} else if (atomic_load(&rs->last_rv) == 0) rec_submit(rr); // handed to the pipe: next request
				}
			}
		}
		fd_keep(cx, fd);
		if (lh >= 0 && rp_parked) cx->h[lh].role = "listener-with-parked-replies";
		char k[64];
		snprintf(k, sizeof(k), "ctx_replies_parked_at_close/%s", P->name);
		vf_stat(k, rp_parked);
		vf_stat("reply_parked_cases", 1);
		vf_class("element=reply-parked/%s/%s/%d", P->name, tname(t), rp_parked);
	}

	// the peer: receivers, and messages queued towards V
	int nwr = can_recv(Q) ? (int) vf_below(r, 3) : 0;
	for (int i = 0; i < nwr; i++) {
		rec *a = rec_new(cx, OP_SOCK_RECV, cx->sh[W], tmo, -1);
		if (a) a->rearm = 1;
		if (a) rec_submit(a);
	}
	if (cx->device && can_recv(P)) {
		rec *a = rec_new(cx, OP_SOCK_RECV, cx->sh[X], tmo, -1);
		if (a) a->rearm = 1;
		if (a) rec_submit(a);
	}
	int queued = 0;
	if (connected && can_send(Q) && strcmp(Q->name, "rep") && strcmp(Q->name, "respondent")) {
		int q = (int) vf_below(r, (uint32_t) bufv + 4);
		for (int i = 0; i < q; i++) {
			nng_msg *m = mkmsg();
			if (nng_sendmsg(sw, m, NNG_FLAG_NONBLOCK) != 0) nng_msg_free(m);
			else queued++;
		}
	}
	// submitters and their records
	cx->nsub = m_expiry ? (int) vf_below(r, 2) : (int) vf_below(r, MAXSUB + 1);
	for (int k = 0; k < cx->nsub; k++) {
		subm *sb = &cx->sub[k];
		sb->cx   = cx;
		sb->k    = k;
		vf_rng_seed(&sb->rng, vf_rand(r), 11 + (uint64_t) k);
		rec_new(cx, OP_SOCK_RECV, cx->sh[V], tmo, k);
		rec_new(cx, OP_SOCK_SEND, cx->sh[V], tmo, k);
		rec_new(cx, OP_CTX_RECV, cx->sh[V], tmo, k);
		rec_new(cx, sendfirst ? OP_CTX_SEND : OP_CTX_RECV, cx->sh[V], tmo, k);
	}
	if (!cx->notify) {
		for (int i = 0; i < cx->ns; i++) discover_pipes(cx, i);
	}
	for (int i = 0; i < cx->nb; i++) {
		for (int k = 0; k < 2000 && !atomic_load(&cx->b[i].started); k++) vf_usleep(100);
	}
	if (retry_armed) vf_msleep((int) vf_range(r, 1, 12)); // let a retry or two happen
	else if (vf_chance(r, 1, 2)) vf_quiesce(0, 50);

	// remaining endpoints / pipes of V that carry a connection
	for (int j = 0, n = atomic_load(&cx->nh); j < n; j++) {
		hnd *h = &cx->h[j];
		if (h->owner != V || h->role != NULL) continue;
		if (h->kind == H_PIPE) h->role = "pipe-connected";
		else if (connected && (h->kind == H_DIALER || h->kind == H_LISTENER) && j < 8) h->role = h->kind == H_DIALER ? "dialer-with-pipe" : "listener-with-pipe";
	}

	// ---- close plan
	int vh = cx->sh[V], wh = cx->sh[W], ck = 0, ck2 = 0;
	int child = pick_child(cx, r, V, &ck), child2 = pick_child(cx, r, V, &ck2);
	if (cx->device) {
		plan_add(cx, r, 0, vf_chance(r, 3, 4) ? CA_DEVCANCEL : CA_SOCK, vh);
		if (shape & 1) plan_add(cx, r, 1, CA_SOCK, vf_chance(r, 1, 2) ? vh : cx->sh[V2]);
		if (shape & 2) plan_add(cx, r, 1, ck, child);
		if (shape & 4) plan_add(cx, r, 2, CA_SOCK, vf_chance(r, 1, 2) ? wh : cx->sh[X]);
		if (shape >= 8) plan_add(cx, r, 2, CA_DEVCANCEL, -1);
	} else {
		switch (shape) {
		case 0: plan_add(cx, r, 0, CA_SOCK, vh); break;
		case 1: plan_add(cx, r, 0, CA_SOCK, vh); plan_add(cx, r, 1, CA_SOCK, vh); break;
		case 2: plan_add(cx, r, 0, CA_SOCK, vh); plan_add(cx, r, 0, CA_SOCK, vh); break;
		case 3: plan_add(cx, r, 0, CA_SOCK, vh); plan_add(cx, r, 1, ck, child); break;
		case 4: plan_add(cx, r, 0, ck, child); if (child < 0) plan_add(cx, r, 0, CA_SOCK, vh); break;
		case 5: plan_add(cx, r, 0, ck, child); plan_add(cx, r, 1, ck, child); if (child < 0) plan_add(cx, r, 0, CA_SOCK, vh); break;
		case 6: plan_add(cx, r, 0, CA_SOCK, vh); plan_add(cx, r, 1, CA_SOCK, wh); break;
		case 7: plan_add(cx, r, 0, CA_SOCK, vh); plan_add(cx, r, 1, ck, child); plan_add(cx, r, 2, vf_chance(r, 1, 2) ? CA_SOCK : ck2, vf_chance(r, 1, 2) ? wh : child2); break;
		case 8: plan_add(cx, r, 0, ck, child); plan_add(cx, r, 0, ck2, child2); plan_add(cx, r, 0, CA_SOCK, vh); plan_add(cx, r, 1, ck2, child2); break;
		default: plan_add(cx, r, 0, CA_SOCK, wh); plan_add(cx, r, 1, ck, child); break;
		}
	}
	// fix-up: the random pick of (kind, handle) in shape 7 may have mismatched
	for (int t = 0; t < cx->ncl; t++) {
		for (int i = 0; i < cx->cl[t].na; i++) {
			cact *a = &cx->cl[t].a[i];
			if (a->hidx < 0) continue;
			static const int want[] = { CA_SOCK, CA_CTX, CA_DIALER, CA_LISTENER, CA_PIPE };
			a->kind = a->kind == CA_DEVCANCEL ? a->kind : want[cx->h[a->hidx].kind];
		}
	}
	if (cx->nfd > 0 && vf_chance(r, 1, 4)) plan_add(cx, r, (int) vf_below(r, (uint32_t) (cx->ncl ? cx->ncl : 1)), CA_RAWFD, -1);
	if (m_expiry) {
		for (int t = 0; t < cx->ncl; t++) {
			if (cx->cl[t].na > 0) cx->cl[t].a[0].delay_us = base_us - 1500 + (int) vf_below(r, 3000) > 0 ? base_us - 1500 + (int) vf_below(r, 3000) : 0;
		}
	}

	// ---- one more plan, for a pipe-notify callback: issued from the next
	// ADD_POST / REM_POST event of socket T (V or W; a pipe close by the
	// harness causes the event).  Contexts and pipes of either socket; in mode
	// pipecb also endpoints of the OTHER socket and that socket itself.  Never
	// T or an endpoint of T (pplan_ok).
	int     ncl0 = cx->ncl;
	closer *pcb  = NULL;
	if (pcb_cand && connected && cx->notify && cx->ncl < MAXCL) {
		int t = cx->ncl, T = vf_chance(&x, 1, 2) ? V : W, O = T == V ? W : V, n = 1 + (int) vf_below(&x, 2), k1 = 0;
		if (cx->device && vf_chance(&x, 1, 2)) T = vf_chance(&x, 1, 2) ? V2 : X;
		for (int i = 0; i < n; i++) {
			int hi = -1;
			for (int k = 0; k < 6 && hi < 0; k++) {
				hi = pick_child(cx, &x, vf_chance(&x, 2, 3) ? V : W, &k1);
				if (hi >= 0 && k1 != CA_CTX && k1 != CA_PIPE) hi = -1;
			}
			if (!(m_pipecb && pcb_other && i == 0)) plan_add(cx, &x, t, k1, hi);
		}
		if (m_pipecb && pcb_other && !cx->device) {
			// the other socket's endpoint, or the other socket
			int hi = vf_chance(&x, 1, 3) ? -1 : h_pick(cx, &x, vf_chance(&x, 1, 2) ? H_DIALER : H_LISTENER, O);
			if (hi < 0 && vf_chance(&x, 1, 2)) hi = h_pick(cx, &x, H_DIALER, O) >= 0 ? h_pick(cx, &x, H_DIALER, O) : h_pick(cx, &x, H_LISTENER, O);
			if (hi >= 0) plan_add(cx, &x, t, cx->h[hi].kind == H_DIALER ? CA_DIALER : CA_LISTENER, hi);
			else plan_add(cx, &x, t, CA_SOCK, cx->sh[O]);
		}
		if (cx->ncl > t) {
			pcb        = &cx->cl[t];
			pcb->psock = T;
			pcb->pev   = vf_chance(&x, 1, 2);
		}
	}

	int pending = 0;
	for (int i = 0; i < cx->nr; i++) {
		if (!rec_idle(&cx->r[i])) {
			atomic_store(&cx->r[i].pending_at_close, 1);
			pending++;
		}
	}
	int blocked = 0;
	for (int i = 0; i < cx->nb; i++) blocked += !atomic_load(&cx->b[i].done);
	vf_stat("aios_pending_when_close_began", pending);
	vf_stat("threads_blocked_when_close_began", blocked);

	// ---- run: each close plan is issued by a harness thread, or from inside a
	// library callback (a task thread): the completion of a dedicated
	// nng_sleep_aio, or the completion of one of the pending operations
	// A close call blocks the task thread it is made on until the pipes are
	// reaped, and the reaper needs a task thread for the pipes' own callbacks
	// (a running device ends by closing its sockets on a task thread as
	// well): as many blocking calls as there are task threads is a deadlock
	// by construction, not a finding.  Keep one thread free.
	int cb_budget = cur_task_threads - 1 - (cx->device ? 1 : 0);
	for (int t = 0; t < ncl0; t++) {
		closer *c = &cx->cl[t];
		c->cx     = cx;
		c->mode   = CM_THREAD;
		uint32_t msel = vf_below(r, 10);
		if (c->na == 0 || msel < 6 || cb_budget <= 0) continue;
		cb_budget--;
		// A close that has to wait for the callback it is called from is a
		// documented deadlock (nng_aio_wait must not be called from an aio
		// callback; socket and endpoint close contain that wait), not a
		// finding.  So an operation's own callback never closes its socket
		// or an endpoint of its socket (over udp the endpoint's receive aio
		// carries the pipes' traffic; a dialer waits for its own
		// nng_dialer_start_aio); such plans run from the unrelated
		// nng_sleep_aio callback instead.
		bool waits_for_self = false;
		for (int i = 0; i < c->na; i++) waits_for_self |= c->a[i].kind == CA_SOCK || c->a[i].kind == CA_DIALER || c->a[i].kind == CA_LISTENER;
		if (msel < 8 || waits_for_self) {
			c->mode = CM_SLEEP_CB;
			if (nng_aio_alloc(&c->aio, closer_sleep_cb, c) != 0) vf_harness_fail("aio alloc");
			continue;
		}
		for (int i = 0; i < cx->nr; i++) {
			rec *rc = &cx->r[i];
			if (rc->owner_sub < 0 && rc->op != OP_DEVICE && !rec_idle(rc) && !rc->is_trigger && cx->h[rc->hidx].owner == V && vf_chance(r, 1, 2)) {
				c->mode        = CM_OP_CB;
				c->trigger     = rc;
				rc->is_trigger = true;
				break;
			}
		}
		if (c->mode == CM_THREAD) cb_budget++;
	}
	if (pcb != NULL) {
		// ADD_POST runs on a task thread (the endpoint's completion callback):
		// without a spare one the plan waits for REM_POST (the reaper thread)
		if (pcb->pev == 0 && cb_budget <= 0) pcb->pev = 1;
		pcb->cx   = cx;
		pcb->mode = pcb->pev == 0 ? CM_PIPE_ADD : CM_PIPE_REM;
	}
	for (int t = 0; t < cx->ncl; t++) {
		closer *c = &cx->cl[t];
		if (c->mode == CM_THREAD && pthread_create(&c->th, NULL, closer_thread, c) != 0) vf_harness_fail("pthread_create");
	}
	for (int k = 0; k < cx->nsub; k++) {
		if (pthread_create(&cx->sub[k].th, NULL, submitter_thread, &cx->sub[k]) != 0) vf_harness_fail("pthread_create");
	}
	if (pump_on && connected) {
		pump_add(cx, W, vf_rand(&x));
		if (cx->device) pump_add(cx, X, vf_rand(&x));
	}
	for (int k = 0; k < cx->npm; k++) {
		if (pthread_create(&cx->pm[k].th, NULL, pump_thread, &cx->pm[k]) != 0) vf_harness_fail("pthread_create");
	}
	atomic_store(&cx->go, 1);
	bool any_opcb = false;
	for (int t = 0; t < cx->ncl; t++) {
		closer *c = &cx->cl[t];
		if (c->mode == CM_SLEEP_CB) nng_sleep_aio((nng_duration) vf_below(r, 3), c->aio);
		if (c->mode == CM_OP_CB) {
			atomic_store(&c->trigger->on_cb, c);
			any_opcb = true;
		}
	}
	if (pcb != NULL) {
		// arm the plan, then make an event happen: close one pipe of that
		// socket (REM_POST there and at the peer; a dialer reconnects: ADD_POST)
		atomic_store(&cx->pplan[pcb->psock][pcb->pev], pcb);
		int hi = h_pick(cx, &x, H_PIPE, pcb->psock);
		if (hi >= 0) {
			cact trig = { .kind = CA_PIPE, .hidx = hi, .ctx_name = cm_names[CM_THREAD] };
			do_close(cx, &trig);
			vf_stat("pipe_closes_to_cause_a_pipe_event", 1);
		}
	}
	if (any_opcb && connected && can_send(Q)) {
		// give the designated operation a chance to complete by itself
		for (int i = 0; i < 2; i++) {
			nng_msg *m = mkmsg();
			if (nng_sendmsg(sw, m, NNG_FLAG_NONBLOCK) != 0) nng_msg_free(m);
		}
	}
	if (pcb != NULL) {
		closer *c = pcb;
		// the event may never come (nothing reconnects; the socket was
		// closed first), or only for the endpoint the plan closes
		for (int k = 0; k < (c->pev == 0 ? 400 : 150) && !atomic_load(&c->claimed); k++) vf_usleep(100);
		if (atomic_exchange(&cx->pplan[c->psock][c->pev], NULL) != NULL) {
			closer_run(c, CM_THREAD);
			vf_stat("pipe_callback_plans_fallback_to_thread", 1);
		}
		// The close calls are running inside the pipe callback, that is
		// with whatever the library holds while it delivers pipe events,
		// and for REM_POST on the reaper thread.  They concern other
		// objects than the event's socket and have to return.
		uint64_t end = vf_now_ns() + (uint64_t) PCB_CLOSE_MS * 1000000ULL;
		while (!atomic_load(&c->done) && vf_now_ns() < end) vf_usleep(200);
		if (!atomic_load(&c->done)) {
			cact *a = &c->a[atomic_load(&c->cur)];
			char  key[160];
			bool  other = a->hidx >= 0 && cx->h[a->hidx].owner != c->psock;
			snprintf(key, sizeof(key), "C10/close-never-returns/%s/in-pipe-callback/%s/%s", ca_names[a->kind], c->pev == 0 ? "ADD_POST" : "REM_POST", other ? "object-of-another-socket" : "object-of-the-event-socket");
			vf_violation(key, "%s (of a %s of %s) called from the %s callback of a pipe of socket %s has not returned after %d ms", ca_names[a->kind],
			    a->hidx >= 0 ? hkind_names[cx->h[a->hidx].kind] : "-", other ? "another socket" : "the same socket", c->pev == 0 ? "NNG_PIPE_EV_ADD_POST" : "NNG_PIPE_EV_REM_POST",
			    cx->sp[c->psock]->name, PCB_CLOSE_MS);
			fflush(NULL);
			snprintf(key, sizeof(key), "gdb -q -batch -p %d -ex 'thread apply all bt 22' 2>&1 | grep -v '^\\[New\\|^Reading\\|^warning' | head -700 >&2", (int) getpid());
			if (system(key) != 0) fprintf(stderr, "(no stacks)\n");
			// the library thread that delivers pipe events / reaps is
			// stuck for good: nothing else can be judged in this process
			// (the driver resumes with the next case)
			fflush(NULL);
			abort();
		}
	}
	for (int t = 0; t < cx->ncl; t++) {
		closer *c = &cx->cl[t];
		if (c->mode == CM_THREAD) pthread_join(c->th, NULL);
	}
	for (int t = 0; t < cx->ncl; t++) {
		closer *c = &cx->cl[t];
		if (c->mode == CM_THREAD) continue;
		if (c->mode == CM_OP_CB) {
			// the operation may never complete by itself (its object is not
			// closed by anybody else): then the plan is run here
			for (int k = 0; k < 100 && !atomic_load(&c->claimed); k++) vf_usleep(100);
			if (atomic_exchange(&c->trigger->on_cb, NULL) != NULL) {
				closer_run(c, CM_THREAD);
				vf_stat("close_plans_fallback_to_thread", 1);
			}
		}
		// (a close call that never returns ends here: watchdog)
		while (!atomic_load(&c->done)) vf_usleep(100);
		if (c->aio != NULL) nng_aio_free(c->aio);
	}
	// every close call has returned
	atomic_store(&cx->win, 2);
	vf_usleep((int) vf_range(r, 200, 1500));
	atomic_store(&cx->stop, 1);
	for (int k = 0; k < cx->nsub; k++) {
		pthread_join(cx->sub[k].th, NULL);
		vf_stat("submitter_calls", cx->sub[k].calls);
		vf_stat("submitter_calls_after_close", cx->sub[k].post_close_calls);
	}
	for (int k = 0; k < cx->npm; k++) {
		pump *pm = &cx->pm[k];
		pthread_join(pm->th, NULL);
		vf_stat("peer_messages_sent_by_pumps", pm->sent);
		vf_stat("peer_messages_sent_during_close_window", pm->sent_win);
		vf_stat("peer_large_messages_sent_during_close_window", pm->sent_big_win);
		vf_stat("peer_messages_drained_by_pumps", pm->recvd);
		if (pm->sent_win) vf_stat("cases_with_traffic_towards_victim_during_close", 1);
	}
	vf_stat("victim_ops_completed_ok_during_close_window", atomic_load(&cx->ok_win_v));
	vf_stat("peer_ops_completed_ok_during_close_window", atomic_load(&cx->ok_win_peer));
	if (atomic_load(&cx->ok_win_v)) vf_class("data-axis/%s/%s/%s", P->name, tname(cx->tran), cx->device ? "device" : cx->rawv ? "raw" : "cooked");
	{
		// timeouts that really fell next to a close call (mode expiry)
		int nc = atomic_load(&cx->ncalls);
		if (nc > MAXCALLS) nc = MAXCALLS;
		for (int i = 0; i < cx->nr; i++) {
			rec     *rc = &cx->r[i];
			uint64_t tc = atomic_load(&rc->t_cb);
			if (atomic_load(&rc->last_rv) != NNG_ETIMEDOUT || tc == 0 || !rec_idle(rc)) continue;
			for (int k = 0; k < nc; k++) {
				if (tc + 2000000ULL >= cx->call_t0[k] && tc <= cx->call_t1[k] + 2000000ULL) {
					vf_stat("expiries_within_2ms_of_a_close_call", 1);
					break;
				}
			}
		}
	}
	if (cx->fk.running) {
		pthread_join(cx->fk.th, NULL);
		vf_stat("flaky_peer_accepts", atomic_load(&cx->fk.accepted));
	}

	nng_aio *paio;
	if (nng_aio_alloc(&paio, NULL, NULL) != 0) vf_harness_fail("aio alloc");
	check_pending(cx, "after the planned closes");
	probe_all_dead(cx, paio);

	// ---- final teardown: everything that is still open
	if (cx->device) {
		nng_aio_cancel(cx->devrec->aio);
		if (!rec_wait(cx->devrec, grace_ms())) {
			cx->devrec->lost = true;
			lost(cx, "C10/pending-forever/device", "nng_device_aio cancelled with nng_aio_cancel is not completed", "device");
			// its two sockets stay owned by the device: closing them (or
			// nng_fini) would only produce consequences of this loss.  The
			// verdict is on record; end this process here (the driver
			// resumes with the next case).
			fflush(NULL);
			abort();
		} else {
			vf_class("device-ended/%s", resname(atomic_load(&cx->devrec->last_rv)));
			// a device that ran has closed both of its sockets before it
			// completed; one that never started has not: the loop below
			// closes them (NNG_ECLOSED and 0 are both fine)
		}
	}
	for (int k = 0; k < cx->ns; k++) {
		int i = (k + (int) (idx & 3)) % cx->ns;
		if (atomic_load(&cx->h[cx->sh[i]].dead)) continue;
		uint64_t t0 = vf_now_ns();
		rv          = nng_socket_close(cx->s[i]);
		vf_stat("close_calls", 1);
		vf_stat_max("max_close_call_ms", (long) ((vf_now_ns() - t0) / 1000000ULL));
		if (rv == 0) {
			vf_stat("close_calls_ok", 1);
			h_closed(cx, cx->sh[i]);
		} else if (dead_code(rv)) {
			h_closed(cx, cx->sh[i]);
		} else {
			char key[128];
			snprintf(key, sizeof(key), "C10/close-result/nng_socket_close/%s", resname(rv));
			vf_violation(key, "final nng_socket_close returned %s", resname(rv));
		}
	}
	for (int i = 0; i < cx->nfd; i++) close(cx->fds[i]);
	for (int i = 0; i < cx->fk.nheld; i++) close(cx->fk.held[i]);
	for (int i = 0; i < cx->nunl; i++) unlink(cx->unl[i]);
	check_pending(cx, "after every socket was closed");
	for (int i = 0; i < cx->nb; i++) {
		if (cx->b[i].lost) pthread_detach(cx->b[i].th);
		else pthread_join(cx->b[i].th, NULL);
	}
	probe_all_dead(cx, paio);
	nng_aio_free(paio);
	long ops = 0;
	for (int i = 0; i < cx->nr; i++) {
		rec *rc = &cx->r[i];
		ops += atomic_load(&rc->n_submit);
		if (rc->lost) continue; // abandoned, see lost()
		nng_aio_stop(rc->aio);
		nng_aio_free(rc->aio);
	}
	vf_pt_off();
	vf_stat("aio_operations", ops);
	vf_stat("stalled_dials_established", cx->stall_dials);
	vf_stat("stalled_accepts_established", cx->stall_accepts);
	vf_stat("messages_queued_towards_victim", queued);
	vf_stat("handles_tracked", atomic_load(&cx->nh));
	if (cx->notify) vf_stat("pipe_rem_post_events", atomic_load(&cx->rem_post));
	vf_stat("cases", 1);
	stat_mode_case();
	if (cx->tran == T_UDP && connected) vf_stat("cases_connected_over_udp", 1);
	if (cx->tran == VF_T_SOCKFD && connected) vf_stat("cases_connected_over_sockfd", 1);
	vf_class("case=%s%s/%s/shape%d", P->name, cx->device ? "(device)" : cx->rawv ? "(raw)" : "", tname(cx->tran), shape);
	vf_class("pert=%s", pert < 2 ? "none" : pert < 5 ? "jitter" : vf_pt_name(site));
	if ((idx & 31) == 0) {
		vf_sample("{\"proto\":\"%s\",\"raw\":%d,\"device\":%d,\"tran\":\"%s\",\"shape\":%d,\"closers\":%d,\"submitters\":%d,\"aios_pending\":%d,\"threads_blocked\":%d,\"handles\":%d,\"stalled_dials\":%d,\"stalled_accepts\":%d,\"pert\":\"%s\"}",
		    P->name, cx->rawv, cx->device, tname(cx->tran), shape, cx->ncl, cx->nsub, pending, blocked, atomic_load(&cx->nh), cx->stall_dials, cx->stall_accepts, pert < 2 ? "none" : pert < 5 ? "jitter" : vf_pt_name(site));
	}
	if (cx->keep) {
		if (nkept < 512) kept[nkept++] = cx; // stays reachable
	} else {
		if (prev_cx[1]) {
			pthread_mutex_destroy(&prev_cx[1]->hmtx);
			free(prev_cx[1]);
		}
		prev_cx[1] = prev_cx[0];
		prev_cx[0] = cx;
	}
	vf_watchdog(wd_secs);
}

// ------------------------------------------------------------------ mode parked
// Negotiated pipes that the core listener has not taken yet: the listener's
// accept callback is held inside an application pipe callback (ADD_PRE of the
// first connection) while further clients complete the SP handshake; the
// transport parks those pipes.  Then the listener or the socket is closed from
// another thread and the callback is released.  Judged by: the close calls
// return (bounded: PARK_CLOSE_MS after the callback was released, nominal
// < 50 ms), pending operations complete, dead-handle probes.
#define PARK_CLOSE_MS 10000
static int parked_stuck; // close calls of this process that never returned
static char parked_seen[16][96];
static int  parked_nseen;

static void
parked_cb(nng_pipe p, nng_pipe_ev ev, void *arg)
{
	casectx *cx = arg;
	(void) p;
	if (ev != NNG_PIPE_EV_ADD_PRE) return;
	atomic_fetch_add(&cx->add_pre, 1);
	if (atomic_exchange(&cx->hold_in, 1) != 0) return; // only the first pipe is held up
	while (!atomic_load(&cx->hold_release)) vf_usleep(200);
}

typedef struct {
	casectx    *cx;
	int         lh, vh;
	bool        listener_first, sock;
	int         rv_l, rv_s;
	_Atomic int stage; // 1 listener close returned, 2 socket close returned
} parkcl;

static void *
parked_closer(void *arg)
{
	parkcl  *pc = arg;
	casectx *cx = pc->cx;
	while (!atomic_load(&cx->go)) sched_yield();
	if (pc->listener_first) {
		cact a = { .kind = CA_LISTENER, .hidx = pc->lh, .ctx_name = cm_names[CM_THREAD] };
		do_close(cx, &a);
		pc->rv_l = a.rv;
		atomic_store(&pc->stage, 1);
	}
	cact b = { .kind = CA_SOCK, .hidx = pc->vh, .ctx_name = cm_names[CM_THREAD] };
	do_close(cx, &b);
	pc->rv_s = b.rv;
	atomic_store(&pc->stage, 2);
	return NULL;
}

static void
run_parked_case(long idx, vf_rng *r)
{
	casectx *cx = calloc(1, sizeof(*cx));
	char     url[128], durl[128] = "", key[160];
	int      rv, t;
	pthread_mutex_init(&cx->hmtx, NULL);
	cx->idx     = idx;
	cx->key_tag = "parked-negotiated-pipes";
	const vf_proto *P = &vf_protos[vf_below(r, (uint32_t) vf_nprotos)];
	const vf_proto *Q = vf_proto_by_name(P->peer_name);
	cx->proto = P;
	static const int trans[] = { VF_T_TCP, VF_T_IPC, VF_T_WS, VF_T_SOCKFD };
	t        = trans[(idx + (long) vf_below(r, 2) * 0) % 4];
	cx->tran = t;
	bool listener_first = vf_chance(r, 1, 2);
	bool nng_clients    = t == VF_T_WS || (t != VF_T_SOCKFD && vf_chance(r, 1, 2));
	int  nclients       = (int) vf_range(r, 1, 3);
	int  pert           = (int) vf_below(r, 3);
	vf_pt_off();
	if (pert == 1) vf_pt_jitter(vf_rand(r), (int) vf_range(r, 5, 40), (int) vf_range(r, 20, 200));
	vf_case_begin(idx, "parked proto=%s tran=%s close=%s clients=%d%s pert=%s", P->name, tname(t), listener_first ? "listener+socket" : "socket", nclients, nng_clients ? "(nng)" : "(raw)", pert == 1 ? "jitter" : "none");
	vf_url(VF_T_INPROC, cx->dead_url, sizeof(cx->dead_url));

	int V = open_sock(cx, P, false), W = open_sock(cx, Q, false);
	nng_socket   sv = cx->s[V], sw = cx->s[W];
	nng_listener l;
	nng_pipe_notify(sv, NNG_PIPE_EV_ADD_PRE, parked_cb, cx);
	if (!strcmp(P->name, "sub")) nng_sub0_socket_subscribe(sv, "", 0);
	if (t == VF_T_SOCKFD) snprintf(url, sizeof(url), "socket://");
	else vf_url(t, url, sizeof(url));
	if ((rv = nng_listener_create(&l, sv, url)) != 0 || (rv = nng_listener_start(l, 0)) != 0) vf_harness_fail("parked listen %s: %s", url, nng_strerror(rv));
	int lh = h_add(cx, H_LISTENER, (uint32_t) nng_listener_id(l), V, -1);
	if (t != VF_T_SOCKFD && (rv = vf_dial_url(l, t, url, durl, sizeof(durl))) != 0) vf_harness_fail("dial url: %s", nng_strerror(rv));

	// first connection: its ADD_PRE callback holds the listener's accept path
	if (t == VF_T_SOCKFD) {
		int fds[2];
		if (nng_socket_pair(fds) != 0) vf_harness_fail("socket pair");
		nng_listener lw;
		if (nng_listener_create(&lw, sw, "socket://") != 0 || nng_listener_start(lw, 0) != 0 || nng_listener_set_int(lw, NNG_OPT_SOCKET_FD, fds[1]) != 0 ||
		    nng_listener_set_int(l, NNG_OPT_SOCKET_FD, fds[0]) != 0)
			vf_harness_fail("socket:// first connection");
		h_add(cx, H_LISTENER, (uint32_t) nng_listener_id(lw), W, -1);
	} else {
		nng_dialer d;
		if ((rv = nng_dial(sw, durl, &d, NNG_FLAG_NONBLOCK)) != 0) vf_harness_fail("parked dial %s: %s", durl, nng_strerror(rv));
		h_add(cx, H_DIALER, (uint32_t) nng_dialer_id(d), W, -1);
	}
	for (int k = 0; k < 25000 && !atomic_load(&cx->hold_in); k++) vf_usleep(200);
	if (!atomic_load(&cx->hold_in)) vf_harness_fail("parked: the ADD_PRE callback never ran over %s", tname(t));

	// further clients complete the handshake; nobody is there to take them
	int        completed = 0;
	nng_socket extra[3];
	int        nextra = 0;
	for (int i = 0; i < nclients; i++) {
		if (nng_clients) {
			nng_socket c;
			if (Q->open(&c) != 0) vf_harness_fail("open client");
			extra[nextra++] = c;
			// the dialer's side completes when the listener's side has
			// negotiated (SP header exchange / websocket upgrade)
			if (nng_dial(c, durl, NULL, 0) == 0) completed++;
		} else {
			int fd = -1;
			if (t == VF_T_SOCKFD) {
				int fds[2];
				if (nng_socket_pair(fds) != 0) vf_harness_fail("socket pair");
				if (nng_listener_set_int(l, NNG_OPT_SOCKET_FD, fds[0]) != 0) {
					close(fds[0]);
					close(fds[1]);
					continue;
				}
				fd = fds[1];
			} else fd = raw_connect_url(durl, t);
			if (fd < 0) continue;
			if (vf_sp_handshake(fd, P->peer, NULL, 3000) == 0) completed++;
			fd_keep(cx, fd);
		}
	}
	vf_msleep(3); // (the listener's side of the last handshake ends microseconds later)
	int parked = completed - (atomic_load(&cx->add_pre) - 1);
	if (parked < 0) parked = 0;
	vf_stat("parked_negotiated_pipes_at_close", parked);
	vf_stat("parked_cases_with_parked_pipes", parked > 0);
	vf_class("parked=%s/%s/%s/%d", tname(t), nng_clients ? "nng-clients" : "raw-clients", listener_first ? "listener-then-socket" : "socket", parked);

	// pending work on the victim
	if (can_recv(P)) {
		rec *a = rec_new(cx, OP_SOCK_RECV, cx->sh[V], -1, -1);
		if (a) rec_submit(a);
		if (vf_chance(r, 1, 2)) blocker_add(cx, B_RECVMSG, cx->sh[V]);
	}
	for (int i = 0; i < cx->nr; i++) atomic_store(&cx->r[i].pending_at_close, !rec_idle(&cx->r[i]));

	parkcl    pc = { .cx = cx, .lh = lh, .vh = cx->sh[V], .listener_first = listener_first, .rv_l = -1, .rv_s = -1 };
	pthread_t th;
	if (pthread_create(&th, NULL, parked_closer, &pc) != 0) vf_harness_fail("pthread_create");
	bool release_first = vf_chance(r, 1, 5);
	if (release_first) atomic_store(&cx->hold_release, 1);
	atomic_store(&cx->go, 1);
	vf_usleep((int) vf_range(r, 200, 4000));
	atomic_store(&cx->hold_release, 1);

	// every close call returns once the callback has returned
	snprintf(key, sizeof(key), "C10/close-never-returns/%s/parked-negotiated-pipes/%s/%s", listener_first ? "nng_listener_close+nng_socket_close" : "nng_socket_close", tname(t), nng_clients ? "nng-clients" : "raw-clients");
	bool first = true;
	for (int i = 0; i < parked_nseen; i++) first &= strcmp(parked_seen[i], key) != 0;
	uint64_t end   = vf_now_ns() + (uint64_t) (first ? PARK_CLOSE_MS : 500) * 1000000ULL;
	bool     stuck = false;
	while (atomic_load(&pc.stage) != 2) {
		if (vf_now_ns() > end) {
			stuck = true;
			break;
		}
		vf_usleep(200);
	}
	if (stuck) {
		if (first) {
			if (parked_nseen < 16) snprintf(parked_seen[parked_nseen++], sizeof(parked_seen[0]), "%s", key);
			vf_violation(key, "%s has not returned %d ms after the pipe callback that held the accept path returned; %d negotiated pipe(s) were parked in the %s transport when the close began",
			    atomic_load(&pc.stage) == 1 ? "nng_socket_close (after nng_listener_close returned)" : listener_first ? "nng_listener_close" : "nng_socket_close", PARK_CLOSE_MS, parked, tname(t));
		} else vf_stat("parked_close_stuck_after_first_verdict", 1);
		// the thread, the socket and everything hanging off it are abandoned;
		// nng_fini would wait for the same pipes: this process skips it
		parked_stuck++;
		pthread_detach(th);
		cx->keep = true;
		for (int i = 0; i < cx->nr; i++) cx->r[i].lost = true;
		for (int i = 0; i < cx->nb; i++) {
			cx->b[i].lost = true;
			pthread_detach(cx->b[i].th);
		}
		for (int i = 0; i < nextra; i++) nng_socket_close(extra[i]);
		nng_socket_close(sw);
		if (nkept < 512) kept[nkept++] = cx;
		vf_stat("cases", 1);
		stat_mode_case();
		vf_watchdog(wd_secs);
		return;
	}
	pthread_join(th, NULL);
	vf_stat("parked_closes_returned", 1);

	nng_aio *paio;
	if (nng_aio_alloc(&paio, NULL, NULL) != 0) vf_harness_fail("aio alloc");
	check_pending(cx, "after the close with parked pipes");
	probe_all_dead(cx, paio);
	int eof = 0;
	for (int i = 0; i < cx->nfd; i++) eof += vf_fd_wait_eof(cx->fds[i], 2000) == 1;
	vf_stat("parked_raw_clients_saw_the_connection_closed", eof);
	for (int i = 0; i < nextra; i++) nng_socket_close(extra[i]);
	rv = nng_socket_close(sw);
	if (rv == 0) h_closed(cx, cx->sh[W]);
	for (int i = 0; i < cx->nfd; i++) close(cx->fds[i]);
	check_pending(cx, "after every socket was closed");
	for (int i = 0; i < cx->nb; i++) {
		if (cx->b[i].lost) pthread_detach(cx->b[i].th);
		else pthread_join(cx->b[i].th, NULL);
	}
	probe_all_dead(cx, paio);
	nng_aio_free(paio);
	for (int i = 0; i < cx->nr; i++) {
		if (cx->r[i].lost) continue;
		nng_aio_stop(cx->r[i].aio);
		nng_aio_free(cx->r[i].aio);
	}
	vf_pt_off();
	vf_stat("cases", 1);
	stat_mode_case();
	vf_stat("close_calls", 1);
	if (cx->keep) {
		if (nkept < 512) kept[nkept++] = cx;
	} else {
		if (prev_cx[1]) {
			pthread_mutex_destroy(&prev_cx[1]->hmtx);
			free(prev_cx[1]);
		}
		prev_cx[1] = prev_cx[0];
		prev_cx[0] = cx;
	}
	vf_watchdog(wd_secs);
}

static void
c10_fini(void)
{
	if (tainted_alloc) {
		// abandoned aios are still allocated: no balance verdict
		nng_fini();
		vf_alloc_reset();
		tainted_alloc = 0;
		vf_stat("fini_without_balance_check", 1);
	} else {
		vf_nng_fini("C10");
		vf_stat("fini_balance_checks", 1);
	}
}

int
main(int argc, char **argv)
{
	vf_init(argc, argv);
	vf_rng           r;
	static const int shapes[][3] = { { 2, 1, 1 }, { 16, 8, 4 } };
	int              inited = 0, since = 0;
	long             base_live = 0;
	no_late_aio = !strcmp(vf_mode, "nolate") || !strcmp(vf_mode, "redial");
	if (vf_from > 0) vf_stat("processes_restarted_after_a_death", 1);
	vf_stat("processes_started", 1);
	if (getenv("C10_WD")) wd_secs = atoi(getenv("C10_WD"));
	if (getenv("C10_PCB_OTHER")) pcb_other = atoi(getenv("C10_PCB_OTHER"));
	// a worker that was restarted after a death does not try these again (on a
	// tree where they hang every attempt ends the process)
	if (vf_from > 0) pcb_other = 0;
	vf_watchdog(wd_secs);
	for (long i = 0; i < vf_cases; i++) {
		if (!vf_want_case(i)) continue;
		if (!inited) {
			const int *sh = shapes[(vf_mix64(vf_seed + (uint64_t) i) >> 8) & 1];
			vf_nng_init(sh[0], sh[1], sh[2]);
			cur_task_threads = sh[0];
			vf_class("pool-shape/%d-%d-%d", sh[0], sh[1], sh[2]);
			inited = 1;
			since  = 0;
			base_live = -1;
		}
		vf_rng_seed(&r, vf_seed, (uint64_t) i);
		if (!strcmp(vf_mode, "parked")) run_parked_case(i, &r);
		else run_case(i, &r);
		since++;
		// allocator balance: attribute a leak to the case that caused it
		bool fini = since >= 30 && parked_stuck == 0;
		if (!fini && parked_stuck == 0 && vf_alloc_total() > 0) {
			vf_quiesce(1, 1000);
			long live = vf_alloc_live_blocks();
			if (base_live >= 0 && live > base_live) {
				vf_stat("early_fini_for_leak_check", 1);
				fini = true;
			}
			if (base_live < 0) base_live = live;
		}
		if (fini) {
			c10_fini();
			inited = 0;
		}
	}
	if (inited && parked_stuck == 0) c10_fini();
	for (int s = NNI_VP_PIPE_CLOSE_FLAGGED; s < NNI_VP_NSITES; s++) {
		if (vf_pt_delays(s)) {
			char k[64];
			snprintf(k, sizeof(k), "delays@%s", vf_pt_name(s));
			vf_stat(k, vf_pt_delays(s));
		}
	}
	int rc = vf_finish();
	if (parked_stuck) _exit(rc); // nng_fini (atexit, sanitizer leak pass) would wait for the stuck sockets
	return rc;
}
