// C04 (replier side): a REP socket / context sends its reply only to the
// connection, and with the routing backtrace, of the request it most recently
// received; send before receive and a second concurrent receive fail with
// NNG_ESTATE.
//
// One real REP socket with 1-8 worker threads (one context each; optionally
// worker 0 uses the socket itself) serves 1-4 connections.  Every connection
// is a raw requester driven by the harness: either a raw TCP peer speaking SP
// as REQ (0x30) or an nng raw REQ socket with exactly one pipe.  A peer keeps
// a window of 1-8 requests in flight; each request carries a backtrace of
// 0..ttl-1 seeded hop words (high bit clear) followed by a request id word
// (high bit set) - sometimes the very same backtrace and id on every
// connection - and a body {peer index, directive, nonce | seq}.  Workers echo
// (peer, seq) and add their own index; a request marked DROP is received and
// never answered (the next receive on that context replaces it).
//
// Oracle, judged by the peer that owns the connection: every reply arriving on
// a connection echoes a request of THIS connection, carries exactly the
// backtrace that request was sent with, arrives at most once, is never a reply
// to a request the application dropped, and every answered request's reply
// arrives (10 s).  State machine probes: send on a fresh context, a second send
// after a reply, send on the idle socket -> NNG_ESTATE; in quiet phases
// (all peers parked at a barrier, nothing in flight) a second receive on a
// context whose first receive is pending -> NNG_ESTATE.
#include "vfh.h"

#include <errno.h>
#include <pthread.h>
#include <stdatomic.h>
#include <unistd.h>
#include <netinet/in.h>
#include <sys/socket.h>

#define MAXPEERS 4
#define MAXWORK 8
#define LONG_MS 10000
#define MAXWORDS 16

enum { D_NORMAL, D_DROP };
enum { PK_TCP, PK_XREQ };
static const char *pkname[2] = { "rawtcp", "xreq" };
enum { R_NONE, R_OUT, R_ANSWERED, R_DROP, R_LOST };

typedef struct {
	int      tran; // transport of the nng raw REQ peers
	int      npeers, nworkers, ttl, window, rounds;
	int      kind[MAXPEERS];
	bool     use_sock;
	bool     raw;  // the replier is an nng raw REP socket with echo loops (xrep.c routing)
	bool     cuts; // raw TCP requesters drop their connection mid-round and reconnect
	long     exchanges;
	int      jit_permille, jit_us;
	uint32_t nonce;
	uint64_t key;
} casecfg;

typedef struct {
	uint8_t  state;
	uint8_t  nwords;
	uint32_t words[MAXWORDS];
} reqrec;

static struct {
	nng_socket        rep;
	pthread_barrier_t bar;
	pthread_mutex_t   cutmtx; // one reconnect at a time (pipe counting)
	_Atomic bool      stop;
	_Atomic long      c02_hits; // replies lost to C02's stale expiry in this case
	char              xurl[128];
	uint16_t          tcp_port;
	uint32_t          common[MAXWORDS]; // a backtrace all peers may use
} G;

static uint32_t
get32(const uint8_t *p)
{
	return ((uint32_t) p[0] << 24) | ((uint32_t) p[1] << 16) | ((uint32_t) p[2] << 8) | p[3];
}
static void
put32(uint8_t *p, uint32_t v)
{
	p[0] = (uint8_t) (v >> 24);
	p[1] = (uint8_t) (v >> 16);
	p[2] = (uint8_t) (v >> 8);
	p[3] = (uint8_t) v;
}

static const char *
errname(int rv)
{
	switch (rv) {
	case 0: return "ok";
	case NNG_ETIMEDOUT: return "ETIMEDOUT";
	case NNG_ESTATE: return "ESTATE";
	case NNG_ECANCELED: return "ECANCELED";
	case NNG_ECLOSED: return "ECLOSED";
	default: return "other";
	}
}

// ------------------------------------------------------------ expiry watch
// A worker's reply send has a 10 s timeout and normally never waits.  If it
// does wait (pipe busy) it can be hit by the timer defect of property C02 (the
// stale expiry of the 20 ms receive that used the same aio before): an early
// NNG_ETIMEDOUT is excused only if the library's trace hook shows a pick of
// that aio by the expire loop which no completed timeout accounts for and
// which is recent (see c04_req.c).
#define PICK_AGE_NS 2000000000ULL
typedef struct {
	_Atomic(const void *) aio;
	_Atomic long          picks;
	_Atomic uint64_t      last_pick_ns;
} watch;
static watch WT[MAXWORK];

static void
c04_ev(int ev, const void *obj, uintptr_t a, uintptr_t b)
{
	(void) b;
	if (ev != NNI_VE_AIO_EXPIRE || (int) a != NNG_ETIMEDOUT) return;
	for (int i = 0; i < MAXWORK; i++) {
		if (atomic_load_explicit(&WT[i].aio, memory_order_relaxed) == obj) {
			atomic_store(&WT[i].last_pick_ns, vf_now_ns());
			atomic_fetch_add(&WT[i].picks, 1);
			return;
		}
	}
}

// ------------------------------------------------------------ workers (REP)
typedef struct {
	int            idx;
	bool           is_sock;
	nng_ctx        ctx;
	const casecfg *cc;
	pthread_t      thr;
	long           served, dropped, estate_fresh, estate_second, recv_timeouts;
	long           acct, premature;
} worker;

static void
w_send(worker *w, nng_aio *aio)
{
	if (w->is_sock) {
		nng_socket_send(G.rep, aio);
	} else {
		nng_ctx_send(w->ctx, aio);
	}
}

// a send that must be refused with NNG_ESTATE
static bool
expect_estate_send(worker *w, nng_aio *aio, const char *where)
{
	nng_msg *m;
	if (nng_msg_alloc(&m, 16) != 0) vf_harness_fail("msg alloc");
	nng_aio_set_msg(aio, m);
	nng_aio_set_timeout(aio, 2000);
	w_send(w, aio);
	nng_aio_wait(aio);
	int rv = nng_aio_result(aio);
	if (rv != 0) {
		if ((m = nng_aio_get_msg(aio)) != NULL) nng_msg_free(m);
		nng_aio_set_msg(aio, NULL);
	}
	if (rv != NNG_ESTATE) {
		char key[96];
		snprintf(key, sizeof(key), "C04/state/rep-send-without-request/%s/%s", where, errname(rv));
		vf_violation(key, "REP %s %d: send with no request pending (%s) returned %s, expected NNG_ESTATE", w->is_sock ? "socket" : "context", w->idx, where, nng_strerror(rv));
		return false;
	}
	return true;
}

static void *
worker_thread(void *arg)
{
	worker  *w = arg;
	nng_aio *aio;
	vf_rng   r;
	vf_rng_seed(&r, w->cc->key, 300 + (uint64_t) w->idx);
	if (nng_aio_alloc(&aio, NULL, NULL) != 0) vf_harness_fail("aio alloc");
	watch *wt = &WT[w->idx];
	atomic_store(&wt->picks, 0);
	atomic_store(&wt->aio, (const void *) aio);
	if (expect_estate_send(w, aio, "fresh")) w->estate_fresh++;
	while (!atomic_load(&G.stop)) {
		nng_aio_set_timeout(aio, 20);
		if (w->is_sock) {
			nng_socket_recv(G.rep, aio);
		} else {
			nng_ctx_recv(w->ctx, aio);
		}
		nng_aio_wait(aio);
		int rv = nng_aio_result(aio);
		if (rv == NNG_ETIMEDOUT) {
			w->recv_timeouts++;
			if (atomic_load(&wt->picks) > w->acct) w->acct++;
			continue;
		}
		if (rv != 0) break;
		nng_msg *m = nng_aio_get_msg(aio);
		nng_aio_set_msg(aio, NULL);
		uint32_t tag;
		uint64_t seq;
		if (vf_body_check(nng_msg_body(m), nng_msg_len(m), &tag, &seq) != 0) {
			vf_violation("C04/request-garbled/body", "REP received a %zu-byte request that fails its checksum (header %zu bytes)", nng_msg_len(m), nng_msg_header_len(m));
			nng_msg_free(m);
			continue;
		}
		nng_msg_free(m);
		if (((tag >> 8) & 0xf) == D_DROP) {
			w->dropped++; // never answered; the next receive replaces it
			continue;
		}
		if (vf_chance(&r, 1, 8)) vf_usleep((int) vf_below(&r, 400));
		uint8_t buf[24 + 64 + 8];
		size_t  bl = VF_BODY_MIN + vf_below(&r, 64);
		vf_body_make(buf, bl, tag, seq);
		put32(buf + bl, (uint32_t) w->idx);
		put32(buf + bl + 4, 0);
		if (nng_msg_alloc(&m, 0) != 0) vf_harness_fail("msg alloc");
		nng_msg_append(m, buf, bl + 8);
		nng_aio_set_msg(aio, m);
		nng_aio_set_timeout(aio, LONG_MS);
		uint64_t st0 = vf_now_ns();
		w_send(w, aio);
		nng_aio_wait(aio);
		if ((rv = nng_aio_result(aio)) != 0) {
			if ((m = nng_aio_get_msg(aio)) != NULL) nng_msg_free(m);
			nng_aio_set_msg(aio, NULL);
			if (rv == NNG_ECLOSED) break;
			if (rv == NNG_ETIMEDOUT && (vf_now_ns() - st0) / 1000000 < LONG_MS * 9 / 10) {
				long picks = atomic_load(&wt->picks);
				if (picks > w->acct && atomic_load(&wt->last_pick_ns) + PICK_AGE_NS >= st0) {
					// C02's stale expiry took the queued reply with it: the
					// request stays unanswered, which the requester would
					// report as lost - nothing this property can judge
					w->acct++;
					w->premature++;
					atomic_fetch_add(&G.c02_hits, 1);
					continue;
				}
				w->acct = picks;
			}
			char key[96];
			snprintf(key, sizeof(key), "C04/rep-send-failed/%s", errname(rv));
			vf_violation(key, "REP %s %d: reply to peer %u seq %llu failed: %s", w->is_sock ? "socket" : "context", w->idx, tag & 0xff, (unsigned long long) seq, nng_strerror(rv));
			continue;
		}
		w->served++;
		// exactly one send per receive
		if (vf_chance(&r, 1, 6) && expect_estate_send(w, aio, "after-reply")) w->estate_second++;
	}
	atomic_store(&wt->aio, (const void *) NULL);
	nng_aio_free(aio);
	return NULL;
}

// Raw REP replier: the application echoes with the header (pipe id + backtrace)
// untouched, so routing is entirely xrep.c's: push the pipe id on receive,
// route by it on send.
static void *
raw_worker_thread(void *arg)
{
	worker *w = arg;
	vf_rng  r;
	vf_rng_seed(&r, w->cc->key, 300 + (uint64_t) w->idx);
	while (!atomic_load(&G.stop)) {
		nng_msg *m = NULL;
		int      rv = nng_recvmsg(G.rep, &m, 0);
		if (rv == NNG_ETIMEDOUT) {
			w->recv_timeouts++;
			continue;
		}
		if (rv != 0) break;
		uint32_t tag;
		uint64_t seq;
		if (vf_body_check(nng_msg_body(m), nng_msg_len(m), &tag, &seq) != 0) {
			vf_violation("C04/request-garbled/body", "raw REP received a %zu-byte request that fails its checksum (header %zu bytes)", nng_msg_len(m), nng_msg_header_len(m));
			nng_msg_free(m);
			continue;
		}
		if (((tag >> 8) & 0xf) == D_DROP) {
			w->dropped++;
			nng_msg_free(m);
			continue;
		}
		if (vf_chance(&r, 1, 8)) vf_usleep((int) vf_below(&r, 400));
		uint8_t buf[24 + 64 + 8];
		size_t  bl = VF_BODY_MIN + vf_below(&r, 64);
		vf_body_make(buf, bl, tag, seq);
		put32(buf + bl, (uint32_t) w->idx);
		put32(buf + bl + 4, 0);
		nng_msg_clear(m);
		nng_msg_append(m, buf, bl + 8);
		if ((rv = nng_sendmsg(G.rep, m, 0)) != 0) {
			nng_msg_free(m);
			if (rv == NNG_ECLOSED) break;
			char key[96];
			snprintf(key, sizeof(key), "C04/rep-send-failed/raw-%s", errname(rv));
			vf_violation(key, "raw REP: reply to peer %u seq %llu failed: %s", tag & 0xff, (unsigned long long) seq, nng_strerror(rv));
			continue;
		}
		w->served++;
	}
	return NULL;
}

// ------------------------------------------------------------ peers (raw REQ)
typedef struct {
	int            idx, kind;
	const casecfg *cc;
	pthread_t      thr;
	vf_rng         rng;
	long           quota;
	int            fd;
	nng_socket     xs;
	reqrec        *recs;
	uint32_t       nrecs;
	bool           failed;
	uint32_t       gen; // connection generation (4 bits travel in the tag)
	long           cuts, lost, raw_verified;
	long           sent, verified, drops, common_used, maxwin;
	long           by_hops[MAXWORDS];
	bool           seen_worker[MAXWORK];
} peer;

static int
peer_send(peer *p, uint32_t seq, bool last)
{
	const casecfg *cc = p->cc;
	vf_rng        *r = &p->rng;
	reqrec        *rc = &p->recs[seq];
	int            dir = (!last && vf_chance(r, 1, 16)) ? D_DROP : D_NORMAL;
	int            hops = (int) vf_below(r, (uint32_t) cc->ttl); // + id word <= ttl words
	size_t         bl = VF_BODY_MIN + (vf_chance(r, 1, 12) ? vf_below(r, 1500) : vf_below(r, 100));
	uint8_t        buf[8 + 4 * MAXWORDS + VF_BODY_MIN + 1600];
	if (vf_chance(r, 1, 4)) {
		// the same backtrace and request id that other connections use
		for (int i = 0; i < hops; i++) rc->words[i] = G.common[i];
		rc->words[hops] = G.common[MAXWORDS - 1];
		p->common_used++;
	} else {
		for (int i = 0; i < hops; i++) rc->words[i] = (uint32_t) vf_rand(r) & 0x7fffffffu;
		rc->words[hops] = (uint32_t) vf_rand(r) | 0x80000000u;
	}
	rc->nwords = (uint8_t) (hops + 1);
	rc->state = dir == D_DROP ? R_DROP : R_OUT;
	uint32_t tag = (cc->nonce << 16) | ((p->gen & 0xf) << 12) | ((uint32_t) dir << 8) | (uint32_t) p->idx;
	p->by_hops[hops]++;
	p->sent++;
	if (dir == D_DROP) p->drops++;
	if (p->kind == PK_TCP) {
		size_t n = 4 * (size_t) rc->nwords;
		memset(buf, 0, 8);
		put32(buf + 4, (uint32_t) (n + bl));
		for (int i = 0; i < rc->nwords; i++) put32(buf + 8 + 4 * i, rc->words[i]);
		vf_body_make(buf + 8 + n, bl, tag, seq);
		if (vf_fd_write_all(p->fd, buf, 8 + n + bl, LONG_MS) != 0) return -1;
	} else {
		nng_msg *m;
		if (nng_msg_alloc(&m, bl) != 0) vf_harness_fail("msg alloc");
		for (int i = 0; i < rc->nwords; i++) nng_msg_header_append_u32(m, rc->words[i]);
		vf_body_make(nng_msg_body(m), bl, tag, seq);
		if (nng_sendmsg(p->xs, m, 0) != 0) {
			nng_msg_free(m);
			return -1;
		}
	}
	return dir == D_DROP ? 1 : 0;
}

// Judge one reply that arrived on this peer's connection.  bt/nbt: the
// backtrace words in front of the body (up to and including the id word).
static bool // true if it answered one of our outstanding requests
peer_judge(peer *p, const uint32_t *bt, int nbt, const uint8_t *body, size_t len)
{
	uint32_t tag;
	uint64_t seq;
	char     key[128];
	if (len < VF_BODY_MIN + 8 || vf_body_check(body, len - 8, &tag, &seq) != 0) {
		snprintf(key, sizeof(key), "C04/rep-garbled/%s", pkname[p->kind]);
		vf_violation(key, "peer %d: a reply of %zu bytes with a %d-word backtrace is not an echo of any request", p->idx, len, nbt);
		return false;
	}
	uint32_t widx = get32(body + len - 8);
	if ((tag >> 16) != p->cc->nonce || (int) (tag & 0xff) != p->idx) {
		snprintf(key, sizeof(key), "C04/rep-wrong-connection/%s", pkname[p->kind]);
		vf_violation(key, "connection %d received the reply (by worker %u) to connection %u's request seq %llu", p->idx, widx, tag & 0xff, (unsigned long long) seq);
		return false;
	}
	if (((tag >> 12) & 0xf) != (p->gen & 0xf) || (seq != 0 && seq < p->nrecs && p->recs[seq].state == R_LOST)) {
		snprintf(key, sizeof(key), "C04/rep-wrong-connection/%s/dead-connection", pkname[p->kind]);
		vf_violation(key, "requester %d: the reply (by worker %u) to seq %llu, a request sent on its previous, closed connection, arrived on its new connection", p->idx, widx, (unsigned long long) seq);
		return false;
	}
	if (seq == 0 || seq >= p->nrecs || p->recs[seq].state == R_NONE) {
		snprintf(key, sizeof(key), "C04/rep-unsolicited/%s/never-sent", pkname[p->kind]);
		vf_violation(key, "connection %d received a reply for seq %llu which it never sent", p->idx, (unsigned long long) seq);
		return false;
	}
	reqrec *rc = &p->recs[seq];
	if (rc->state == R_DROP) {
		snprintf(key, sizeof(key), "C04/rep-unsolicited/%s/dropped-request", pkname[p->kind]);
		vf_violation(key, "connection %d received a reply (by worker %u) for seq %llu, a request the application received and never answered", p->idx, widx, (unsigned long long) seq);
		return false;
	}
	if (rc->state == R_ANSWERED) {
		snprintf(key, sizeof(key), "C04/rep-duplicate/%s", pkname[p->kind]);
		vf_violation(key, "connection %d received a second reply (by worker %u) for seq %llu", p->idx, widx, (unsigned long long) seq);
		return false;
	}
	rc->state = R_ANSWERED;
	if (nbt != rc->nwords || memcmp(bt, rc->words, 4 * (size_t) nbt) != 0) {
		snprintf(key, sizeof(key), "C04/rep-backtrace/%s/%s", pkname[p->kind], nbt != rc->nwords ? "length" : "words");
		vf_violation(key, "connection %d seq %llu: request went out with a %d-word backtrace ending in id %08x, the reply (worker %u) came back with %d words ending in %08x", p->idx, (unsigned long long) seq, rc->nwords, rc->words[rc->nwords - 1], widx, nbt, nbt > 0 ? bt[nbt - 1] : 0);
		return true;
	}
	p->verified++;
	if (p->cc->raw) p->raw_verified++;
	if (widx < MAXWORK) p->seen_worker[widx] = true;
	return true;
}

// receive one reply; 0 answered, 1 judged-bad, -1 nothing arrived
static int
peer_recv(peer *p)
{
	uint32_t bt[MAXWORDS + 1];
	int      nbt = 0;
	char     key[96];
	if (p->kind == PK_TCP) {
		static _Thread_local uint8_t buf[4096];
		long len = vf_sp_recv_frame(p->fd, false, buf, sizeof(buf), LONG_MS);
		if (len < 0) return -1;
		size_t off = 0;
		bool   end = false;
		while (!end && off + 4 <= (size_t) len && nbt < MAXWORDS) {
			bt[nbt] = get32(buf + off);
			end = (bt[nbt] & 0x80000000u) != 0;
			nbt++;
			off += 4;
		}
		if (!end) {
			snprintf(key, sizeof(key), "C04/rep-backtrace/%s/no-request-id", pkname[p->kind]);
			vf_violation(key, "connection %d: a %ld-byte reply frame has no request id word in its first %d words", p->idx, len, nbt);
			return 1;
		}
		return peer_judge(p, bt, nbt, buf + off, (size_t) len - off) ? 0 : 1;
	}
	nng_msg *m = NULL;
	if (nng_recvmsg(p->xs, &m, 0) != 0) return -1;
	size_t hl = nng_msg_header_len(m);
	if (hl % 4 != 0 || hl == 0 || hl > 4 * MAXWORDS) {
		snprintf(key, sizeof(key), "C04/rep-backtrace/%s/no-request-id", pkname[p->kind]);
		vf_violation(key, "connection %d: reply with a %zu-byte header", p->idx, hl);
		nng_msg_free(m);
		return 1;
	}
	const uint8_t *h = nng_msg_header(m);
	for (size_t i = 0; i < hl / 4; i++) bt[nbt++] = get32(h + 4 * i);
	bool ok = peer_judge(p, bt, nbt, nng_msg_body(m), nng_msg_len(m));
	nng_msg_free(m);
	return ok ? 0 : 1;
}

static void *
peer_thread(void *arg)
{
	peer          *p = arg;
	const casecfg *cc = p->cc;
	uint32_t       seq = 0;
	for (int round = 0; round < cc->rounds; round++) {
		long n = p->quota / cc->rounds + (round < p->quota % cc->rounds ? 1 : 0);
		long sent = 0, out = 0, bad = 0;
		long cut_at = (cc->cuts && p->kind == PK_TCP && n > 8 && vf_chance(&p->rng, 2, 3)) ? (long) vf_range(&p->rng, 2, (uint32_t) n - 3) : -1;
		while (!p->failed && (sent < n || out > 0)) {
			if (sent == cut_at && out > 0) {
				// Drop the connection with requests outstanding and come
				// back on a new one.  Replies to the old connection's
				// requests must vanish: they may not show up here or on
				// anybody else's connection.
				cut_at = -1;
				pthread_mutex_lock(&G.cutmtx);
				close(p->fd);
				for (int i = 0; vf_pipe_count(G.rep) > cc->npeers - 1; i++) {
					if (i > 20000) vf_harness_fail("REP did not drop a closed connection");
					vf_msleep(1);
				}
				for (uint32_t q = 1; q <= seq; q++) {
					if (p->recs[q].state == R_OUT) {
						p->recs[q].state = R_LOST;
						p->lost++;
					}
				}
				out = 0;
				p->gen++;
				p->cuts++;
				uint16_t peerproto = 0;
				if ((p->fd = vf_tcp_connect(G.tcp_port, 5000)) < 0) vf_harness_fail("raw reconnect");
				if (vf_sp_handshake(p->fd, 0x30, &peerproto, 5000) != 0 || peerproto != 0x31) vf_harness_fail("raw handshake (peer %04x)", peerproto);
				for (int i = 0; vf_pipe_count(G.rep) < cc->npeers; i++) {
					if (i > 20000) vf_harness_fail("REP did not take the new connection");
					vf_msleep(1);
				}
				pthread_mutex_unlock(&G.cutmtx);
				continue;
			}
			while (sent < n && out < cc->window && !p->failed) {
				int rv = peer_send(p, ++seq, sent == n - 1);
				sent++;
				if (rv < 0) {
					vf_violation("C04/rep-connection-lost", "connection %d (%s): sending request %u failed", p->idx, pkname[p->kind], seq);
					p->failed = true;
				} else if (rv == 0) {
					out++;
					if (out > p->maxwin) p->maxwin = out;
				}
			}
			if (p->failed || out == 0) continue;
			int rv = peer_recv(p);
			if (rv == 0) {
				out--;
			} else if (rv < 0) {
				char key[96];
				snprintf(key, sizeof(key), "C04/rep-lost/%s", pkname[p->kind]);
				if (atomic_load(&G.c02_hits) > 0) {
					vf_stat("rep_lost_excused_by_stale_expiry", 1);
				} else {
					vf_violation(key, "connection %d: %ld request(s) were received and answered by REP but no reply arrived within %d ms", p->idx, out, LONG_MS);
				}
				p->failed = true;
			} else if (++bad > 8) {
				p->failed = true;
			}
		}
		// quiet point: every answered request of this round has its reply
		pthread_barrier_wait(&G.bar);
		pthread_barrier_wait(&G.bar);
	}
	return NULL;
}

// ------------------------------------------------------------ quiet-phase probes
static long probe_second_recv, probe_idle_send;

static long probe_second_recv_sock;

static void
second_recv_probe(nng_ctx pc, bool on_sock, nng_aio *a1, nng_aio *a2)
{
	char key[96];
	// first receive pends (nothing is in flight), second must be refused
	for (int attempt = 0;; attempt++) {
		nng_aio_set_timeout(a1, 5000);
		if (on_sock) {
			nng_socket_recv(G.rep, a1);
		} else {
			nng_ctx_recv(pc, a1);
		}
		vf_usleep(200);
		if (nng_aio_busy(a1)) break;
		nng_aio_wait(a1);
		int      rv1 = nng_aio_result(a1);
		nng_msg *m1 = nng_aio_get_msg(a1);
		nng_aio_set_msg(a1, NULL);
		if (m1 != NULL) nng_msg_free(m1);
		// (a timeout after microseconds is the timer defect of C02:
		// the expiry of an earlier operation on this aio; try again)
		if (rv1 != NNG_ETIMEDOUT || attempt >= 3) vf_harness_fail("quiet phase is not quiet: probe receive completed with %s", nng_strerror(rv1));
	}
	nng_aio_set_timeout(a2, 1000);
	if (on_sock) {
		nng_socket_recv(G.rep, a2);
	} else {
		nng_ctx_recv(pc, a2);
	}
	nng_aio_wait(a2);
	int rv = nng_aio_result(a2);
	if (rv == NNG_ESTATE) {
		if (on_sock) {
			probe_second_recv_sock++;
		} else {
			probe_second_recv++;
		}
	} else {
		nng_msg *m = nng_aio_get_msg(a2);
		nng_aio_set_msg(a2, NULL);
		if (m != NULL) nng_msg_free(m);
		snprintf(key, sizeof(key), on_sock ? "C04/state/rep-second-recv/socket/%s" : "C04/state/rep-second-recv/%s", errname(rv));
		vf_violation(key, "a second receive on a REP %s whose first receive is pending returned %s, expected NNG_ESTATE", on_sock ? "socket" : "context", nng_strerror(rv));
	}
	nng_aio_cancel(a1);
	nng_aio_wait(a1);
	nng_msg *m = nng_aio_get_msg(a1);
	nng_aio_set_msg(a1, NULL);
	if (m != NULL) nng_msg_free(m);
}

static void
quiet_probes(nng_ctx pc, bool sock_free, nng_aio *a1, nng_aio *a2)
{
	second_recv_probe(pc, false, a1, a2);
	if (sock_free) second_recv_probe(pc, true, a1, a2);
	// send with nothing received
	worker pw = { .idx = 99, .is_sock = false, .ctx = pc };
	if (expect_estate_send(&pw, a2, "idle-context")) probe_idle_send++;
	if (sock_free) {
		pw.is_sock = true;
		if (expect_estate_send(&pw, a2, "idle-socket")) probe_idle_send++;
	}
}

// ------------------------------------------------------------ requester gone before the reply
// A request is received, its connection disappears, then the reply is sent
// (whatever that send returns, the request is consumed by it): a further send
// without a receive must be refused like any other.
static long probe_gone_send;

static void
gone_probe(nng_ctx pc, bool use_sock, nng_aio *a1, nng_aio *a2)
{
	nng_socket xs;
	nng_msg   *m;
	int        rv, base = vf_pipe_count(G.rep);
	worker     pw = { .idx = 98, .is_sock = use_sock, .ctx = pc };
	if ((rv = nng_req0_open_raw(&xs)) != 0) vf_harness_fail("xreq open");
	nng_socket_set_ms(xs, NNG_OPT_SENDTIMEO, LONG_MS);
	if ((rv = nng_dial(xs, G.xurl, NULL, 0)) != 0) vf_harness_fail("gone probe dial %s: %s", G.xurl, nng_strerror(rv));
	for (int i = 0; vf_pipe_count(G.rep) < base + 1; i++) {
		if (i > 5000) vf_harness_fail("gone probe: connection did not appear");
		vf_msleep(1);
	}
	if (nng_msg_alloc(&m, 0) != 0) vf_harness_fail("msg alloc");
	nng_msg_header_append_u32(m, 0x80000777u);
	nng_msg_append(m, "gone-probe", 10);
	if ((rv = nng_sendmsg(xs, m, 0)) != 0) vf_harness_fail("gone probe send: %s", nng_strerror(rv));
	nng_aio_set_timeout(a1, 5000);
	if (use_sock) {
		nng_socket_recv(G.rep, a1);
	} else {
		nng_ctx_recv(pc, a1);
	}
	nng_aio_wait(a1);
	if ((rv = nng_aio_result(a1)) != 0) {
		nng_socket_close(xs);
		if (rv == NNG_ETIMEDOUT) {
			vf_stat("rep_gone_probe_skipped", 1); // C02's stale expiry; nothing to judge
			return;
		}
		vf_harness_fail("gone probe recv: %s", nng_strerror(rv));
	}
	m = nng_aio_get_msg(a1);
	nng_aio_set_msg(a1, NULL);
	nng_msg_free(m);
	nng_socket_close(xs);
	for (int i = 0; vf_pipe_count(G.rep) > base; i++) {
		if (i > 5000) vf_harness_fail("gone probe: connection did not disappear");
		vf_msleep(1);
	}
	if (nng_msg_alloc(&m, 8) != 0) vf_harness_fail("msg alloc");
	nng_aio_set_msg(a2, m);
	nng_aio_set_timeout(a2, 2000);
	w_send(&pw, a2);
	nng_aio_wait(a2);
	rv = nng_aio_result(a2);
	if (rv != 0) {
		if ((m = nng_aio_get_msg(a2)) != NULL) nng_msg_free(m);
		nng_aio_set_msg(a2, NULL);
	}
	vf_class("rep/gone-before-reply/%s/first-send=%s", use_sock ? "socket" : "context", errname(rv));
	if (expect_estate_send(&pw, a2, "after-reply-to-gone")) probe_gone_send++;
}

// ------------------------------------------------------------ one case
static void
run_case(long idx, const casecfg *cc)
{
	worker       wk[MAXWORK];
	peer         pr[MAXPEERS];
	nng_listener lt, lx;
	nng_ctx      pc = NNG_CTX_INITIALIZER;
	nng_aio     *a1, *a2;
	char         url[128];
	int          rv, port = 0;
	vf_rng       r;

	vf_case_begin(idx, "replier=%s%s peers=%d(%s%s%s%s) workers=%d%s ttl=%d window=%d rounds=%d exchanges=%ld xtran=%s jitter=%d/%dus key=%llx", cc->raw ? "raw" : "cooked", cc->cuts ? "+cuts" : "", cc->npeers,
	    pkname[cc->kind[0]], cc->npeers > 1 ? pkname[cc->kind[1]] : "", cc->npeers > 2 ? pkname[cc->kind[2]] : "", cc->npeers > 3 ? pkname[cc->kind[3]] : "",
	    cc->nworkers, cc->use_sock ? "+sock" : "", cc->ttl, cc->window, cc->rounds, cc->exchanges, vf_tran_names[cc->tran], cc->jit_permille, cc->jit_us,
	    (unsigned long long) cc->key);
	vf_watchdog(240);
	vf_rng_seed(&r, cc->key, 1);
	pthread_mutex_init(&G.cutmtx, NULL);
	probe_second_recv_sock = 0;
	atomic_store(&G.stop, false);
	atomic_store(&G.c02_hits, 0);
	probe_second_recv = probe_idle_send = probe_gone_send = 0;
	for (int i = 0; i < MAXWORDS; i++) G.common[i] = (uint32_t) vf_rand(&r) & 0x7fffffffu;
	G.common[MAXWORDS - 1] |= 0x80000000u;

	if ((rv = (cc->raw ? nng_rep0_open_raw(&G.rep) : nng_rep0_open(&G.rep))) != 0) vf_harness_fail("rep open: %s", nng_strerror(rv));
	if (cc->raw) {
		nng_socket_set_ms(G.rep, NNG_OPT_RECVTIMEO, 20);
		nng_socket_set_ms(G.rep, NNG_OPT_SENDTIMEO, LONG_MS);
		nng_socket_set_int(G.rep, NNG_OPT_RECVBUF, 128);
		nng_socket_set_int(G.rep, NNG_OPT_SENDBUF, 128);
	}
	nng_socket_set_int(G.rep, NNG_OPT_MAXTTL, cc->ttl);
	nng_socket_set_size(G.rep, NNG_OPT_RECVMAXSZ, 0);
	if ((rv = nng_listen(G.rep, "tcp://127.0.0.1:0", &lt, 0)) != 0) vf_harness_fail("rep listen tcp: %s", nng_strerror(rv));
	if ((rv = nng_listener_get_int(lt, NNG_OPT_BOUND_PORT, &port)) != 0) vf_harness_fail("bound port");
	G.tcp_port = (uint16_t) port;
	vf_url(cc->tran, url, sizeof(url));
	if ((rv = nng_listen(G.rep, url, &lx, 0)) != 0) vf_harness_fail("rep listen %s: %s", url, nng_strerror(rv));
	vf_dial_url(lx, cc->tran, url, G.xurl, sizeof(G.xurl));
	if (!cc->raw && nng_ctx_open(&pc, G.rep) != 0) vf_harness_fail("ctx open");
	if (nng_aio_alloc(&a1, NULL, NULL) != 0 || nng_aio_alloc(&a2, NULL, NULL) != 0) vf_harness_fail("aio alloc");

	// connections
	memset(pr, 0, sizeof(pr));
	for (int i = 0; i < cc->npeers; i++) {
		peer *p = &pr[i];
		p->idx = i;
		p->kind = cc->kind[i];
		p->cc = cc;
		p->quota = cc->exchanges / cc->npeers + (i < cc->exchanges % cc->npeers ? 1 : 0);
		p->nrecs = (uint32_t) p->quota + 2;
		p->recs = calloc(p->nrecs, sizeof(reqrec));
		vf_rng_seed(&p->rng, cc->key, 200 + (uint64_t) i);
		if (p->kind == PK_TCP) {
			uint16_t peerproto = 0;
			if ((p->fd = vf_tcp_connect(G.tcp_port, 5000)) < 0) vf_harness_fail("raw connect");
			if (vf_sp_handshake(p->fd, 0x30, &peerproto, 5000) != 0 || peerproto != 0x31) vf_harness_fail("raw handshake (peer %04x)", peerproto);
		} else {
			if ((rv = nng_req0_open_raw(&p->xs)) != 0) vf_harness_fail("xreq open");
			nng_socket_set_ms(p->xs, NNG_OPT_RECVTIMEO, LONG_MS);
			nng_socket_set_ms(p->xs, NNG_OPT_SENDTIMEO, LONG_MS);
			nng_socket_set_int(p->xs, NNG_OPT_RECVBUF, 16);
			nng_socket_set_int(p->xs, NNG_OPT_SENDBUF, 16);
			nng_socket_set_size(p->xs, NNG_OPT_RECVMAXSZ, 0);
			if ((rv = nng_dial(p->xs, G.xurl, NULL, 0)) != 0) vf_harness_fail("xreq dial %s: %s", G.xurl, nng_strerror(rv));
		}
	}
	for (int i = 0; vf_pipe_count(G.rep) < cc->npeers; i++) {
		if (i > 5000) vf_harness_fail("REP has %d of %d pipes", vf_pipe_count(G.rep), cc->npeers);
		vf_msleep(1);
	}
	pthread_barrier_init(&G.bar, NULL, (unsigned) cc->npeers + 1);

	// before anything was ever received
	if (!cc->raw) quiet_probes(pc, true, a1, a2);

	vf_pt_jitter(cc->key, cc->jit_permille, cc->jit_us);
	memset(wk, 0, sizeof(wk));
	for (int i = 0; i < cc->nworkers; i++) {
		worker *w = &wk[i];
		w->idx = i;
		w->cc = cc;
		w->is_sock = cc->raw || (cc->use_sock && i == 0);
		if (!w->is_sock && nng_ctx_open(&w->ctx, G.rep) != 0) vf_harness_fail("ctx open");
		if (pthread_create(&w->thr, NULL, cc->raw ? raw_worker_thread : worker_thread, w) != 0) vf_harness_fail("pthread_create");
	}
	for (int i = 0; i < cc->npeers; i++) {
		if (pthread_create(&pr[i].thr, NULL, peer_thread, &pr[i]) != 0) vf_harness_fail("pthread_create");
	}
	for (int round = 0; round < cc->rounds; round++) {
		pthread_barrier_wait(&G.bar);
		bool anyfail = false;
		for (int i = 0; i < cc->npeers; i++) anyfail = anyfail || pr[i].failed;
		if (!anyfail && !cc->raw) quiet_probes(pc, !cc->use_sock, a1, a2);
		pthread_barrier_wait(&G.bar);
	}
	for (int i = 0; i < cc->npeers; i++) pthread_join(pr[i].thr, NULL);
	// nothing more may arrive on any connection (a late duplicate would)
	vf_msleep(2);
	for (int i = 0; i < cc->npeers; i++) {
		peer *p = &pr[i];
		if (p->failed) continue;
		if (p->kind == PK_TCP) {
			uint8_t        b[4096];
			long len = vf_sp_recv_frame(p->fd, false, b, sizeof(b), 3);
			if (len >= 0) {
				char key[96];
				snprintf(key, sizeof(key), "C04/rep-unsolicited/%s/extra-frame", pkname[p->kind]);
				vf_violation(key, "connection %d: an extra %ld-byte frame arrived after every request was answered", p->idx, len);
			}
		} else {
			nng_msg *m;
			nng_socket_set_ms(p->xs, NNG_OPT_RECVTIMEO, 3);
			if (nng_recvmsg(p->xs, &m, 0) == 0) {
				char key[96];
				snprintf(key, sizeof(key), "C04/rep-unsolicited/%s/extra-frame", pkname[p->kind]);
				vf_violation(key, "connection %d: an extra %zu-byte message arrived after every request was answered", p->idx, nng_msg_len(m));
				nng_msg_free(m);
			}
		}
	}
	vf_pt_off();
	atomic_store(&G.stop, true);
	for (int i = 0; i < cc->nworkers; i++) pthread_join(wk[i].thr, NULL);
	pthread_barrier_destroy(&G.bar);
	if (!cc->raw) {
		// (connections that were cut are gone for good by now)
		for (int i = 0; vf_pipe_count(G.rep) != cc->npeers; i++) {
			if (i > 20000) vf_harness_fail("REP has %d pipes for %d connections", vf_pipe_count(G.rep), cc->npeers);
			vf_msleep(1);
		}
		gone_probe(pc, false, a1, a2);
		gone_probe(pc, true, a1, a2);
	}
	pthread_mutex_destroy(&G.cutmtx);

	// evidence
	long verified = 0, sent = 0, drops = 0, served = 0, wdrops = 0, common = 0;
	for (int i = 0; i < cc->npeers; i++) {
		peer *p = &pr[i];
		verified += p->verified;
		sent += p->sent;
		drops += p->drops;
		common += p->common_used;
		for (int h = 0; h < MAXWORDS; h++) {
			if (p->by_hops[h]) vf_class("rep%s/%s/hops=%d/window=%d/%s", cc->raw ? "-raw" : "", pkname[p->kind], h, cc->window > 1 ? (cc->window > 4 ? 8 : 4) : 1, cc->use_sock ? "sock+ctx" : "ctx");
		}
		for (int w = 0; w < MAXWORK; w++) {
			if (p->seen_worker[w]) vf_class("rep/%s/served-by-%s/peers=%d", pkname[p->kind], (w == 0 && cc->use_sock) ? "socket" : "context", cc->npeers);
		}
		if (p->kind == PK_TCP) {
			close(p->fd);
		} else {
			nng_socket_close(p->xs);
		}
		free(p->recs);
	}
	for (int i = 0; i < cc->nworkers; i++) {
		worker *w = &wk[i];
		served += w->served;
		wdrops += w->dropped;
		vf_stat("estate_rep_send_fresh", w->estate_fresh);
		vf_stat("estate_rep_send_after_reply", w->estate_second);
		vf_stat("rep_recv_timeouts", w->recv_timeouts);
		vf_stat("rep_send_premature_timeouts", w->premature);
		if (!w->is_sock) nng_ctx_close(w->ctx);
	}
	vf_stat("rep_requests", sent);
	vf_stat("rep_replies_verified", verified);
	vf_stat("rep_replies_sent", served);
	vf_stat("rep_dropped_requests", drops);
	vf_stat("rep_dropped_seen_by_workers", wdrops);
	vf_stat("rep_shared_backtrace_requests", common);
	vf_stat("estate_rep_second_recv", probe_second_recv);
	vf_stat("estate_rep_send_idle", probe_idle_send);
	vf_stat("estate_rep_send_after_reply_to_gone", probe_gone_send);
	vf_stat("estate_rep_second_recv_socket", probe_second_recv_sock);
	long cuts = 0, lost = 0, rawv = 0;
	for (int i = 0; i < cc->npeers; i++) {
		cuts += pr[i].cuts;
		lost += pr[i].lost;
		rawv += pr[i].raw_verified;
	}
	vf_stat("rep_connection_cuts", cuts);
	vf_stat("rep_requests_lost_with_connection", lost);
	vf_stat("rep_raw_replies_verified", rawv);
	vf_stat("rep_raw_cases", cc->raw ? 1 : 0);
	if (cuts) vf_class("rep/%s/connection-cut-mid-round/peers=%d", cc->raw ? "raw" : "cooked", cc->npeers);
	vf_stat("connections", cc->npeers);
	vf_stat("cases", 1);
	if ((idx & 7) == 0) {
		vf_sample("{\"side\":\"rep\",\"connections\":%d,\"workers\":%d,\"socket_as_worker\":%d,\"ttl\":%d,\"window\":%d,\"requests\":%ld,\"verified\":%ld,\"dropped\":%ld,\"shared_backtrace\":%ld}",
		    cc->npeers, cc->nworkers, cc->use_sock, cc->ttl, cc->window, sent, verified, drops, common);
	}
	nng_aio_free(a1);
	nng_aio_free(a2);
	if (!cc->raw) nng_ctx_close(pc);
	nng_socket_close(G.rep);
	vf_nng_fini("C04");
	vf_nng_init(4, 2, 2);
}

// ------------------------------------------------------------ staged: replies queued behind a busy pipe
// A reply is sent at once only if its connection is idle; otherwise the context
// waits in that pipe's send queue, and a context whose queued reply is still
// waiting may receive the next request and reply again, which supersedes the
// queued reply.  Random traffic with small replies and prompt readers never
// gets there, so it is staged: requester A (raw TCP, tiny receive buffer) stops
// reading; worker W1 answers A's first request with a multi-megabyte reply,
// which keeps A's pipe busy; W2 (a context with two send aios, or the socket)
// takes A's second request and replies: queued (its aio stays pending).  Then
// one of
//   same-pipe    W2 takes A's third request and replies: the queued reply is
//                superseded (ECANCELED), the new one queues on A;
//   other-busy   B's pipe is made busy the same way by W3; W2 takes B's second
//                request and replies: superseded, the new one queues on B;
//   other-idle   W2 takes a request of idle B and replies: sent at once, the
//                reply queued on A stays queued;
//   cancel       the queued send is cancelled; W2 takes A's third request and
//                replies again (queued);
//   timeout      the queued send has a 5 ms timeout; then as cancel;
//   ctx-close    W2's context is closed with the reply queued.
// Then A (and B) read everything.  Judged by the unchanged per-connection
// oracle: every frame on a connection answers a request of that connection
// with that request's backtrace, once; a reply may be missing only if its send
// aio failed; finally a fresh exchange on each connection flushes out anything
// that went to the wrong one.
enum { SB_SAME, SB_OTHER_BUSY, SB_OTHER_IDLE, SB_CANCEL, SB_TIMEOUT, SB_CLOSE, SB_N };
static const char *sbname[SB_N] = { "same-pipe", "other-pipe-busy", "other-pipe-idle", "cancel", "timeout", "ctx-close" };

typedef struct {
	int      idx;
	bool     is_sock, closed;
	nng_ctx  ctx;
	nng_aio *r, *s[2];
} sbw;

typedef struct {
	nng_aio *aio;   // NULL: unused slot
	peer    *to;    // connection whose request it answers
	uint32_t seq;
} sbreply;

static int
sb_connect(uint16_t port)
{
	struct sockaddr_in sin;
	uint16_t           peerproto = 0;
	int                sz = 4096;
	int                fd = socket(AF_INET, SOCK_STREAM, 0);
	if (fd < 0) vf_harness_fail("socket");
	setsockopt(fd, SOL_SOCKET, SO_RCVBUF, &sz, sizeof(sz));
	memset(&sin, 0, sizeof(sin));
	sin.sin_family = AF_INET;
	sin.sin_port = htons(port);
	sin.sin_addr.s_addr = htonl(INADDR_LOOPBACK);
	if (connect(fd, (struct sockaddr *) &sin, sizeof(sin)) != 0) vf_harness_fail("staged busy: connect: %s", strerror(errno));
	if (vf_sp_handshake(fd, 0x30, &peerproto, 5000) != 0 || peerproto != 0x31) vf_harness_fail("staged busy: raw handshake (peer %04x)", peerproto);
	return fd;
}

// the worker takes the one request that is waiting; false: gave up
static bool
sb_take(sbw *w, uint32_t *tag, uint64_t *seq)
{
	for (int attempt = 0; attempt < 4; attempt++) {
		nng_aio_set_timeout(w->r, LONG_MS);
		if (w->is_sock) {
			nng_socket_recv(G.rep, w->r);
		} else {
			nng_ctx_recv(w->ctx, w->r);
		}
		nng_aio_wait(w->r);
		int rv = nng_aio_result(w->r);
		if (rv == NNG_ETIMEDOUT) continue; // (C02's stale expiry, or really nothing: give up after 4)
		if (rv != 0) vf_harness_fail("staged busy: worker receive: %s", nng_strerror(rv));
		nng_msg *m = nng_aio_get_msg(w->r);
		nng_aio_set_msg(w->r, NULL);
		bool ok = vf_body_check(nng_msg_body(m), nng_msg_len(m), tag, seq) == 0;
		if (!ok) vf_violation("C04/request-garbled/body", "staged busy: REP received a %zu-byte request that fails its checksum", nng_msg_len(m));
		nng_msg_free(m);
		return ok;
	}
	return false;
}

static void
sb_reply(sbw *w, int which, uint32_t tag, uint64_t seq, size_t bl, int timeout_ms)
{
	nng_msg *m;
	if (nng_msg_alloc(&m, bl + 8) != 0) vf_harness_fail("msg alloc");
	uint8_t *b = nng_msg_body(m);
	vf_body_make(b, bl, tag, seq);
	put32(b + bl, (uint32_t) w->idx);
	put32(b + bl + 4, 0);
	nng_aio_set_msg(w->s[which], m);
	nng_aio_set_timeout(w->s[which], timeout_ms);
	if (w->is_sock) {
		nng_socket_send(G.rep, w->s[which]);
	} else {
		nng_ctx_send(w->ctx, w->s[which]);
	}
}

// read one reply frame of any size on a raw connection and judge it;
// 0 answered one of ours, 1 judged bad, -1 nothing arrived
static int
sb_recv(peer *p, uint8_t *buf, size_t cap, int timeout_ms)
{
	uint32_t bt[MAXWORDS + 1];
	int      nbt = 0;
	long     len = vf_sp_recv_frame(p->fd, false, buf, cap, timeout_ms);
	if (len < 0) return -1;
	size_t off = 0;
	bool   end = false;
	while (!end && off + 4 <= (size_t) len && nbt < MAXWORDS) {
		bt[nbt] = get32(buf + off);
		end = (bt[nbt] & 0x80000000u) != 0;
		nbt++;
		off += 4;
	}
	if (!end) {
		vf_violation("C04/rep-backtrace/rawtcp/no-request-id", "staged busy: connection %d: a %ld-byte reply frame has no request id word in its first %d words", p->idx, len, nbt);
		return 1;
	}
	return peer_judge(p, bt, nbt, buf + off, (size_t) len - off) ? 0 : 1;
}

static void
staged_busy(long idx)
{
	casecfg      cc;
	vf_rng       r;
	nng_listener lt;
	peer         pr[2];
	sbw          w[4];
	sbreply      rp[8];
	int          nrp = 0, rv, port = 0;
	uint32_t     tag, seqA = 0, seqB = 0;
	uint64_t     seq;
	const size_t cap = (9u << 20) + 4096;
	uint8_t     *buf = malloc(cap);

	memset(&cc, 0, sizeof(cc));
	vf_rng_seed(&r, vf_seed, 5000 + (uint64_t) idx);
	cc.key = vf_rand(&r);
	cc.nonce = (uint32_t) (vf_rand(&r) & 0xffff);
	cc.npeers = 2;
	cc.ttl = vf_chance(&r, 1, 2) ? 8 : (int) vf_range(&r, 1, 4);
	cc.kind[0] = cc.kind[1] = PK_TCP;
	int    variant = (int) (idx % SB_N);
	bool   w2_sock = variant != SB_CLOSE && vf_chance(&r, 1, 3);
	size_t bigA = (size_t) vf_range(&r, 3, 8) << 20, bigB = (size_t) vf_range(&r, 3, 8) << 20;
	vf_case_begin(idx, "staged: reply queued behind a busy pipe, then %s (second worker is %s, ttl %d, %zu MB reply)", sbname[variant], w2_sock ? "the socket" : "a context", cc.ttl, bigA >> 20);
	vf_watchdog(120);
	for (int i = 0; i < MAXWORDS; i++) G.common[i] = (uint32_t) vf_rand(&r) & 0x7fffffffu;
	G.common[MAXWORDS - 1] |= 0x80000000u;
	if ((rv = nng_rep0_open(&G.rep)) != 0) vf_harness_fail("rep open: %s", nng_strerror(rv));
	nng_socket_set_int(G.rep, NNG_OPT_MAXTTL, cc.ttl);
	nng_socket_set_size(G.rep, NNG_OPT_RECVMAXSZ, 0);
	if ((rv = nng_listen(G.rep, "tcp://127.0.0.1:0", &lt, 0)) != 0) vf_harness_fail("rep listen tcp: %s", nng_strerror(rv));
	if ((rv = nng_listener_get_int(lt, NNG_OPT_BOUND_PORT, &port)) != 0) vf_harness_fail("bound port");
	memset(pr, 0, sizeof(pr));
	for (int i = 0; i < 2; i++) {
		peer *p = &pr[i];
		p->idx = i;
		p->kind = PK_TCP;
		p->cc = &cc;
		p->nrecs = 16;
		p->recs = calloc(p->nrecs, sizeof(reqrec));
		vf_rng_seed(&p->rng, cc.key, 200 + (uint64_t) i);
		p->fd = sb_connect((uint16_t) port);
	}
	for (int i = 0; vf_pipe_count(G.rep) < 2; i++) {
		if (i > 5000) vf_harness_fail("staged busy: REP has %d of 2 pipes", vf_pipe_count(G.rep));
		vf_msleep(1);
	}
	memset(w, 0, sizeof(w));
	for (int i = 0; i < 4; i++) {
		w[i].idx = i;
		w[i].is_sock = i == 1 && w2_sock;
		if (!w[i].is_sock && nng_ctx_open(&w[i].ctx, G.rep) != 0) vf_harness_fail("ctx open");
		if (nng_aio_alloc(&w[i].r, NULL, NULL) != 0 || nng_aio_alloc(&w[i].s[0], NULL, NULL) != 0 || nng_aio_alloc(&w[i].s[1], NULL, NULL) != 0) vf_harness_fail("aio alloc");
	}
	memset(rp, 0, sizeof(rp));
	peer *A = &pr[0], *B = &pr[1];
	bool  established = false, ok = true;
#define SB_REQ(P, sq)                                                                          \
	do {                                                                                   \
		if (peer_send((P), ++(sq), true) != 0) vf_harness_fail("staged busy: request write"); \
	} while (0)
#define SB_NOTE(aio_, P, sq)          \
	do {                          \
		rp[nrp].aio = (aio_); \
		rp[nrp].to = (P);     \
		rp[nrp].seq = (sq);   \
		nrp++;                \
	} while (0)
	// 1. A's pipe becomes busy
	SB_REQ(A, seqA);
	ok = sb_take(&w[0], &tag, &seq);
	if (ok) {
		sb_reply(&w[0], 0, tag, seq, bigA, LONG_MS);
		SB_NOTE(w[0].s[0], A, (uint32_t) seq);
		// 2. the second worker's reply has to queue
		SB_REQ(A, seqA);
		ok = sb_take(&w[1], &tag, &seq);
	}
	if (ok) {
		sb_reply(&w[1], 0, tag, seq, VF_BODY_MIN + vf_below(&r, 64), variant == SB_TIMEOUT ? 5 : LONG_MS);
		SB_NOTE(w[1].s[0], A, (uint32_t) seq);
		// (nothing is being read, so a send that was handed to the pipe
		// completes at once; one that is still pending after the first
		// worker's has completed is queued)
		nng_aio_wait(w[0].s[0]);
		vf_usleep(300);
		established = nng_aio_busy(w[1].s[0]) || variant == SB_TIMEOUT;
		vf_stat(established ? "rep_reply_queued_behind_busy" : "rep_reply_not_queued", 1);
		if (established && variant != SB_TIMEOUT && vf_chance(&r, 1, 2)) {
			// one send per receive, also while that one send is still
			// queued: a further send is refused and disturbs nothing
			worker pw = { .idx = 1, .is_sock = w[1].is_sock, .ctx = w[1].ctx };
			if (expect_estate_send(&pw, w[1].s[1], "reply-still-queued")) vf_stat("estate_rep_send_while_reply_queued", 1);
		}
	}
	if (ok && established) {
		switch (variant) {
		case SB_SAME:
			SB_REQ(A, seqA);
			if (!(ok = sb_take(&w[1], &tag, &seq))) break;
			sb_reply(&w[1], 1, tag, seq, VF_BODY_MIN + vf_below(&r, 64), LONG_MS);
			SB_NOTE(w[1].s[1], A, (uint32_t) seq);
			break;
		case SB_OTHER_BUSY:
			SB_REQ(B, seqB);
			if (!(ok = sb_take(&w[2], &tag, &seq))) break;
			sb_reply(&w[2], 0, tag, seq, bigB, LONG_MS);
			SB_NOTE(w[2].s[0], B, (uint32_t) seq);
			nng_aio_wait(w[2].s[0]);
			SB_REQ(B, seqB);
			if (!(ok = sb_take(&w[1], &tag, &seq))) break;
			sb_reply(&w[1], 1, tag, seq, VF_BODY_MIN + vf_below(&r, 64), LONG_MS);
			SB_NOTE(w[1].s[1], B, (uint32_t) seq);
			break;
		case SB_OTHER_IDLE:
			SB_REQ(B, seqB);
			if (!(ok = sb_take(&w[1], &tag, &seq))) break;
			sb_reply(&w[1], 1, tag, seq, VF_BODY_MIN + vf_below(&r, 64), LONG_MS);
			SB_NOTE(w[1].s[1], B, (uint32_t) seq);
			break;
		case SB_CANCEL:
		case SB_TIMEOUT:
			if (variant == SB_CANCEL) nng_aio_cancel(w[1].s[0]);
			nng_aio_wait(w[1].s[0]);
			if (nng_aio_result(w[1].s[0]) != 0) vf_stat("rep_queued_reply_cancelled", 1);
			SB_REQ(A, seqA);
			if (!(ok = sb_take(&w[1], &tag, &seq))) break;
			sb_reply(&w[1], 1, tag, seq, VF_BODY_MIN + vf_below(&r, 64), LONG_MS);
			SB_NOTE(w[1].s[1], A, (uint32_t) seq);
			break;
		default: // SB_CLOSE
			nng_ctx_close(w[1].ctx);
			w[1].closed = true;
			nng_aio_wait(w[1].s[0]);
			if (nng_aio_result(w[1].s[0]) != 0) vf_stat("rep_queued_reply_cancelled", 1);
			break;
		}
		if (ok && (variant == SB_SAME || variant == SB_OTHER_BUSY)) {
			// the superseded send ends now, long before anything is read
			for (int i = 0; i < 2000 && nng_aio_busy(w[1].s[0]); i++) vf_msleep(1);
			if (!nng_aio_busy(w[1].s[0]) && nng_aio_result(w[1].s[0]) == NNG_ECANCELED) vf_stat("rep_reply_superseded", 1);
		}
	}
	if (!ok) vf_stat("rep_staged_busy_gave_up", 1);
	// 3. the requesters read.  A reply is due unless its send has failed
	// by now (what is still pending completes as the pipe drains).
	for (int side = 0; side < 2; side++) {
		peer *p = &pr[side];
		for (;;) {
			int due = 0;
			for (int i = 0; i < nrp; i++) {
				if (rp[i].to != p || p->recs[rp[i].seq].state != R_OUT) continue;
				if (nng_aio_busy(rp[i].aio) || nng_aio_result(rp[i].aio) == 0) due++;
			}
			if (due == 0) break;
			int got = sb_recv(p, buf, cap, LONG_MS);
			if (got == 0) continue;
			if (got < 0) {
				// nothing came: fine only if the sends that looked due have failed meanwhile
				int lost = 0;
				for (int i = 0; i < nrp; i++) {
					if (rp[i].to != p || p->recs[rp[i].seq].state != R_OUT) continue;
					nng_aio_wait(rp[i].aio);
					if (nng_aio_result(rp[i].aio) == 0) lost++;
				}
				if (lost) vf_violation("C04/rep-lost/staged-queued", "staged busy (%s): connection %d: %d reply send(s) completed successfully (queued behind a busy pipe or sent at once) but no reply arrived within %d ms", sbname[variant], p->idx, lost, LONG_MS);
			}
			break; // (after a bad frame too: the connection's framing is not to be trusted)
		}
	}
	for (int i = 0; i < nrp; i++) {
		nng_aio_wait(rp[i].aio);
		int arv = nng_aio_result(rp[i].aio);
		if (arv != 0) {
			nng_msg *m = nng_aio_get_msg(rp[i].aio);
			nng_aio_set_msg(rp[i].aio, NULL);
			if (m != NULL) nng_msg_free(m);
		}
		vf_class("rep/staged-busy/%s/%s/send-%d=%s", sbname[variant], w2_sock ? "socket" : "context", i, errname(arv));
	}
	// 4. a fresh exchange on each connection: whatever was sent to the wrong
	// connection is in front of its reply
	for (int side = 0; side < 2 && ok; side++) {
		peer    *p = &pr[side];
		uint32_t *sq = side == 0 ? &seqA : &seqB;
		SB_REQ(p, *sq);
		if (!sb_take(&w[3], &tag, &seq)) break;
		sb_reply(&w[3], 0, tag, seq, VF_BODY_MIN + 8, LONG_MS);
		nng_aio_wait(w[3].s[0]);
		if ((rv = nng_aio_result(w[3].s[0])) != 0) {
			nng_msg *m = nng_aio_get_msg(w[3].s[0]);
			nng_aio_set_msg(w[3].s[0], NULL);
			if (m != NULL) nng_msg_free(m);
			if (rv != NNG_ETIMEDOUT) vf_violation("C04/rep-send-failed/staged", "staged busy (%s): reply on the drained connection %d failed: %s", sbname[variant], p->idx, nng_strerror(rv));
			break;
		}
		for (int k = 0; k < 8 && p->recs[*sq].state == R_OUT; k++) {
			int got = sb_recv(p, buf, cap, LONG_MS);
			if (got < 0) {
				vf_violation("C04/rep-lost/staged-final", "staged busy (%s): connection %d: the final exchange's reply did not arrive", sbname[variant], p->idx);
				break;
			}
			if (got > 0) break;
		}
		if (p->recs[*sq].state == R_ANSWERED) vf_stat("rep_staged_final_exchanges", 1);
	}
	vf_stat("rep_staged_busy_cases", 1);
	vf_stat("rep_staged_replies_verified", pr[0].verified + pr[1].verified);
	for (int i = 0; i < 2; i++) {
		close(pr[i].fd);
		free(pr[i].recs);
	}
	for (int i = 0; i < 4; i++) {
		nng_aio_stop(w[i].r);
		nng_aio_stop(w[i].s[0]);
		nng_aio_stop(w[i].s[1]);
		nng_msg *m;
		if ((m = nng_aio_get_msg(w[i].s[0])) != NULL && nng_aio_result(w[i].s[0]) != 0) nng_msg_free(m);
		if ((m = nng_aio_get_msg(w[i].s[1])) != NULL && nng_aio_result(w[i].s[1]) != 0) nng_msg_free(m);
		nng_aio_free(w[i].r);
		nng_aio_free(w[i].s[0]);
		nng_aio_free(w[i].s[1]);
		if (!w[i].is_sock && !w[i].closed) nng_ctx_close(w[i].ctx);
	}
	free(buf);
	nng_socket_close(G.rep);
	vf_nng_fini("C04");
	vf_nng_init(4, 2, 2);
}

int
main(int argc, char **argv)
{
	vf_init(argc, argv);
	vf_nng_init(4, 2, 2);
	vf_ev_hook(c04_ev);
	bool thorough = vf_tier == 1;
	for (long idx = 0; idx < vf_cases; idx++) {
		if (!vf_want_case(idx)) continue;
		vf_rng  r;
		casecfg c;
		vf_rng_seed(&r, vf_seed, (uint64_t) idx);
		memset(&c, 0, sizeof(c));
		c.key = vf_rand(&r);
		c.nonce = (uint32_t) (vf_rand(&r) & 0xffff);
		c.tran = vf_chance(&r, 1, 2) ? VF_T_INPROC : VF_T_TCP;
		c.npeers = (int) vf_range(&r, 1, MAXPEERS);
		for (int i = 0; i < MAXPEERS; i++) c.kind[i] = vf_chance(&r, 1, 2) ? PK_TCP : PK_XREQ;
		c.nworkers = (int) vf_range(&r, 1, MAXWORK);
		c.use_sock = vf_chance(&r, 1, 2);
		c.raw = vf_chance(&r, 1, 4);
		c.cuts = vf_chance(&r, 2, 3);
		if (c.raw) c.use_sock = false;
		uint32_t k = vf_below(&r, 4);
		c.ttl = k == 0 ? 15 : k == 1 ? (int) vf_range(&r, 1, 4) : 8;
		c.window = (int) vf_range(&r, 1, 8);
		c.rounds = (int) vf_range(&r, 1, 3);
		c.exchanges = (long) vf_range(&r, 200, thorough ? 5000 : 1200);
		c.jit_permille = (int) vf_range(&r, 5, 60);
		c.jit_us = (int) vf_range(&r, 20, 300);
		run_case(idx, &c);
	}
	for (long j = 0; j < (thorough ? 24 : 12); j++) {
		if (vf_want_case(vf_cases + j)) staged_busy(vf_cases + j);
	}
	vf_nng_fini("C04");
	return vf_finish();
}
