// C14: pipe events are ordered; dialers redial; listeners keep accepting.
//
// Two sockets in three register callbacks for ADD_PRE / ADD_POST / REM_POST
// before any endpoint starts; the others (events and listen mode) only after
// their endpoints run and pipes exist (pipes that existed before must stay
// silent for ever), and drop / re-install the callbacks while pipes come and
// go.  The callbacks append (t, socket, pipe, dialer, listener,
// event) to a harness-owned log and, seeded, call nng_pipe_close from inside
// ADD_PRE or ADD_POST.  After every case (all sockets closed) an offline
// checker judges the log:
//   order     per pipe the events are a prefix-closed subsequence of
//             ADD_PRE, ADD_POST, REM_POST, each at most once, ADD_PRE first
//   close     a pipe that got ADD_POST has REM_POST before its socket's
//             nng_socket_close returned
//   rejected  no received message names a pipe closed inside its ADD_PRE
//   dialer    per dialer at most one pipe between ADD_POST and REM_POST, and
//             the windows ADD_PRE..REM_POST of its pipes never overlap
// Modes:
//   events  nng<->nng sockets (1-3 dialers, 1-3 listeners, inproc/ipc/tcp/ws/
//           udp, socket:// listeners linked by socket pairs), 2-3 chaos
//           threads racing pipe close / endpoint close / peer loss / socket
//           close / callback removal, continuous tagged traffic, schedule
//           perturbation
//   redial  a raw TCP/unix listener (or an nng inproc/ws/udp listener, or the
//           dialer's own failure counters) watches the connection attempts
//           of one nng dialer: after every loss or failed background dial
//           (also: name does not resolve) a new attempt within
//           max(RECONNMINT,RECONNMAXT) + grace; back-off runs; none after
//           nng_dialer_close / nng_socket_close returned
//   listen  raw clients abort at every handshake offset, send wrong protocol
//           ids, RST ..., the accept itself fails (EMFILE), on tcp / ipc /
//           socket:// listeners; afterwards a well-behaved client must still
//           connect and exchange a message
#include "vfh.h"
#include <errno.h>
#include <fcntl.h>
#include <netinet/in.h>
#include <netinet/tcp.h>
#include <poll.h>
#include <pthread.h>
#include <stdatomic.h>
#include <netdb.h>
#include <sys/resource.h>
#include <sys/socket.h>
#include <sys/un.h>
#include <unistd.h>

// ------------------------------------------------------------------ log
#define MAXEV (1 << 18)
typedef struct {
	uint64_t t;
	int      sock; // index into sockring
	uint32_t pipe, dialer, listener;
	uint8_t  ev;     // nng_pipe_ev
	uint8_t  closed; // 1/2: nng_pipe_close called inside this ADD_PRE/ADD_POST
} evrec;

static evrec          *evlog;
static int             evn;
static long            ev_dropped;
static pthread_mutex_t evmtx = PTHREAD_MUTEX_INITIALIZER;

static const char *evname[] = { "NONE", "ADD_PRE", "ADD_POST", "REM_POST" };

// synthetic log record (pipe 0): the application has just finished installing
// its three callbacks on this socket (first, late registration or the end of
// an un-registered window).  REM_POST of pipes whose ADD_POST is logged before
// this mark may have gone unobserved while no REM_POST callback was installed.
#define EV_REGMARK 9
// synthetic log record (pipe 0): the application starts changing its callbacks
// on this socket; until the next EV_REGMARK events of its pipes may go unseen
#define EV_UNREGMARK 8

#define RING 64
#define MAXSOCK 24
typedef struct {
	int             ring;
	nng_socket      s;
	const vf_proto *proto;
	bool            cansend, canrecv;
	atomic_int      state; // 0 unused, 1 open, 2 close in progress, 3 closed
	int             close_mark; // evn when nng_socket_close returned
	uint64_t        key;
	atomic_int      n_pre, n_post;
	int             rej_pre_pm, rej_post_pm;
	atomic_int      rej_budget;
	atomic_int      force_pre, force_post; // close the next n pipes in PRE/POST
	uint64_t        seq;
	bool            late;   // callbacks installed only after endpoints and pipes exist
	pthread_mutex_t regmtx; // one thread at a time changes this socket's callbacks
	// a slow callback: the next dwell_n callbacks for event dwell_ev stay
	// inside until dwell_release is set (2 s at most); dwelling: 1 inside, 2 left
	atomic_int      dwell_n, dwelling, dwell_release;
	int             dwell_ev;
} tsock;

static tsock sockring[RING];
static int   ringpos;
static tsock *cs[MAXSOCK]; // sockets of the current case
static int   ncs;

static bool
take_one(atomic_int *a)
{
	int v = atomic_load(a);
	while (v > 0) {
		if (atomic_compare_exchange_weak(a, &v, v - 1)) {
			return true;
		}
	}
	return false;
}

static void
pipe_cb(nng_pipe p, nng_pipe_ev ev, void *arg)
{
	tsock   *ts   = arg;
	int      slot = -1;
	evrec    r;
	bool     doclose = false;

	r.t        = vf_now_ns();
	r.sock     = ts->ring;
	r.pipe     = (uint32_t) nng_pipe_id(p);
	r.dialer   = nng_pipe_dialer(p).id;
	r.listener = nng_pipe_listener(p).id;
	r.ev       = (uint8_t) ev;
	r.closed   = 0;
	pthread_mutex_lock(&evmtx);
	if (evn < MAXEV) {
		slot         = evn++;
		evlog[slot] = r;
	} else {
		ev_dropped++;
	}
	pthread_mutex_unlock(&evmtx);

	if ((int) ev == ts->dwell_ev && take_one(&ts->dwell_n)) {
		uint64_t end = vf_now_ns() + 2000000000ULL;
		atomic_store(&ts->dwelling, 1);
		while (!atomic_load(&ts->dwell_release) && vf_now_ns() < end) vf_usleep(200);
		atomic_store(&ts->dwelling, 2);
	}
	if (ev == NNG_PIPE_EV_ADD_PRE) {
		int n = atomic_fetch_add(&ts->n_pre, 1);
		if (take_one(&ts->force_pre)) {
			doclose = true;
		} else if (ts->rej_pre_pm > 0 &&
		    (int) (vf_mix64(ts->key + (uint64_t) n * 2654435761u) % 1000) < ts->rej_pre_pm &&
		    take_one(&ts->rej_budget)) {
			doclose = true;
		}
	} else if (ev == NNG_PIPE_EV_ADD_POST) {
		int n = atomic_fetch_add(&ts->n_post, 1);
		if (take_one(&ts->force_post)) {
			doclose = true;
		} else if (ts->rej_post_pm > 0 &&
		    (int) (vf_mix64(ts->key + 77 + (uint64_t) n * 2246822519u) % 1000) < ts->rej_post_pm &&
		    take_one(&ts->rej_budget)) {
			doclose = true;
		}
	}
	if (doclose) {
		nng_pipe_close(p);
		if (slot >= 0) {
			pthread_mutex_lock(&evmtx);
			evlog[slot].closed = (ev == NNG_PIPE_EV_ADD_PRE) ? 1 : 2;
			pthread_mutex_unlock(&evmtx);
		}
	}
}

static void
log_mark(int ring, int ev)
{
	evrec r;
	memset(&r, 0, sizeof(r));
	r.t    = vf_now_ns();
	r.sock = ring;
	r.ev   = (uint8_t) ev;
	pthread_mutex_lock(&evmtx);
	if (evn < MAXEV) {
		evlog[evn++] = r;
	} else {
		ev_dropped++;
	}
	pthread_mutex_unlock(&evmtx);
}

// The installed set is at every moment a prefix of (ADD_PRE, ADD_POST,
// REM_POST): install in this order, remove in the reverse order.  Any other
// order lets a pipe take an ADD_PRE that nobody observes and legally show
// ADD_POST first.  (The socket may be closed under us: errors are ignored.)
static void
install_cbs_locked(tsock *ts)
{
	log_mark(ts->ring, EV_UNREGMARK);
	for (int ev = NNG_PIPE_EV_ADD_PRE; ev <= NNG_PIPE_EV_REM_POST; ev++) {
		nng_pipe_notify(ts->s, (nng_pipe_ev) ev, pipe_cb, ts);
	}
	log_mark(ts->ring, EV_REGMARK);
}

static void
sock_register(tsock *ts)
{
	pthread_mutex_lock(&ts->regmtx);
	install_cbs_locked(ts);
	pthread_mutex_unlock(&ts->regmtx);
}

static void
sock_reregister(tsock *ts)
{
	pthread_mutex_lock(&ts->regmtx);
	for (int ev = NNG_PIPE_EV_ADD_PRE; ev <= NNG_PIPE_EV_REM_POST; ev++) {
		nng_pipe_notify(ts->s, (nng_pipe_ev) ev, pipe_cb, ts);
	}
	pthread_mutex_unlock(&ts->regmtx);
}

// no callbacks at all for a while, then all three again
static void
sock_unregister_window(tsock *ts, int us)
{
	pthread_mutex_lock(&ts->regmtx);
	log_mark(ts->ring, EV_UNREGMARK);
	for (int ev = NNG_PIPE_EV_REM_POST; ev >= NNG_PIPE_EV_ADD_PRE; ev--) {
		nng_pipe_notify(ts->s, (nng_pipe_ev) ev, NULL, NULL);
	}
	vf_usleep(us);
	install_cbs_locked(ts);
	pthread_mutex_unlock(&ts->regmtx);
}

static int
log_len(void)
{
	pthread_mutex_lock(&evmtx);
	int n = evn;
	pthread_mutex_unlock(&evmtx);
	return n;
}

// first record at index >= from matching (sock ring, ev, dialer or 0 = any)
static int
log_find(int from, int ring, int ev, uint32_t dialer, evrec *out)
{
	int found = -1;
	pthread_mutex_lock(&evmtx);
	for (int i = from < 0 ? 0 : from; i < evn; i++) {
		if (evlog[i].sock == ring && evlog[i].ev == ev &&
		    (dialer == 0 || evlog[i].dialer == dialer)) {
			found = i;
			if (out) *out = evlog[i];
			break;
		}
	}
	pthread_mutex_unlock(&evmtx);
	return found;
}

static int
log_find_pipe(int from, uint32_t pipe, int ev, evrec *out)
{
	int found = -1;
	pthread_mutex_lock(&evmtx);
	for (int i = from < 0 ? 0 : from; i < evn; i++) {
		if (evlog[i].pipe == pipe && evlog[i].ev == ev) {
			found = i;
			if (out) *out = evlog[i];
			break;
		}
	}
	pthread_mutex_unlock(&evmtx);
	return found;
}

static int
log_wait(int from, int ring, int ev, uint32_t dialer, int timeout_ms, evrec *out)
{
	uint64_t end = vf_now_ns() + (uint64_t) timeout_ms * 1000000ULL;
	for (;;) {
		int i = log_find(from, ring, ev, dialer, out);
		if (i >= 0 || vf_now_ns() > end) {
			return i;
		}
		vf_usleep(200);
	}
}

static int
log_wait_pipe(int from, uint32_t pipe, int ev, int timeout_ms, evrec *out)
{
	uint64_t end = vf_now_ns() + (uint64_t) timeout_ms * 1000000ULL;
	for (;;) {
		int i = log_find_pipe(from, pipe, ev, out);
		if (i >= 0 || vf_now_ns() > end) {
			return i;
		}
		vf_usleep(200);
	}
}

// the pipe of socket 'ring' that has ADD_POST and no REM_POST yet (latest)
static uint32_t
log_live_pipe(int ring)
{
	uint32_t pipe = 0;
	pthread_mutex_lock(&evmtx);
	for (int i = evn - 1; i >= 0 && pipe == 0; i--) {
		if (evlog[i].sock != ring || evlog[i].ev != NNG_PIPE_EV_ADD_POST) {
			continue;
		}
		bool gone = false;
		for (int j = i + 1; j < evn; j++) {
			if (evlog[j].pipe == evlog[i].pipe && evlog[j].ev == NNG_PIPE_EV_REM_POST) {
				gone = true;
				break;
			}
		}
		if (!gone) pipe = evlog[i].pipe;
	}
	pthread_mutex_unlock(&evmtx);
	return pipe;
}

// ------------------------------------------------------------------ carried set
#define CARR 16384
static uint32_t carried[CARR];
static int      ncarried;

static void
carried_add(uint32_t pipe)
{
	uint32_t h = (uint32_t) (vf_mix64(pipe) % CARR);
	for (int i = 0; i < CARR; i++) {
		uint32_t k = (h + (uint32_t) i) % CARR;
		if (carried[k] == pipe) return;
		if (carried[k] == 0) {
			if (ncarried < CARR / 2) {
				carried[k] = pipe;
				ncarried++;
			}
			return;
		}
	}
}

static bool
carried_has(uint32_t pipe)
{
	uint32_t h = (uint32_t) (vf_mix64(pipe) % CARR);
	for (int i = 0; i < CARR; i++) {
		uint32_t k = (h + (uint32_t) i) % CARR;
		if (carried[k] == pipe) return true;
		if (carried[k] == 0) return false;
	}
	return false;
}

// ------------------------------------------------------------------ transports
#define T_UDP VF_T_N // one more than vfh knows

static const char *
tn(int t)
{
	return t == T_UDP ? "udp" : vf_tran_names[t];
}

// a listen URL for transport t (tcp/ws/udp: port 0)
static void
mk_url(int t, char *buf, size_t sz)
{
	if (t == T_UDP) {
		snprintf(buf, sz, "udp://127.0.0.1:0");
	} else {
		vf_url(t, buf, sz);
	}
}

static int
mk_dial_url(nng_listener l, int t, const char *listen_url, char *buf, size_t sz)
{
	if (t == T_UDP) {
		int port = 0;
		int rv   = nng_listener_get_int(l, NNG_OPT_BOUND_PORT, &port);
		if (rv != 0) return rv;
		snprintf(buf, sz, "udp://127.0.0.1:%d", port);
		return 0;
	}
	return vf_dial_url(l, t, listen_url, buf, sz);
}

// ------------------------------------------------------------------ endpoints
#define MAXEP 96
typedef struct {
	char         kind; // 'd' or 'l'
	uint32_t     id;
	int          sock; // index in cs[]
	int          tran;
	char         url[128]; // dialable url
	atomic_int   open;
	int          rmin, rmax;
	nng_dialer   d;
	nng_listener l;
} tep;
static tep             eps[MAXEP];
static int             nep;
static pthread_mutex_t epmtx = PTHREAD_MUTEX_INITIALIZER;

static tep *
ep_add(char kind, uint32_t id, int sock, int tran, const char *url, int rmin, int rmax, nng_dialer d, nng_listener l)
{
	tep *e = NULL;
	pthread_mutex_lock(&epmtx);
	if (nep < MAXEP) {
		e = &eps[nep];
		e->kind = kind;
		e->id   = id;
		e->sock = sock;
		e->tran = tran;
		snprintf(e->url, sizeof(e->url), "%s", url);
		e->rmin = rmin;
		e->rmax = rmax;
		e->d    = d;
		e->l    = l;
		atomic_store(&e->open, 1);
		nep++;
	}
	pthread_mutex_unlock(&epmtx);
	return e;
}

static const char *
ep_tran_name(char kind, uint32_t id)
{
	const char *r = "?";
	pthread_mutex_lock(&epmtx);
	for (int i = 0; i < nep; i++) {
		if (eps[i].kind == kind && eps[i].id == id) {
			r = tn(eps[i].tran);
			break;
		}
	}
	pthread_mutex_unlock(&epmtx);
	return r;
}

// ------------------------------------------------------------------ sockets
static const int reconn[4][2] = { { 1, 0 }, { 5, 20 }, { 10, 10 }, { 20, 5 } };

static int
reconn_bound(int rmin, int rmax)
{
	return rmin > rmax ? rmin : rmax;
}

static void
case_reset(void)
{
	pthread_mutex_lock(&evmtx);
	evn        = 0;
	ev_dropped = 0;
	pthread_mutex_unlock(&evmtx);
	pthread_mutex_lock(&epmtx);
	nep = 0;
	pthread_mutex_unlock(&epmtx);
	ncs = 0;
	memset(carried, 0, sizeof(carried));
	ncarried = 0;
}

static tsock *
sock_open_ex(const char *protoname, uint64_t key, int rej_pre_pm, int rej_post_pm, int budget, bool late)
{
	tsock *ts = &sockring[ringpos % RING];
	int    rv;
	if (ncs >= MAXSOCK) vf_harness_fail("too many sockets");
	memset(ts, 0, sizeof(*ts));
	pthread_mutex_init(&ts->regmtx, NULL);
	ts->late = late;
	ts->ring  = ringpos % RING;
	ringpos++;
	ts->proto = vf_proto_by_name(protoname);
	if (ts->proto == NULL) vf_harness_fail("proto %s", protoname);
	if ((rv = ts->proto->open(&ts->s)) != 0) vf_harness_fail("open %s: %s", protoname, nng_strerror(rv));
	ts->key         = key;
	ts->rej_pre_pm  = rej_pre_pm;
	ts->rej_post_pm = rej_post_pm;
	atomic_store(&ts->rej_budget, budget);
	ts->close_mark = -1;
	ts->cansend = !strcmp(protoname, "bus") || !strcmp(protoname, "pair0") || !strcmp(protoname, "pair1") ||
	    !strcmp(protoname, "push") || !strcmp(protoname, "pub");
	ts->canrecv = !strcmp(protoname, "bus") || !strcmp(protoname, "pair0") || !strcmp(protoname, "pair1") ||
	    !strcmp(protoname, "pull") || !strcmp(protoname, "sub");
	if (!strcmp(protoname, "sub")) nng_sub0_socket_subscribe(ts->s, "", 0);
	for (int ev = NNG_PIPE_EV_ADD_PRE; ev <= NNG_PIPE_EV_REM_POST && !late; ev++) {
		if ((rv = nng_pipe_notify(ts->s, (nng_pipe_ev) ev, pipe_cb, ts)) != 0) vf_harness_fail("notify: %s", nng_strerror(rv));
	}
	nng_socket_set_ms(ts->s, NNG_OPT_SENDTIMEO, 5000);
	nng_socket_set_ms(ts->s, NNG_OPT_RECVTIMEO, 5000);
	atomic_store(&ts->state, 1);
	cs[ncs++] = ts;
	return ts;
}

static tsock *
sock_open(const char *protoname, uint64_t key, int rej_pre_pm, int rej_post_pm, int budget)
{
	return sock_open_ex(protoname, key, rej_pre_pm, rej_post_pm, budget, false);
}

// Late registration: the socket's endpoints run and (usually) 'want' pipes
// exist; only now the application installs its callbacks.  The pipes that
// exist already never had ADD_PRE, so nothing may ever be reported for them.
static void
sock_register_late(tsock *ts, int want, int wait_ms)
{
	int      n   = 0;
	uint64_t end = vf_now_ns() + (uint64_t) wait_ms * 1000000ULL;
	for (;;) {
		n = vf_pipe_count(ts->s);
		if (n >= want || vf_now_ns() > end) break;
		vf_usleep(500);
	}
	sock_register(ts);
	vf_stat("late_registrations", 1);
	if (n > 0) {
		vf_stat("late_registrations_with_pipes", 1);
		vf_stat("pipes_alive_at_registration", n);
	}
}

static void
sock_close(tsock *ts)
{
	int exp = 1;
	if (!atomic_compare_exchange_strong(&ts->state, &exp, 2)) {
		return;
	}
	int rv = nng_socket_close(ts->s);
	pthread_mutex_lock(&evmtx);
	ts->close_mark = evn;
	pthread_mutex_unlock(&evmtx);
	if (rv != 0) vf_harness_fail("nng_socket_close: %s", nng_strerror(rv));
	atomic_store(&ts->state, 3);
}

static int
sock_index(const tsock *ts)
{
	for (int i = 0; i < ncs; i++) {
		if (cs[i] == ts) return i;
	}
	return -1;
}

static tep *
add_listener_url(tsock *ts, int tran, const char *url)
{
	nng_listener l;
	nng_dialer   nod = NNG_DIALER_INITIALIZER;
	char         durl[128];
	tep         *e;
	if (nng_listener_create(&l, ts->s, url) != 0) return NULL;
	if (nng_listener_start(l, 0) != 0) {
		nng_listener_close(l);
		return NULL;
	}
	if (mk_dial_url(l, tran, url, durl, sizeof(durl)) != 0) {
		// socket closed under us
		snprintf(durl, sizeof(durl), "%s", url);
	}
	e = ep_add('l', (uint32_t) nng_listener_id(l), sock_index(ts), tran, durl, 0, 0, nod, l);
	if (e == NULL) nng_listener_close(l);
	return e;
}

static tep *
add_listener(tsock *ts, int tran)
{
	char url[128];
	tep *e;
	// (a machine short of ephemeral ports refuses tcp port 0 for a while)
	for (int tries = 0; tries < 100; tries++) {
		mk_url(tran, url, sizeof(url));
		if ((e = add_listener_url(ts, tran, url)) != NULL) return e;
		vf_stat("listen_retries", 1);
		vf_msleep(100);
	}
	return NULL;
}

static tep *
add_dialer_ex(tsock *ts, int tran, const char *url, int rmin, int rmax, bool via_socket_opts, bool start)
{
	nng_dialer   d;
	nng_listener nol = NNG_LISTENER_INITIALIZER;
	tep         *e;
	if (via_socket_opts) {
		nng_socket_set_ms(ts->s, NNG_OPT_RECONNMINT, rmin);
		nng_socket_set_ms(ts->s, NNG_OPT_RECONNMAXT, rmax);
	}
	if (nng_dialer_create(&d, ts->s, url) != 0) return NULL;
	if (!via_socket_opts) {
		if (nng_dialer_set_ms(d, NNG_OPT_RECONNMINT, rmin) != 0 ||
		    nng_dialer_set_ms(d, NNG_OPT_RECONNMAXT, rmax) != 0) {
			nng_dialer_close(d);
			return NULL;
		}
	}
	e = ep_add('d', (uint32_t) nng_dialer_id(d), sock_index(ts), tran, url, rmin, rmax, d, nol);
	if (e == NULL) {
		nng_dialer_close(d);
		return NULL;
	}
	// background dial: failures are retried by the dialer
	if (start && nng_dialer_start(d, NNG_FLAG_NONBLOCK) != 0) {
		if (atomic_exchange(&e->open, 0) == 1) nng_dialer_close(d);
	}
	return e;
}

static tep *
add_dialer(tsock *ts, int tran, const char *url, int rmin, int rmax, bool via_socket_opts)
{
	return add_dialer_ex(ts, tran, url, rmin, rmax, via_socket_opts, true);
}

static bool
ep_close(tep *e)
{
	if (atomic_exchange(&e->open, 0) != 1) return false;
	if (e->kind == 'd') {
		nng_dialer_close(e->d);
	} else {
		nng_listener_close(e->l);
	}
	return true;
}

// ------------------------------------------------------------------ checker
typedef struct {
	uint32_t pipe;
	int      sock;
	uint32_t dialer, listener;
	int      idx[4];
	int      cnt[4];
	int      closed;
	bool     bad;
} pinfo;

static bool
ring_is_current(int ring)
{
	for (int i = 0; i < ncs; i++) {
		if (cs[i]->ring == ring) return true;
	}
	return false;
}

static tsock *
ring_sock(int ring)
{
	return &sockring[ring];
}

// Judge the event log of the finished case.  All sockets are closed.
static void
check_log(const char *mode, const char *fam)
{
	int    n = evn; // no more writers: all sockets closed and library quiescent
	char   key[200];
	struct { uint32_t d; int sock; int live; uint32_t pipe; int reset_idx; } dl[MAXEP];
	int    ndl = 0;
	int    regmark[RING]; // last "callbacks installed" mark per socket, -1 none
	bool   inwin[RING];   // between "callbacks being changed" and "installed"
	for (int i = 0; i < RING; i++) regmark[i] = -1;
	memset(inwin, 0, sizeof(inwin));

	vf_stat("events", n);
	if (ev_dropped > 0) {
		vf_stat("log_overflow_cases", 1);
		return;
	}
	size_t cap = 64;
	while (cap < (size_t) n * 2 + 2) cap <<= 1;
	pinfo *tab = calloc(cap, sizeof(pinfo));
	if (tab == NULL) vf_harness_fail("calloc");

	for (int i = 0; i < n; i++) {
		evrec *r = &evlog[i];
		if (!ring_is_current(r->sock)) {
			vf_stat("stale_events", 1);
			continue;
		}
		if ((r->ev == EV_REGMARK || r->ev == EV_UNREGMARK) && r->pipe == 0) {
			// REM_POST of this socket's earlier pipes may be / have been missed
			inwin[r->sock] = r->ev == EV_UNREGMARK;
			if (r->ev == EV_REGMARK) regmark[r->sock] = i;
			for (int k = 0; k < ndl; k++) {
				if (dl[k].sock == r->sock) {
					dl[k].live      = 0;
					dl[k].reset_idx = i;
				}
			}
			continue;
		}
		if (r->ev < 1 || r->ev > 3 || r->pipe == 0) {
			snprintf(key, sizeof(key), "C14/order/bad-event-value");
			vf_violation(key, "callback delivered event %d for pipe id %u", r->ev, r->pipe);
			continue;
		}
		size_t h = (size_t) (vf_mix64(r->pipe) & (cap - 1));
		while (tab[h].pipe != 0 && tab[h].pipe != r->pipe) h = (h + 1) & (cap - 1);
		pinfo *p = &tab[h];
		if (p->pipe == 0) {
			p->pipe     = r->pipe;
			p->sock     = r->sock;
			p->dialer   = r->dialer;
			p->listener = r->listener;
			p->idx[1] = p->idx[2] = p->idx[3] = -1;
		}
		const char *epk = p->dialer ? "dialer" : "listener";
		const char *tn  = p->dialer ? ep_tran_name('d', p->dialer) : ep_tran_name('l', p->listener);
		if (p->cnt[r->ev] > 0) {
			snprintf(key, sizeof(key), "C14/order/duplicate-%s/%s", evname[r->ev], epk);
			vf_violation(key, "%s %s: pipe %u (%s, %s) received %s twice (log index %d and %d)", mode, fam, r->pipe, epk, tn, evname[r->ev], p->idx[r->ev], i);
			p->bad = true;
		} else {
			p->idx[r->ev] = i;
		}
		p->cnt[r->ev]++;
		if (r->ev != NNG_PIPE_EV_ADD_PRE && p->cnt[NNG_PIPE_EV_ADD_PRE] == 0) {
			snprintf(key, sizeof(key), "C14/order/%s-without-ADD_PRE/%s", evname[r->ev], epk);
			vf_violation(key, "%s %s: pipe %u (%s, %s) received %s but never ADD_PRE before it", mode, fam, r->pipe, epk, tn, evname[r->ev]);
			p->bad = true;
		}
		for (int later = r->ev + 1; later <= 3; later++) {
			if (p->cnt[later] > 0 && p->cnt[r->ev] == 1) {
				snprintf(key, sizeof(key), "C14/order/%s-after-%s/%s", evname[r->ev], evname[later], epk);
				vf_violation(key, "%s %s: pipe %u (%s, %s) received %s (log %d) after %s (log %d)", mode, fam, r->pipe, epk, tn, evname[r->ev], i, evname[later], p->idx[later]);
				p->bad = true;
			}
		}
		if (r->closed) p->closed = r->closed;

		// per dialer: pipes between ADD_POST and REM_POST
		if (p->dialer != 0 && (r->ev == NNG_PIPE_EV_ADD_POST || r->ev == NNG_PIPE_EV_REM_POST)) {
			int k;
			for (k = 0; k < ndl && dl[k].d != p->dialer; k++) {
			}
			if (k == ndl && ndl < MAXEP) {
				dl[ndl].d         = p->dialer;
				dl[ndl].sock      = p->sock;
				dl[ndl].live      = 0;
				dl[ndl].pipe      = 0;
				dl[ndl].reset_idx = -1;
				ndl++;
			}
			if (k < ndl) {
				if (r->ev == NNG_PIPE_EV_ADD_POST && p->cnt[2] == 1 && inwin[p->sock]) {
					// not countable: the REM_POST of the dialer's previous
					// pipe may just have gone unseen
					dl[k].pipe = r->pipe;
				} else if (r->ev == NNG_PIPE_EV_ADD_POST && p->cnt[2] == 1) {
					if (++dl[k].live > 1) {
						snprintf(key, sizeof(key), "C14/dialer-two-pipes/%s", tn);
						vf_violation(key, "%s %s: dialer %u (%s) got ADD_POST for pipe %u while its pipe %u had ADD_POST and no REM_POST yet", mode, fam, p->dialer, tn, r->pipe, dl[k].pipe);
					}
					dl[k].pipe = r->pipe;
				} else if (r->ev == NNG_PIPE_EV_REM_POST && p->cnt[3] == 1 && p->cnt[2] > 0 && p->idx[2] < i &&
				    p->idx[2] > dl[k].reset_idx) {
					dl[k].live--;
				}
			}
		}
	}

	// per dialer the windows [ADD_PRE, REM_POST] of its pipes (d_pipe is set
	// before ADD_PRE fires and the redial timer only starts when the pipe is
	// removed, after its REM_POST): collected here, judged below
	struct pwin { uint32_t d, pipe; int from, to; } *win = calloc((size_t) n + 1, sizeof(*win));
	int nwin = 0;
	if (win == NULL) vf_harness_fail("calloc");

	for (size_t h = 0; h < cap; h++) {
		pinfo *p = &tab[h];
		if (p->pipe == 0) continue;
		tsock      *ts  = ring_sock(p->sock);
		const char *epk = p->dialer ? "dialer" : "listener";
		const char *tn  = p->dialer ? ep_tran_name('d', p->dialer) : ep_tran_name('l', p->listener);
		const char *seq = p->cnt[1] && p->cnt[2] && p->cnt[3] ? "PRE,POST,REM"
		    : p->cnt[1] && p->cnt[2]                           ? "PRE,POST"
		    : p->cnt[1] && p->cnt[3]                           ? "PRE,REM"
		    : p->cnt[1]                                        ? "PRE"
		                                                       : "other";
		vf_stat("pipes", 1);
		if (!strcmp(tn, "udp")) vf_stat("pipes_udp", 1);
		if (!strcmp(tn, "ws")) vf_stat("pipes_ws", 1);
		if (!strcmp(tn, "sockfd")) vf_stat("pipes_sockfd", 1);
		if (!strcmp(seq, "PRE,POST,REM")) vf_stat("pipes_full", 1);
		if (!strcmp(seq, "PRE,REM")) vf_stat("pipes_pre_rem", 1);
		if (!strcmp(seq, "PRE")) {
			vf_stat("pipes_pre_only", 1);
			vf_class("note/pipe-with-ADD_PRE-only/%s/%s%s", epk, tn, regmark[p->sock] > p->idx[1] ? "/callbacks-removed-meanwhile" : "");
		}
		if (p->dialer != 0 && !p->bad && p->cnt[1] == 1 && p->cnt[3] == 1 && p->idx[1] < p->idx[3]) {
			win[nwin].d    = p->dialer;
			win[nwin].pipe = p->pipe;
			win[nwin].from = p->idx[1];
			win[nwin].to   = p->idx[3];
			nwin++;
		}
		if (p->closed == 1) vf_stat("rejected_in_pre", 1);
		if (p->closed == 2) vf_stat("closed_in_post", 1);
		vf_class("%s/%s/seq=%s/%s/%s/%s", mode, fam, seq, epk, tn,
		    p->closed == 1 ? "closed-in-PRE" : p->closed == 2 ? "closed-in-POST" : "cb-passive");

		if (p->cnt[2] > 0) {
			// reached ADD_POST: REM_POST no later than the return of close
			if (p->cnt[3] == 0 && regmark[p->sock] > p->idx[2]) {
				// the application had no REM_POST callback for a while
				// after this ADD_POST: nothing is owed for it
				vf_stat("rem_post_unobservable_callbacks_removed", 1);
			} else if (p->cnt[3] == 0) {
				snprintf(key, sizeof(key), "C14/close/REM_POST-missing/%s", epk);
				vf_violation(key, "%s %s: pipe %u (%s, %s) got ADD_POST (log %d) but no REM_POST although its socket was closed (close returned at log %d)", mode, fam, p->pipe, epk, tn, p->idx[2], ts->close_mark);
			} else if (ts->close_mark >= 0 && p->idx[3] >= ts->close_mark) {
				snprintf(key, sizeof(key), "C14/close/REM_POST-after-close-return/%s", epk);
				vf_violation(key, "%s %s: pipe %u (%s, %s) got REM_POST at log %d, after nng_socket_close of its socket had returned (log %d)", mode, fam, p->pipe, epk, tn, p->idx[3], ts->close_mark);
			} else {
				vf_stat("post_rem_before_close", 1);
			}
		}
		if (p->cnt[1] > 0 && ts->close_mark >= 0 && p->idx[1] >= ts->close_mark) {
			vf_stat("add_pre_after_close_return", 1);
			vf_class("note/ADD_PRE-after-close-return/%s/%s", epk, tn);
		}
		if (p->closed == 1) {
			if (carried_has(p->pipe)) {
				snprintf(key, sizeof(key), "C14/rejected-pipe-carried-message/%s/%s", fam, tn);
				vf_violation(key, "%s %s: pipe %u (%s, %s) was closed inside its ADD_PRE callback, yet a received message names it as its pipe", mode, fam, p->pipe, epk, tn);
			}
			if (p->cnt[2] > 0) {
				vf_stat("rejected_pipe_got_add_post", 1);
				vf_class("note/rejected-pipe-got-ADD_POST/%s/%s", epk, tn);
			}
		}
	}
	// at most one pipe per dialer, ADD_PRE..REM_POST windows: sort by
	// (dialer, from) and compare neighbours
	for (int i = 1; i < nwin; i++) {
		struct pwin w = win[i];
		int         j = i - 1;
		while (j >= 0 && (win[j].d > w.d || (win[j].d == w.d && win[j].from > w.from))) {
			win[j + 1] = win[j];
			j--;
		}
		win[j + 1] = w;
	}
	for (int i = 0, open = -1; i < nwin; i++) {
		// 'open': the earlier window of the same dialer that ends last
		vf_stat("dialer_pipe_windows", 1);
		if (i == 0 || win[i].d != win[i - 1].d) {
			open = i;
			continue;
		}
		vf_stat("dialer_pipe_window_pairs", 1);
		if (win[i].from < win[open].to) {
			const char *tn = ep_tran_name('d', win[i].d);
			snprintf(key, sizeof(key), "C14/dialer-two-pipes/pre-window/%s", tn);
			vf_violation(key, "%s %s: dialer %u (%s) got ADD_PRE for pipe %u (log %d) while its pipe %u had ADD_PRE (log %d) and no REM_POST yet (log %d)",
			    mode, fam, win[i].d, tn, win[i].pipe, win[i].from, win[open].pipe, win[open].from, win[open].to);
		}
		if (win[i].to > win[open].to) open = i;
	}
	free(win);
	vf_stat("carried_pipes", ncarried);
	free(tab);
}

// ------------------------------------------------------------------ endpoint statistics
// sum of an endpoint's failure counters (a failed accept / a failed dial
// increments exactly one of them), -1 when the endpoint is gone
static long
ep_stat_sum(bool dialer, nng_dialer d, nng_listener l, const char *const *names)
{
	nng_stat          *st = NULL;
	const nng_stat    *es;
	long               sum = -1;
	if (nng_stats_get(&st) != 0) return -1;
	es = dialer ? nng_stat_find_dialer(st, d) : nng_stat_find_listener(st, l);
	if (es != NULL) {
		sum = 0;
		for (const nng_stat *c = nng_stat_child(es); c != NULL; c = nng_stat_next(c)) {
			for (int i = 0; names[i] != NULL; i++) {
				if (!strcmp(nng_stat_name(c), names[i])) sum += (long) nng_stat_value(c);
			}
		}
	}
	nng_stats_free(st);
	return sum;
}

static long
ep_failures(bool dialer, nng_dialer d, nng_listener l)
{
	static const char *const names[] = { "refused", "disconnect", "other", "timeout", "proto", "auth", "oom", NULL };
	return ep_stat_sum(dialer, d, l, names);
}

// dials of a dialer that came to an end, one way or the other
static long
dialer_dials_done(nng_dialer d)
{
	static const char *const names[] = { "connect", "refused", "disconnect", "other", "timeout", "proto", "auth", "oom", "canceled", NULL };
	nng_listener             nol = NNG_LISTENER_INITIALIZER;
	return ep_stat_sum(true, d, nol, names);
}

// ------------------------------------------------------------------ load witness
static _Atomic uint64_t hb_maxgap_ns;

static void *
hb_thread(void *arg)
{
	(void) arg;
	uint64_t last = vf_now_ns();
	for (;;) {
		vf_usleep(1000);
		uint64_t now = vf_now_ns();
		uint64_t g   = now - last;
		last         = now;
		if (g > atomic_load(&hb_maxgap_ns)) atomic_store(&hb_maxgap_ns, g);
	}
	return NULL;
}

static void
hb_start(void)
{
	pthread_t      t;
	pthread_attr_t at;
	pthread_attr_init(&at);
	pthread_attr_setdetachstate(&at, PTHREAD_CREATE_DETACHED);
	pthread_create(&t, &at, hb_thread, NULL);
}

static void
hb_reset(void)
{
	atomic_store(&hb_maxgap_ns, 0);
}

static int
hb_maxgap_ms(void)
{
	return (int) (atomic_load(&hb_maxgap_ns) / 1000000ULL);
}

static void
delay_stat(uint64_t ns)
{
	uint64_t us = ns / 1000;
	vf_stat(us <= 1000 ? "redial_delay_le_1ms" : us <= 5000 ? "redial_delay_le_5ms"
	        : us <= 25000                                  ? "redial_delay_le_25ms"
	        : us <= 100000                                 ? "redial_delay_le_100ms"
	                                                       : "redial_delay_gt_100ms",
	    1);
	vf_stat_max("redial_delay_max_us", (long) us);
}

// library instance management: re-init every few cases (leak check + varying
// thread-pool shape)
static long cur_block = -1;
static void
ensure_init(long idx, int per_block)
{
	long b = idx / per_block;
	if (b == cur_block) return;
	if (cur_block >= 0) vf_nng_fini("C14");
	static const int shapes[4][3] = { { 2, 1, 1 }, { 4, 2, 2 }, { 8, 2, 4 }, { 3, 1, 2 } };
	int s = (int) (vf_mix64(vf_seed ^ (uint64_t) b * 7919) % 4);
	vf_nng_init(shapes[s][0], shapes[s][1], shapes[s][2]);
	cur_block = b;
}

static void
close_all_and_check(const char *mode, const char *fam)
{
	for (int i = 0; i < ncs; i++) sock_close(cs[i]);
	// let anything late (there should be nothing) reach the log
	vf_quiesce(2, 3000);
	vf_pt_off();
	check_log(mode, fam);
}

// ================================================================== events mode
static const struct {
	const char *name, *hub, *peer;
} fams[] = {
	{ "bus", "bus", "bus" },
	{ "pair0", "pair0", "pair0" },
	{ "pair1", "pair1", "pair1" },
	{ "pull-hub", "pull", "push" },
	{ "push-hub", "push", "pull" },
	{ "sub-hub", "sub", "pub" },
	{ "pub-hub", "pub", "sub" },
};
#define NFAMS ((int) (sizeof(fams) / sizeof(fams[0])))

static atomic_int stop_traffic;

static void *
traffic_thread(void *arg)
{
	(void) arg;
	while (!atomic_load(&stop_traffic)) {
		for (int i = 0; i < ncs; i++) {
			tsock *ts = cs[i];
			if (atomic_load(&ts->state) != 1) continue;
			if (ts->cansend) {
				nng_msg *m;
				if (nng_msg_alloc(&m, 40) != 0) vf_harness_fail("msg alloc");
				vf_body_make(nng_msg_body(m), 40, (uint32_t) i, ts->seq++);
				if (nng_sendmsg(ts->s, m, NNG_FLAG_NONBLOCK) != 0) {
					nng_msg_free(m);
				} else {
					vf_stat("msgs_sent", 1);
				}
			}
			if (ts->canrecv) {
				for (int k = 0; k < 8; k++) {
					nng_msg *m = NULL;
					if (nng_recvmsg(ts->s, &m, NNG_FLAG_NONBLOCK) != 0) break;
					carried_add((uint32_t) nng_pipe_id(nng_msg_get_pipe(m)));
					vf_stat("msgs_received", 1);
					nng_msg_free(m);
				}
			}
		}
		vf_usleep(150);
	}
	return NULL;
}

typedef struct {
	vf_rng r;
	int    nops;
	int    tid;
	int    np; // peers
} chaos_arg;

static uint32_t
pick_pipe(vf_rng *r, bool fresh)
{
	uint32_t pipe = 0;
	pthread_mutex_lock(&evmtx);
	if (evn > 0) {
		if (fresh) {
			// newest pipe with ADD_PRE and nothing after it yet
			for (int i = evn - 1; i >= 0 && i >= evn - 24 && pipe == 0; i--) {
				if (evlog[i].ev != NNG_PIPE_EV_ADD_PRE) continue;
				bool more = false;
				for (int j = i + 1; j < evn; j++) {
					if (evlog[j].pipe == evlog[i].pipe) more = true;
				}
				if (!more) pipe = evlog[i].pipe;
			}
		}
		if (pipe == 0) {
			int back = (int) vf_below(r, 32);
			int i    = evn - 1 - back;
			if (i < 0) i = (int) vf_below(r, (uint32_t) evn);
			pipe = evlog[i].pipe;
		}
	}
	pthread_mutex_unlock(&evmtx);
	return pipe;
}

static tep *
pick_ep(vf_rng *r, char kind)
{
	tep *e = NULL;
	pthread_mutex_lock(&epmtx);
	if (nep > 0) {
		int start = (int) vf_below(r, (uint32_t) nep);
		for (int k = 0; k < nep; k++) {
			tep *c = &eps[(start + k) % nep];
			if (atomic_load(&c->open) == 1 && (kind == 0 || c->kind == kind)) {
				e = c;
				break;
			}
		}
	}
	pthread_mutex_unlock(&epmtx);
	return e;
}

// socket:// in events mode: a socket pair whose ends are handed to the
// socket:// listeners of two different sockets of the case
static void
sfd_link(vf_rng *r)
{
	tep *a = NULL, *b = NULL;
	int  fds[2];
	pthread_mutex_lock(&epmtx);
	if (nep > 0) {
		int start = (int) vf_below(r, (uint32_t) nep);
		for (int k = 0; k < nep; k++) {
			tep *c = &eps[(start + k) % nep];
			if (c->kind != 'l' || c->tran != VF_T_SOCKFD || atomic_load(&c->open) != 1) continue;
			if (a == NULL) {
				a = c;
			} else if (c->sock != a->sock) {
				b = c;
				break;
			}
		}
	}
	pthread_mutex_unlock(&epmtx);
	if (a == NULL || b == NULL) return;
	if (socketpair(AF_UNIX, SOCK_STREAM | SOCK_CLOEXEC, 0, fds) != 0) return;
	if (nng_listener_set_int(a->l, NNG_OPT_SOCKET_FD, fds[0]) != 0) {
		close(fds[0]);
		close(fds[1]);
		vf_stat("sockfd_handover_refused", 1);
		return;
	}
	if (nng_listener_set_int(b->l, NNG_OPT_SOCKET_FD, fds[1]) != 0) {
		close(fds[1]); // the first listener sees its peer hang up
		vf_stat("sockfd_handover_refused", 1);
		return;
	}
	vf_stat("sockfd_links", 1);
}

static void *
chaos_thread(void *arg)
{
	chaos_arg *a = arg;
	vf_rng    *r = &a->r;
	for (int op = 0; op < a->nops; op++) {
		uint32_t w = vf_below(r, 100);
		if (w < 22) {
			uint32_t pid = pick_pipe(r, false);
			if (pid) {
				nng_pipe p = { pid };
				if (nng_pipe_close(p) == 0) vf_stat("op_pipe_close", 1);
			}
		} else if (w < 50) {
			// aim at the window between ADD_PRE and ADD_POST
			for (int spin = 0; spin < 40; spin++) {
				uint32_t pid = pick_pipe(r, true);
				if (pid) {
					nng_pipe p = { pid };
					if (nng_pipe_close(p) == 0) vf_stat("op_pipe_close_fresh", 1);
					break;
				}
				vf_usleep(50);
			}
		} else if (w < 60) {
			tep *e = pick_ep(r, 0);
			if (e && ep_close(e)) vf_stat(e->kind == 'd' ? "op_dialer_close" : "op_listener_close", 1);
		} else if (w < 76) {
			tep *e = pick_ep(r, 0);
			if (e && ep_close(e)) {
				tsock *ts = cs[e->sock];
				vf_stat(e->kind == 'd' ? "op_dialer_close" : "op_listener_close", 1);
				if (vf_chance(r, 1, 2)) vf_usleep((int) vf_below(r, 2000));
				if (atomic_load(&ts->state) == 1) {
					tep *n = e->kind == 'd' ? add_dialer(ts, e->tran, e->url, e->rmin, e->rmax, false)
					                        : add_listener_url(ts, e->tran, e->url);
					vf_stat(n ? "op_ep_recreated" : "op_ep_recreate_failed", 1);
				}
			}
		} else if (w < 82) {
			// peer loss: a whole peer socket goes away
			int j = 1 + (int) vf_below(r, (uint32_t) a->np);
			if (atomic_load(&cs[j]->state) == 1) {
				sock_close(cs[j]);
				vf_stat("op_peer_socket_close", 1);
			}
		} else if (w < 84) {
			if (atomic_load(&cs[0]->state) == 1) {
				sock_close(cs[0]);
				vf_stat("op_hub_socket_close_early", 1);
			}
		} else if (w < 88) {
			// re-register the same callbacks while pipes are live: the
			// per-pipe event history must not be disturbed by it
			tsock *ts = cs[vf_below(r, (uint32_t) (a->np + 1))];
			if (atomic_load(&ts->state) == 1) {
				sock_reregister(ts);
				vf_stat("op_callbacks_reregistered", 1);
			}
		} else if (w < 93) {
			// a socket that registered late also drops all its callbacks
			// for a moment while pipes come and go: pipes added meanwhile
			// must stay silent for ever, the others carry on
			int start = (int) vf_below(r, (uint32_t) (a->np + 1));
			for (int k = 0; k <= a->np; k++) {
				tsock *ts = cs[(start + k) % (a->np + 1)];
				if (ts->late && atomic_load(&ts->state) == 1) {
					sock_unregister_window(ts, (int) vf_range(r, 1000, 3000));
					vf_stat("op_callbacks_unregistered", 1);
					break;
				}
			}
		} else if (w < 96) {
			sfd_link(r);
		} else {
			vf_usleep((int) vf_below(r, 3000));
		}
		vf_usleep((int) vf_below(r, 1500));
	}
	return NULL;
}

typedef struct {
	int order[MAXSOCK];
	int n;
	int delay_us;
} closer_arg;

static void *
closer_thread(void *arg)
{
	closer_arg *c = arg;
	vf_usleep(c->delay_us);
	for (int i = 0; i < c->n; i++) sock_close(cs[c->order[i]]);
	return NULL;
}

static const int pt_sites[] = { NNI_VP_PIPE_CLOSE_FLAGGED, NNI_VP_PIPE_REAP_BEFORE_CLOSE,
	NNI_VP_PIPE_REAP_BEFORE_STOP, NNI_VP_PIPE_REMOVE, NNI_VP_PIPE_RUN_CB, NNI_VP_SOCK_SHUTDOWN_EPS,
	NNI_VP_SOCK_CLOSE_BEFORE_WAIT, NNI_VP_REAP_BEFORE_FUNC };
#define NPTSITES ((int) (sizeof(pt_sites) / sizeof(pt_sites[0])))

static const char *
perturb(vf_rng *r, uint64_t key)
{
	static char name[64];
	vf_pt_off();
	uint32_t w = vf_below(r, 8);
	if (w == 0) {
		return "none";
	}
	if (w == 1) {
		vf_pt_jitter(key, 30, 200);
		return "jitter";
	}
	int site = pt_sites[vf_below(r, NPTSITES)];
	int pm   = (int) vf_range(r, 200, site == NNI_VP_PIPE_RUN_CB ? 500 : 1000);
	int mx   = (int) vf_range(r, 500, site == NNI_VP_PIPE_RUN_CB ? 2500 : 5000);
	vf_pt_jitter(key, 8, 100);
	vf_pt_target(site, pm, 100, mx);
	snprintf(name, sizeof(name), "%s", vf_pt_name(site));
	return name;
}

// tcp connections that the connecting side closes first stay in TIME_WAIT
// for a minute and use up the machine's ephemeral ports: prefer ipc/inproc
static int
pick_tran(vf_rng *r)
{
	uint32_t w = vf_below(r, 14);
	return w < 2 ? VF_T_TCP : w < 3 ? VF_T_WS : w < 6 ? T_UDP : w < 10 ? VF_T_IPC : VF_T_INPROC;
}

static void
events_case(long idx)
{
	vf_rng   r;
	uint64_t key;
	vf_rng_seed(&r, vf_seed, (uint64_t) idx);
	key      = vf_rand(&r);
	int fam  = (int) vf_below(&r, NFAMS);
	int np   = (int) vf_range(&r, 1, 3);
	int nl   = (int) vf_range(&r, 1, 3);
	int nd   = (int) vf_range(&r, 1, 3);
	int nthr = (int) vf_range(&r, 2, 3);
	bool pairfam = fam == 1 || fam == 2;
	const char *pt;

	case_reset();
	pt = perturb(&r, key);
	vf_case_begin(idx, "events fam=%s peers=%d hub_listeners=%d hub_dialers=%d threads=%d perturb=%s key=%llx",
	    fams[fam].name, np, nl, nd, nthr, pt, (unsigned long long) key);

	// sockets first; two in three register their callbacks inside sock_open
	// before any endpoint exists, the others once pipes are up (below)
	int rej_pre  = vf_chance(&r, 2, 3) ? (int) vf_range(&r, 100, 500) : 0;
	int rej_post = vf_chance(&r, 1, 2) ? (int) vf_range(&r, 100, 400) : 0;
	int  hbud  = (int) vf_range(&r, 2, 12);
	bool hlate = vf_chance(&r, 1, 3);
	sock_open_ex(fams[fam].hub, key ^ 1, rej_pre, rej_post, hbud, hlate);
	for (int j = 0; j < np; j++) {
		int jpre  = vf_chance(&r, 1, 2) ? rej_pre : 0;
		int jpost = vf_chance(&r, 1, 3) ? rej_post : 0;
		int  jbud  = (int) vf_range(&r, 1, 8);
		bool jlate = vf_chance(&r, 1, 3);
		sock_open_ex(fams[fam].peer, key ^ (uint64_t) (j + 2), jpre, jpost, jbud, jlate);
	}
	// listeners
	tep *pl[3]  = { 0 };
	tep *hl[3]  = { 0 };
	for (int j = 0; j < np; j++) {
		pl[j] = add_listener(cs[1 + j], pick_tran(&r));
		if (pl[j] == NULL) vf_harness_fail("peer listener");
	}
	for (int i = 0; i < nl; i++) {
		hl[i] = add_listener(cs[0], pick_tran(&r));
		if (hl[i] == NULL) vf_harness_fail("hub listener");
	}
	// dialers (all background, all with explicit reconnect times)
	for (int i = 0; i < nd; i++) {
		tep *t  = pl[i % np];
		int  rc = (int) vf_below(&r, 4);
		if ((pairfam || t->tran == VF_T_TCP || t->tran == VF_T_WS) && rc == 0) rc = 1 + (int) vf_below(&r, 3);
		if (add_dialer(cs[0], t->tran, t->url, reconn[rc][0], reconn[rc][1], false) == NULL) vf_harness_fail("hub dialer");
	}
	for (int j = 0; j < np; j++) {
		int pd = (int) vf_below(&r, 3);
		if (j == 0 && pd == 0 && nl > 0) pd = 1;
		for (int k = 0; k < pd; k++) {
			tep *t  = hl[vf_below(&r, (uint32_t) nl)];
			int  rc = (int) vf_below(&r, 4);
			if ((pairfam || t->tran == VF_T_TCP || t->tran == VF_T_WS) && rc == 0) rc = 1 + (int) vf_below(&r, 3);
			if (add_dialer(cs[1 + j], t->tran, t->url, reconn[rc][0], reconn[rc][1], false) == NULL) vf_harness_fail("peer dialer");
		}
	}

	// one case in three: socket:// listeners on the hub and on 1..np peers,
	// linked by socket pairs now and by a chaos op later
	if (vf_chance(&r, 1, 3)) {
		int npl = (int) vf_range(&r, 1, (uint32_t) np);
		if (add_listener(cs[0], VF_T_SOCKFD) == NULL) vf_harness_fail("socket:// listener");
		for (int j = 0; j < npl; j++) {
			if (add_listener(cs[1 + j], VF_T_SOCKFD) == NULL) vf_harness_fail("socket:// listener");
		}
		int nlinks = (int) vf_range(&r, 1, 3);
		for (int k = 0; k < nlinks; k++) sfd_link(&r);
	}

	pthread_t  tt, ct[3], cl[2];
	chaos_arg  ca[3];
	closer_arg cla[2];
	atomic_store(&stop_traffic, 0);
	if (pthread_create(&tt, NULL, traffic_thread, NULL) != 0) vf_harness_fail("pthread_create");
	vf_msleep((int) vf_range(&r, 1, 8));
	for (int i = 0; i < ncs; i++) {
		if (cs[i]->late) sock_register_late(cs[i], (int) vf_range(&r, 1, 3), 40);
	}
	for (int t = 0; t < nthr; t++) {
		vf_rng_seed(&ca[t].r, key, (uint64_t) (100 + t));
		ca[t].nops = (int) vf_range(&r, 8, 24);
		ca[t].tid  = t;
		ca[t].np   = np;
		if (pthread_create(&ct[t], NULL, chaos_thread, &ca[t]) != 0) vf_harness_fail("pthread_create");
	}
	for (int t = 0; t < nthr; t++) pthread_join(ct[t], NULL);

	// final close of everything from two threads, seeded split and order
	memset(cla, 0, sizeof(cla));
	int perm[MAXSOCK];
	for (int i = 0; i < ncs; i++) perm[i] = i;
	for (int i = ncs - 1; i > 0; i--) {
		int j = (int) vf_below(&r, (uint32_t) (i + 1));
		int t = perm[i];
		perm[i] = perm[j];
		perm[j] = t;
	}
	for (int i = 0; i < ncs; i++) {
		closer_arg *c       = &cla[vf_below(&r, 2)];
		c->order[c->n++] = perm[i];
	}
	cla[0].delay_us = (int) vf_below(&r, 1500);
	cla[1].delay_us = (int) vf_below(&r, 1500);
	for (int t = 0; t < 2; t++) {
		if (pthread_create(&cl[t], NULL, closer_thread, &cla[t]) != 0) vf_harness_fail("pthread_create");
	}
	for (int t = 0; t < 2; t++) pthread_join(cl[t], NULL);
	atomic_store(&stop_traffic, 1);
	pthread_join(tt, NULL);

	close_all_and_check("events", fams[fam].name);
	vf_class("events/perturb=%s", pt);
	vf_stat("cases", 1);
	if ((idx & 15) == 0) {
		vf_sample("{\"mode\":\"events\",\"family\":\"%s\",\"peers\":%d,\"hub_listeners\":%d,\"hub_dialers\":%d,\"chaos_threads\":%d,\"perturb\":\"%s\",\"events_logged\":%d}",
		    fams[fam].name, np, nl, nd, nthr, pt, evn);
	}
}

// ================================================================== raw peers
typedef struct {
	int      tran; // VF_T_TCP or VF_T_IPC
	int      fd;   // bound (maybe listening) socket
	uint16_t port;
	char     path[100];
	bool     listening;
} rawl;

static int
raw_bind_fd(rawl *r)
{
	int fd, on = 1;
	if (r->tran == VF_T_TCP) {
		struct sockaddr_in sa;
		socklen_t          sl = sizeof(sa);
		fd = socket(AF_INET, SOCK_STREAM | SOCK_CLOEXEC, 0);
		if (fd < 0) return -1;
		setsockopt(fd, SOL_SOCKET, SO_REUSEADDR, &on, sizeof(on));
		// REUSEPORT lets a second, not-listening socket keep the port
		// reserved while "nothing listens"
		setsockopt(fd, SOL_SOCKET, SO_REUSEPORT, &on, sizeof(on));
		memset(&sa, 0, sizeof(sa));
		sa.sin_family      = AF_INET;
		sa.sin_addr.s_addr = htonl(INADDR_LOOPBACK);
		sa.sin_port        = htons(r->port);
		if (bind(fd, (struct sockaddr *) &sa, sizeof(sa)) != 0 ||
		    getsockname(fd, (struct sockaddr *) &sa, &sl) != 0) {
			close(fd);
			return -1;
		}
		r->port = ntohs(sa.sin_port);
	} else {
		struct sockaddr_un sa;
		fd = socket(AF_UNIX, SOCK_STREAM | SOCK_CLOEXEC, 0);
		if (fd < 0) return -1;
		memset(&sa, 0, sizeof(sa));
		sa.sun_family = AF_UNIX;
		snprintf(sa.sun_path, sizeof(sa.sun_path), "%s", r->path);
		unlink(r->path);
		if (bind(fd, (struct sockaddr *) &sa, sizeof(sa)) != 0) {
			close(fd);
			return -1;
		}
	}
	return fd;
}

static void
raw_open(rawl *r, int tran, bool listening)
{
	static atomic_int ctr;
	memset(r, 0, sizeof(*r));
	r->tran = tran;
	if (tran == VF_T_IPC) {
		snprintf(r->path, sizeof(r->path), "/tmp/vf-c14-%d-%d.sock", (int) getpid(), atomic_fetch_add(&ctr, 1));
	}
	for (int tries = 0; (r->fd = raw_bind_fd(r)) < 0; tries++) {
		if (tries >= 100) vf_harness_fail("raw bind: %s", strerror(errno));
		vf_stat("listen_retries", 1);
		vf_msleep(100);
	}
	if (listening) {
		if (listen(r->fd, 64) != 0) vf_harness_fail("listen: %s", strerror(errno));
		r->listening = true;
	}
}

static void
raw_listen(rawl *r)
{
	if (!r->listening) {
		if (listen(r->fd, 64) != 0) vf_harness_fail("listen: %s", strerror(errno));
		r->listening = true;
	}
}

// stop listening but keep the address reserved
static void
raw_unlisten(rawl *r)
{
	if (!r->listening) return;
	if (r->tran == VF_T_TCP) {
		int nfd = raw_bind_fd(r);
		if (nfd < 0) vf_harness_fail("raw rebind: %s", strerror(errno));
		close(r->fd);
		r->fd = nfd;
	} else {
		close(r->fd);
		if ((r->fd = raw_bind_fd(r)) < 0) vf_harness_fail("raw rebind: %s", strerror(errno));
	}
	r->listening = false;
}

static void
raw_close(rawl *r)
{
	close(r->fd);
	if (r->tran == VF_T_IPC) unlink(r->path);
}

static void
raw_url(const rawl *r, char *buf, size_t sz)
{
	if (r->tran == VF_T_TCP) {
		snprintf(buf, sz, "tcp://127.0.0.1:%u", r->port);
	} else {
		snprintf(buf, sz, "ipc://%s", r->path);
	}
}

static int
raw_accept(rawl *r, int timeout_ms)
{
	struct pollfd p = { r->fd, POLLIN, 0 };
	uint64_t      end = vf_now_ns() + (uint64_t) (timeout_ms < 0 ? 0 : timeout_ms) * 1000000ULL;
	for (;;) {
		int64_t left = ((int64_t) end - (int64_t) vf_now_ns()) / 1000000;
		if (left < 0) left = 0;
		int rv = poll(&p, 1, (int) left);
		if (rv < 0 && errno == EINTR) continue;
		if (rv <= 0) return -1;
		int fd = accept4(r->fd, NULL, NULL, SOCK_CLOEXEC | SOCK_NONBLOCK);
		if (fd >= 0) {
			int fl = fcntl(fd, F_GETFL);
			fcntl(fd, F_SETFL, fl & ~O_NONBLOCK);
			return fd;
		}
		if (errno != EAGAIN && errno != EINTR && errno != ECONNABORTED) return -1;
		if (vf_now_ns() > end) return -1;
	}
}

static void
fd_rst_close(int fd, bool rst)
{
	struct linger lg = { 1, 0 };
	if (!rst) {
		// orderly close as the peer sees it (FIN first), but no TIME_WAIT
		// entry on this side: those would use up the ephemeral ports
		shutdown(fd, SHUT_WR);
	}
	setsockopt(fd, SOL_SOCKET, SO_LINGER, &lg, sizeof(lg));
	close(fd);
}

static bool
fd_has_eof(int fd)
{
	struct pollfd p = { fd, POLLIN, 0 };
	if (poll(&p, 1, 0) <= 0) return false;
	if (p.revents & (POLLHUP | POLLERR)) return true;
	char    c;
	ssize_t n = recv(fd, &c, 1, MSG_PEEK | MSG_DONTWAIT);
	return n == 0 || (n < 0 && errno != EAGAIN && errno != EINTR);
}

static int
raw_connect_url(const char *url, int timeout_ms)
{
	if (!strncmp(url, "tcp://", 6)) {
		const char *c = strrchr(url, ':');
		return vf_tcp_connect((uint16_t) atoi(c + 1), timeout_ms);
	}
	return vf_unix_connect(url + 6, timeout_ms);
}

// socket:// has no address: the application makes a socket pair and hands one
// end to the listener, which "accepts" it from a queue of descriptors.  The
// listener owns that end from then on; the other one is the raw client.
static int
sfd_connect(tep *le)
{
	int fds[2];
	if (socketpair(AF_UNIX, SOCK_STREAM | SOCK_CLOEXEC, 0, fds) != 0) return -1;
	if (nng_listener_set_int(le->l, NNG_OPT_SOCKET_FD, fds[0]) != 0) {
		// closed, or 16 descriptors wait already
		close(fds[0]);
		close(fds[1]);
		vf_stat("sockfd_handover_refused", 1);
		return -1;
	}
	vf_stat("sockfd_handovers", 1);
	return fds[1];
}

// a raw client connection to a tcp / ipc / socket:// listener
static int
client_connect(tep *le, int timeout_ms)
{
	if (le->tran == VF_T_SOCKFD) return sfd_connect(le);
	return raw_connect_url(le->url, timeout_ms);
}

// A raw peer whose connection the application is about to reject inside
// ADD_PRE: it has done its hello; now it sends one tagged frame and reads
// until the socket closes the connection, while the application keeps
// sending.  The frame must never be received and nothing beyond the 8-byte
// hello may have been sent to it.  Returns the time EOF was seen.
#define REJ_TAG 0xC14Eu
static uint64_t rej_seq;

static uint64_t
reject_probe(tsock *ts, int fd, bool ipc, int logpos, const char *mode, const char *tran, int eof_ms)
{
	const vf_proto *pr = ts->proto;
	uint8_t         frame[48];
	size_t          hl = 0;
	uint64_t        seq = ++rej_seq;
	char            key[160];
	if (!strcmp(pr->name, "rep")) {
		frame[0] = 0x80; frame[1] = 0; frame[2] = 0; frame[3] = 1;
		hl = 4;
	} else if (!strcmp(pr->name, "pair1")) {
		frame[0] = 0; frame[1] = 0; frame[2] = 0; frame[3] = 1;
		hl = 4;
	}
	vf_body_make(frame + hl, 40, REJ_TAG, seq);
	vf_sp_send_frame(fd, ipc, frame, hl + 40);
	// the application keeps sending
	for (int i = 0; i < 3 && ts->cansend; i++) {
		nng_msg *m;
		if (nng_msg_alloc(&m, 40) != 0) vf_harness_fail("msg alloc");
		vf_body_make(nng_msg_body(m), 40, 1, ts->seq++);
		if (nng_sendmsg(ts->s, m, NNG_FLAG_NONBLOCK) != 0) nng_msg_free(m);
		vf_usleep(300);
	}
	// read until EOF, counting what the socket sent beyond its hello
	long     extra = 0;
	bool     eof   = false;
	uint64_t end   = vf_now_ns() + (uint64_t) eof_ms * 1000000ULL;
	while (!eof && vf_now_ns() < end) {
		struct pollfd p = { fd, POLLIN, 0 };
		uint8_t       buf[512];
		if (poll(&p, 1, 50) <= 0) continue;
		ssize_t n = read(fd, buf, sizeof(buf));
		if (n > 0) {
			extra += n;
		} else if (n == 0 || (errno != EAGAIN && errno != EINTR)) {
			eof = true;
		}
	}
	uint64_t t_eof = vf_now_ns();
	if (!eof) vf_stat("eof_wait_timeout", 1);
	// was it really (only) this connection that the callback rejected?
	int  npre = 0, nrej = 0;
	uint32_t rpipe = 0;
	vf_quiesce(1, 500);
	pthread_mutex_lock(&evmtx);
	for (int i = logpos; i < evn; i++) {
		if (evlog[i].sock == ts->ring && evlog[i].ev == NNG_PIPE_EV_ADD_PRE) {
			npre++;
			if (evlog[i].closed == 1) {
				nrej++;
				rpipe = evlog[i].pipe;
			}
		}
	}
	pthread_mutex_unlock(&evmtx);
	// anything the socket received meanwhile
	bool got = false;
	for (int i = 0; i < 20; i++) {
		nng_msg *m = NULL;
		if (nng_recvmsg(ts->s, &m, NNG_FLAG_NONBLOCK) != 0) {
			if (i >= 3) break;
			vf_usleep(500);
			continue;
		}
		uint32_t tag = 0;
		uint64_t sq  = 0;
		if (vf_body_check(nng_msg_body(m), nng_msg_len(m), &tag, &sq) == 0 && tag == REJ_TAG && sq == seq) got = true;
		nng_msg_free(m);
	}
	if (!eof || npre != 1 || nrej != 1) {
		vf_stat("reject_probes_unsure", 1);
		return t_eof;
	}
	vf_stat("reject_probes", 1);
	if (got) {
		snprintf(key, sizeof(key), "C14/rejected-pipe-carried-message/raw-received/%s/%s", pr->name, tran);
		vf_violation(key, "%s %s %s: pipe %u was closed inside its ADD_PRE callback, yet the frame its raw peer sent right after the hello was delivered to the application", mode, tran, pr->name, rpipe);
	}
	if (extra > 0) {
		snprintf(key, sizeof(key), "C14/rejected-pipe-carried-message/raw-sent/%s/%s", pr->name, tran);
		vf_violation(key, "%s %s %s: pipe %u was closed inside its ADD_PRE callback, yet its raw peer received %ld bytes beyond the 8-byte hello", mode, tran, pr->name, rpipe, extra);
	}
	return t_eof;
}

// ================================================================== redial mode
static const char *redial_protos[] = { "pair0", "pair1", "bus", "sub", "pull", "push", "req", "rep", "pub" };
#define NRPROTO ((int) (sizeof(redial_protos) / sizeof(redial_protos[0])))

enum {
	A_CLOSE0 = 0,
	A_RST0,
	A_READK,
	A_WRITEK,
	A_BADHELLO,
	A_WRONGPROTO,
	A_GOOD_PEERCLOSE,
	A_GOOD_PEERRST,
	A_GOOD_HOLD,
	A_GOOD_PIPECLOSE,
	A_REJECT_PRE,
	A_CLOSE_POST,
	A_UNLISTEN,
	A_N
};
static const char *actnames[A_N] = { "close-at-accept", "rst-at-accept", "read-k-close", "write-k-close",
	"bad-hello", "wrong-proto", "good-peer-close", "good-peer-rst", "good-hold-peer-close",
	"good-local-pipe-close", "reject-in-ADD_PRE", "close-in-ADD_POST", "nothing-listens" };

typedef struct {
	const char *tran;
	int         rmin, rmax, bound;
	const char *proto;
} redial_ctx;

// Late redials (after bound + 1 s, before bound + 5 s) of the current case.
static int      late_n, late_loaded;
static uint64_t late_worst_ms;
static char     late_cause[64];

static void
late_reset(void)
{
	late_n = late_loaded = 0;
	late_worst_ms = 0;
	late_cause[0] = 0;
}

static void
late_note(uint64_t ms, const char *cause, int hb_ms)
{
	vf_stat("redial_late", 1);
	if (hb_ms > 200) {
		late_loaded++;
		return;
	}
	late_n++;
	if (ms > late_worst_ms) {
		late_worst_ms = ms;
		snprintf(late_cause, sizeof(late_cause), "%s", cause);
	}
}

// three late redials in one case are not an accident of scheduling
static void
late_report(const redial_ctx *c)
{
	if (late_n >= 3) {
		char key[128];
		snprintf(key, sizeof(key), "C14/redial-late/%s", c->tran);
		vf_violation(key, "%s %s reconnect min/max %d/%d ms: %d connection attempts of this case came more than %d ms (bound + 1000 ms grace) after the loss, the worst %llu ms after %s; the harness timer thread never stalled 200 ms meanwhile",
		    c->tran, c->proto, c->rmin, c->rmax, late_n, c->bound + 1000, (unsigned long long) late_worst_ms, late_cause);
	}
}

// Can this machine connect to the raw listener at all right now?  (With the
// ephemeral ports exhausted connect() fails locally and the dialer's attempts
// never become visible.)
static bool
raw_reachable(rawl *l)
{
	int fd;
	if (l->tran != VF_T_TCP) return true;
	fd = socket(AF_INET, SOCK_STREAM | SOCK_CLOEXEC, 0);
	if (fd < 0) return false;
	struct sockaddr_in sa;
	memset(&sa, 0, sizeof(sa));
	sa.sin_family      = AF_INET;
	sa.sin_addr.s_addr = htonl(INADDR_LOOPBACK);
	sa.sin_port        = htons(l->port);
	int rv = connect(fd, (struct sockaddr *) &sa, sizeof(sa));
	fd_rst_close(fd, true);
	if (rv != 0) return false;
	// take our own connection off the accept queue again
	int q = raw_accept(l, 200);
	if (q >= 0) close(q);
	return true;
}

static bool localhost_is_loopback4; // "localhost" resolves, quickly, to 127.0.0.1 first
static bool warmup_case;        // first case of this process (thread pools, page faults, ...)
static long last_wait_delay_ms; // of the last successful wait_attempt
static int  last_wait_hb_ms;    // longest stall of the harness timer thread meanwhile

// Wait for the next connection attempt after the drop at t_drop.
static int
wait_attempt(rawl *l, uint64_t t_drop, const redial_ctx *c, const char *cause)
{
	char key[160];
	last_wait_delay_ms = -1;
	hb_reset();
	int64_t d1   = c->bound + 1000;
	int64_t used = (int64_t) ((vf_now_ns() - t_drop) / 1000000ULL);
	int     fd   = raw_accept(l, (int) (d1 - used > 0 ? d1 - used : 0));
	if (fd >= 0) {
		delay_stat(vf_now_ns() - t_drop);
		last_wait_delay_ms = (long) ((vf_now_ns() - t_drop) / 1000000ULL);
		last_wait_hb_ms    = hb_maxgap_ms();
		vf_stat("redials_observed", 1);
		vf_stat(l->tran == VF_T_TCP ? "redials_tcp" : "redials_ipc", 1);
		return fd;
	}
	// bounded-progress: look once more, much longer, before reporting
	fd = raw_accept(l, 4000);
	if (fd >= 0) {
		uint64_t ms = (vf_now_ns() - t_drop) / 1000000ULL;
		// one late attempt can be this machine's doing; lateness is judged
		// per case (see late_report)
		late_note(ms, cause, hb_maxgap_ms());
		return fd;
	}
	if (!raw_reachable(l)) {
		// not observable: the harness itself cannot connect either
		vf_stat("redial_unobservable_no_ports", 1);
		return -1;
	}
	snprintf(key, sizeof(key), "C14/redial-none/%s/%s", c->tran, cause);
	vf_violation(key, "%s %s reconnect min/max %d/%d ms: no connection attempt within %d ms after %s; the dialer is open and was started in the background",
	    c->tran, c->proto, c->rmin, c->rmax, c->bound + 5000, cause);
	return -1;
}

static uint64_t
wait_eof_drop(int fd)
{
	if (!vf_fd_wait_eof(fd, 5000)) vf_stat("eof_wait_timeout", 1);
	return vf_now_ns();
}

// upper limit (ms) of the randomised delay after the i-th (0-based) timer
// start since the back-off was reset: min, then doubled up to max (max 0: no
// back-off)
static long
backoff_limit(int rmin, int rmax, int i)
{
	long cur = rmin;
	for (int k = 0; k < i; k++) {
		if (rmax > 0) {
			cur *= 2;
			if (cur > rmax) cur = rmax;
		}
	}
	return cur;
}

// "a randomised delay": the delay is drawn from [0, limit).  Of the delays of
// one back-off run whose limit is at least 200 ms (a stall of the harness
// that would make a short delay look like a full one is then excluded by the
// 50 ms timer-thread witness) at least one must be clearly (5 %) below its
// limit; with six or more such delays a correct dialer fails this with
// probability < 2e-8.
static void
randomised_check(const redial_ctx *c, int nbig, int nbelow)
{
	if (nbig < 6) return;
	vf_stat("backoff_runs_randomisation_judged", 1);
	if (nbelow == 0) {
		char vk[128];
		snprintf(vk, sizeof(vk), "C14/redial-not-randomised/%s/reconn=%d-%d", c->tran, c->rmin, c->rmax);
		vf_violation(vk, "%s %s reconnect min/max %d/%d ms: all %d redial delays of one back-off run whose upper limit was 200 ms or more were at least 95 %% of that limit: the delay is not randomised",
		    c->tran, c->proto, c->rmin, c->rmax, nbig);
	}
}

typedef struct {
	nng_dialer d;
	int        rv;
} sync_start_arg;

static void *
sync_start_thread(void *arg)
{
	sync_start_arg *a = arg;
	a->rv             = nng_dialer_start(a->d, 0);
	return NULL;
}

static void
redial_raw_case(long idx, vf_rng *r, uint64_t key, int tran)
{
	rawl            l;
	char            url[128];
	int             rc     = (int) vf_below(r, 4);
	const char     *pname  = redial_protos[vf_below(r, NRPROTO)];
	bool            late   = vf_chance(r, 1, 3);
	bool            viasock = vf_chance(r, 1, 3);
	int             nat    = (int) vf_range(r, 6, 18);
	// back-off run: larger reconnect times, >= 10 consecutive failed dials,
	// one good connection (resets the back-off), three more failures; every
	// delay is judged against max(RECONNMINT, RECONNMAXT) + 200 ms
	// (max/min is deliberately not a power of two in most pairs: a doubling
	// that is not clamped then overshoots the maximum by almost a factor two)
	static const int bkpairs[5][2] = { { 49, 400 }, { 98, 400 }, { 390, 400 }, { 50, 400 }, { 100, 0 } };
	bool             bk = vf_chance(r, 1, 5);
	int              rmin = reconn[rc][0], rmax = reconn[rc][1];
	if (bk) {
		int b = (int) vf_below(r, 5);
		rmin  = bkpairs[b][0];
		rmax  = bkpairs[b][1];
		late  = false;
		nat   = 14;
	}
	// a dialer started synchronously must redial after a loss as well
	bool syncstart = !late && vf_chance(r, 1, 3);
	redial_ctx      c      = { tn(tran), rmin, rmax, reconn_bound(rmin, rmax), pname };
	const char *pt = "none";
	vf_pt_off();
	if (vf_chance(r, 1, 2)) {
		vf_pt_jitter(key, 15, 150);
		pt = "jitter";
	}
	vf_case_begin(idx, "redial tran=%s proto=%s reconn=%d/%d attempts=%d start=%s%s opts=%s perturb=%s%s key=%llx", c.tran, pname, c.rmin, c.rmax,
	    nat, late ? "nothing-listens" : "listening", syncstart ? "+sync" : "", viasock ? "socket" : "dialer", pt, bk ? " backoff-run" : "", (unsigned long long) key);

	late_reset();
	raw_open(&l, tran, !late);
	raw_url(&l, url, sizeof(url));
	if (tran == VF_T_TCP && localhost_is_loopback4 && vf_chance(r, 1, 2)) {
		// through the dialer's name resolution step instead of a literal
		snprintf(url, sizeof(url), "tcp://localhost:%u", l.port);
		vf_stat("redial_cases_by_name", 1);
		vf_class("redial/tcp/dial-by-name/%s", bk ? "backoff-run" : "ordinary");
	}
	tsock          *ts = sock_open(pname, key, 0, 0, 0);
	const vf_proto *pr = ts->proto;
	tep            *de = add_dialer_ex(ts, tran, url, c.rmin, c.rmax, viasock, !syncstart);
	if (de == NULL || atomic_load(&de->open) != 1) vf_harness_fail("dialer start");

	uint64_t    t_drop;
	const char *cause;
	int         since_reset = 0; // failed dials since the back-off was reset, -1 unknown
	int         bk_exceed = 0;
	long        bk_worst = 0;
	int         bk_worst_i = 0;
	int         bk_big = 0, bk_big_below = 0; // delays with a limit >= 200 ms / of those clearly below their limit
	if (syncstart) {
		// nng_dialer_start(d, 0) blocks until the first pipe is up: play the
		// well-behaved peer meanwhile, then lose that connection
		pthread_t     st;
		sync_start_arg sa = { de->d, -1 };
		if (pthread_create(&st, NULL, sync_start_thread, &sa) != 0) vf_harness_fail("pthread_create");
		int sfd = raw_accept(&l, 10000);
		if (sfd >= 0) vf_sp_handshake(sfd, pr->peer, NULL, 5000);
		pthread_join(st, NULL);
		if (sfd < 0 || sa.rv != 0) {
			vf_stat("sync_start_failed", 1);
			if (sfd >= 0) close(sfd);
			close_all_and_check("redial", pname);
			raw_close(&l);
			return;
		}
		log_wait(0, ts->ring, NNG_PIPE_EV_ADD_POST, de->id, 2000, NULL);
		vf_usleep((int) vf_below(r, 3000));
		fd_rst_close(sfd, false);
		t_drop = vf_now_ns();
		cause  = "sync-start-then-peer-close";
		since_reset = 1;
		vf_stat("sync_starts", 1);
	} else if (late) {
		vf_msleep((int) vf_range(r, 2, 30));
		raw_listen(&l);
		t_drop = vf_now_ns();
		cause  = "nothing-listened-at-start";
	} else {
		t_drop = vf_now_ns();
		cause  = "dialer-start";
	}
	int  fd    = -1;
	bool stuck = false;
	for (int a = 0; a < nat && !stuck; a++) {
		fd = wait_attempt(&l, t_drop, &c, cause);
		if (fd < 0) {
			stuck = true;
			break;
		}
		if (bk && !warmup_case && last_wait_delay_ms >= 0 && a > 0 && since_reset > 0) {
			// this wait followed failure number since_reset since the reset
			// the property's bound: the larger configured reconnect time
			long u = c.bound;
			if (last_wait_hb_ms < 50) {
				// (the smaller of this step's and the previous step's limit:
				// an off-by-one in the step count must not matter)
				long lim = since_reset >= 2 ? backoff_limit(c.rmin, c.rmax, since_reset - 2) : 0;
				vf_stat("backoff_delays_judged", 1);
				if (lim >= 200) {
					bk_big++;
					if (last_wait_delay_ms * 100 < lim * 95) bk_big_below++;
				}
				if (last_wait_delay_ms > u + 200) {
					bk_exceed++;
					if (last_wait_delay_ms - u > bk_worst) {
						bk_worst   = last_wait_delay_ms - u;
						bk_worst_i = since_reset - 1;
					}
				}
			} else {
				vf_stat("backoff_delays_skipped_load", 1);
			}
		}
		int act = (int) vf_below(r, A_N);
		if (bk) {
			static const int fails[] = { A_CLOSE0, A_CLOSE0, A_RST0, A_WRITEK, A_READK, A_BADHELLO };
			act = (a == 10) ? A_GOOD_PEERCLOSE : fails[vf_below(r, 6)];
		}
		if (act == A_RST0 && tran != VF_T_TCP) act = A_CLOSE0;
		if (act == A_GOOD_PEERRST && tran != VF_T_TCP) act = A_GOOD_PEERCLOSE;
		int     k = 0;
		uint8_t hello[8], rx[8];
		int     logpos = log_len();
		vf_sp_hello(hello, pr->peer);
		switch (act) {
		case A_CLOSE0:
		case A_RST0:
			fd_rst_close(fd, act == A_RST0);
			t_drop = vf_now_ns();
			break;
		case A_READK:
			k = (int) vf_range(r, 1, 8);
			vf_fd_read_full(fd, rx, (size_t) k, 2000);
			fd_rst_close(fd, false);
			t_drop = vf_now_ns();
			break;
		case A_WRITEK:
			k = (int) vf_range(r, 0, 7);
			if (vf_chance(r, 1, 2)) vf_fd_read_full(fd, rx, 8, 2000);
			if (k) vf_fd_write_all(fd, hello, (size_t) k, 2000);
			if (vf_chance(r, 1, 2)) vf_usleep((int) vf_below(r, 2000));
			fd_rst_close(fd, tran == VF_T_TCP && vf_chance(r, 1, 3));
			t_drop = vf_now_ns();
			break;
		case A_BADHELLO: {
			static const int pos[] = { 0, 1, 2, 3, 6, 7 };
			k = pos[vf_below(r, 6)];
			hello[k] ^= 0x41;
			vf_fd_write_all(fd, hello, 8, 2000);
			t_drop = wait_eof_drop(fd);
			close(fd);
			break;
		}
		case A_WRONGPROTO:
			vf_sp_hello(hello, (uint16_t) (pr->peer == 0x99 ? 0x98 : 0x99));
			vf_fd_write_all(fd, hello, 8, 2000);
			t_drop = wait_eof_drop(fd);
			close(fd);
			break;
		case A_REJECT_PRE:
		case A_CLOSE_POST:
			atomic_store(act == A_REJECT_PRE ? &ts->force_pre : &ts->force_post, 1);
			vf_sp_handshake(fd, pr->peer, NULL, 5000);
			if (act == A_REJECT_PRE) {
				t_drop = reject_probe(ts, fd, tran == VF_T_IPC, logpos, "redial", c.tran, 5000);
			} else {
				t_drop = wait_eof_drop(fd);
			}
			close(fd);
			atomic_store(&ts->force_pre, 0);
			atomic_store(&ts->force_post, 0);
			break;
		case A_GOOD_PEERCLOSE:
		case A_GOOD_PEERRST:
		case A_GOOD_HOLD:
			vf_sp_handshake(fd, pr->peer, NULL, 5000);
			if (act == A_GOOD_HOLD) {
				// the dialer has its connection: it must not make another
				vf_msleep(c.bound + 15);
				struct pollfd p = { l.fd, POLLIN, 0 };
				if (poll(&p, 1, 0) > 0 && !fd_has_eof(fd)) {
					char vk[128];
					snprintf(vk, sizeof(vk), "C14/dialer-two-pipes/raw-%s", c.tran);
					vf_violation(vk, "%s %s: a second connection from the dialer arrived while its first one was established and still open", c.tran, pname);
				}
				vf_stat("hold_checks", 1);
			} else {
				vf_usleep((int) vf_below(r, 3000));
			}
			fd_rst_close(fd, act == A_GOOD_PEERRST);
			t_drop = vf_now_ns();
			break;
		case A_GOOD_PIPECLOSE: {
			evrec er;
			vf_sp_handshake(fd, pr->peer, NULL, 5000);
			if (log_wait(logpos, ts->ring, NNG_PIPE_EV_ADD_POST, de->id, 5000, &er) >= 0) {
				nng_pipe p = { er.pipe };
				nng_pipe_close(p);
			} else {
				vf_stat("no_add_post_after_handshake", 1);
			}
			t_drop = wait_eof_drop(fd);
			close(fd);
			break;
		}
		case A_UNLISTEN:
			fd_rst_close(fd, false);
			raw_unlisten(&l);
			vf_msleep((int) vf_range(r, 3, 40));
			raw_listen(&l);
			t_drop = vf_now_ns();
			break;
		}
		cause = actnames[act];
		// where the dialer's back-off stands now
		switch (act) {
		case A_UNLISTEN:
			since_reset = -1; // unknown number of refused dials
			break;
		case A_WRONGPROTO:
		case A_GOOD_PEERCLOSE:
		case A_GOOD_PEERRST:
		case A_GOOD_HOLD:
		case A_GOOD_PIPECLOSE:
		case A_REJECT_PRE:
		case A_CLOSE_POST:
			since_reset = 1; // negotiated: reset, then one timer start
			break;
		default:
			if (since_reset >= 0) since_reset++;
			break;
		}
		vf_stat("drops_injected", 1);
		vf_class("redial/%s/%s/reconn=%d-%d", c.tran, cause, c.rmin, c.rmax);
		fd = -1;
	}

	if (bk) {
		vf_stat("backoff_runs", 1);
		vf_class("redial-backoff/%s/reconn=%d-%d", c.tran, c.rmin, c.rmax);
		if (bk_exceed >= 2) {
			char vk[128];
			snprintf(vk, sizeof(vk), "C14/redial-backoff/%s/reconn=%d-%d", c.tran, c.rmin, c.rmax);
			vf_violation(vk, "%s %s reconnect min/max %d/%d ms: %d redial delays of one run of consecutive failed dials exceeded the larger configured reconnect time by more than 200 ms (worst: %ld ms over it, after %d failures since the last established pipe) while the harness timer thread never stalled 50 ms",
			    c.tran, pname, c.rmin, c.rmax, bk_exceed, bk_worst, bk_worst_i);
		}
		randomised_check(&c, bk_big, bk_big_below);
	}
	// closing phase: no attempt after nng_dialer_close / nng_socket_close returned
	if (!stuck) {
		int         state = (int) vf_below(r, 3);
		bool        sockclose = vf_chance(r, 1, 3);
		const char *sn = state == 0 ? "established" : state == 1 ? "after-drop" : "nothing-listens";
		int         held = -1;
		if (state == 0) {
			held = wait_attempt(&l, t_drop, &c, cause);
			if (held >= 0) {
				int lp = log_len();
				vf_sp_handshake(held, pr->peer, NULL, 5000);
				log_wait(lp, ts->ring, NNG_PIPE_EV_ADD_POST, de->id, 2000, NULL);
			}
		} else if (state == 1) {
			vf_usleep((int) vf_below(r, (uint32_t) (c.bound * 1000 + 500)));
		} else {
			raw_unlisten(&l);
			vf_msleep((int) vf_range(r, 1, 10));
		}
		if (sockclose) {
			sock_close(ts);
		} else {
			ep_close(de);
		}
		if (state == 2) {
			raw_listen(&l);
		} else {
			// connections queued before the close returned
			int q;
			while ((q = raw_accept(&l, 0)) >= 0) {
				close(q);
				vf_stat("attempts_queued_before_close", 1);
			}
		}
		int late_fd = raw_accept(&l, 200);
		if (late_fd >= 0) {
			char vk[160];
			snprintf(vk, sizeof(vk), "C14/dial-after-close/%s/%s", sockclose ? "socket-close" : "dialer-close", sn);
			vf_violation(vk, "%s %s reconn %d/%d: a new connection attempt arrived after %s had returned (state at close: %s)", c.tran, pname, c.rmin, c.rmax,
			    sockclose ? "nng_socket_close" : "nng_dialer_close", sn);
			close(late_fd);
		}
		vf_stat("close_watches", 1);
		vf_class("redial-close/%s/%s/%s", c.tran, sockclose ? "socket-close" : "dialer-close", sn);
		if (held >= 0) close(held);
	}
	late_report(&c);
	close_all_and_check("redial", pname);
	raw_close(&l);
}

// Wait for a new ADD_PRE of dialer 'did' at log index >= from, after t_drop.
static int
wait_pre(int from, tsock *ts, uint32_t did, uint64_t t_drop, const redial_ctx *c, const char *cause, evrec *out)
{
	char key[160];
	hb_reset();
	int64_t d1   = c->bound + 1000;
	int64_t used = (int64_t) ((vf_now_ns() - t_drop) / 1000000ULL);
	int     i    = log_wait(from, ts->ring, NNG_PIPE_EV_ADD_PRE, did, (int) (d1 - used > 0 ? d1 - used : 0), out);
	if (i >= 0) {
		delay_stat(out->t > t_drop ? out->t - t_drop : 0);
		vf_stat("redials_observed", 1);
		vf_stat(!strcmp(c->tran, "udp") ? "redials_udp" : !strcmp(c->tran, "ws") ? "redials_ws" : "redials_inproc", 1);
		return i;
	}
	i = log_wait(from, ts->ring, NNG_PIPE_EV_ADD_PRE, did, 4000, out);
	if (i >= 0) {
		late_note((out->t - t_drop) / 1000000ULL, cause, hb_maxgap_ms());
		return i;
	}
	snprintf(key, sizeof(key), "C14/redial-none/%s/%s", c->tran, cause);
	vf_violation(key, "%s %s reconnect min/max %d/%d ms: the dialer made no new pipe within %d ms after %s although a listener is bound",
	    c->tran, c->proto, c->rmin, c->rmax, c->bound + 5000, cause);
	return -1;
}

// listen again on a fixed address (tcp-based ports can be busy for a moment)
static tep *
relisten(tsock *L, int tran, const char *url)
{
	for (int tries = 0; tries < 40; tries++) {
		tep *e = add_listener_url(L, tran, url);
		if (e != NULL) return e;
		vf_msleep(25);
	}
	return NULL;
}

static void
redial_nng_case(long idx, vf_rng *r, uint64_t key, int tran)
{
	static const char *ipr[] = { "pair0", "pair1", "bus", "pull", "sub", "req" };
	const char        *pname = ipr[vf_below(r, 6)];
	int                rc    = (int) vf_below(r, 4);
	int                rounds = (int) vf_range(r, 4, 10);
	redial_ctx         c = { tn(tran), reconn[rc][0], reconn[rc][1], reconn_bound(reconn[rc][0], reconn[rc][1]), pname };
	char               url[128];
	const char        *pt = "none";
	vf_pt_off();
	if (vf_chance(r, 1, 2)) {
		vf_pt_jitter(key, 15, 150);
		pt = "jitter";
	}
	vf_case_begin(idx, "redial tran=%s(nng listener) proto=%s reconn=%d/%d rounds=%d perturb=%s key=%llx", c.tran, pname, c.rmin, c.rmax, rounds, pt, (unsigned long long) key);
	late_reset();
	tsock *D = sock_open(pname, key, 0, 0, 0);
	tsock *L = sock_open(D->proto->peer_name, key ^ 5, 0, 0, 0);
	if (tran == VF_T_INPROC) {
		mk_url(tran, url, sizeof(url));
	} else {
		// learn a port: listen once, remember the dialable url, stop
		tep *t0 = add_listener(L, tran);
		if (t0 == NULL) vf_harness_fail("first listen");
		snprintf(url, sizeof(url), "%s", t0->url);
		ep_close(t0);
	}
	tep   *de = add_dialer(D, tran, url, c.rmin, c.rmax, vf_chance(r, 1, 3));
	if (de == NULL || atomic_load(&de->open) != 1) vf_harness_fail("dialer start");
	tep  *le    = NULL;
	bool  stuck = false;
	int   from  = 0;
	for (int round = 0; round < rounds && !stuck; round++) {
		evrec pre, er;
		int   i;
		if (le == NULL) {
			vf_msleep((int) vf_below(r, 16));
			if ((le = relisten(L, tran, url)) == NULL) {
				// the address is still busy: not this property's business
				vf_stat("relisten_failed", 1);
				break;
			}
			uint64_t t0 = vf_now_ns();
			if ((i = wait_pre(from, D, de->id, t0, &c, "nothing-listens", &pre)) < 0) {
				stuck = true;
				break;
			}
			vf_class("redial/%s/nothing-listens/reconn=%d-%d", c.tran, c.rmin, c.rmax);
			from = i + 1;
		} else {
			// the previous round left a fresh pipe: its ADD_PRE is the last one
			i = from - 1;
			pthread_mutex_lock(&evmtx);
			pre = evlog[i];
			pthread_mutex_unlock(&evmtx);
		}
		// wait until this pipe is up (or gone)
		uint32_t dp = pre.pipe;
		if (log_wait_pipe(i, dp, NNG_PIPE_EV_ADD_POST, 3000, NULL) < 0) {
			vf_stat("nng_pipe_not_started", 1);
		}
		int         kind = (int) vf_below(r, 5);
		const char *cause;
		switch (kind) {
		case 0: {
			uint32_t lp = log_live_pipe(L->ring);
			nng_pipe p  = { lp };
			cause       = "peer-pipe-close";
			if (lp) nng_pipe_close(p); else nng_pipe_close((nng_pipe){ dp });
			break;
		}
		case 1:
			cause = "local-pipe-close";
			nng_pipe_close((nng_pipe){ dp });
			break;
		case 2:
			cause = "reject-in-ADD_PRE";
			atomic_store(&D->force_pre, 1);
			nng_pipe_close((nng_pipe){ dp });
			break;
		case 3:
			cause = "close-in-ADD_POST";
			atomic_store(&D->force_post, 1);
			nng_pipe_close((nng_pipe){ dp });
			break;
		default:
			cause = "listener-close";
			ep_close(le);
			le = NULL;
			break;
		}
		// the loss as the dialer's socket sees it
		int ri = log_wait_pipe(i, dp, NNG_PIPE_EV_REM_POST, 1500, &er);
		if (ri < 0) {
			// (udp: the dialer learns of a closed listener only by keep-alive)
			char sk[64];
			snprintf(sk, sizeof(sk), "nng_loss_not_seen_%s", c.tran);
			vf_stat("nng_loss_not_seen", 1);
			vf_stat(sk, 1);
			vf_class("note/redial-round-not-judged/%s/%s", c.tran, cause);
			break;
		}
		vf_stat("drops_injected", 1);
		vf_stat("nng_rounds_judged", 1);
		if (le == NULL) {
			from = ri + 1;
			continue; // next round listens again
		}
		if ((i = wait_pre(ri + 1, D, de->id, er.t, &c, cause, &pre)) < 0) {
			stuck = true;
			break;
		}
		vf_class("redial/%s/%s/reconn=%d-%d", c.tran, cause, c.rmin, c.rmax);
		from = i + 1;
		if (kind == 2 || kind == 3) {
			// that pipe was closed by the callback: one more redial follows
			int r2 = log_wait_pipe(i, pre.pipe, NNG_PIPE_EV_REM_POST, 1500, &er);
			atomic_store(&D->force_pre, 0);
			atomic_store(&D->force_post, 0);
			if (r2 < 0) {
				vf_stat("nng_loss_not_seen", 1);
				break;
			}
			if ((i = wait_pre(r2 + 1, D, de->id, er.t, &c, kind == 2 ? "rejected-in-ADD_PRE" : "closed-in-ADD_POST", &pre)) < 0) {
				stuck = true;
				break;
			}
			from = i + 1;
		}
	}
	atomic_store(&D->force_pre, 0);
	atomic_store(&D->force_post, 0);
	if (!stuck) {
		if (le == NULL) le = relisten(L, tran, url);
		vf_usleep((int) vf_below(r, (uint32_t) (c.bound * 1000 + 500)));
		ep_close(de);
		int mark = log_len();
		vf_msleep(200);
		evrec er;
		if (log_find(mark, D->ring, NNG_PIPE_EV_ADD_PRE, de->id, &er) >= 0) {
			char vk[96];
			snprintf(vk, sizeof(vk), "C14/dial-after-close/dialer-close/%s", c.tran);
			vf_violation(vk, "%s %s reconn %d/%d: pipe %u of dialer %u got ADD_PRE after nng_dialer_close had returned", c.tran, pname, c.rmin, c.rmax, er.pipe, de->id);
		}
		vf_stat("close_watches", 1);
		vf_class("redial-close/%s/dialer-close", c.tran);
	}
	late_report(&c);
	close_all_and_check("redial", pname);
}

// Back-off run for dialers that a raw listener cannot watch (inproc, ws):
// nothing listens at the address, every background dial is refused at once,
// and the time between two consecutive failures (read from the dialer's own
// failure counters every millisecond) is the redial delay plus one refused
// connect.  Judged like the raw back-off runs: against the larger configured
// reconnect time + 200 ms, only while the harness timer thread never stalled
// 50 ms, reported when two delays of one run exceed it.  Then a listener
// appears and the dialer must connect.
static void
redial_backoff_stats_case(long idx, vf_rng *r, uint64_t key, int tran)
{
	static const int   bkpairs[5][2] = { { 49, 400 }, { 98, 400 }, { 390, 400 }, { 50, 400 }, { 100, 0 } };
	static const char *ipr[]         = { "pair0", "pair1", "bus", "pull", "sub", "req" };
	const char        *pname = ipr[vf_below(r, 6)];
	int                b     = (int) vf_below(r, 5);
	redial_ctx         c = { tn(tran), bkpairs[b][0], bkpairs[b][1], reconn_bound(bkpairs[b][0], bkpairs[b][1]), pname };
	char               url[128];
	int                nfail = 10;
	vf_pt_off();
	vf_case_begin(idx, "redial tran=%s(statistics) proto=%s reconn=%d/%d backoff-run key=%llx", c.tran, pname, c.rmin, c.rmax, (unsigned long long) key);
	late_reset();
	tsock *D = sock_open(pname, key, 0, 0, 0);
	tsock *L = sock_open(D->proto->peer_name, key ^ 5, 0, 0, 0);
	rawl rsv;
	memset(&rsv, 0, sizeof(rsv));
	rsv.fd = -1;
	if (tran == VF_T_INPROC) {
		mk_url(tran, url, sizeof(url));
	} else {
		// learn a port, then keep it reserved (bound, not listening: every
		// connect is refused) so that nobody else's listener turns up there
		tep *t0 = add_listener(L, tran);
		if (t0 == NULL) vf_harness_fail("first listen");
		snprintf(url, sizeof(url), "%s", t0->url);
		ep_close(t0);
		const char *colon = strrchr(url, ':');
		rsv.tran = VF_T_TCP;
		rsv.port = (uint16_t) atoi(colon + 1);
		if ((rsv.fd = raw_bind_fd(&rsv)) < 0) {
			vf_stat("backoff_port_not_reserved", 1);
			close_all_and_check("redial", pname);
			return;
		}
	}
	tep *de = add_dialer(D, tran, url, c.rmin, c.rmax, vf_chance(r, 1, 3));
	if (de == NULL || atomic_load(&de->open) != 1) vf_harness_fail("dialer start");
	long     seen = ep_failures(true, de->d, de->l);
	uint64_t t_last = vf_now_ns();
	int      got = 0, exceed = 0, judged = 0, big = 0, big_below = 0;
	long     worst = 0;
	bool     stuck = false;
	hb_reset();
	while (got < nfail && seen >= 0) {
		long cur = ep_failures(true, de->d, de->l);
		uint64_t now = vf_now_ns();
		if (cur > seen) {
			long ms = (long) ((now - t_last) / 1000000ULL);
			// (the first failure follows the start, not a delay; two
			// failures in one sample cannot be told apart)
			if (got > 0 && cur == seen + 1 && !warmup_case) {
				if (hb_maxgap_ms() < 50) {
					long lim = got >= 2 ? backoff_limit(c.rmin, c.rmax, got - 2) : 0;
					judged++;
					vf_stat("backoff_delays_judged", 1);
					vf_stat("backoff_delays_judged_by_statistics", 1);
					if (lim >= 200) {
						big++;
						if (ms * 100 < lim * 95) big_below++;
					}
					if (ms > c.bound + 200) {
						exceed++;
						if (ms - c.bound > worst) worst = ms - c.bound;
					}
				} else {
					vf_stat("backoff_delays_skipped_load", 1);
				}
			}
			got += (int) (cur - seen);
			seen   = cur;
			t_last = now;
			hb_reset();
			continue;
		}
		if (cur < 0) break;
		if (now > t_last + (uint64_t) (c.bound + 5000) * 1000000ULL) {
			stuck = true;
			break;
		}
		vf_usleep(1000);
	}
	if (rsv.fd >= 0) close(rsv.fd);
	vf_stat("backoff_runs", 1);
	vf_stat(tran == VF_T_WS ? "backoff_runs_ws" : "backoff_runs_inproc", 1);
	vf_class("redial-backoff/%s/reconn=%d-%d", c.tran, c.rmin, c.rmax);
	if (stuck) {
		char vk[128];
		snprintf(vk, sizeof(vk), "C14/redial-none/%s/refused-dial", c.tran);
		vf_violation(vk, "%s %s reconnect min/max %d/%d ms: after %d refused background dials the dialer's failure counters did not move for more than %d ms (nothing listens at %s); the dialer is open",
		    c.tran, pname, c.rmin, c.rmax, got, c.bound + 5000, url);
	} else if (exceed >= 2) {
		char vk[128];
		snprintf(vk, sizeof(vk), "C14/redial-backoff/%s/reconn=%d-%d", c.tran, c.rmin, c.rmax);
		vf_violation(vk, "%s %s reconnect min/max %d/%d ms: %d of %d redial delays of one run of consecutive refused dials exceeded the larger configured reconnect time by more than 200 ms (worst: %ld ms over it) while the harness timer thread never stalled 50 ms",
		    c.tran, pname, c.rmin, c.rmax, exceed, judged, worst);
	}
	if (!stuck) randomised_check(&c, big, big_below);
	if (!stuck) {
		// now somebody listens: the dialer must get its pipe
		tep *le = relisten(L, tran, url);
		if (le != NULL) {
			evrec pre;
			if (wait_pre(0, D, de->id, vf_now_ns(), &c, "nothing-listens", &pre) >= 0) {
				log_wait_pipe(0, pre.pipe, NNG_PIPE_EV_ADD_POST, 2000, NULL);
			}
		} else {
			vf_stat("relisten_failed", 1);
		}
	}
	late_report(&c);
	close_all_and_check("redial", pname);
}

// A name that does not resolve: every background dial fails in the dialer's
// resolution step (no connection is ever attempted, so there is nothing for a
// raw listener to see); the dialer must keep trying.  Observed through the
// dialer's own failure counters: three more failed dials within a deadline
// that is >= 10x what three of them nominally take (3 x (resolution + larger
// reconnect time) <= 3 x 70 ms).  No verdict when this machine's resolver is
// slow to say no (measured before and after with the same name).
#define NOHOST "no-such-host.invalid"

static int
resolve_ms(const char *host, bool *ok, bool *loop4)
{
	struct addrinfo hints, *res = NULL;
	memset(&hints, 0, sizeof(hints));
	hints.ai_family   = AF_UNSPEC;
	hints.ai_socktype = SOCK_STREAM;
	hints.ai_flags    = AI_ADDRCONFIG | AI_NUMERICSERV;
	uint64_t t0 = vf_now_ns();
	int      rv = getaddrinfo(host, "80", &hints, &res);
	int      ms = (int) ((vf_now_ns() - t0) / 1000000ULL);
	*ok         = rv == 0;
	if (loop4) {
		// the library takes the first AF_INET / AF_INET6 entry
		*loop4 = false;
		for (struct addrinfo *p = res; rv == 0 && p != NULL; p = p->ai_next) {
			if (p->ai_family == AF_INET) {
				*loop4 = ((struct sockaddr_in *) p->ai_addr)->sin_addr.s_addr == htonl(INADDR_LOOPBACK);
				break;
			}
			if (p->ai_family == AF_INET6) break;
		}
	}
	if (rv == 0) freeaddrinfo(res);
	return ms;
}

static void
redial_unresolvable_case(long idx, vf_rng *r, uint64_t key)
{
	static const char *schemes[] = { "tcp", "ws", "tcp4" };
	int         sc    = (int) vf_below(r, 3);
	int         rc    = (int) vf_below(r, 4);
	const char *pname = redial_protos[vf_below(r, NRPROTO)];
	bool        viasock = vf_chance(r, 1, 3);
	int         rmin = reconn[rc][0], rmax = reconn[rc][1];
	int         bound = reconn_bound(rmin, rmax);
	char        url[128];
	bool        ok1, ok2;
	snprintf(url, sizeof(url), "%s://" NOHOST ":%d%s", schemes[sc], 1 + (int) vf_below(r, 60000), sc == 1 ? "/x" : "");
	vf_pt_off();
	vf_case_begin(idx, "redial unresolvable url=%s proto=%s reconn=%d/%d opts=%s key=%llx", url, pname, rmin, rmax, viasock ? "socket" : "dialer", (unsigned long long) key);
	int ms1 = resolve_ms(NOHOST, &ok1, NULL);
	tsock *ts = sock_open(pname, key, 0, 0, 0);
	tep   *de = add_dialer_ex(ts, sc == 1 ? VF_T_WS : VF_T_TCP, url, rmin, rmax, viasock, true);
	if (de == NULL || atomic_load(&de->open) != 1) vf_harness_fail("dialer start (%s)", url);
	long     base = ep_failures(true, de->d, de->l), cur = base;
	uint64_t t0 = vf_now_ns(), end = t0 + 6000ULL * 1000000ULL;
	hb_reset();
	while (vf_now_ns() < end) {
		cur = ep_failures(true, de->d, de->l);
		if (cur < 0 || cur - base >= 3) break;
		vf_usleep(1000);
	}
	int took = (int) ((vf_now_ns() - t0) / 1000000ULL);
	int ms2  = resolve_ms(NOHOST, &ok2, NULL);
	if (ok1 || ok2 || ms1 > 50 || ms2 > 50 || base < 0 || cur < 0) {
		vf_stat("unresolvable_not_judged", 1);
	} else {
		vf_stat("unresolvable_cases", 1);
		vf_stat("unresolvable_failed_dials_seen", cur - base);
		vf_stat_max("unresolvable_three_dials_max_ms", took);
		vf_class("redial/%s/unresolvable-name/reconn=%d-%d", schemes[sc], rmin, rmax);
		if (cur - base < 3) {
			char vk[128];
			snprintf(vk, sizeof(vk), "C14/redial-none/%s/unresolvable-name", schemes[sc]);
			vf_violation(vk, "%s %s reconnect min/max %d/%d ms: a background dialer whose host name does not resolve made only %ld more failed dials within 6000 ms (three of them take about %d ms; this machine's resolver answered in %d / %d ms); the dialer is open",
			    url, pname, rmin, rmax, cur - base, 3 * (bound + 1), ms1, ms2);
		}
	}
	// and it must be closable while a resolution / back-off is pending
	vf_usleep((int) vf_below(r, 3000));
	if (vf_chance(r, 1, 2)) ep_close(de);
	close_all_and_check("redial", pname);
}

// A connect that hangs: a udp dialer whose peer (a bound datagram socket that
// never answers) lets every connection request time out after the dialer's
// NNG_OPT_UDP_CONN_EXPIRE (30-80 ms here).  Each failed dial completes with
// NNG_ETIMEDOUT; the dialer must keep trying.  Observed through the dialer's
// own failure counters: four more failed dials within a deadline >= 10x what
// they nominally take.  The pipe of the dial that timed out is still being
// torn down (delayed at the reaper's race point in two cases of three) while
// the next dial sets up its pipe for the same peer address.
static void
redial_udp_timeout_case(long idx, vf_rng *r, uint64_t key)
{
	static const char *ipr[] = { "pair0", "pair1", "bus", "pull", "sub", "req", "push", "pub" };
	const char        *pname = ipr[vf_below(r, 8)];
	int                rc    = (int) vf_below(r, 4);
	int                rmin = reconn[rc][0], rmax = reconn[rc][1];
	int                bound  = reconn_bound(rmin, rmax);
	int                expire = (int) vf_range(r, 30, 80);
	int                want   = (int) vf_range(r, 4, 7);
	const char        *pt     = "none";
	char               url[64];
	struct sockaddr_in sa;
	socklen_t          sl = sizeof(sa);
	int                ufd = socket(AF_INET, SOCK_DGRAM | SOCK_CLOEXEC, 0);
	memset(&sa, 0, sizeof(sa));
	sa.sin_family      = AF_INET;
	sa.sin_addr.s_addr = htonl(INADDR_LOOPBACK);
	if (ufd < 0 || bind(ufd, (struct sockaddr *) &sa, sizeof(sa)) != 0 || getsockname(ufd, (struct sockaddr *) &sa, &sl) != 0) {
		vf_harness_fail("udp bind: %s", strerror(errno));
	}
	snprintf(url, sizeof(url), "udp://127.0.0.1:%u", ntohs(sa.sin_port));
	vf_pt_off();
	if (vf_chance(r, 2, 3)) {
		vf_pt_jitter(key, 8, 100);
		vf_pt_target(NNI_VP_PIPE_REAP_BEFORE_CLOSE, 500, 2000, 30000);
		pt = "reap-delayed";
	}
	vf_case_begin(idx, "redial udp dial-timeout url=%s proto=%s reconn=%d/%d conn-expire=%d dials=%d perturb=%s key=%llx", url, pname, rmin, rmax, expire, want, pt, (unsigned long long) key);
	tsock *ts = sock_open(pname, key, 0, 0, 0);
	tep   *de = add_dialer_ex(ts, T_UDP, url, rmin, rmax, vf_chance(r, 1, 3), false);
	if (de == NULL) vf_harness_fail("dialer create (%s)", url);
	if (nng_dialer_set_ms(de->d, NNG_OPT_UDP_CONN_EXPIRE, expire) != 0 ||
	    nng_dialer_set_ms(de->d, NNG_OPT_UDP_CONN_RETRY, 10) != 0 || nng_dialer_start(de->d, NNG_FLAG_NONBLOCK) != 0) {
		vf_harness_fail("udp dialer options / start");
	}
	long     base = ep_failures(true, de->d, de->l), cur = base;
	int      nominal = want * (expire + bound);
	int      limit   = 10 * nominal + 5000;
	uint64_t t0 = vf_now_ns(), end = t0 + (uint64_t) limit * 1000000ULL;
	while (vf_now_ns() < end) {
		cur = ep_failures(true, de->d, de->l);
		if (cur < 0 || cur - base >= want) break;
		vf_usleep(1000);
	}
	int took = (int) ((vf_now_ns() - t0) / 1000000ULL);
	if (base < 0 || cur < 0) {
		vf_stat("dial_timeout_not_judged", 1);
	} else {
		vf_stat("dial_timeout_cases", 1);
		vf_stat("dial_timeout_failed_dials_seen", cur - base);
		vf_stat_max("dial_timeout_dials_max_ms", took);
		vf_class("redial/udp/dial-timeout/reconn=%d-%d/%s", rmin, rmax, pt);
		if (cur - base < want) {
			vf_violation("C14/redial-none/udp/dial-timeout", "%s %s reconnect min/max %d/%d ms, connection set-up expiring after %d ms: the background dialer made only %ld more failed dials within %d ms (%d of them take about %d ms); the dialer is open",
			    url, pname, rmin, rmax, expire, cur - base, limit, want, nominal);
		}
	}
	vf_usleep((int) vf_below(r, 3000));
	if (vf_chance(r, 1, 2)) ep_close(de);
	// let the endpoint's timer look at its pipes once more
	if (vf_chance(r, 1, 2)) vf_msleep(expire + 5);
	close_all_and_check("redial", pname);
	close(ufd);
}

// The listener goes away while connects are waiting on it.  A listener has no
// accept outstanding while its accept callback is inside the application's
// ADD_PRE / ADD_POST callback for another connection: an inproc dial made then
// is parked on the listener (ipc/tcp/ws: the kernel completes the connect and
// the dialer waits for the listener's hello).  The first client's callback on
// the listening socket dwells, 1-3 background dialers of the judged socket(s)
// dial meanwhile, the listener (or its socket) is closed - the dwell ends 5-40
// ms after the close was issued -, a fresh listener starts at the same address
// 0-30 ms later, and every judged dialer must get a pipe there within the
// usual deadline.  Whether the waiting state was reached is measured: a dial
// that had not come to an end when the close was issued and failed afterwards.
typedef struct {
	tsock *ts; // close this socket, or (NULL) ...
	tep   *le; // ... this listener
} wclose_arg;

static void *
wclose_thread(void *arg)
{
	wclose_arg *a = arg;
	if (a->ts != NULL) {
		sock_close(a->ts);
	} else {
		ep_close(a->le);
	}
	return NULL;
}

static void
redial_waiting_case(long idx, vf_rng *r, uint64_t key, int tran)
{
	static const char *lpr[] = { "bus", "pull", "sub", "rep", "pub", "push" };
	const char        *lname = lpr[vf_below(r, 6)];
	int                rc    = (int) vf_below(r, 4);
	int                nd    = (int) vf_range(r, 1, 3);
	bool               onesock = vf_chance(r, 1, 2); // all judged dialers on one socket
	bool               sockclose = vf_chance(r, 1, 3);
	int                dwell_ev = vf_chance(r, 1, 2) ? NNG_PIPE_EV_ADD_PRE : NNG_PIPE_EV_ADD_POST;
	redial_ctx         c = { tn(tran), reconn[rc][0], reconn[rc][1], reconn_bound(reconn[rc][0], reconn[rc][1]), lname };
	char               url[128], sk[80];
	const char        *pt = "none";
	const char        *cause = "listener-closed-while-connect-waiting";
	vf_pt_off();
	if (vf_chance(r, 1, 2)) {
		vf_pt_jitter(key, 15, 150);
		pt = "jitter";
	}
	vf_case_begin(idx, "redial tran=%s waiting-on-busy-listener listening=%s dialers=%d%s reconn=%d/%d dwell-in=%s close=%s perturb=%s key=%llx", c.tran, lname, nd,
	    onesock ? "(one socket)" : "", c.rmin, c.rmax, evname[dwell_ev], sockclose ? "socket" : "listener", pt, (unsigned long long) key);
	late_reset();
	tsock *L = sock_open(lname, key ^ 5, 0, 0, 0);
	c.proto  = L->proto->peer_name;
	tep *le  = add_listener(L, tran);
	if (le == NULL) vf_harness_fail("listener");
	snprintf(url, sizeof(url), "%s", le->url);
	L->dwell_ev = dwell_ev;
	atomic_store(&L->dwell_n, 1);
	// the first client keeps the listener busy
	tsock *C0 = sock_open(L->proto->peer_name, key ^ 6, 0, 0, 0);
	if (add_dialer(C0, tran, url, 5, 20, false) == NULL) vf_harness_fail("first dialer");
	uint64_t end = vf_now_ns() + 3000000000ULL;
	while (atomic_load(&L->dwelling) != 1 && vf_now_ns() < end) vf_usleep(200);
	if (atomic_load(&L->dwelling) != 1) {
		vf_stat("waiting_dwell_not_reached", 1);
		atomic_store(&L->dwell_release, 1);
		close_all_and_check("redial", lname);
		return;
	}
	// the judged dialers dial while the listener is busy
	tsock *D[3];
	tep   *de[3];
	for (int i = 0; i < nd; i++) {
		D[i]  = (i == 0 || !onesock) ? sock_open(L->proto->peer_name, key ^ (uint64_t) (10 + i), 0, 0, 0) : D[0];
		de[i] = add_dialer(D[i], tran, url, c.rmin, c.rmax, vf_chance(r, 1, 4));
		if (de[i] == NULL || atomic_load(&de[i]->open) != 1) vf_harness_fail("dialer start");
	}
	vf_usleep((int) vf_range(r, 500, 5000));
	// who is still waiting (no dial has come to an end, no pipe)?
	bool parked[3];
	long fail0[3];
	for (int i = 0; i < nd; i++) {
		fail0[i]  = ep_failures(true, de[i]->d, de[i]->l);
		parked[i] = atomic_load(&L->dwelling) == 1 && dialer_dials_done(de[i]->d) == 0 &&
		    log_find(0, D[i]->ring, NNG_PIPE_EV_ADD_PRE, de[i]->id, NULL) < 0;
		if (parked[i]) vf_stat("waiting_dials_parked_at_close", 1);
	}
	// close the listener (or its socket); the slow callback returns 5-40 ms later
	pthread_t  ct;
	wclose_arg ca = { sockclose ? L : NULL, le };
	if (pthread_create(&ct, NULL, wclose_thread, &ca) != 0) vf_harness_fail("pthread_create");
	vf_msleep((int) vf_range(r, 5, 40));
	for (int i = 0; i < nd; i++) {
		// (the close has told the waiting dials by now, or it never will)
		if (parked[i] && ep_failures(true, de[i]->d, de[i]->l) > fail0[i]) {
			vf_stat("waiting_dials_failed_by_close", 1);
			snprintf(sk, sizeof(sk), "waiting_dials_failed_by_close_%s", c.tran);
			vf_stat(sk, 1);
		}
	}
	atomic_store(&L->dwell_release, 1);
	pthread_join(ct, NULL);
	vf_msleep((int) vf_below(r, 31));
	// a fresh listener at the same address
	tsock *L2 = sockclose ? sock_open(lname, key ^ 7, 0, 0, 0) : L;
	int    from = log_len();
	tep   *le2 = relisten(L2, tran, url);
	if (le2 == NULL) {
		vf_stat("relisten_failed", 1);
		close_all_and_check("redial", lname);
		return;
	}
	uint64_t t0 = vf_now_ns();
	vf_stat("waiting_cases", 1);
	snprintf(sk, sizeof(sk), "waiting_cases_%s", c.tran);
	vf_stat(sk, 1);
	for (int i = 0; i < nd; i++) {
		evrec pre;
		vf_stat("waiting_dialers_judged", 1);
		if (wait_pre(from, D[i], de[i]->id, t0, &c, cause, &pre) < 0) break;
	}
	vf_class("redial/%s/%s/%s/%s-close/reconn=%d-%d", c.tran, cause, evname[dwell_ev], sockclose ? "socket" : "listener", c.rmin, c.rmax);
	late_report(&c);
	close_all_and_check("redial", lname);
}

static void
redial_case(long idx)
{
	vf_rng   r;
	uint64_t key;
	vf_rng_seed(&r, vf_seed, (uint64_t) idx);
	key = vf_rand(&r);
	case_reset();
	uint32_t w = vf_below(&r, 14);
	if (w == 13) {
		uint32_t t = vf_below(&r, 10);
		redial_waiting_case(idx, &r, key, t < 6 ? VF_T_INPROC : t < 8 ? VF_T_IPC : t < 9 ? VF_T_TCP : VF_T_WS);
	} else if (w == 12) {
		redial_udp_timeout_case(idx, &r, key);
	} else if (w == 11) {
		redial_backoff_stats_case(idx, &r, key, vf_chance(&r, 1, 2) ? VF_T_WS : VF_T_INPROC);
	} else if (w == 10) {
		redial_unresolvable_case(idx, &r, key);
	} else if (w < 3) {
		redial_raw_case(idx, &r, key, VF_T_TCP);
	} else if (w < 7) {
		redial_raw_case(idx, &r, key, VF_T_IPC);
	} else if (w < 9) {
		redial_nng_case(idx, &r, key, vf_chance(&r, 1, 2) ? T_UDP : VF_T_WS);
	} else {
		redial_nng_case(idx, &r, key, VF_T_INPROC);
	}
	vf_stat("cases", 1);
	if ((idx & 15) == 0) {
		vf_sample("{\"mode\":\"redial\",\"case\":\"%ld\",\"events_logged\":%d}", idx, evn);
	}
}

// ================================================================== listen mode
enum {
	F_CONNECT_CLOSE = 0,
	F_CONNECT_RST,
	F_WRITEK,
	F_READK,
	F_BADHELLO,
	F_WRONGPROTO,
	F_GOOD_CLOSE,
	F_GOOD_RST,
	F_PARTIAL_FRAME,
	F_BURST,
	F_NOREJECT_N, // kinds below need exclusive use of the callback switches
	F_REJECT_PRE = F_NOREJECT_N,
	F_CLOSE_POST,
	F_PIPECLOSE,
	F_N
};
static const char *failnames[F_N] = { "connect-close", "connect-rst", "write-k-close", "read-k-close", "bad-hello",
	"wrong-proto", "good-hello-close", "good-hello-rst", "partial-frame", "burst", "reject-in-ADD_PRE",
	"close-in-ADD_POST", "local-pipe-close" };

#define PROBE_TAG 0xC14u

// one misbehaving client; label receives "kind" or "kind@offset"
static void
do_failure(tsock *ts, tep *le, int kind, vf_rng *r, char *label, size_t lsz)
{
	const vf_proto *pr  = ts->proto;
	bool            tcp = le->tran == VF_T_TCP;
	bool            ipcframe = le->tran == VF_T_IPC;
	uint8_t         hello[8], rx[8];
	int             k = -1;
	if (le->tran == VF_T_SOCKFD && kind == F_CONNECT_RST) {
		// a descriptor that is none: the listener must get over it
		int rv = nng_listener_set_int(le->l, NNG_OPT_SOCKET_FD, 0x3ffffff0);
		snprintf(label, lsz, "bad-fd");
		vf_stat("failures_injected", 1);
		vf_class("listen/%s/%s/%s", tn(le->tran), label, rv == 0 ? "taken" : "refused");
		return;
	}
	if (!tcp && kind == F_CONNECT_RST) kind = F_CONNECT_CLOSE;
	if (!tcp && kind == F_GOOD_RST) kind = F_GOOD_CLOSE;
	snprintf(label, lsz, "%s", failnames[kind]);
	if (kind == F_BURST) {
		int fds[12], n = (int) vf_range(r, 3, 12);
		for (int i = 0; i < n; i++) {
			fds[i] = client_connect(le, 2000);
			if (fds[i] >= 0 && vf_chance(r, 1, 2)) {
				vf_sp_hello(hello, pr->peer);
				vf_fd_write_all(fds[i], hello, vf_below(r, 9), 1000);
			}
		}
		if (vf_chance(r, 1, 2)) vf_usleep((int) vf_below(r, 3000));
		for (int i = 0; i < n; i++) {
			if (fds[i] >= 0) fd_rst_close(fds[i], tcp && vf_chance(r, 1, 2));
		}
		vf_stat("failures_injected", n);
		vf_class("listen/%s/%s", tn(le->tran), label);
		return;
	}
	if (kind >= F_NOREJECT_N) {
		// pipes of earlier clients must not consume the callback switch:
		// they may sit negotiated in the transport while the listener
		// cools down (100 ms) after a failed accept
		vf_msleep(110);
		vf_quiesce(1, 1000);
	}
	int logpos = log_len();
	int fd     = client_connect(le, 2000);
	if (fd < 0) {
		vf_stat("failure_connect_failed", 1);
		return;
	}
	vf_sp_hello(hello, pr->peer);
	switch (kind) {
	case F_CONNECT_CLOSE:
	case F_CONNECT_RST:
		if (vf_chance(r, 1, 2)) vf_usleep((int) vf_below(r, 1500));
		fd_rst_close(fd, kind == F_CONNECT_RST);
		break;
	case F_WRITEK:
		k = (int) vf_range(r, 1, 7);
		vf_fd_write_all(fd, hello, (size_t) k, 1000);
		if (vf_chance(r, 1, 2)) vf_usleep((int) vf_below(r, 1500));
		fd_rst_close(fd, tcp && vf_chance(r, 1, 3));
		break;
	case F_READK:
		k = (int) vf_range(r, 1, 8);
		vf_fd_read_full(fd, rx, (size_t) k, 2000);
		fd_rst_close(fd, false);
		break;
	case F_BADHELLO: {
		static const int pos[] = { 0, 1, 2, 3, 6, 7 };
		k = pos[vf_below(r, 6)];
		hello[k] ^= 0x5a;
		vf_fd_write_all(fd, hello, 8, 1000);
		vf_fd_wait_eof(fd, 2000);
		close(fd);
		break;
	}
	case F_WRONGPROTO:
		vf_sp_hello(hello, 0x99);
		vf_fd_write_all(fd, hello, 8, 1000);
		vf_fd_wait_eof(fd, 2000);
		close(fd);
		break;
	case F_GOOD_CLOSE:
	case F_GOOD_RST:
		vf_sp_handshake(fd, pr->peer, NULL, 3000);
		if (vf_chance(r, 1, 2)) vf_usleep((int) vf_below(r, 2000));
		fd_rst_close(fd, kind == F_GOOD_RST);
		break;
	case F_PARTIAL_FRAME: {
		uint8_t hdr[9] = { 1, 0, 0, 0, 0, 0, 0, 0, 40 };
		vf_sp_handshake(fd, pr->peer, NULL, 3000);
		k = (int) vf_range(r, 1, 8);
		vf_fd_write_all(fd, ipcframe ? hdr : hdr + 1, (size_t) k, 1000);
		fd_rst_close(fd, false);
		break;
	}
	case F_REJECT_PRE:
	case F_CLOSE_POST:
		atomic_store(kind == F_REJECT_PRE ? &ts->force_pre : &ts->force_post, 1);
		vf_sp_handshake(fd, pr->peer, NULL, 3000);
		if (kind == F_REJECT_PRE) {
			reject_probe(ts, fd, ipcframe, logpos, "listen", tn(le->tran), 2000);
		} else if (!vf_fd_wait_eof(fd, 2000)) {
			vf_stat("eof_wait_timeout", 1);
		}
		close(fd);
		atomic_store(&ts->force_pre, 0);
		atomic_store(&ts->force_post, 0);
		break;
	case F_PIPECLOSE: {
		evrec er;
		vf_sp_handshake(fd, pr->peer, NULL, 3000);
		if (log_wait(logpos, ts->ring, NNG_PIPE_EV_ADD_POST, 0, 3000, &er) >= 0) {
			nng_pipe_close((nng_pipe){ er.pipe });
			if (!vf_fd_wait_eof(fd, 2000)) vf_stat("eof_wait_timeout", 1);
		}
		close(fd);
		break;
	}
	}
	if (k >= 0) snprintf(label, lsz, "%s@%d", failnames[kind], k);
	vf_stat("failures_injected", 1);
	vf_class("listen/%s/%s", tn(le->tran), label);
}

// The accept itself fails: with the process out of file descriptors accept4()
// returns EMFILE, the listener's accept aio completes with an error, the
// listener cools down on its timer and must arm the accept again.  Three
// connections are made while no descriptor is free and held 230 ms (longer
// than the 100 ms cool-down, so that the timer path re-arms into the error at
// least once); accept_errors_forced is read back from the listener's own
// error counters, so the floor proves that the path ran.
static void
do_accept_emfile(tep *le, vf_rng *r, char *label, size_t lsz)
{
	int           fds[3], nfd = 0;
	struct rlimit old, low;
	union {
		struct sockaddr    sa;
		struct sockaddr_in in;
		struct sockaddr_un un;
	} a;
	socklen_t alen;
	bool      tcp = le->tran == VF_T_TCP;
	snprintf(label, lsz, "accept-emfile");
	memset(&a, 0, sizeof(a));
	if (tcp) {
		a.in.sin_family      = AF_INET;
		a.in.sin_addr.s_addr = htonl(INADDR_LOOPBACK);
		a.in.sin_port        = htons((uint16_t) atoi(strrchr(le->url, ':') + 1));
		alen                 = sizeof(a.in);
	} else {
		a.un.sun_family = AF_UNIX;
		snprintf(a.un.sun_path, sizeof(a.un.sun_path), "%s", le->url + 6);
		alen = sizeof(a.un);
	}
	// earlier connections should be gone (their descriptors closed) first
	vf_quiesce(2, 1000);
	for (int i = 0; i < 3; i++) {
		int fd = socket(tcp ? AF_INET : AF_UNIX, SOCK_STREAM | SOCK_CLOEXEC, 0);
		if (fd >= 0) fds[nfd++] = fd;
	}
	if (nfd == 0 || getrlimit(RLIMIT_NOFILE, &old) != 0) {
		for (int i = 0; i < nfd; i++) close(fds[i]);
		return;
	}
	long before = ep_failures(false, le->d, le->l);
	int  lowest = fcntl(fds[0], F_DUPFD_CLOEXEC, 0); // the lowest free descriptor
	if (lowest < 0) {
		for (int i = 0; i < nfd; i++) close(fds[i]);
		return;
	}
	close(lowest);
	low          = old;
	low.rlim_cur = (rlim_t) lowest;
	if (setrlimit(RLIMIT_NOFILE, &low) != 0) {
		for (int i = 0; i < nfd; i++) close(fds[i]);
		vf_stat("emfile_setrlimit_failed", 1);
		return;
	}
	// ---- no descriptor can be allocated in this process from here ...
	int nconn = 0;
	for (int i = 0; i < nfd; i++) {
		if (connect(fds[i], &a.sa, alen) == 0) nconn++;
	}
	struct timespec ts = { 0, 230 * 1000000L };
	while (nanosleep(&ts, &ts) != 0 && errno == EINTR) {
	}
	setrlimit(RLIMIT_NOFILE, &old);
	// ---- ... to here
	long after = ep_failures(false, le->d, le->l);
	if (before >= 0 && after > before) {
		vf_stat("accept_errors_forced", after - before);
		vf_stat("accept_emfile_stages_effective", 1);
	}
	vf_stat("accept_emfile_stages", 1);
	vf_stat("failures_injected", nconn);
	// the held connections are accepted now (or not); they leave in
	// different ways
	for (int i = 0; i < nfd; i++) {
		uint8_t hello[8];
		vf_sp_hello(hello, 0x10);
		if (vf_chance(r, 1, 2)) vf_fd_write_all(fds[i], hello, vf_below(r, 9), 500);
		fd_rst_close(fds[i], tcp && vf_chance(r, 1, 3));
	}
	vf_class("listen/%s/%s", tn(le->tran), label);
}

// misbehaving clients for a ws or udp listener (no SP hello there: the
// handshake is HTTP resp. CREQ/CACK datagrams)
static void
do_failure_x(tep *xl, vf_rng *r, char *label, size_t lsz)
{
	const char *c    = strrchr(xl->url, ':');
	uint16_t    port = (uint16_t) atoi(c + 1);
	uint8_t     buf[96];
	if (xl->tran == T_UDP) {
		int                fd = socket(AF_INET, SOCK_DGRAM | SOCK_CLOEXEC, 0);
		struct sockaddr_in sa;
		int                n = (int) vf_range(r, 1, 6);
		if (fd < 0) return;
		memset(&sa, 0, sizeof(sa));
		sa.sin_family      = AF_INET;
		sa.sin_addr.s_addr = htonl(INADDR_LOOPBACK);
		sa.sin_port        = htons(port);
		for (int i = 0; i < n; i++) {
			size_t len = vf_below(r, sizeof(buf) + 1);
			vf_fill(buf, sizeof(buf), vf_rand(r));
			if (vf_chance(r, 2, 3)) {
				buf[0] = 1;                        // version
				buf[1] = (uint8_t) vf_below(r, 8); // some op code
			}
			if (sendto(fd, buf, len, 0, (struct sockaddr *) &sa, sizeof(sa)) < 0) {
			}
		}
		close(fd);
		snprintf(label, lsz, "garbage-datagrams");
		vf_stat("failures_injected", n);
	} else {
		static const char *reqs[] = { "", "GET", "GET /vf0 HTTP/1.1\r\n", "GET /vf0 HTTP/1.1\r\nHost: x\r\nUpgrade: websocket\r\n",
			"GET /nowhere HTTP/1.1\r\nHost: x\r\n\r\n", "POST / HTTP/1.1\r\nContent-Length: 99999\r\n\r\nabc", "\x00SP\x00\x00\x10\x00\x00" };
		int         k  = (int) vf_below(r, 7);
		int         fd = vf_tcp_connect(port, 2000);
		if (fd < 0) {
			vf_stat("failure_connect_failed", 1);
			return;
		}
		size_t len = k == 6 ? 8 : strlen(reqs[k]);
		if (len) vf_fd_write_all(fd, reqs[k], len, 1000);
		if (vf_chance(r, 1, 2)) vf_usleep((int) vf_below(r, 2000));
		fd_rst_close(fd, vf_chance(r, 1, 3));
		snprintf(label, lsz, "http-abort@%d", k);
		vf_stat("failures_injected", 1);
	}
	vf_class("listen/%s/%s", tn(xl->tran), label);
}

typedef struct {
	tsock     *ts;
	tep      **les;
	int        nl;
	vf_rng     r;
	atomic_int stop;
} failthr_arg;

static void *
fail_thread(void *arg)
{
	failthr_arg *a = arg;
	char         lab[64];
	while (!atomic_load(&a->stop)) {
		do_failure(a->ts, a->les[vf_below(&a->r, (uint32_t) a->nl)], (int) vf_below(&a->r, F_NOREJECT_N), &a->r, lab, sizeof(lab));
		vf_stat("failures_concurrent_with_probe", 1);
		vf_usleep((int) vf_below(&a->r, 3000));
	}
	return NULL;
}

// poll the listening socket for the probe message
static bool
recv_probe(tsock *ts, uint64_t seqno, int timeout_ms)
{
	uint64_t end = vf_now_ns() + (uint64_t) timeout_ms * 1000000ULL;
	for (;;) {
		nng_msg *m = NULL;
		int      rv = nng_recvmsg(ts->s, &m, NNG_FLAG_NONBLOCK);
		if (rv == 0) {
			uint32_t tag = 0;
			uint64_t seq = 0;
			bool     hit = vf_body_check(nng_msg_body(m), nng_msg_len(m), &tag, &seq) == 0 && tag == PROBE_TAG && seq == seqno;
			nng_msg_free(m);
			if (hit) return true;
			continue;
		}
		if (vf_now_ns() > end) return false;
		vf_usleep(500);
	}
}

// the probe connection to a socket:// listener, kept across the two attempts
static struct {
	int      fd;
	uint32_t lid;
	int      nrx;
	uint8_t  rx[8];
} sfd_probe = { -1, 0, 0, { 0 } };
static bool sfd_probe_taken; // the listener took the probe's descriptor (this round)

static void
sfd_probe_forget(void)
{
	if (sfd_probe.fd >= 0) close(sfd_probe.fd);
	sfd_probe.fd = -1;
}

// returns the descriptor once the listener's hello has arrived in full
static int
sfd_probe_conn(tep *le, const vf_proto *pr, int timeout_ms)
{
	if (sfd_probe.fd >= 0 && sfd_probe.lid != le->id) sfd_probe_forget();
	uint64_t end = vf_now_ns() + (uint64_t) timeout_ms * 1000000ULL;
	if (sfd_probe.fd < 0) {
		uint8_t hello[8];
		// (a listener that is cooling down after a failed accept while
		// others hand over descriptors may have its 16 places taken)
		while ((sfd_probe.fd = sfd_connect(le)) < 0) {
			if (vf_now_ns() > end) return -1;
			vf_msleep(10);
		}
		sfd_probe_taken = true;
		sfd_probe.lid = le->id;
		sfd_probe.nrx = 0;
		vf_sp_hello(hello, pr->peer);
		if (vf_fd_write_all(sfd_probe.fd, hello, 8, 2000) != 0) {
			sfd_probe_forget();
			return -1;
		}
	} else {
		vf_stat("sockfd_probe_same_connection_again", 1);
	}
	while (sfd_probe.nrx < 8 && vf_now_ns() < end) {
		struct pollfd p = { sfd_probe.fd, POLLIN, 0 };
		if (poll(&p, 1, 50) <= 0) continue;
		ssize_t n = read(sfd_probe.fd, sfd_probe.rx + sfd_probe.nrx, (size_t) (8 - sfd_probe.nrx));
		if (n > 0) {
			sfd_probe.nrx += (int) n;
		} else if (n == 0 || (errno != EAGAIN && errno != EINTR)) {
			// the listener hung up on a well-behaved client
			vf_stat("sockfd_probe_hung_up_on", 1);
			sfd_probe_forget();
			return -1;
		}
	}
	if (sfd_probe.nrx < 8) return -1; // kept: more patience in the second attempt
	const uint8_t *rx = sfd_probe.rx;
	if (rx[0] != 0 || rx[1] != 'S' || rx[2] != 'P' || rx[3] != 0 || rx[6] != 0 || rx[7] != 0 ||
	    (uint16_t) ((rx[4] << 8) | rx[5]) != pr->self) {
		sfd_probe_forget();
		return -1;
	}
	return sfd_probe.fd;
}

static bool
probe_once(tsock *ts, tep *le, bool use_nng, uint64_t seqno, uint64_t key)
{
	const vf_proto *pr   = ts->proto;
	bool            isrep = !strcmp(pr->name, "rep");
	bool            isbus = !strcmp(pr->name, "bus");
	uint8_t         frame[44];
	frame[0] = 0x80; frame[1] = 0; frame[2] = 0; frame[3] = 1;
	vf_body_make(frame + 4, 40, PROBE_TAG, seqno);
	if (use_nng) {
		tsock *c = sock_open(pr->peer_name, key, 0, 0, 0);
		nng_socket_set_ms(c->s, NNG_OPT_SENDTIMEO, 500);
		bool ok = false;
		if (nng_dial(c->s, le->url, NULL, 0) == 0) {
			for (int tries = 0; tries < 40 && !ok; tries++) {
				nng_msg *m;
				if (nng_msg_alloc(&m, 0) != 0) vf_harness_fail("msg alloc");
				nng_msg_append(m, frame + 4, 40);
				if (nng_sendmsg(c->s, m, 0) != 0) nng_msg_free(m);
				ok = recv_probe(ts, seqno, 125);
			}
		}
		sock_close(c);
		return ok;
	}
	// socket://: a connection that the listener took and never serves is
	// the failure looked for, so the second attempt stays with the first
	// attempt's connection (see sfd_probe) instead of making a new one
	int      fd;
	uint16_t got = 0;
	if (le->tran == VF_T_SOCKFD) {
		if ((fd = sfd_probe_conn(le, pr, 5000)) < 0) return false;
	} else {
		fd = raw_connect_url(le->url, 2000);
		if (fd < 0) return false;
		if (vf_sp_handshake(fd, pr->peer, &got, 5000) != 0 || got != pr->self) {
			close(fd);
			return false;
		}
	}
	bool ipc = le->tran == VF_T_IPC;
	bool ok  = false;
	for (int tries = 0; tries < 40 && !ok; tries++) {
		if (isrep) {
			vf_sp_send_frame(fd, ipc, frame, 44);
		} else {
			vf_sp_send_frame(fd, ipc, frame + 4, 40);
		}
		ok = recv_probe(ts, seqno, 125);
	}
	if (ok && (isrep || isbus)) {
		// and back
		nng_msg *m;
		uint8_t  buf[256];
		if (nng_msg_alloc(&m, 0) != 0) vf_harness_fail("msg alloc");
		nng_msg_append(m, frame + 4, 40);
		if (nng_sendmsg(ts->s, m, 0) != 0) {
			nng_msg_free(m);
			ok = false;
		} else {
			ok = false;
			for (int k = 0; k < 64 && !ok; k++) {
				long n = vf_sp_recv_frame(fd, ipc, buf, sizeof(buf), 5000);
				if (n < 0) break;
				const uint8_t *b = isrep ? buf + 4 : buf;
				long           bl = isrep ? n - 4 : n;
				uint32_t       tag;
				uint64_t       seq;
				ok = bl == 40 && vf_body_check(b, 40, &tag, &seq) == 0 && tag == PROBE_TAG && seq == seqno;
			}
		}
		if (ok) vf_stat("probe_round_trips", 1);
	}
	if (le->tran == VF_T_SOCKFD) {
		if (!ok) return false; // kept for the second attempt
		sfd_probe.fd = -1;
	}
	fd_rst_close(fd, false);
	return ok;
}

static void
listen_case(long idx)
{
	static const char *lpr[] = { "pull", "bus", "sub", "rep" };
	vf_rng   r;
	uint64_t key;
	vf_rng_seed(&r, vf_seed, (uint64_t) idx);
	key                = vf_rand(&r);
	const char *pname  = lpr[vf_below(&r, 4)];
	int         nl     = (int) vf_range(&r, 1, 3);
	int         rounds = (int) vf_range(&r, 3, 7);
	const char *pt     = "none";
	case_reset();
	vf_pt_off();
	if (vf_chance(&r, 1, 2)) {
		vf_pt_jitter(key, 15, 150);
		pt = "jitter";
	}
	bool late = vf_chance(&r, 1, 3);
	vf_case_begin(idx, "listen proto=%s listeners=%d rounds=%d perturb=%s%s key=%llx", pname, nl, rounds, pt, late ? " late-registration" : "", (unsigned long long) key);
	tsock *ts = sock_open_ex(pname, key, 0, 0, 0, late);
	tep   *les[3];
	for (int i = 0; i < nl; i++) {
		uint32_t w = vf_below(&r, 8);
		if ((les[i] = add_listener(ts, w < 2 ? VF_T_TCP : w < 4 ? VF_T_SOCKFD : VF_T_IPC)) == NULL) vf_harness_fail("listener");
	}
	// sometimes one more listener on a transport without an SP hello
	tep *xl = NULL;
	if (vf_chance(&r, 1, 2)) {
		if ((xl = add_listener(ts, vf_chance(&r, 1, 2) ? T_UDP : VF_T_WS)) == NULL) vf_harness_fail("listener");
	}
	// late registration: well-behaved clients are connected before the
	// application installs its callbacks; they leave in the middle of the
	// case (or with the socket) and nothing may be reported for them
	int nearly = 0, efd[3], early_round = -1;
	if (late) {
		int want = (int) vf_range(&r, 1, 3);
		for (int i = 0; i < want; i++) {
			int fd = client_connect(les[vf_below(&r, (uint32_t) nl)], 2000);
			if (fd < 0) continue;
			if (vf_sp_handshake(fd, ts->proto->peer, NULL, 3000) != 0) {
				close(fd);
				continue;
			}
			efd[nearly++] = fd;
		}
		sock_register_late(ts, nearly, 2000);
		early_round = (int) vf_below(&r, (uint32_t) rounds + 1); // == rounds: at socket close
		vf_class("listen/late-registration/%s/%d-pipes-before", pname, nearly);
	}
	// one case in four: in one round the accept itself fails (EMFILE)
	int emfile_round = vf_chance(&r, 1, 4) ? (int) vf_below(&r, (uint32_t) rounds) : -1;
	uint64_t seqno = 1;
	for (int round = 0; round < rounds; round++) {
		tep *le = les[vf_below(&r, (uint32_t) nl)];
		char lab[64] = "none";
		if (round == early_round) {
			for (int i = 0; i < nearly; i++) fd_rst_close(efd[i], les[0]->tran == VF_T_TCP && vf_chance(&r, 1, 2));
			nearly = 0;
			vf_stat("early_clients_left_mid_case", 1);
		}
		int  nf = (int) vf_range(&r, 1, 5);
		bool onx = xl != NULL && vf_chance(&r, 1, 2);
		if (round == emfile_round) {
			// (a socket:// listener never calls accept())
			for (int i = 0; i < nl && le->tran == VF_T_SOCKFD; i++) le = les[i];
			if (le->tran == VF_T_SOCKFD) {
				emfile_round = -1;
			} else {
				onx = false;
				nf  = (int) vf_below(&r, 3);
			}
		}
		for (int f = 0; f < nf; f++) {
			if (onx) {
				do_failure_x(xl, &r, lab, sizeof(lab));
			} else {
				do_failure(ts, vf_chance(&r, 3, 4) ? le : les[vf_below(&r, (uint32_t) nl)], (int) vf_below(&r, F_N), &r, lab, sizeof(lab));
			}
		}
		if (onx) le = xl;
		if (round == emfile_round) {
			do_accept_emfile(le, &r, lab, sizeof(lab));
			nf += 3;
		}
		pthread_t   ft;
		failthr_arg fa;
		bool        conc = vf_chance(&r, 1, 3);
		if (conc) {
			fa.ts = ts;
			fa.les = les;
			fa.nl  = nl;
			vf_rng_seed(&fa.r, key, (uint64_t) (500 + round));
			atomic_store(&fa.stop, 0);
			if (pthread_create(&ft, NULL, fail_thread, &fa) != 0) vf_harness_fail("pthread_create");
		}
		bool use_nng = onx || (vf_chance(&r, 1, 3) && le->tran != VF_T_SOCKFD);
		sfd_probe_taken = false;
		bool ok      = probe_once(ts, le, use_nng, seqno++, key ^ (uint64_t) round);
		if (!ok) {
			// bounded progress: one more complete attempt before reporting
			// (socket://: there is no connecting that could fail for reasons
			// of this machine, the descriptor was handed over; the second
			// attempt is five more seconds for the same connection)
			vf_stat("probe_rechecks", 1);
			ok = probe_once(ts, le, use_nng, seqno++, key ^ (uint64_t) (round + 100));
		}
		sfd_probe_forget();
		if (conc) {
			atomic_store(&fa.stop, 1);
			pthread_join(ft, NULL);
		}
		if (ok) {
			vf_stat("probes_ok", 1);
			if (onx) vf_stat(xl->tran == T_UDP ? "probes_ok_udp" : "probes_ok_ws", 1);
			if (le->tran == VF_T_SOCKFD) vf_stat("probes_ok_sockfd", 1);
		} else {
			char vk[200];
			char kind[64];
			snprintf(kind, sizeof(kind), "%s", lab);
			char *at = strchr(kind, '@');
			if (at) *at = 0;
			snprintf(vk, sizeof(vk), "C14/listener-dead/%s/%s/after-%s", tn(le->tran), pname, kind);
			vf_violation(vk, "%s %s listener %u: after %d failing connections (last: %s)%s a well-behaved %s client %s",
			    tn(le->tran), pname, le->id, nf, lab, conc ? " and with more failing concurrently" : "", use_nng ? "nng" : "raw",
			    le->tran != VF_T_SOCKFD ? "could not connect and deliver a message (two attempts of 5 s each)"
			    : sfd_probe_taken       ? "whose descriptor the listener had taken (NNG_OPT_SOCKET_FD returned 0) was not served within 10 s: no hello, or no message delivered"
			                            : "could not hand its descriptor to the listener for 10 s: NNG_OPT_SOCKET_FD kept failing");
			break;
		}
		vf_class("listen-probe/%s/%s/%s/after-%s", tn(le->tran), pname, use_nng ? "nng-client" : "raw-client", lab);
	}
	// close while connections are in the middle of the handshake
	int nh = 0, hfd[8];
	if (vf_chance(&r, 2, 3)) {
		uint8_t hello[8];
		vf_sp_hello(hello, ts->proto->peer);
		nh = (int) vf_range(&r, 2, 8);
		for (int i = 0; i < nh; i++) {
			hfd[i] = client_connect(les[vf_below(&r, (uint32_t) nl)], 2000);
			if (hfd[i] >= 0) {
				int k = (int) vf_below(&r, 8);
				if (k) vf_fd_write_all(hfd[i], hello, (size_t) k, 1000);
			}
		}
		if (vf_chance(&r, 1, 2)) vf_usleep((int) vf_below(&r, 2000));
		if (vf_chance(&r, 1, 3)) {
			ep_close(les[vf_below(&r, (uint32_t) nl)]);
			vf_stat("listener_closed_mid_handshake", 1);
		}
		vf_stat("closes_with_handshakes_pending", 1);
	}
	close_all_and_check("listen", pname);
	for (int i = 0; i < nh; i++) {
		if (hfd[i] >= 0) close(hfd[i]);
	}
	for (int i = 0; i < nearly; i++) close(efd[i]);
	vf_stat("cases", 1);
	if ((idx & 15) == 0) {
		vf_sample("{\"mode\":\"listen\",\"proto\":\"%s\",\"listeners\":%d,\"rounds\":%d,\"events_logged\":%d}", pname, nl, rounds, evn);
	}
}


// ================================================================== subset mode
// Only some of the three events have a callback - from the start, or after the
// others were taken away again while the pipe is alive.  Whatever is
// registered must behave as the property says for it alone: ADD_PRE, ADD_POST
// and REM_POST at most once per pipe and in that order among the ones that
// are observed, nothing for an event without a callback, and - the pipe has
// carried a message, so it did reach the ADD_POST stage - REM_POST (when it
// has a callback) no later than the return of nng_socket_close.
#define SUBP 8
typedef struct {
	pthread_mutex_t mx;
	uint32_t        id[SUBP];
	int             n[SUBP][4]; // per pipe and event
	int             last[SUBP];
	int             order_bad[SUBP];
	int             npipes;
} subrec;

static void
subset_cb(nng_pipe p, nng_pipe_ev ev, void *arg)
{
	subrec *sr = arg;
	if (ev < 1 || ev > 3) return;
	uint32_t id = nng_pipe_id(p);
	pthread_mutex_lock(&sr->mx);
	int k = -1;
	for (int i = 0; i < sr->npipes; i++) {
		if (sr->id[i] == id) k = i;
	}
	if (k < 0 && sr->npipes < SUBP) {
		k         = sr->npipes++;
		sr->id[k] = id;
	}
	if (k >= 0) {
		sr->n[k][ev]++;
		if (sr->last[k] >= (int) ev) sr->order_bad[k] = 1;
		sr->last[k] = (int) ev;
	}
	pthread_mutex_unlock(&sr->mx);
}

static void
subset_case(long idx)
{
	static const char *evn3[4] = { "", "ADD_PRE", "ADD_POST", "REM_POST" };
	static const char *pairs[][2] = { { "pair0", "pair0" }, { "pair1", "pair1" }, { "pull", "push" }, { "bus", "bus" }, { "rep", "req" } }; // (observed socket, its peer)
	vf_rng r;
	vf_rng_seed(&r, vf_seed, (uint64_t) idx ^ 0x5355425345ULL);
	int  mask    = 1 + (int) (idx % 7);                 // bit e-1 set: event e has a callback (all 7 non-empty subsets)
	bool dynamic = ((idx / 7) & 1) != 0;                // all three first, the others removed while the pipe is alive
	bool dialing = ((idx / 14) & 1) != 0;               // the observed socket dials / listens
	int  pi      = (int) ((idx / 28) % 5);
	int  tran    = (int[]){ VF_T_INPROC, VF_T_IPC, VF_T_TCP, VF_T_INPROC }[(idx / 140) % 4];
	char set[40] = "";
	for (int e = 1; e <= 3; e++) {
		if (mask & (1 << (e - 1))) snprintf(set + strlen(set), sizeof(set) - strlen(set), "%s%s", set[0] ? "+" : "", evn3[e]);
	}
	vf_case_begin(idx, "subset: callbacks for {%s} only (%s), observed %s socket %s over %s", set, dynamic ? "the others removed while the pipe is alive" : "from the start", pairs[pi][0], dialing ? "dials" : "listens", vf_tran_names[tran]);
	const vf_proto *pa = vf_proto_by_name(pairs[pi][0]), *pb = vf_proto_by_name(pairs[pi][1]);
	nng_socket      a, b;
	subrec          sr;
	memset(&sr, 0, sizeof(sr));
	pthread_mutex_init(&sr.mx, NULL);
	if (pa == NULL || pb == NULL || pa->open(&a) != 0 || pb->open(&b) != 0) vf_harness_fail("subset open");
	nng_socket_set_ms(b, NNG_OPT_SENDTIMEO, 5000);
	nng_socket_set_ms(a, NNG_OPT_RECVTIMEO, 5000);
	for (int e = 1; e <= 3; e++) {
		if (dynamic || (mask & (1 << (e - 1)))) {
			if (nng_pipe_notify(a, (nng_pipe_ev) e, subset_cb, &sr) != 0) vf_harness_fail("notify");
		}
	}
	int rv = dialing ? vf_connect(b, a, tran) : vf_connect(a, b, tran);
	if (rv != 0) vf_harness_fail("subset connect: %s", nng_strerror(rv));
	// one message from the peer to the observed socket: the pipe it arrives
	// on is in service, and it is the pipe that is judged
	nng_msg *m;
	if (nng_msg_alloc(&m, 8) != 0) vf_harness_fail("msg");
	rv = nng_sendmsg(b, m, 0);
	if (rv != 0) {
		nng_msg_free(m);
		vf_harness_fail("subset send: %s", nng_strerror(rv));
	}
	m = NULL;
	rv = nng_recvmsg(a, &m, 0);
	if (rv != 0) vf_harness_fail("subset recv: %s", nng_strerror(rv));
	uint32_t jid = nng_pipe_id(nng_msg_get_pipe(m));
	nng_msg_free(m);
	// A message can arrive before the pipe's ADD_POST has been delivered (the
	// event follows the protocol's start), and a pipe closed before that point
	// legitimately never gets it.  Once the library is quiescent the start of
	// this pipe is over: it has reached the ADD_POST stage.
	if (!vf_quiesce(1, 3000)) vf_stat("subset_not_quiescent_before_judging", 1);
	vf_msleep(2);
	(void) vf_quiesce(1, 3000);
	if (dynamic) {
		// take the others away again (REM_POST-side last so that the set never
		// lacks an earlier event that a NEW pipe could miss - there is none here)
		for (int e = 3; e >= 1; e--) {
			if (!(mask & (1 << (e - 1)))) nng_pipe_notify(a, (nng_pipe_ev) e, NULL, NULL);
		}
	}
	int before[4] = { 0 }, jk = -1;
	pthread_mutex_lock(&sr.mx);
	for (int i = 0; i < sr.npipes; i++) {
		if (sr.id[i] == jid) jk = i;
	}
	for (int e = 1; e <= 3 && jk >= 0; e++) before[e] = sr.n[jk][e];
	pthread_mutex_unlock(&sr.mx);
	// how the pipe goes: socket close, or the peer leaves first
	int how = (int) vf_below(&r, 3);
	if (how == 1) {
		nng_socket_close(b);
		for (int i = 0; i < 3000 && vf_pipe_count(a) > 0; i++) vf_msleep(1);
	} else if (how == 2) {
		nng_pipe_close((nng_pipe) { jid });
	}
	nng_socket_close(a);
	if (how != 1) nng_socket_close(b);
	pthread_mutex_lock(&sr.mx);
	if (jk < 0) {
		for (int i = 0; i < sr.npipes; i++) {
			if (sr.id[i] == jid) jk = i;
		}
	}
	int cnt[4] = { 0 }, obad = 0;
	for (int e = 1; e <= 3 && jk >= 0; e++) cnt[e] = sr.n[jk][e];
	if (jk >= 0) obad = sr.order_bad[jk];
	for (int i = 0; i < sr.npipes; i++) {
		if (sr.id[i] != jid) vf_stat("subset_other_pipes_seen", 1);
	}
	pthread_mutex_unlock(&sr.mx);
	char key[128];
	const char *hows = how == 0 ? "socket-close" : how == 1 ? "peer-left" : "pipe-close";
	for (int e = 1; e <= 3; e++) {
		bool reg  = (mask & (1 << (e - 1))) != 0;
		int  n    = cnt[e];
		// an event registered the whole time fires exactly once; one that was
		// registered only during the first phase (dynamic) at most once and
		// never after its removal
		if (reg && n != 1) {
			snprintf(key, sizeof(key), "C14/subset/%s-%s/%s/%s", evn3[e], n == 0 ? "missing" : "repeated", dynamic ? "others-removed" : "from-start", hows);
			vf_violation(key, "callbacks registered for {%s} only (%s): %s fired %d times for the pipe of a %s socket (%s, %s) that carried a message and whose socket has been closed (expected exactly once, no later than the return of nng_socket_close)", set,
			    dynamic ? "the other callbacks were removed while the pipe was alive" : "from the start", evn3[e], n, pairs[pi][0], dialing ? "dialer" : "listener", vf_tran_names[tran]);
		} else if (!reg && !dynamic && n != 0) {
			snprintf(key, sizeof(key), "C14/subset/%s-without-callback", evn3[e]);
			vf_violation(key, "an event without a registered callback was delivered (%s, %d times)", evn3[e], n);
		} else if (!reg && dynamic && n > 1) {
			// (an event whose callback was taken away while the pipe was alive
			// may still be delivered once: ADD_POST is delivered after the pipe
			// is in service, and a delivery that has already picked the callback
			// up is not recalled by nng_pipe_notify - the property promises
			// neither)
			snprintf(key, sizeof(key), "C14/subset/%s-repeated/others-removed", evn3[e]);
			vf_violation(key, "%s fired %d times (%d before its callback was removed)", evn3[e], n, before[e]);
		}
	}
	if (obad) {
		snprintf(key, sizeof(key), "C14/subset/order/%s", dynamic ? "others-removed" : "from-start");
		vf_violation(key, "callbacks for {%s}: events of one pipe observed out of order or repeated", set);
	}
	vf_stat("subset_cases", 1);
	vf_stat("cases", 1);
	vf_class("subset/{%s}/%s/%s/%s/%s", set, dynamic ? "others-removed" : "from-start", dialing ? "dialer" : "listener", hows, vf_tran_names[tran]);
}

// ================================================================== main
int
main(int argc, char **argv)
{
	vf_init(argc, argv);
	evlog = calloc(MAXEV, sizeof(evrec));
	if (evlog == NULL) vf_harness_fail("calloc");
	hb_start();
	if (getenv("C14_NNG_LOG")) { // debugging aid only
		nng_log_set_logger(nng_stderr_logger);
		nng_log_set_level(NNG_LOG_DEBUG);
	}
	const char *mode = vf_mode[0] ? vf_mode : "events";
	long        ncases_run = 0;
	if (!strcmp(mode, "redial")) {
		bool ok = false, l4 = false;
		int  ms = resolve_ms("localhost", &ok, &l4);
		localhost_is_loopback4 = ok && l4 && ms < 200;
	}
	for (long idx = 0; idx < vf_cases; idx++) {
		if (!vf_want_case(idx)) continue;
		vf_watchdog(45);
		warmup_case = ncases_run++ == 0;
		if (strcmp(mode, "events") != 0 && vf_violations() >= 4) {
			// every further miss costs a 5 s deadline: enough evidence
			vf_stat("cases_skipped_after_violations", 1);
			continue;
		}
		ensure_init(idx, 16);
		if (!strcmp(mode, "events")) {
			events_case(idx);
		} else if (!strcmp(mode, "redial")) {
			redial_case(idx);
		} else if (!strcmp(mode, "listen")) {
			listen_case(idx);
		} else if (!strcmp(mode, "subset")) {
			subset_case(idx);
		} else {
			vf_harness_fail("unknown mode %s", mode);
		}
	}
	vf_pt_off();
	if (cur_block >= 0) vf_nng_fini("C14");
	return vf_finish();
}
