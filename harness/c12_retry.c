// C12: REQ keeps retrying until answered; no hang when retry is disabled.
//
// Restated for runtime monitoring as BOUNDED PROGRESS: in every generated
// fault sequence, once the last fault has been injected and a well-behaved
// replier is reachable, the requester's receive returns the reply to that
// request within B = max(RESENDTIME, RECONNMAXT) + RESENDTICK + 2 s; with
// RESENDTIME = NNG_DURATION_INFINITE the receive fails with NNG_ECONNRESET (or
// returns the reply) within RECONNMAXT + 2 s of the connection loss.  A miss
// is re-checked once (the same case is run again) before it is reported.
// The safety parts are exact.
//
// Requester: one real REQ socket with 1-4 contexts (optionally the socket
// itself as context 0), RESENDTIME in {20, 50, 200 ms, infinite}, RESENDTICK
// 5-20 ms, RECONNMINT/MAXT 5/20 ms, one dialer per replier (tcp or ipc).
// One harness thread per context runs exchanges (send, receive) and, in
// "ops" cases, terminates some of them by aio-cancel, by a replacing send or
// by a short receive timeout, or posts the receive late.
//
// Repliers: 1-2 raw listeners (SP handshake as REP 0x31) served by ONE
// poll()-driven adversary thread which logs every request frame (id, body,
// connection, time) and follows the case's fault plan.  A plan is a list of
// 1-6 steps, each consumed by the next suitable event, followed by
// well-behaved service:
//   iofault n      nng's n-th own send call from now fails with ECONNRESET
//                  (loss between "handed to a pipe" and the write)
//   close-accept   kill all connections; the next one is closed at accept
//                  (before our hello | right after the handshake)
//   close-unread   close a connection that has an unread request (RST)
//   close-read     read the request, close (now | after d ms, silent)
//   close-half     read, write part of the reply frame, close
//   close-replied  read, write the whole reply, close at once
//   drop           read, never answer (finite resend only)
//   delay          read, answer after d ms (beyond / within RESENDTIME)
//   restart        read (or not), close the listener and its connections,
//                  listen again after d ms
//   killall        close every listener and connection, start one after d
//   close-partial  (big-request cases: 40-200 kB bodies, nng's sends cut to
//                  <= 8 kB by the interposer) close a connection on which a
//                  request frame is only partly read
// RESENDTIME 10 s is "finite but beyond every bound": there the reply must
// come within RECONNMAXT + 2 s of the loss, which only the immediate
// re-queue in req0_pipe_close can achieve (a timer rescue is a miss).  In
// "mixed" sampled cases each context has its own RESENDTIME (nng_ctx_set_ms /
// socket option changed after the contexts were opened), re-drawn between
// exchanges; every oracle uses the value in force when the request was sent.
// The first timer retransmission on a surviving connection must not be later
// than RESENDTIME + tick + 500 ms - by the wall clock and by a chain of 10 ms
// nng_sleep_aio ticks, with no harness thread stalled, twice (re-run).
// Mode "enum" enumerates every single-step plan x variant x RESENDTIME x
// transport x {1 ctx, 3 ctx + 2 repliers}; mode "sampled" draws plans.
//
// Exact oracles: every frame seen on the wire for a request has the id of the
// first sighting and the original body; with retry disabled an id is on the
// wire at most once and a receive ends with the reply or NNG_ECONNRESET only;
// with retry enabled a receive that is not cancelled/replaced/timed out by
// the application ends with the reply only; a delivered reply echoes the tag
// of the request outstanding on that context; a request that was answered,
// cancelled, replaced, timed out or reset is not seen on the wire again
// (judged only for frames read after a fence taken >= 50 ms after the
// terminating call returned, at which the adversary drained every socket);
// a receive fails with NNG_ETIMEDOUT only when the timeout the application
// set has elapsed (one-sided).  Key C12/timeout-early/stale-expiry-cancel (the
// known aio.c expire-loop window, see C02) only when the NNI_VE_AIO_EXPIRE hook
// saw the expire loop pick this aio during its previous, naturally ended
// submission shortly before; otherwise C12/timeout-early/unexplained/<evidence>.
#include "vfh.h"

#include <errno.h>
#include <fcntl.h>
#include <netinet/in.h>
#include <netinet/tcp.h>
#include <poll.h>
#include <pthread.h>
#include <stdatomic.h>
#include <sys/socket.h>
#include <sys/stat.h>
#include <sys/un.h>
#include <unistd.h>

#define MAXCTX 4
#define MAXREP 2
#define MAXX 4096
#define MAXPER 800 // exchanges per context
#define MAXCONN 32
#define MAXSERIAL 8192
#define MAXSTEPS 6
#define MAXDELAYED 64
#define LONG_MS 8000
#define SLACK_MS 2000
#define RECONN_MIN 5
#define RECONN_MAX 20
#define LONG_RETRY_MS 10000 // finite, but far beyond every bound: only the re-queue on pipe loss can rescue
#define LATE_SLACK_MS 500
#if defined(__SANITIZE_THREAD__)
#define BIG_MIN 20000
#define BIG_SPAN 40000
#else
#define BIG_MIN 40000
#define BIG_SPAN 160000
#endif
#define STALL_MS 100

enum { F_IOFAULT, F_CLOSE_ACCEPT, F_CLOSE_UNREAD, F_CLOSE_READ, F_CLOSE_HALF, F_CLOSE_REPLIED, F_DROP, F_DELAY, F_RESTART, F_KILLALL, F_CLOSE_PARTIAL, F_WRONG_PROTO, F_REFUSE_PIPE, F_N };
#define F_DRAWN (F_CLOSE_PARTIAL + 1) // kinds drawn directly by the sampled generator (the reject kinds replace a drawn step afterwards)
static const char *fname[F_N] = { "iofault", "close-accept", "close-unread", "close-read", "close-half", "close-replied", "drop", "delay", "restart", "killall", "close-partial", "wrong-proto", "refuse-pipe" };
static const char  fletter[F_N + 1] = "IAURHPDLSKWXJ";
// the two kinds after which the REQUESTER's side rejects a connection that the
// transport had established (after all connections were killed):
//   wrong-proto  the next connection's peer completes the SP handshake as
//                another protocol (PAIR 0x10 | REQ 0x30): req0_pipe_start refuses
//   refuse-pipe  the requester's own NNG_PIPE_EV_ADD_PRE callback closes the
//                next pipe
// afterwards the address is served by the real replier again: the socket must
// connect again and the outstanding / next request must be answered.
static bool
f_reject(int k)
{
	return k == F_WRONG_PROTO || k == F_REFUSE_PIPE;
}

enum { OP_NORMAL, OP_LATE, OP_TIMEOUT, OP_CANCEL, OP_REPLACE, OP_N };
static const char *opname[OP_N] = { "normal", "late-recv", "timeout", "cancel", "replace" };

enum { X_OUT, X_ANSWERED, X_RESET, X_CANCELLED, X_REPLACED, X_TIMEDOUT, X_ABANDONED, X_N };
static const char *xname[X_N] = { "outstanding", "answered", "conn-reset", "cancelled", "replaced", "timed-out", "abandoned" };

typedef struct {
	int kind, var, d_ms;
} step;

// resend time classes: infinite (< 0), timer (the resend timer can act within
// a case), long (finite but >> every bound used here)
static bool
r_timer(int r)
{
	return r > 0 && r < 5000;
}
static const char *
rn(int r)
{
	return r < 0 ? "inf" : r == 20 ? "20ms" : r == 50 ? "50ms" : r == 200 ? "200ms" : r == LONG_RETRY_MS ? "10s" : "other";
}

typedef struct {
	bool     enumerated;
	int      tran; // 0 tcp, 1 ipc
	int      nrep, nctx;
	bool     use_sock;
	int      retry_ms; // -1: infinite; the socket's value when the contexts are opened
	int      gap; // history plan: 1 close / 2 cancel / 3 receive-timeout on context 1, then an idle gap, then the plan on context 0
	int      reploss; // repeated-loss plan: 1 drop,drop / 2 drop,delay / 3 delay,drop / 4 drop,drop,drop on ONE context and ONE connection that stays up
	bool     big; // 40-200 kB requests, nng's sends are cut into chunks <= 8 kB (needed for close-partial)
	bool     mixed; // contexts get their own values (nng_ctx_set_ms), changed between exchanges
	bool     rejplan; // enumerated rejected-connection plan
	bool     rtl; // reply-then-loss plan: context 0 (subject) and context 1 (barrier) have a request each on the one connection; the replier answers the subject, then the barrier, and closes when told; the subject posts its receive after the barrier was answered AND the pipe is gone
	bool     listen; // the REQ socket LISTENS (one listener per replier); the adversary dials it and redials after every loss
	int      redial; // listen: 0 redial 5-20 ms after a loss, 1 at once, 2 new connection first, old one closed 8 ms later
	int      tick_ms;
	int      nsteps;
	step     steps[MAXSTEPS];
	bool     ops, stale;
	int      jit_permille, jit_us;
	uint32_t nonce; // 16 bit
	uint64_t key;
	char     shape[MAXSTEPS + 1];
	char     rname[12];
} casecfg;

typedef struct {
	int      ctx, op;
	bool     final; // issued after the plan was finished
	size_t   len;
	uint32_t id; // learned from the first sighting (0: not seen)
	int      wire; // sightings
	int      retry_ms; // resend time of its context when it was sent
	uint64_t t_first_wire;
	long     ref_first; // library-timed reference ticks at the first sighting
	int      last_conn;
	bool     nopipe; // submitted while the socket had no pipe
	bool     timer_retx; // a copy arrived while the previous copy's connection was still there
	int      loss_copies; // copies that followed the loss of the previous copy's connection
	bool     handed; // the send completed: the request was handed to a pipe
	bool     before_barrier; // rtl plan: its complete reply was written in front of the barrier's reply
	bool     reply_seen_then_loss; // rtl plan: ... and the barrier's receive returned its reply, and then the pipe went away, all before this receive was posted
	int      partial; // times a connection was closed on a partly read copy
	bool     replied; // a complete reply to it was written somewhere
	uint64_t t_issue, t_last_wire, t_handed;
	int      state;
	uint64_t t_dead; // when the terminating call returned
	bool     fenced; // every frame written before t_dead has been read
	int      after_fault; // kind of the last fault injected before it ended
} xrec;

typedef struct {
	int      fd; // -1: slot free
	int      serial, rep;
	uint16_t peer_port; // tcp: the requester's local port
	bool     hs_done;
	bool     close_after_hs;
	bool     doomed; // scheduled close pending: requests are ignored
	bool     on_cmd; // rtl plan: close when the subject context says so
	bool     wrong_proto; // we announced another protocol on it: the requester must drop it
	bool     close_completes_step;
	uint64_t close_at;
	bool     exempt_partial; // a frame was partly read when the last fence was taken
	int      partial_chances;
	size_t   rxlen;
	uint8_t  rx[262144];
} conn;

typedef struct {
	int      lfd, spare;
	uint16_t port; // listen cases: the port of the REQ socket's listener
	char     path[100];
	uint64_t reopen_at;
	bool     reopen_completes_step;
	bool     up; // listen cases: this replier is running (it dials whenever it has no connection)
	uint64_t dial_at;
} replier;

typedef struct {
	uint64_t due;
	int      serial, xi;
	uint32_t id;
} delayed;

typedef struct {
	int         idx;
	bool        is_sock;
	nng_ctx     ctx;
	nng_aio    *sa, *ra;
	atomic_int  sdone, rdone;
	int         retry_ms; // resend time now set on this context
	int         nposted; // receives completed on ra so far
	int         prev_rv; // result of the previous one
	uint64_t    t_post, t_post_prev; // taken just before the (previous) receive was submitted
	vf_rng      r;
	pthread_t   th;
} rctx;

static struct {
	casecfg          c;
	pthread_mutex_t  mx;
	nng_socket       sock;
	xrec             x[MAXX];
	int              nx;
	// adversary
	replier          rep[MAXREP];
	conn             cn[MAXCONN];
	bool             serial_closed[MAXSERIAL];
	int              next_serial;
	delayed          dl[MAXDELAYED];
	int              ndl;
	int              cur; // current step
	bool             consumed; // current step consumed, waiting for its completion
	int              close_next_accept; // 0 none, 1 before hello, 2 after handshake
	int              wrong_next; // 0 none, else 1 + variant: the next connection announces another protocol
	atomic_int       refuse_next, refused; // the ADD_PRE callback closes the next pipe / has done so
	uint32_t         added[64]; // ids of the pipes that got ADD_POST (a rejected pipe gets REM_POST without it)
	int              miss_fault;
	long             frames, armed_frames;
	long             peer_closes, armed_peer_closes;
	atomic_int       last_fault_kind;
	vf_rng           ar;
	pthread_t        ath;
	atomic_bool      stop, go, started;
	atomic_bool      hold; // prelude of a history plan: read requests, do not answer
	atomic_bool      dial_ok; // listen cases: the REQ socket's listeners exist
	atomic_bool      barrier_done, close_cmd; // rtl plan
	int              rtl_xi[2]; // rtl plan: held requests of subject / barrier (-1 none)
	uint32_t         rtl_id[2];
	int              rtl_conn[2];
	_Atomic uint64_t t_fault;
	atomic_bool      plan_done;
	_Atomic uint64_t fence_req, fence_ack;
	atomic_int       npipes;
	bool             sweep_truncated; // some socket was not read to the end in this sweep
	_Atomic unsigned char myport[65536]; // local tcp ports of this socket's pipes
	// verdict plumbing
	atomic_bool      abort;
	bool             miss;
	char             miss_desc[256];
	int              miss_retry;
	long             miss_bound_ms;
	bool             late; // a timer retransmission came late on an unloaded machine
	char             late_desc[256];
	int              max_timer_retry;
	// per case evidence
	long             retx_loss, retx_timer, faults[F_N];
} G;

static uint32_t
get32(const uint8_t *p)
{
	return ((uint32_t) p[0] << 24) | ((uint32_t) p[1] << 16) | ((uint32_t) p[2] << 8) | p[3];
}
static void
put32(uint8_t *p, uint32_t v)
{
	p[0] = (uint8_t) (v >> 24);
	p[1] = (uint8_t) (v >> 16);
	p[2] = (uint8_t) (v >> 8);
	p[3] = (uint8_t) v;
}
static uint64_t
ms2ns(long ms)
{
	return (uint64_t) ms * 1000000ULL;
}

static uint32_t
x_tag(int xi)
{
	return (G.c.nonce << 16) | (uint32_t) xi;
}
static uint64_t
x_seq(int xi)
{
	return ((uint64_t) G.x[xi].ctx << 32) | (uint64_t) xi;
}
static size_t
x_replen(int xi)
{
	return VF_BODY_MIN + (size_t) (vf_mix64(G.c.key ^ (uint64_t) xi * 131) % 300);
}

static uint64_t
bound_ns(int retry_ms)
{
	long ms = RECONN_MAX;
	if (r_timer(retry_ms)) {
		ms = (retry_ms > RECONN_MAX ? retry_ms : RECONN_MAX) + G.c.tick_ms;
	}
	return ms2ns(ms + SLACK_MS);
}

// load witness: the time a harness thread last overslept by more than
// STALL_MS (heartbeat thread and the adversary's own poll loop)
static _Atomic uint64_t stall_last_ns;

// reference clock driven by the library's own timer service: a chain of
// REF_TICK_MS sleeps.  Under load it runs slow together with the resend
// timer, so latencies counted in its ticks are under-estimated.
#define REF_TICK_MS 10
static _Atomic long refticks;
static nng_aio     *ref_aio;
static atomic_bool  ref_stop;

static void
ref_cb(void *arg)
{
	(void) arg;
	if (nng_aio_result(ref_aio) != 0 || atomic_load(&ref_stop)) {
		return;
	}
	atomic_fetch_add(&refticks, 1);
	nng_sleep_aio(REF_TICK_MS, ref_aio);
}

static void
stall_check(uint64_t *last, uint64_t expect_ns)
{
	uint64_t now = vf_now_ns();
	if (*last != 0 && now - *last > expect_ns + ms2ns(STALL_MS)) {
		atomic_store(&stall_last_ns, now);
	}
	*last = now;
}

static void *
hb_thread(void *arg)
{
	(void) arg;
	uint64_t last = 0;
	for (;;) {
		vf_usleep(1000);
		stall_check(&last, 1000000);
	}
	return NULL;
}

// Witness for the ONE known way a receive can end early with NNG_ETIMEDOUT
// (aio.c expire loop: it picks an aio whose deadline passed, drops its lock,
// the operation completes naturally, the application submits the aio again and
// the pending cancel call lands on the new operation).  The hook notes when the
// expire loop picked one of our receive aios; only an early timeout with that
// evidence gets the known key, every other one is C12/timeout-early/unexplained.
#define NPICK 4
typedef struct {
	_Atomic(const void *) aio;
	_Atomic uint64_t      pick[NPICK]; // times of the most recent picks
	_Atomic unsigned      npick;
} watchrec;
static watchrec W[MAXCTX];

static void
ev_hook(int ev, const void *obj, uintptr_t a, uintptr_t b)
{
	(void) a;
	(void) b;
	if (ev != NNI_VE_AIO_EXPIRE) {
		return;
	}
	for (int i = 0; i < MAXCTX; i++) {
		if (atomic_load(&W[i].aio) == obj) {
			// (picks of one aio are serialised by its expire queue's lock)
			unsigned n = atomic_load(&W[i].npick);
			atomic_store(&W[i].pick[n % NPICK], vf_now_ns());
			atomic_store(&W[i].npick, n + 1);
		}
	}
}

static void
mark_fault(int kind)
{
	atomic_store(&G.t_fault, vf_now_ns());
	if (kind >= 0) {
		atomic_store(&G.last_fault_kind, kind);
	}
}

// --------------------------------------------------------------- adversary
static int
tcp_bound(uint16_t *port)
{
	int                fd = socket(AF_INET, SOCK_STREAM | SOCK_CLOEXEC | SOCK_NONBLOCK, 0);
	struct sockaddr_in sa;
	socklen_t          sl = sizeof(sa);
	int                on = 1;
	if (fd < 0) {
		return -1;
	}
	setsockopt(fd, SOL_SOCKET, SO_REUSEADDR, &on, sizeof(on));
	setsockopt(fd, SOL_SOCKET, SO_REUSEPORT, &on, sizeof(on));
	memset(&sa, 0, sizeof(sa));
	sa.sin_family      = AF_INET;
	sa.sin_addr.s_addr = htonl(INADDR_LOOPBACK);
	sa.sin_port        = htons(*port);
	if (bind(fd, (struct sockaddr *) &sa, sizeof(sa)) != 0 || getsockname(fd, (struct sockaddr *) &sa, &sl) != 0) {
		close(fd);
		return -1;
	}
	*port = ntohs(sa.sin_port);
	return fd;
}

static void
rep_up(replier *r)
{
	if (G.c.listen) {
		r->up      = true;
		r->dial_at = 0;
		return;
	}
	if (r->lfd >= 0) {
		return;
	}
	if (G.c.tran == 0) {
		if (r->spare < 0 && (r->spare = tcp_bound(&r->port)) < 0) {
			vf_harness_fail("cannot bind tcp port %u: %s", r->port, strerror(errno));
		}
		if (listen(r->spare, 128) != 0) {
			vf_harness_fail("listen: %s", strerror(errno));
		}
		r->lfd   = r->spare;
		r->spare = -1;
	} else {
		if ((r->lfd = vf_unix_listen(r->path)) < 0) {
			vf_harness_fail("cannot listen on %s: %s", r->path, strerror(errno));
		}
		fcntl(r->lfd, F_SETFL, fcntl(r->lfd, F_GETFL) | O_NONBLOCK);
	}
}

static void
rep_down(replier *r)
{
	if (G.c.listen) {
		r->up = false;
		return;
	}
	if (r->lfd < 0) {
		return;
	}
	if (G.c.tran == 0) {
		// keep the port reserved by a bound, non-listening socket so that
		// nobody else on this machine can grab it during the outage
		if ((r->spare = tcp_bound(&r->port)) < 0) {
			vf_harness_fail("cannot reserve tcp port %u: %s", r->port, strerror(errno));
		}
	}
	close(r->lfd);
	r->lfd = -1;
	if (G.c.tran == 1) {
		unlink(r->path);
	}
}

// close a connection from our side (RST if unread data is pending)
static void
conn_close(conn *c, bool by_peer)
{
	if (c->fd < 0) {
		return;
	}
	close(c->fd);
	c->fd = -1;
	if (G.c.listen) {
		// the replier "process" dials again (a connection of its own may be
		// there already: then nothing happens)
		G.rep[c->rep].dial_at = vf_now_ns() + (G.c.redial == 0 ? ms2ns(vf_range(&G.ar, RECONN_MIN, RECONN_MAX)) : 0);
	}
	pthread_mutex_lock(&G.mx);
	G.serial_closed[c->serial] = true;
	if (by_peer) {
		G.peer_closes++;
	}
	pthread_mutex_unlock(&G.mx);
}

static void step_done(void);
static void lose_conn(conn *c, int kind);

static void
kill_replier(int r, bool listener)
{
	if (listener && G.c.listen) {
		rep_down(&G.rep[r]); // first: it must not dial again meanwhile
	}
	for (int i = 0; i < MAXCONN; i++) {
		if (G.cn[i].fd >= 0 && G.cn[i].rep == r) {
			conn_close(&G.cn[i], false);
		}
	}
	if (listener) {
		rep_down(&G.rep[r]);
	}
}

// write (a prefix of) the reply frame for request xi with the given id
static void
send_reply(conn *c, uint32_t id, int xi, int cut_kind, bool is_stale)
{
	uint8_t buf[16 + VF_BODY_MIN + 320];
	size_t  n = 0, rl = x_replen(xi), hl;
	if (c->fd < 0) {
		return;
	}
	if (G.c.tran == 1) {
		buf[n++] = 1;
	}
	put32(buf + n, 0);
	put32(buf + n + 4, (uint32_t) (4 + rl));
	n += 8;
	hl = n;
	put32(buf + n, id);
	n += 4;
	vf_body_make(buf + n, rl, x_tag(xi), x_seq(xi) | (1ULL << 63));
	n += rl;
	size_t w = n;
	switch (cut_kind) {
	case 0: w = 3; break; // inside the length word
	case 1: w = hl; break; // length only
	case 2: w = hl + 4 + rl / 2; break; // mid body
	default: break;
	}
	if (vf_fd_write_all(c->fd, buf, w, 2000) != 0) {
		// the requester closed first (only an injected send fault does that)
		conn_close(c, true);
		return;
	}
	if (w == n && !is_stale) {
		pthread_mutex_lock(&G.mx);
		G.x[xi].replied = true;
		pthread_mutex_unlock(&G.mx);
	}
}

// Replay a reply to an id whose request is already over, in front of a real
// reply.  A correct requester discards it.
static void
maybe_stale(conn *c, int not_xi)
{
	if (!G.c.stale || !vf_chance(&G.ar, 1, 3)) {
		return;
	}
	pthread_mutex_lock(&G.mx);
	int      nx = G.nx, pick = -1;
	uint32_t id = 0;
	for (int tries = 0; tries < 4 && nx > 0; tries++) {
		int xi = (int) vf_below(&G.ar, (uint32_t) nx);
		if (xi != not_xi && G.x[xi].id != 0 && G.x[xi].state != X_OUT) {
			pick = xi;
			id   = G.x[xi].id;
			break;
		}
	}
	pthread_mutex_unlock(&G.mx);
	if (pick >= 0) {
		send_reply(c, id, pick, -1, true);
		vf_stat("stale_replies_injected", 1);
	}
}

static void
step_begin(void)
{
	step *s   = &G.c.steps[G.cur];
	G.consumed = false;
	switch (s->kind) {
	case F_IOFAULT:
		pthread_mutex_lock(&G.mx);
		G.armed_frames      = G.frames;
		G.armed_peer_closes = G.peer_closes;
		pthread_mutex_unlock(&G.mx);
		vf_io_fail_send_at(s->var, ECONNRESET);
		break;
	case F_CLOSE_ACCEPT:
		for (int r = 0; r < G.c.nrep; r++) {
			kill_replier(r, false);
		}
		mark_fault(F_CLOSE_ACCEPT);
		G.close_next_accept = 1 + s->var;
		break;
	case F_WRONG_PROTO:
	case F_REFUSE_PIPE:
		for (int r = 0; r < G.c.nrep; r++) {
			kill_replier(r, false);
		}
		mark_fault(s->kind);
		if (s->kind == F_WRONG_PROTO) {
			G.wrong_next = 1 + s->var;
		} else {
			atomic_store(&G.refused, 0);
			atomic_store(&G.refuse_next, 1);
		}
		break;
	default:
		break;
	}
}

static void
step_done(void)
{
	int k = G.c.steps[G.cur].kind;
	G.faults[k]++;
	mark_fault(k);
	G.cur++;
	G.consumed = false;
	if (G.cur >= G.c.nsteps) {
		atomic_store(&G.plan_done, true);
	} else {
		step_begin();
	}
}

static step *
cur_step(void)
{
	if (!atomic_load(&G.go) || G.cur >= G.c.nsteps || G.consumed) {
		return NULL;
	}
	return &G.c.steps[G.cur];
}

static void
do_restart(int r, int d_ms)
{
	kill_replier(r, true);
	mark_fault(F_RESTART);
	G.rep[r].reopen_at             = vf_now_ns() + ms2ns(d_ms);
	G.rep[r].reopen_completes_step = true;
	G.consumed                     = true;
}

static void
do_killall(step *s)
{
	int first = s->var % G.c.nrep;
	for (int r = 0; r < G.c.nrep; r++) {
		kill_replier(r, true);
		G.rep[r].reopen_at             = vf_now_ns() + ms2ns(s->d_ms + (r == first ? 0 : 40 + s->d_ms));
		G.rep[r].reopen_completes_step = r == first;
	}
	mark_fault(F_KILLALL);
	G.consumed = true;
}

static void
on_frame(conn *c, const uint8_t *p, size_t plen)
{
	uint32_t tag = 0, id;
	uint64_t seq = 0;
	int      xi, rv;
	uint64_t now = vf_now_ns();

	if (G.c.tran == 0 && !G.c.listen && !atomic_load(&G.myport[c->peer_port])) {
		// not a connection of our REQ socket: some other process on this
		// machine still dials a port that is ours now
		vf_stat("foreign_connections_dropped", 1);
		conn_close(c, false);
		return;
	}
	if (plen < 4 + VF_BODY_MIN || (rv = vf_body_check(p + 4, plen - 4, &tag, &seq)) != 0) {
		vf_violation("C12/retransmit/body-differs", "request frame of %zu bytes on the wire is not a body the application sent (unparseable)", plen);
		return;
	}
	id = get32(p);
	xi = (int) (tag & 0xffff);
	pthread_mutex_lock(&G.mx);
	G.frames++;
	if ((tag >> 16) != G.c.nonce || xi >= G.nx || seq != x_seq(xi) || plen - 4 != G.x[xi].len) {
		pthread_mutex_unlock(&G.mx);
		vf_violation("C12/retransmit/body-differs", "request frame on the wire carries tag %08x seq %llx len %zu: not a request of this socket", tag, (unsigned long long) seq, plen - 4);
		return;
	}
	xrec *x  = &G.x[xi];
	int   xr = x->retry_ms;
	if (x->len < 4096 || x->wire < 2) {
		// (later copies of big bodies are covered by the crc in vf_body_check)
		uint8_t *want = malloc(x->len);
		vf_body_make(want, x->len, x_tag(xi), x_seq(xi));
		if (memcmp(want, p + 4, x->len) != 0) {
			vf_violation("C12/retransmit/body-differs", "transmission %d of request %d (ctx %d): body differs from the original", x->wire + 1, xi, x->ctx);
		}
		free(want);
	}
	// a frame that was already partly read when the last fence was taken is
	// "in flight", not a new transmission
	bool exempt       = c->exempt_partial;
	c->exempt_partial = false;
	if (x->id == 0) {
		x->id = id;
	} else if (x->id != id) {
		vf_violation("C12/retransmit/id-changed", "transmission %d of request %d (ctx %d, resend %s) has id %08x, the original had %08x", x->wire + 1, xi, x->ctx, rn(xr), id, x->id);
	}
	x->wire++;
	if (x->wire == 1) {
		x->t_first_wire = now;
		x->ref_first    = atomic_load(&refticks);
	}
	if (x->wire > 1) {
		bool loss = x->last_conn != c->serial && G.serial_closed[x->last_conn];
		if (xr < 0) {
			vf_violation("C12/no-retry/on-wire-twice", "resend disabled, but request %d (ctx %d, id %08x) was put on the wire %d times (%s, %ld ms after the previous one; last fault %s)", xi, x->ctx, id, x->wire,
			    loss ? "after its connection was lost" : "previous connection still open", (long) ((now - x->t_last_wire) / 1000000), fname[atomic_load(&G.last_fault_kind)]);
		}
		if (loss) {
			G.retx_loss++;
			x->loss_copies++;
		} else {
			G.retx_timer++;
			x->timer_retx = true;
			if (r_timer(xr) && (long) ((now - x->t_last_wire) / 1000000) < xr - G.c.tick_ms - 5) {
				// not part of the property (it only says when a copy is due):
				// today the timer re-sends on every tick once RESENDTIME has
				// passed (DESIGN 9.6); by read times, so only a statistic
				vf_stat("timer_copies_closer_than_resendtime", 1);
			}
		}
		vf_class("retx/%s/%s/after-%s", loss ? "pipe-loss" : "timer", rn(xr), fname[atomic_load(&G.last_fault_kind)]);
		if (G.c.listen && loss) {
			vf_class("retx-listen/pipe-loss/%s/redial%d/after-%s", rn(xr), G.c.redial, fname[atomic_load(&G.last_fault_kind)]);
		}
		if (x->wire == 3) {
			vf_class("retx/nth>=3/%s/%s", loss ? "pipe-loss" : "timer", rn(xr));
			if (x->loss_copies == 0) {
				// second and third copy both by the timer, connection kept
				vf_class("retx/third-by-timer/%s/%s%s", G.c.tran ? "ipc" : "tcp", rn(xr), G.c.reploss ? "/repeated-loss-plan" : "");
			}
		}
		if (x->wire == 2 && !loss && r_timer(xr)) {
			// first timer retransmission while the connection of the first
			// copy is still there: due RESENDTIME + one tick after the first
			// copy at the latest (both times are read times here)
			// late only if it is late by the wall clock AND by the library's
			// own reference timer chain AND no harness thread stalled
			long lat = (long) ((now - x->t_first_wire) / 1000000), due = xr + G.c.tick_ms;
			long lat_ref = (atomic_load(&refticks) - x->ref_first) * REF_TICK_MS;
			vf_stat("timer_retx_latency_judged", 1);
			vf_stat_max("timer_retx_latency_over_due_ms_max", lat - due);
			vf_stat_max("timer_retx_reflatency_over_due_ms_max", lat_ref - due);
			if (lat > due + LATE_SLACK_MS && lat_ref <= due + LATE_SLACK_MS) {
				vf_stat("timer_retx_late_with_slow_reference", 1);
			}
			if (lat > due + LATE_SLACK_MS && lat_ref > due + LATE_SLACK_MS) {
				if (atomic_load(&stall_last_ns) >= x->t_first_wire) {
					vf_stat("timer_retx_late_under_load", 1);
				} else if (!G.late) {
					G.late = true;
					snprintf(G.late_desc, sizeof(G.late_desc), "request %d (ctx %d, resend %s, tick %d ms): first copy read, connection kept, second copy read %ld ms later (%ld ms by a chain of %d ms nng sleeps; due within %ld ms; no harness thread stalled more than %d ms meanwhile)", xi,
					    x->ctx, rn(xr), G.c.tick_ms, lat, lat_ref, REF_TICK_MS, due, STALL_MS);
				}
			}
		}
	}
	if (x->fenced && exempt) {
		vf_stat("fenced_frame_in_flight_at_fence", 1);
	}
	if (x->fenced && !exempt) {
		vf_violation(x->state == X_ANSWERED ? "C12/terminated/retransmitted-after-answered"
		        : x->state == X_CANCELLED   ? "C12/terminated/retransmitted-after-cancel"
		        : x->state == X_REPLACED    ? "C12/terminated/retransmitted-after-replace"
		        : x->state == X_TIMEDOUT    ? "C12/terminated/retransmitted-after-timeout"
		                                    : "C12/terminated/retransmitted-after-reset",
		    "request %d (ctx %d, id %08x, resend %s) was %s %ld ms ago, yet transmission %d of it was read from the wire after the fence", xi, x->ctx, id, rn(xr), xname[x->state], (long) ((now - x->t_dead) / 1000000), x->wire);
	}
	x->last_conn   = c->serial;
	x->t_last_wire = now;
	pthread_mutex_unlock(&G.mx);

	if (c->doomed || atomic_load(&G.hold)) {
		return;
	}
	step *s = cur_step();
	if (s != NULL && s->kind == F_CLOSE_PARTIAL && ++c->partial_chances >= 4) {
		// four whole frames arrived in one piece on this connection: give up
		// waiting for a partly read one, lose it after reading
		vf_stat("close_partial_fallback_whole_frame", 1);
		conn_close(c, false);
		step_done();
		return;
	}
	if (s == NULL || f_reject(s->kind) || s->kind == F_IOFAULT || s->kind == F_CLOSE_ACCEPT || s->kind == F_CLOSE_UNREAD || s->kind == F_CLOSE_PARTIAL || (s->kind == F_RESTART && s->var == 1)) {
		maybe_stale(c, xi);
		send_reply(c, id, xi, -1, false);
		return;
	}
	switch (s->kind) {
	case F_CLOSE_READ:
		if (s->d_ms == 0) {
			lose_conn(c, s->kind);
		} else {
			c->doomed               = true;
			c->close_at             = now + ms2ns(s->d_ms);
			c->close_completes_step = true;
			G.consumed              = true;
			mark_fault(F_CLOSE_READ);
		}
		break;
	case F_CLOSE_HALF:
		send_reply(c, id, xi, s->var, false);
		lose_conn(c, s->kind);
		break;
	case F_CLOSE_REPLIED:
		if (G.c.rtl) {
			// hold until the subject's and the barrier's request are both
			// here; then answer the subject FIRST: the REQ socket handles the
			// frames of one pipe in order, so once the barrier's receive has
			// returned, the subject's reply has reached its context
			int who = G.x[xi].ctx == 0 ? 0 : 1;
			G.rtl_xi[who]   = xi;
			G.rtl_id[who]   = id;
			G.rtl_conn[who] = c->serial;
			if (G.rtl_xi[0] >= 0 && G.rtl_xi[1] >= 0 && G.rtl_conn[0] == G.rtl_conn[1]) {
				send_reply(c, G.rtl_id[0], G.rtl_xi[0], -1, false);
				pthread_mutex_lock(&G.mx);
				G.x[G.rtl_xi[0]].before_barrier = G.x[G.rtl_xi[0]].replied && c->fd >= 0;
				pthread_mutex_unlock(&G.mx);
				send_reply(c, G.rtl_id[1], G.rtl_xi[1], -1, false);
				if (c->fd >= 0) {
					c->doomed = true; // closed when the subject says so
					c->on_cmd = true;
					G.consumed = true;
					mark_fault(s->kind);
				} else {
					step_done();
				}
			}
			break;
		}
		send_reply(c, id, xi, -1, false);
		lose_conn(c, s->kind);
		break;
	case F_DROP:
		if (r_timer(xr)) {
			step_done();
		} else {
			// without a resend timer a dropped reply only ends with the
			// connection: close it a little later
			c->doomed               = true;
			c->close_at             = now + ms2ns(60);
			c->close_completes_step = true;
			G.consumed              = true;
			mark_fault(F_DROP);
		}
		break;
	case F_DELAY:
		if (G.ndl < MAXDELAYED) {
			G.dl[G.ndl++] = (delayed){ now + ms2ns(s->d_ms), c->serial, xi, id };
		}
		step_done();
		break;
	case F_RESTART:
		if (s->var == 2) {
			// answer first: the requester's NEXT request is then submitted
			// while nothing is connected
			send_reply(c, id, xi, -1, false);
		}
		do_restart(c->rep, s->d_ms);
		break;
	case F_KILLALL:
		do_killall(s);
		break;
	}
}

static void
conn_readable(conn *c)
{
	step *s = cur_step();
	if (c->hs_done && s != NULL && (s->kind == F_CLOSE_UNREAD || (s->kind == F_RESTART && s->var == 1))) {
		uint8_t b;
		ssize_t n = recv(c->fd, &b, 1, MSG_PEEK);
		if (n == 1) {
			if (s->kind == F_CLOSE_UNREAD) {
				conn_close(c, false); // unread data: the kernel sends RST
				step_done();
			} else {
				do_restart(c->rep, s->d_ms);
			}
			return;
		}
	}
	for (int reads = 0;; reads++) {
		if (c->fd < 0) {
			return;
		}
		if (reads >= 8) {
			// be fair to the other sockets and to the timers; the fence is
			// only acknowledged by a sweep that read everything
			G.sweep_truncated = true;
			return;
		}
		if (c->rxlen == sizeof(c->rx)) {
			vf_harness_fail("adversary rx buffer overflow");
		}
		ssize_t n = read(c->fd, c->rx + c->rxlen, sizeof(c->rx) - c->rxlen);
		if (n < 0 && errno == EINTR) {
			continue;
		}
		if (n < 0 && errno == EAGAIN) {
			return;
		}
		if (n <= 0) {
			bool done = c->close_after_hs && !c->hs_done;
			if (c->wrong_proto) {
				vf_stat("wrong_proto_connection_closed_by_requester", 1);
			}
			conn_close(c, true);
			if (done) {
				step_done();
			}
			return;
		}
		c->rxlen += (size_t) n;
		if (!c->hs_done) {
			static const uint8_t want[8] = { 0, 'S', 'P', 0, 0, 0x30, 0, 0 };
			if (c->rxlen < 8) {
				continue;
			}
			if (memcmp(c->rx, want, 8) != 0) {
				// a foreign dialer (see on_frame)
				bool done = c->close_after_hs;
				vf_stat("foreign_connections_dropped", 1);
				conn_close(c, false);
				if (done) {
					step_done();
				}
				return;
			}
			memmove(c->rx, c->rx + 8, c->rxlen - 8);
			c->rxlen -= 8;
			c->hs_done = true;
			if (c->close_after_hs) {
				conn_close(c, false);
				step_done();
				return;
			}
		}
		size_t hl = G.c.tran == 1 ? 9 : 8;
		while (c->fd >= 0 && c->rxlen >= hl) {
			if (G.c.tran == 1 && c->rx[0] != 1) {
				vf_harness_fail("ipc frame type %u", c->rx[0]);
			}
			uint64_t len = ((uint64_t) get32(c->rx + hl - 8) << 32) | get32(c->rx + hl - 4);
			if (len > sizeof(c->rx) - hl) {
				vf_harness_fail("request frame of %llu bytes", (unsigned long long) len);
			}
			if (c->rxlen < hl + len) {
				break;
			}
			on_frame(c, c->rx + hl, (size_t) len);
			if (c->fd < 0) {
				return;
			}
			memmove(c->rx, c->rx + hl + len, c->rxlen - hl - (size_t) len);
			c->rxlen -= hl + (size_t) len;
		}
		step *s2 = cur_step();
		if (c->fd >= 0 && s2 != NULL && s2->kind == F_CLOSE_PARTIAL && c->rxlen >= hl + 4 + 8) {
			// an incomplete request frame: the requester is still writing it
			// (or its tail is in flight).  Lose the connection now.
			uint32_t tag = get32(c->rx + hl + 4 + 4);
			int      xi  = (int) (tag & 0xffff);
			pthread_mutex_lock(&G.mx);
			if ((tag >> 16) == G.c.nonce && xi < G.nx) {
				G.x[xi].partial++;
			}
			pthread_mutex_unlock(&G.mx);
			vf_stat("requests_cut_while_partly_read", 1);
			vf_stat_max("partial_bytes_read_max", (long) c->rxlen);
			conn_close(c, false);
			step_done();
			return;
		}
	}
}

// A new connection of replier r (accepted, or dialled in listen cases).
static void
conn_new(int fd, int r, uint16_t peer_port)
{
	conn *c = NULL;
	for (int i = 0; i < MAXCONN; i++) {
		if (G.cn[i].fd < 0 && G.cn[i].close_at == 0) {
			c = &G.cn[i];
			break;
		}
	}
	if (c == NULL || G.next_serial >= MAXSERIAL) {
		vf_harness_fail("too many connections");
	}
	memset(c, 0, offsetof(conn, rx));
	c->fd        = fd;
	c->rep       = r;
	c->serial    = G.next_serial++;
	c->peer_port = peer_port;
	if (G.close_next_accept == 1) {
		G.close_next_accept = 0;
		conn_close(c, false);
		step_done();
		return;
	}
	if (G.close_next_accept == 2) {
		G.close_next_accept = 0;
		c->close_after_hs   = true;
	}
	uint8_t hello[8];
	vf_sp_hello(hello, 0x31);
	if (G.wrong_next) {
		// the address is held by some other SP service for one connection;
		// the requester refuses the pipe and closes (if it does not, we do
		// after 300 ms); either way the step is over when it is closed
		vf_sp_hello(hello, G.wrong_next == 1 ? 0x10 : 0x30);
		G.wrong_next            = 0;
		c->wrong_proto          = true;
		c->doomed               = true;
		c->close_at             = vf_now_ns() + ms2ns(300);
		c->close_completes_step = true;
		G.consumed              = true;
	}
	if (vf_fd_write_all(fd, hello, 8, 2000) != 0) {
		bool done = c->close_after_hs;
		conn_close(c, true);
		if (done) {
			step_done();
		}
	}
}

static void
do_accept(int r)
{
	for (;;) {
		struct sockaddr_in sin;
		socklen_t          sl = sizeof(sin);
		memset(&sin, 0, sizeof(sin));
		int fd = accept4(G.rep[r].lfd, G.c.tran == 0 ? (struct sockaddr *) &sin : NULL, G.c.tran == 0 ? &sl : NULL, SOCK_CLOEXEC | SOCK_NONBLOCK);
		if (fd < 0) {
			return;
		}
		if (G.c.tran == 0) {
			int on = 1;
			setsockopt(fd, IPPROTO_TCP, TCP_NODELAY, &on, sizeof(on));
		}
		conn_new(fd, r, G.c.tran == 0 ? ntohs(sin.sin_port) : 0);
	}
}

// listen cases: replier r connects to the REQ socket's listener
static void
do_dial(int r)
{
	replier *rp = &G.rep[r];
	int      fd = G.c.tran == 0 ? vf_tcp_connect(rp->port, 0) : vf_unix_connect(rp->path, 0);
	if (fd < 0) {
		// (the listener exists for the whole case; a full backlog at most)
		vf_stat("adversary_dial_failed", 1);
		rp->dial_at = vf_now_ns() + ms2ns(RECONN_MIN);
		return;
	}
	fcntl(fd, F_SETFL, fcntl(fd, F_GETFL) | O_NONBLOCK);
	vf_stat("adversary_dials", 1);
	conn_new(fd, r, rp->port);
}

static bool
rep_has_conn(int r)
{
	for (int i = 0; i < MAXCONN; i++) {
		if (G.cn[i].fd >= 0 && G.cn[i].rep == r) {
			return true;
		}
	}
	return false;
}

// The current step loses this connection from our side, now.  In listen cases
// with redial mode 2 the replier connects again FIRST and drops the old
// connection 8 ms later: the REQ socket then has a new, ready pipe while the
// pipe that carries the request is still to fail.
static void
lose_conn(conn *c, int kind)
{
	if (G.c.listen && G.c.redial == 2 && G.rep[c->rep].up && atomic_load(&G.dial_ok)) {
		do_dial(c->rep);
		c->doomed               = true;
		c->close_at             = vf_now_ns() + ms2ns(8);
		c->close_completes_step = true;
		G.consumed              = true;
		mark_fault(kind);
		vf_stat("adversary_dialled_before_dropping_old_connection", 1);
		return;
	}
	conn_close(c, false);
	step_done();
}

static void *
adversary(void *arg)
{
	(void) arg;
	bool     started = false;
	uint64_t last_it = 0;
	while (!atomic_load(&G.stop)) {
		stall_check(&last_it, 1000000);
		uint64_t now = vf_now_ns();
		if (!started && atomic_load(&G.go)) {
			started = true;
			if (G.c.nsteps > 0) {
				step_begin();
			} else {
				atomic_store(&G.plan_done, true);
			}
			atomic_store(&G.started, true);
		}
		for (int r = 0; r < G.c.nrep; r++) {
			replier *rp = &G.rep[r];
			if (rp->reopen_at != 0 && now >= rp->reopen_at) {
				rp->reopen_at = 0;
				rep_up(rp);
				if (rp->reopen_completes_step) {
					rp->reopen_completes_step = false;
					step_done();
				}
			}
		}
		if (started && G.cur < G.c.nsteps && !G.consumed && G.c.steps[G.cur].kind == F_REFUSE_PIPE && atomic_load(&G.refused)) {
			atomic_store(&G.refused, 0);
			vf_stat("pipes_refused_by_add_pre_callback", 1);
			step_done();
		}
		for (int i = 0; i < MAXCONN && G.c.rtl; i++) {
			conn *c = &G.cn[i];
			if (c->on_cmd && (c->fd < 0 || atomic_load(&G.close_cmd))) {
				c->on_cmd = false;
				conn_close(c, false);
				step_done();
			}
		}
		for (int r = 0; r < G.c.nrep && G.c.listen; r++) {
			replier *rp = &G.rep[r];
			if (rp->up && now >= rp->dial_at && atomic_load(&G.dial_ok) && !rep_has_conn(r)) {
				do_dial(r);
			}
		}
		for (int i = 0; i < MAXCONN; i++) {
			conn *c = &G.cn[i];
			if (c->close_at != 0 && (c->fd < 0 || now >= c->close_at)) {
				bool done               = c->close_completes_step;
				if (c->fd >= 0 && c->doomed && G.c.listen && G.c.redial == 2) {
					// is the replacement connection up (handshake read) by now?
					for (int k = 0; k < MAXCONN; k++) {
						if (k != i && G.cn[k].fd >= 0 && G.cn[k].rep == c->rep && G.cn[k].hs_done && !G.cn[k].doomed) {
							vf_stat("old_connection_dropped_while_new_one_up", 1);
							break;
						}
					}
				}
				c->close_at             = 0;
				c->close_completes_step = false;
				conn_close(c, false);
				if (done) {
					step_done();
				}
			}
		}
		for (int i = 0; i < G.ndl;) {
			if (now < G.dl[i].due) {
				i++;
				continue;
			}
			delayed d = G.dl[i];
			G.dl[i]   = G.dl[--G.ndl];
			bool sent = false;
			for (int k = 0; k < MAXCONN; k++) {
				if (G.cn[k].fd >= 0 && G.cn[k].serial == d.serial && !G.cn[k].doomed) {
					send_reply(&G.cn[k], d.id, d.xi, -1, false);
					mark_fault(-1);
					sent = true;
				}
			}
			vf_stat(sent ? "delayed_replies_sent" : "delayed_replies_conn_gone", 1);
		}
		if (started && G.cur < G.c.nsteps && !G.consumed && G.c.steps[G.cur].kind == F_IOFAULT) {
			pthread_mutex_lock(&G.mx);
			bool byclose = G.peer_closes > G.armed_peer_closes;
			bool fired   = byclose || G.frames - G.armed_frames >= G.c.steps[G.cur].var;
			pthread_mutex_unlock(&G.mx);
			if (fired) {
				if (byclose) {
					vf_stat("iofault_seen_as_requester_close", 1);
					if (G.c.nrep == 1) {
						// the requester closed its only connection and everything
						// it wrote there has been read: a request that was handed
						// to a pipe and never reached the wire was in (or queued
						// behind) the failed write
						long hit = 0;
						pthread_mutex_lock(&G.mx);
						for (int i = 0; i < G.nx; i++) {
							hit += G.x[i].state == X_OUT && G.x[i].handed && G.x[i].wire == 0;
						}
						pthread_mutex_unlock(&G.mx);
						vf_stat("iofault_1rep_seen_as_requester_close", 1);
						if (hit) {
							vf_stat("iofault_1rep_hit_handed_over_request", 1);
						}
					}
				}
				step_done();
			}
		}

		uint64_t      fence = atomic_load(&G.fence_req);
		struct pollfd pf[MAXREP + MAXCONN];
		G.sweep_truncated = false;
		int           who[MAXREP + MAXCONN], n = 0;
		for (int r = 0; r < G.c.nrep; r++) {
			if (G.rep[r].lfd >= 0) {
				pf[n]    = (struct pollfd){ G.rep[r].lfd, POLLIN, 0 };
				who[n++] = -1 - r;
			}
		}
		for (int i = 0; i < MAXCONN; i++) {
			if (G.cn[i].fd >= 0) {
				pf[n]    = (struct pollfd){ G.cn[i].fd, POLLIN, 0 };
				who[n++] = i;
			}
		}
		int pr = poll(pf, (nfds_t) n, 1);
		if (pr > 0) {
			for (int k = 0; k < n; k++) {
				if (pf[k].revents == 0) {
					continue;
				}
				if (who[k] < 0) {
					if (G.rep[-1 - who[k]].lfd == pf[k].fd) {
						do_accept(-1 - who[k]);
					}
				} else if (G.cn[who[k]].fd == pf[k].fd) {
					conn_readable(&G.cn[who[k]]);
				}
			}
		}
		for (int i = 0; i < MAXCONN && !G.sweep_truncated; i++) {
			if (G.cn[i].fd >= 0) {
				G.cn[i].exempt_partial = G.cn[i].hs_done && G.cn[i].rxlen > 0;
			}
		}
		if (!G.sweep_truncated) {
			atomic_store(&G.fence_ack, fence);
		}
	}
	vf_io_fail_send_at(0, 0);
	for (int i = 0; i < MAXCONN; i++) {
		if (G.cn[i].fd >= 0) {
			close(G.cn[i].fd);
			G.cn[i].fd = -1;
		}
	}
	for (int r = 0; r < G.c.nrep; r++) {
		if (G.rep[r].lfd >= 0) {
			close(G.rep[r].lfd);
		}
		if (G.rep[r].spare >= 0) {
			close(G.rep[r].spare);
		}
		if (G.c.tran == 1) {
			unlink(G.rep[r].path);
		}
	}
	return NULL;
}

// Ask the adversary to drain every socket; afterwards every request that
// ended at least 50 ms before the fence was requested is "fenced".
static void
fence(void)
{
	uint64_t t0 = vf_now_ns();
	uint64_t me = atomic_fetch_add(&G.fence_req, 1) + 1;
	while (atomic_load(&G.fence_ack) < me) {
		vf_usleep(200);
		if (vf_now_ns() - t0 > ms2ns(30000)) {
			vf_harness_fail("adversary thread does not answer the fence");
		}
	}
	pthread_mutex_lock(&G.mx);
	for (int i = 0; i < G.nx; i++) {
		xrec *x = &G.x[i];
		if (!x->fenced && x->state != X_OUT && x->state != X_ABANDONED && x->t_dead + ms2ns(50) <= t0) {
			x->fenced = true;
		}
	}
	pthread_mutex_unlock(&G.mx);
}

// --------------------------------------------------------------- requester
static void
cb_done(void *arg)
{
	atomic_store((atomic_int *) arg, 1);
}

static void
pipe_cb(nng_pipe p, nng_pipe_ev ev, void *arg)
{
	(void) arg;
	uint32_t id = (uint32_t) nng_pipe_id(p);
	if (ev == NNG_PIPE_EV_ADD_PRE) {
		nng_sockaddr sa;
		if (nng_pipe_self_addr(p, &sa) == 0 && sa.s_family == NNG_AF_INET) {
			atomic_store(&G.myport[ntohs(sa.s_in.sa_port)], 1);
		} else if (G.c.tran == 0) {
			vf_harness_fail("cannot learn the local address of a tcp pipe");
		}
		if (atomic_exchange(&G.refuse_next, 0)) {
			// the application's admission check says no, once
			nng_pipe_close(p);
			atomic_store(&G.refused, 1);
		}
		return;
	}
	// (the events of one socket are serialised by the library)
	pthread_mutex_lock(&G.mx);
	for (int k = 0; k < 64; k++) {
		if (ev == NNG_PIPE_EV_ADD_POST && G.added[k] == 0) {
			G.added[k] = id;
			atomic_fetch_add(&G.npipes, 1);
			break;
		}
		if (ev == NNG_PIPE_EV_REM_POST && G.added[k] == id) {
			G.added[k] = 0;
			atomic_fetch_add(&G.npipes, -1);
			break;
		}
	}
	pthread_mutex_unlock(&G.mx);
}

static void
set_miss(const char *what, int xi)
{
	pthread_mutex_lock(&G.mx);
	if (!G.miss) {
		xrec *x = &G.x[xi];
		G.miss          = true;
		G.miss_retry    = x->retry_ms;
		G.miss_fault    = atomic_load(&G.last_fault_kind);
		G.miss_bound_ms = (long) (bound_ns(x->retry_ms) / 1000000);
		snprintf(G.miss_desc, sizeof(G.miss_desc), "%s: request %d (ctx %d, resend %s, op %s, issued %ld ms ago, on the wire %d times, last fault %s %ld ms ago, plan %s)", what, xi, x->ctx, rn(x->retry_ms), opname[x->op],
		    (long) ((vf_now_ns() - x->t_issue) / 1000000), x->wire, fname[atomic_load(&G.last_fault_kind)], (long) ((vf_now_ns() - atomic_load(&G.t_fault)) / 1000000), atomic_load(&G.plan_done) ? "finished" : "unfinished");
	}
	pthread_mutex_unlock(&G.mx);
	atomic_store(&G.abort, true);
}

// wait for a completion flag; 0 done, 1 bounded-progress deadline passed,
// 2 another context aborted the case
static int
wait_flag(atomic_int *flag, uint64_t t_issue, uint64_t B_ns)
{
	for (;;) {
		if (atomic_load(flag)) {
			return 0;
		}
		uint64_t tf   = atomic_load(&G.t_fault);
		uint64_t base = tf > t_issue ? tf : t_issue;
		if (vf_now_ns() > base + B_ns) {
			return 1;
		}
		if (atomic_load(&G.abort)) {
			return 2;
		}
		vf_usleep(300);
	}
}

static void
sleep_unless(atomic_int *flag, int ms)
{
	uint64_t end = vf_now_ns() + ms2ns(ms);
	while (vf_now_ns() < end && !atomic_load(flag) && !atomic_load(&G.abort)) {
		vf_usleep(300);
	}
}

static int
x_new(rctx *rc, int op, bool final)
{
	pthread_mutex_lock(&G.mx);
	if (G.nx >= MAXX) {
		vf_harness_fail("too many exchanges in one case");
	}
	int   xi = G.nx;
	xrec *x  = &G.x[xi];
	memset(x, 0, sizeof(*x));
	x->ctx     = rc->idx;
	x->op      = op;
	x->final    = final;
	x->retry_ms = rc->retry_ms;
	if (r_timer(rc->retry_ms) && rc->retry_ms > G.max_timer_retry) {
		G.max_timer_retry = rc->retry_ms;
	}
	x->len     = G.c.big ? BIG_MIN + (size_t) (vf_mix64(G.c.key ^ (uint64_t) xi * 7919) % BIG_SPAN) : VF_BODY_MIN + (size_t) (vf_mix64(G.c.key ^ (uint64_t) xi * 7919) % 400);
	x->t_issue = vf_now_ns();
	x->state   = X_OUT;
	G.nx++; // published under the lock before the frame can reach the wire
	pthread_mutex_unlock(&G.mx);
	return xi;
}

static void
issue_send(rctx *rc, int xi)
{
	nng_msg *m;
	if (nng_msg_alloc(&m, G.x[xi].len) != 0) {
		vf_harness_fail("msg alloc");
	}
	vf_body_make(nng_msg_body(m), G.x[xi].len, x_tag(xi), x_seq(xi));
	if (atomic_load(&G.npipes) == 0) {
		pthread_mutex_lock(&G.mx);
		G.x[xi].nopipe = true;
		pthread_mutex_unlock(&G.mx);
		vf_stat("requests_submitted_with_no_pipe", 1);
	}
	nng_aio_set_msg(rc->sa, m);
	nng_aio_set_timeout(rc->sa, LONG_MS);
	atomic_store(&rc->sdone, 0);
	if (rc->is_sock) {
		nng_socket_send(G.sock, rc->sa);
	} else {
		nng_ctx_send(rc->ctx, rc->sa);
	}
}

static int
pick_op(rctx *rc, bool final)
{
	if (G.c.rtl && !final) {
		return rc->idx == 0 ? OP_LATE : OP_NORMAL;
	}
	if (final || !G.c.ops || vf_chance(&rc->r, 1, 3)) {
		return OP_NORMAL;
	}
	return 1 + (int) vf_below(&rc->r, OP_N - 1);
}

// Judge the end of the receive of exchange xi.  Returns true if it was
// answered.
static bool
judge(rctx *rc, int xi, int rv, nng_msg *m, uint64_t t_done)
{
	xrec *x  = &G.x[xi];
	bool  ok = false;
	char  where[96];
	snprintf(where, sizeof(where), "ctx %d%s request %d op %s resend %s", rc->idx, rc->is_sock ? " (socket)" : "", xi, opname[x->op], rn(x->retry_ms));
	pthread_mutex_lock(&G.mx);
	x->t_dead      = t_done;
	x->after_fault = atomic_load(&G.last_fault_kind);
	switch (rv) {
	case 0: {
		uint32_t tag = 0;
		uint64_t seq = 0;
		if (m == NULL || vf_body_check(nng_msg_body(m), nng_msg_len(m), &tag, &seq) != 0) {
			vf_violation("C12/reply/unrecognised", "%s: receive returned %zu bytes that no replier wrote", where, m ? nng_msg_len(m) : 0);
		} else if (tag != x_tag(xi) || seq != (x_seq(xi) | (1ULL << 63)) || nng_msg_len(m) != x_replen(xi)) {
			vf_violation("C12/reply/for-other-request", "%s: receive returned the reply to request %u (tag %08x), %s", where, tag & 0xffff, tag, (tag & 0xffff) < (uint32_t) G.nx ? xname[G.x[tag & 0xffff].state] : "unknown");
		} else {
			ok = true;
			vf_stat("replies_verified", 1);
			if (x->reply_seen_then_loss) {
				if (x->retry_ms < 0) {
					vf_stat("noretry_reply_then_loss_judged", 1);
				}
				vf_stat(x->retry_ms < 0 ? "noretry_reply_then_loss_reply_delivered" : "retry_reply_then_loss_reply_delivered", 1);
			}
			if (x->partial > 0) {
				vf_stat("answered_after_partial_transmission", 1);
			}
			if (x->nopipe && x->timer_retx) {
				// submitted during an outage, first copy lost on a live
				// connection, rescued by the resend timer
				vf_stat("nopipe_submit_rescued_by_timer", 1);
			}
			if (x->wire >= 3 && x->loss_copies == 0) {
				vf_stat("third_copy_by_timer_answered", 1);
				if (G.c.reploss) {
					vf_stat("third_copy_by_timer_answered_in_repeated_loss_plan", 1);
				}
			}
			if (x->wire > 1) {
				vf_stat("answered_after_retransmission", 1);
				if (x->retry_ms == LONG_RETRY_MS) {
					// only the re-queue on pipe loss can have done this
					vf_stat("longretry_answered_after_retransmission", 1);
				}
			}
		}
		x->state = X_ANSWERED;
		break;
	}
	case NNG_ECONNRESET:
		if (x->retry_ms >= 0) {
			vf_violation("C12/retry/receive-failed-connreset", "%s: receive failed with NNG_ECONNRESET although resending is enabled (on the wire %d times, last fault %s)", where, x->wire, fname[atomic_load(&G.last_fault_kind)]);
		} else {
			vf_stat("noretry_econnreset", 1);
			vf_class("noretry/econnreset/%s/after-%s/wire%d", opname[x->op], fname[atomic_load(&G.last_fault_kind)], x->wire);
			if (x->reply_seen_then_loss) {
				// the reply had reached the context, the connection was lost
				// AFTER that: nothing to wait for, nothing was lost
				char key[96];
				vf_stat("noretry_reply_then_loss_judged", 1);
				snprintf(key, sizeof(key), "C12/no-retry/reply-discarded-by-later-loss/%s", rc->is_sock ? "socket" : "ctx");
				vf_violation(key, "%s: resend disabled; the replier wrote the complete reply to this request and then, on the same connection, the reply to another context's request; that context's receive returned its reply (so this reply had been handled by the socket before), then the connection was closed and the pipe removed, and only then this receive was posted: it failed with NNG_ECONNRESET instead of returning the reply", where);
			}
		}
		x->state = X_RESET;
		break;
	case NNG_ETIMEDOUT:
		x->state = X_TIMEDOUT;
		if (x->op == OP_TIMEOUT) {
			vf_stat("terminated_by_timeout", 1);
		}
		break;
	case NNG_ECANCELED:
		if (x->op == OP_CANCEL) {
			x->state = X_CANCELLED;
			vf_stat("terminated_by_cancel", 1);
		} else if (x->op == OP_REPLACE) {
			x->state = X_REPLACED;
			vf_stat("terminated_by_replace", 1);
		} else {
			x->state = X_CANCELLED;
			vf_violation("C12/retry/receive-failed-canceled", "%s: receive failed with NNG_ECANCELED, nobody cancelled it", where);
		}
		break;
	default:
		x->state = X_RESET;
		vf_violation("C12/retry/receive-failed-other", "%s: receive failed with %s (on the wire %d times, last fault %s)", where, nng_strerror(rv), x->wire, fname[atomic_load(&G.last_fault_kind)]);
		break;
	}
	if (x->state != X_ANSWERED && x->state != X_RESET) {
		vf_class("term/%s/%s", xname[x->state], rn(x->retry_ms));
	}
	if (x->retry_ms < 0 && x->state == X_ANSWERED) {
		vf_stat("noretry_answered", 1);
	}
	pthread_mutex_unlock(&G.mx);
	if (m != NULL) {
		nng_msg_free(m);
	}
	return ok;
}

// Submit the receive of the current exchange on rc->ra.
static uint64_t
post_recv(rctx *rc, long tmo_ms)
{
	nng_aio_set_timeout(rc->ra, (nng_duration) tmo_ms);
	atomic_store(&rc->rdone, 0);
	rc->t_post_prev = rc->t_post;
	rc->t_post      = vf_now_ns();
	if (rc->nposted > 0 && rc->prev_rv != NNG_ETIMEDOUT) {
		// precondition of the known expire-loop window: the previous
		// operation of this aio was picked for expiry, yet ended naturally
		watchrec *w = &W[rc->idx];
		unsigned  n = atomic_load(&w->npick);
		if (n > 0 && atomic_load(&w->pick[(n - 1) % NPICK]) >= rc->t_post_prev) {
			vf_stat("recv_reposted_after_expire_pick_and_natural_end", 1);
		}
	}
	vf_stat("recv_posts_watched", 1);
	if (rc->is_sock) {
		nng_socket_recv(G.sock, rc->ra);
	} else {
		nng_ctx_recv(rc->ctx, rc->ra);
	}
	return rc->t_post;
}

// "the receive times out" ends a request only when the timeout the
// application asked for has elapsed (one-sided: t_done is taken after the
// completion and t_post before the submission, so the elapsed time is
// over-estimated).  Call once for every receive that completed on rc->ra.
// An early NNG_ETIMEDOUT is filed under the known key only with the evidence of
// the known window: the expire loop picked this aio during its PREVIOUS
// submission (after that one was posted, before this one was), that submission
// did not itself end with NNG_ETIMEDOUT (then the pick's cancel call was spent on
// it), the pick is recent (the expire thread sits on a picked aio only while it
// is delayed; older only if a harness thread was starved too), and the expire
// loop did not pick the aio during this submission.  Returns true if early.
static bool
check_recv_timeout(rctx *rc, int xi, int rv, long tmo_ms, uint64_t t_done)
{
	xrec    *x       = &G.x[xi];
	long     el_ms   = (long) ((t_done - rc->t_post) / 1000000);
	bool     early   = false;
	uint64_t prev    = 0, cur = 0;
	watchrec *w      = &W[rc->idx];
	unsigned  n      = atomic_load(&w->npick);
	for (unsigned k = 0; k < NPICK && k < n; k++) {
		uint64_t t = atomic_load(&w->pick[(n - 1 - k) % NPICK]);
		if (t >= rc->t_post) {
			cur = cur ? cur : t;
		} else if (rc->nposted > 0 && t >= rc->t_post_prev) {
			prev = prev ? prev : t;
		}
	}
	if (rv == NNG_ETIMEDOUT && el_ms + 2 < tmo_ms) {
		const char *why   = NULL;
		uint64_t    stall = atomic_load(&stall_last_ns);
		char        key[96];
		early = true;
		if (rc->nposted == 0) {
			why = "first-use-of-aio";
		} else if (cur != 0) {
			why = "expired-in-this-submission";
		} else if (prev == 0) {
			why = "no-expire-pick";
		} else if (rc->prev_rv == NNG_ETIMEDOUT) {
			why = "previous-receive-timed-out";
		} else if (rc->t_post - prev >= ms2ns(250) && stall < prev) {
			why = "expire-pick-not-recent";
		}
		if (why == NULL) {
			vf_stat("timeout_early_classified_stale_expiry_cancel", 1);
			snprintf(key, sizeof(key), "C12/timeout-early/stale-expiry-cancel");
		} else {
			snprintf(key, sizeof(key), "C12/timeout-early/unexplained/%s", why);
		}
		vf_violation(key, "ctx %d request %d op %s resend %s: receive with a %ld ms timeout failed with NNG_ETIMEDOUT after %ld ms (%d receives earlier on this aio, the previous one ended with %s; expire loop picked this aio during the previous submission: %s%ld ms before this one was posted, during this submission: %s; the request was on the wire %d times)",
		    rc->idx, xi, opname[x->op], rn(x->retry_ms), tmo_ms, el_ms, rc->nposted, rc->nposted ? (rc->prev_rv ? nng_strerror(rc->prev_rv) : "a reply") : "-", prev ? "" : "never; ", prev ? (long) ((rc->t_post - prev) / 1000000) : 0L, cur ? "yes" : "no", x->wire);
	} else if (rv == NNG_ETIMEDOUT) {
		// positive control of the witness: a timeout that is due comes
		// through an expire-loop pick of this very submission
		vf_stat("recv_timeouts_on_time", 1);
		if (cur != 0) {
			vf_stat("recv_timeouts_on_time_with_expire_pick_seen", 1);
		}
	}
	rc->nposted++;
	rc->prev_rv = rv;
	return early;
}

static void
abandon(rctx *rc, int xi, bool posted)
{
	// bounded-progress miss or abort: stop the receive, do not judge it
	if (posted) {
		nng_aio_cancel(rc->ra);
		nng_aio_wait(rc->ra);
		if (nng_aio_result(rc->ra) == 0 && nng_aio_get_msg(rc->ra) != NULL) {
			nng_msg_free(nng_aio_get_msg(rc->ra));
			nng_aio_set_msg(rc->ra, NULL);
		}
	}
	pthread_mutex_lock(&G.mx);
	G.x[xi].state = X_ABANDONED;
	pthread_mutex_unlock(&G.mx);
}

// Give a context its own resend time (the socket-as-context gets it through
// the socket option, which leaves the open contexts alone).
static void
set_ctx_retry(rctx *rc, int retry_ms)
{
	nng_duration d = retry_ms < 0 ? NNG_DURATION_INFINITE : retry_ms;
	int          rv;
	if (rc->is_sock) {
		rv = nng_socket_set_ms(G.sock, NNG_OPT_REQ_RESENDTIME, d);
		vf_stat("resendtime_set_on_socket_after_ctx_open", 1);
	} else {
		rv = nng_ctx_set_ms(rc->ctx, NNG_OPT_REQ_RESENDTIME, d);
		vf_stat("resendtime_set_on_ctx", 1);
	}
	if (rv != 0) {
		vf_harness_fail("set resend time: %s", nng_strerror(rv));
	}
	rc->retry_ms = retry_ms;
}

static int
pick_retry(vf_rng *r)
{
	static const int v[4] = { 20, 50, -1, LONG_RETRY_MS };
	return v[vf_below(r, 4)];
}

static const char *gapname[4] = { "", "ctx-close", "recv-cancel", "recv-timeout" };

// History plans: context c1 completes an exchange and then leaves the
// socket's retry queue (closed / receive cancelled / receive timed out), the
// socket stays idle for more than two resend ticks, and only then the plan
// proper (a dropped first copy on a connection that stays up) runs on a
// context that has not sent anything yet.  Returns false if the prelude
// itself did not work out.
static bool
prelude_step(rctx *rc, int op, long tmo_ms, int *rvp)
{
	int      xi = x_new(rc, op, false);
	xrec    *x  = &G.x[xi];
	uint64_t B  = bound_ns(x->retry_ms);
	issue_send(rc, xi);
	if (wait_flag(&rc->sdone, x->t_issue, B) != 0) {
		set_miss("send not accepted within the bound (history prelude)", xi);
		nng_aio_cancel(rc->sa);
		nng_aio_wait(rc->sa);
		if (nng_aio_result(rc->sa) != 0 && nng_aio_get_msg(rc->sa) != NULL) {
			nng_msg_free(nng_aio_get_msg(rc->sa));
		}
		abandon(rc, xi, false);
		return false;
	}
	nng_aio_wait(rc->sa);
	if (nng_aio_result(rc->sa) != 0) {
		vf_harness_fail("history prelude: send failed: %s", nng_strerror(nng_aio_result(rc->sa)));
	}
	post_recv(rc, tmo_ms);
	uint64_t t_term = 0;
	if (op == OP_CANCEL) {
		vf_msleep(3);
		nng_aio_cancel(rc->ra);
		t_term = vf_now_ns();
	}
	if (wait_flag(&rc->rdone, x->t_issue, B) != 0) {
		set_miss("receive not answered within the bound (history prelude)", xi);
		abandon(rc, xi, true);
		return false;
	}
	uint64_t t_done = vf_now_ns();
	nng_aio_wait(rc->ra);
	int      rv = (int) nng_aio_result(rc->ra);
	nng_msg *m  = rv == 0 ? nng_aio_get_msg(rc->ra) : NULL;
	nng_aio_set_msg(rc->ra, NULL);
	check_recv_timeout(rc, xi, rv, tmo_ms, t_done);
	judge(rc, xi, rv, m, t_term > t_done ? t_term : t_done);
	vf_stat("exchanges", 1);
	*rvp = rv;
	return true;
}

static bool
prelude(rctx *c1, int gap, bool *closed)
{
	int rv = 0;
	if (!prelude_step(c1, OP_NORMAL, LONG_MS, &rv) || rv != 0) {
		return false;
	}
	if (gap == 1) {
		nng_ctx_close(c1->ctx);
		*closed = true;
	} else {
		atomic_store(&G.hold, true);
		bool ok = prelude_step(c1, gap == 2 ? OP_CANCEL : OP_TIMEOUT, gap == 2 ? LONG_MS : 5, &rv);
		atomic_store(&G.hold, false);
		if (!ok || rv != (gap == 2 ? NNG_ECANCELED : NNG_ETIMEDOUT)) {
			return false;
		}
	}
	// more than two ticks with nothing outstanding on the socket
	vf_msleep(3 * G.c.tick_ms + 15);
	return true;
}

static void *
requester(void *arg)
{
	rctx *rc  = arg;
	int   pre = -1;
	for (int count = 0;; count++) {
		int xi, w;
		if (atomic_load(&G.abort)) {
			break;
		}
		if (count >= MAXPER) {
			vf_harness_fail("ctx %d: %d exchanges and still no quiet one", rc->idx, count);
		}
		if (pre >= 0) {
			xi  = pre;
			pre = -1;
		} else {
			bool final = atomic_load(&G.plan_done);
			if (G.c.mixed && vf_chance(&rc->r, 1, 3)) {
				// between two exchanges: the next request runs under a
				// different resend time than the previous one
				set_ctx_retry(rc, pick_retry(&rc->r));
			}
			xi = x_new(rc, pick_op(rc, final), final);
			issue_send(rc, xi);
		}
		xrec    *x   = &G.x[xi];
		uint64_t B   = bound_ns(x->retry_ms);
		uint32_t eff = r_timer(x->retry_ms) ? (uint32_t) x->retry_ms : 40; // scale of the requester's own delays
		// the send completes when the request has been handed to a pipe
		if ((w = wait_flag(&rc->sdone, x->t_issue, B)) != 0) {
			if (w == 1) {
				set_miss("send not accepted within the bound", xi);
			}
			nng_aio_cancel(rc->sa);
		}
		nng_aio_wait(rc->sa);
		int rv = (int) nng_aio_result(rc->sa);
		if (rv != 0) {
			nng_msg *m = nng_aio_get_msg(rc->sa);
			if (m != NULL) {
				nng_msg_free(m);
			}
			if (w == 0 && rv == NNG_ETIMEDOUT) {
				set_miss("send timed out", xi);
			} else if (w == 0) {
				vf_violation("C12/retry/send-failed", "ctx %d request %d: send failed with %s", rc->idx, xi, nng_strerror(rv));
				atomic_store(&G.abort, true);
			}
			pthread_mutex_lock(&G.mx);
			x->state = X_ABANDONED;
			pthread_mutex_unlock(&G.mx);
			break;
		}
		if (w != 0) {
			// completed while we were giving up
			abandon(rc, xi, false);
			break;
		}
		pthread_mutex_lock(&G.mx);
		x->handed   = true;
		x->t_handed = vf_now_ns();
		pthread_mutex_unlock(&G.mx);
		if (G.c.rtl && rc->idx == 0 && !x->final && !atomic_load(&G.close_cmd)) {
			// subject of a reply-then-loss plan: wait until the barrier context
			// got its reply (ours was written and handled before), have the
			// connection closed, wait until the pipe is gone; only logical
			// conditions - if one does not come true in time, nothing is judged
			uint64_t t0 = vf_now_ns();
			bool     seen, gone;
			while (!(seen = atomic_load(&G.barrier_done)) && vf_now_ns() - t0 < B && !atomic_load(&G.abort)) {
				vf_usleep(300);
			}
			atomic_store(&G.close_cmd, true);
			while (!(gone = atomic_load(&G.npipes) == 0) && vf_now_ns() - t0 < 2 * B && !atomic_load(&G.abort)) {
				vf_usleep(300);
			}
			pthread_mutex_lock(&G.mx);
			x->reply_seen_then_loss = seen && gone && x->before_barrier;
			pthread_mutex_unlock(&G.mx);
			vf_stat(x->reply_seen_then_loss ? "reply_then_loss_sequence_established" : "reply_then_loss_sequence_not_established", 1);
		} else if (x->op == OP_LATE) {
			vf_msleep((int) vf_range(&rc->r, 1, 40));
		}
		long tmo_ms = x->op == OP_TIMEOUT ? 1 + (long) vf_below(&rc->r, eff * 2) : LONG_MS;
		post_recv(rc, tmo_ms);
		uint64_t t_term = 0;
		if (x->op == OP_CANCEL) {
			sleep_unless(&rc->rdone, vf_chance(&rc->r, 1, 3) ? 0 : (int) vf_below(&rc->r, eff * 3 / 2));
			nng_aio_cancel(rc->ra);
			t_term = vf_now_ns();
		} else if (x->op == OP_REPLACE) {
			sleep_unless(&rc->rdone, vf_chance(&rc->r, 1, 3) ? 0 : (int) vf_below(&rc->r, eff * 3 / 2));
			if (!atomic_load(&rc->rdone) && !atomic_load(&G.abort)) {
				bool final = atomic_load(&G.plan_done);
				pre        = x_new(rc, pick_op(rc, final), final);
				issue_send(rc, pre); // cancels the pending receive
				t_term = vf_now_ns();
			}
		}
		if ((w = wait_flag(&rc->rdone, x->t_issue, B)) != 0) {
			if (w == 1) {
				set_miss(x->retry_ms < 0 ? "receive neither answered nor failed with NNG_ECONNRESET within the bound" : "receive not answered within the bound", xi);
			}
			abandon(rc, xi, true);
			break;
		}
		uint64_t t_done = vf_now_ns();
		nng_aio_wait(rc->ra);
		rv           = (int) nng_aio_result(rc->ra);
		nng_msg *m   = rv == 0 ? nng_aio_get_msg(rc->ra) : NULL;
		nng_aio_set_msg(rc->ra, NULL);
		if (check_recv_timeout(rc, xi, rv, tmo_ms, t_done)) {
			// reported; the request is over all the same
		} else if (rv == NNG_ETIMEDOUT && x->op != OP_TIMEOUT) {
			// LONG_MS expired: cannot happen before the bound
			set_miss("receive timed out", xi);
			pthread_mutex_lock(&G.mx);
			x->state = X_ABANDONED;
			pthread_mutex_unlock(&G.mx);
			break;
		}
		if (rv == NNG_ECANCELED && t_term != 0 && t_term > t_done) {
			t_done = t_term;
		}
		bool answered = judge(rc, xi, rv, m, t_done);
		vf_stat("exchanges", 1);
		if (G.c.rtl && rc->idx == 1 && answered) {
			atomic_store(&G.barrier_done, true);
		}
		if (x->final && answered && pre < 0) {
			break;
		}
		if ((x->state == X_CANCELLED || x->state == X_TIMEDOUT) && pre < 0 && vf_chance(&rc->r, 1, 2)) {
			// keep the context idle past the fence and the resend time: the
			// terminated request must stay off the wire (the next send would
			// purge it anyway)
			atomic_int never = 0;
			sleep_unless(&never, r_timer(x->retry_ms) ? x->retry_ms + 2 * G.c.tick_ms + 75 : 75);
			vf_stat("idle_watch_after_termination", 1);
		} else if (answered && !x->final && G.c.nctx > 1 && pre < 0 && vf_chance(&rc->r, 1, 6)) {
			// an answered, idle context stays on the list of the pipe that
			// carried its request while the others go on and faults strike
			atomic_int never = 0;
			sleep_unless(&never, (int) vf_range(&rc->r, 10, 60));
			vf_stat("idle_pauses_after_answer", 1);
		}
		if (!atomic_load(&G.plan_done) && pre < 0) {
			// think time, so that an outage is not met by hundreds of
			// exchanges through the other replier
			vf_msleep(1 + (int) vf_below(&rc->r, 3));
		}
	}
	if (pre >= 0) {
		// a replacing send is still in flight: reap it
		nng_aio_cancel(rc->sa);
		nng_aio_wait(rc->sa);
		if (nng_aio_result(rc->sa) != 0 && nng_aio_get_msg(rc->sa) != NULL) {
			nng_msg_free(nng_aio_get_msg(rc->sa));
		}
		pthread_mutex_lock(&G.mx);
		G.x[pre].state = X_ABANDONED;
		pthread_mutex_unlock(&G.mx);
	}
	return NULL;
}

// --------------------------------------------------------------- one case
static int
run_case(long idx, const casecfg *cfg, bool recheck)
{
	rctx       rc[MAXCTX];
	nng_dialer dl[MAXREP];
	int        rv;

	memset(&G.x, 0, sizeof(G.x));
	G.c  = *cfg;
	G.nx = 0;
	memset(G.serial_closed, 0, sizeof(G.serial_closed));
	G.next_serial = 0;
	G.ndl = G.cur = 0;
	G.consumed          = false;
	G.close_next_accept = 0;
	G.wrong_next        = 0;
	atomic_store(&G.refuse_next, 0);
	atomic_store(&G.refused, 0);
	memset(G.added, 0, sizeof(G.added));
	G.frames = G.armed_frames = G.peer_closes = G.armed_peer_closes = 0;
	atomic_store(&G.last_fault_kind, cfg->nsteps ? cfg->steps[0].kind : F_DROP);
	G.retx_loss = G.retx_timer = 0;
	memset(G.faults, 0, sizeof(G.faults));
	vf_rng_seed(&G.ar, cfg->key, 0xad);
	atomic_store(&G.stop, false);
	atomic_store(&G.go, false);
	atomic_store(&G.started, false);
	atomic_store(&G.hold, false);
	atomic_store(&G.dial_ok, false);
	atomic_store(&G.barrier_done, false);
	atomic_store(&G.close_cmd, false);
	G.rtl_xi[0] = G.rtl_xi[1] = -1;
	atomic_store(&G.t_fault, 0);
	atomic_store(&G.plan_done, false);
	atomic_store(&G.fence_req, 0);
	atomic_store(&G.fence_ack, 0);
	atomic_store(&G.npipes, 0);
	for (int i = 0; i < 65536; i++) {
		atomic_store_explicit(&G.myport[i], 0, memory_order_relaxed);
	}
	atomic_store(&G.abort, false);
	G.miss = G.late = false;
	G.max_timer_retry = 0;
	for (int i = 0; i < MAXCONN; i++) {
		G.cn[i].fd = -1;
	}
	vf_case_begin(idx, "%s tran=%s resend=%s tick=%d ctx=%d%s rep=%d plan=%s%s ops=%d stale=%d jit=%d big=%d listen=%d/%d key=%llx%s", cfg->enumerated ? "enum" : "sampled", cfg->tran ? "ipc" : "tcp", cfg->rname, cfg->tick_ms, cfg->nctx,
	    cfg->use_sock ? "+sock" : "", cfg->nrep, gapname[cfg->gap], cfg->shape, cfg->ops, cfg->stale, cfg->jit_permille, cfg->big, cfg->listen, cfg->redial, (unsigned long long) cfg->key, recheck ? " (recheck)" : "");
	vf_watchdog(90);

	for (int r = 0; r < cfg->nrep; r++) {
		replier *rp = &G.rep[r];
		memset(rp, 0, sizeof(*rp));
		rp->lfd = rp->spare = -1;
		snprintf(rp->path, sizeof(rp->path), "/tmp/vf-c12-%d-%d.sock", (int) getpid(), r);
		rep_up(rp); // (listen cases: it dials once the REQ socket's listeners exist)
	}
	if (pthread_create(&G.ath, NULL, adversary, NULL) != 0) {
		vf_harness_fail("pthread_create");
	}

	if (nng_req0_open(&G.sock) != 0) {
		vf_harness_fail("req open");
	}
	atomic_store(&ref_stop, false);
	if (nng_aio_alloc(&ref_aio, ref_cb, NULL) != 0) {
		vf_harness_fail("aio alloc");
	}
	nng_sleep_aio(REF_TICK_MS, ref_aio);
	nng_socket_set_ms(G.sock, NNG_OPT_REQ_RESENDTIME, cfg->retry_ms < 0 ? NNG_DURATION_INFINITE : cfg->retry_ms);
	nng_socket_set_ms(G.sock, NNG_OPT_REQ_RESENDTICK, cfg->tick_ms);
	nng_pipe_notify(G.sock, NNG_PIPE_EV_ADD_PRE, pipe_cb, NULL);
	nng_pipe_notify(G.sock, NNG_PIPE_EV_ADD_POST, pipe_cb, NULL);
	nng_pipe_notify(G.sock, NNG_PIPE_EV_REM_POST, pipe_cb, NULL);
	for (int r = 0; r < cfg->nrep && cfg->listen; r++) {
		char         url[160];
		nng_listener l;
		int          port = 0;
		if (cfg->tran == 0) {
			snprintf(url, sizeof(url), "tcp://127.0.0.1:0");
		} else {
			unlink(G.rep[r].path);
			snprintf(url, sizeof(url), "ipc://%s", G.rep[r].path);
		}
		if ((rv = nng_listener_create(&l, G.sock, url)) != 0 || (rv = nng_listener_start(l, 0)) != 0) {
			vf_harness_fail("listener %s: %s", url, nng_strerror(rv));
		}
		if (cfg->tran == 0) {
			if ((rv = nng_listener_get_int(l, NNG_OPT_BOUND_PORT, &port)) != 0 || port <= 0) {
				vf_harness_fail("bound port: %s", nng_strerror(rv));
			}
			G.rep[r].port = (uint16_t) port;
		}
	}
	atomic_store(&G.dial_ok, cfg->listen);
	for (int r = 0; r < cfg->nrep && !cfg->listen; r++) {
		char url[160];
		if (cfg->tran == 0) {
			snprintf(url, sizeof(url), "tcp://127.0.0.1:%u", G.rep[r].port);
		} else {
			snprintf(url, sizeof(url), "ipc://%s", G.rep[r].path);
		}
		if ((rv = nng_dialer_create(&dl[r], G.sock, url)) != 0) {
			vf_harness_fail("dialer create %s: %s", url, nng_strerror(rv));
		}
		nng_dialer_set_ms(dl[r], NNG_OPT_RECONNMINT, RECONN_MIN);
		nng_dialer_set_ms(dl[r], NNG_OPT_RECONNMAXT, RECONN_MAX);
		if ((rv = nng_dialer_start(dl[r], NNG_FLAG_NONBLOCK)) != 0) {
			vf_harness_fail("dialer start: %s", nng_strerror(rv));
		}
	}
	for (uint64_t t0 = vf_now_ns(); atomic_load(&G.npipes) < cfg->nrep;) {
		if (vf_now_ns() - t0 > ms2ns(8000)) {
			vf_harness_fail("initial connections not established");
		}
		vf_usleep(300);
	}
	for (int i = 0; i < cfg->nctx; i++) {
		memset(&rc[i], 0, sizeof(rc[i]));
		rc[i].idx     = i;
		rc[i].is_sock = cfg->use_sock && i == 0;
		vf_rng_seed(&rc[i].r, cfg->key, 0x100 + (uint64_t) i);
		if (!rc[i].is_sock && (rv = nng_ctx_open(&rc[i].ctx, G.sock)) != 0) {
			vf_harness_fail("ctx open: %s", nng_strerror(rv));
		}
		if (nng_aio_alloc(&rc[i].sa, cb_done, &rc[i].sdone) != 0 || nng_aio_alloc(&rc[i].ra, cb_done, &rc[i].rdone) != 0) {
			vf_harness_fail("aio alloc");
		}
		rc[i].retry_ms = cfg->retry_ms; // inherited from the socket at nng_ctx_open
		atomic_store(&W[i].npick, 0);
		atomic_store(&W[i].aio, (const void *) rc[i].ra);
	}
	if (cfg->mixed) {
		// own values per context; the socket option is changed after the
		// contexts were opened (they must keep theirs)
		for (int i = cfg->nctx - 1; i >= 0; i--) {
			if (rc[i].is_sock || vf_chance(&rc[i].r, 2, 3)) {
				set_ctx_retry(&rc[i], pick_retry(&rc[i].r));
			}
		}
	}
	if (cfg->jit_permille > 0) {
		vf_pt_jitter(cfg->key, cfg->jit_permille, cfg->jit_us);
	}
	if (getenv("C12_WIDEN_EXPIRE_US") != NULL) {
		// validation aid only: hold the expire thread between its pick and
		// the cancel call, which makes the known window easy to hit
		int us = atoi(getenv("C12_WIDEN_EXPIRE_US"));
		vf_pt_target(NNI_VP_AIO_EXPIRE_BEFORE_CANCEL, 1000, us / 2, us);
	}
	if (cfg->big) {
		// nng's own sends move at most 8 kB per call from now on
		vf_io_plan(VF_IO_RANDOM, 8192, VF_IO_FULL, 0, cfg->key);
	}
	bool c1_closed = false, history_ok = true;
	if (cfg->gap) {
		history_ok = prelude(&rc[1], cfg->gap, &c1_closed);
	}
	// the plan starts now (an iofault first step is armed on idle pipes)
	atomic_store(&G.go, true);
	while (!atomic_load(&G.started)) {
		vf_usleep(200);
	}
	for (int i = 0; i < cfg->nctx; i++) {
		if (cfg->gap && (i == 1 || !history_ok)) {
			continue; // context 1 only plays the prelude
		}
		if (pthread_create(&rc[i].th, NULL, requester, &rc[i]) != 0) {
			vf_harness_fail("pthread_create");
		}
	}
	// fences while the contexts work
	for (;;) {
		bool alive = false;
		for (int i = 0; i < cfg->nctx; i++) {
			if (rc[i].th != 0) {
				if (pthread_tryjoin_np(rc[i].th, NULL) == 0) {
					rc[i].th = 0;
				} else {
					alive = true;
				}
			}
		}
		if (!alive) {
			break;
		}
		vf_msleep(10);
		fence();
	}
	int miss = G.miss ? 1 : 0;
	if (!miss && !atomic_load(&G.abort)) {
		// linger: a request that is over must stay off the wire even when
		// its resend time comes
		vf_msleep(55);
		fence();
		long fenced = 0, dead = 0;
		pthread_mutex_lock(&G.mx);
		for (int i = 0; i < G.nx; i++) {
			fenced += G.x[i].fenced;
			dead += G.x[i].fenced && G.x[i].state != X_ANSWERED;
		}
		pthread_mutex_unlock(&G.mx);
		vf_msleep(G.max_timer_retry > 0 ? G.max_timer_retry + 2 * cfg->tick_ms + 20 : 30);
		fence();
		vf_stat("fenced_requests_watched", fenced);
		vf_stat("fenced_terminated_watched", dead);
	}
	vf_pt_off();
	vf_io_plan(VF_IO_FULL, 0, VF_IO_FULL, 0, 0);
	for (int i = 0; i < cfg->nctx; i++) {
		nng_aio_stop(rc[i].sa);
		nng_aio_stop(rc[i].ra);
		vf_stat("recv_expire_picks_seen", (long) atomic_load(&W[i].npick));
		atomic_store(&W[i].aio, NULL);
		if (!rc[i].is_sock && !(cfg->gap && i == 1 && c1_closed)) {
			nng_ctx_close(rc[i].ctx);
		}
		nng_aio_free(rc[i].sa);
		nng_aio_free(rc[i].ra);
	}
	atomic_store(&G.dial_ok, false); // nobody dials a port that is about to be somebody else's
	nng_socket_close(G.sock);
	atomic_store(&G.stop, true);
	pthread_join(G.ath, NULL);
	atomic_store(&ref_stop, true);
	nng_aio_stop(ref_aio);
	nng_aio_free(ref_aio);
	if (G.late) {
		miss |= 2;
	}

	if (cfg->gap && !history_ok && !miss && !atomic_load(&G.abort)) {
		vf_harness_fail("history prelude did not produce the intended history");
	}
	if (!miss && !atomic_load(&G.abort)) {
		// evidence
		long once = 0, inf = 0, lng = 0, third = 0;
		int  maxw = 0;
		for (int i = 0; i < G.nx; i++) {
			once += G.x[i].retry_ms < 0 && G.x[i].wire == 1;
			inf += G.x[i].retry_ms < 0;
			lng += G.x[i].retry_ms == LONG_RETRY_MS;
			third += G.x[i].wire >= 3;
			maxw = G.x[i].wire > maxw ? G.x[i].wire : maxw;
		}
		vf_stat_max("max_transmissions_of_one_request", maxw);
		vf_stat("requests_transmitted_3_or_more_times", third);
		if (lng) {
			vf_stat("longretry_cases", 1);
		}
		if (cfg->mixed) {
			vf_stat("cases_mixed_resend_times", 1);
		}
		if (cfg->use_sock) {
			vf_stat("cases_with_socket_ctx", 1);
		}
		if (cfg->big) {
			vf_stat("cases_big_requests", 1);
		}
		if (cfg->reploss) {
			vf_stat("repeated_loss_plan_cases", 1);
		}
		if (cfg->listen) {
			long lng_retx = 0, econn = 0;
			for (int i = 0; i < G.nx; i++) {
				lng_retx += G.x[i].retry_ms == LONG_RETRY_MS && G.x[i].state == X_ANSWERED && G.x[i].loss_copies > 0;
				econn += G.x[i].state == X_RESET;
			}
			vf_stat("cases_req_listens", 1);
			vf_stat("req_listens_retx_pipe_loss", G.retx_loss);
			vf_stat("req_listens_longretry_answered_after_retransmission", lng_retx);
			vf_stat("req_listens_noretry_econnreset", econn);
			vf_class("listen/%s/redial%d/%s", cfg->tran ? "ipc" : "tcp", cfg->redial, cfg->mixed ? "mixed" : cfg->retry_ms < 0 ? "inf" : r_timer(cfg->retry_ms) ? "finite" : "long");
		}
		if (r_timer(cfg->retry_ms) && cfg->tick_ms > cfg->retry_ms) {
			vf_stat("cases_tick_gt_resend", 1);
		}
		vf_stat("cases", 1);
		vf_stat(cfg->enumerated ? "cases_enumerated" : "cases_sampled", 1);
		if (!cfg->enumerated) {
			vf_stat(cfg->tran ? "cases_sampled_ipc" : "cases_sampled_tcp", 1);
		}
		if (cfg->rtl) {
			vf_stat("reply_then_loss_plan_cases", 1);
		}
		if (cfg->rejplan) {
			vf_stat("rejected_connection_plan_cases", 1);
		}
		if (G.faults[F_WRONG_PROTO] + G.faults[F_REFUSE_PIPE] > 0) {
			vf_stat(cfg->nrep == 1 ? "cases_with_rejected_connection_1rep" : "cases_with_rejected_connection_2rep", 1);
			vf_class("rejected/%s/%s/%s/%s", G.faults[F_WRONG_PROTO] ? "wrong-proto" : "refuse-pipe", cfg->tran ? "ipc" : "tcp", cfg->listen ? "req-listens" : "req-dials", cfg->mixed ? "mixed" : rn(cfg->retry_ms));
		}
		vf_stat("request_frames_logged", G.frames);
		vf_stat("retx_pipe_loss", G.retx_loss);
		vf_stat("retx_timer", G.retx_timer);
		vf_stat("noretry_once_on_wire", once);
		if (inf) {
			vf_stat("noretry_cases", 1);
		}
		long nf = 0;
		for (int k = 0; k < F_N; k++) {
			char key[40];
			snprintf(key, sizeof(key), "fault_%s", fname[k]);
			if (G.faults[k]) {
				vf_stat(key, G.faults[k]);
			}
			nf += G.faults[k];
		}
		vf_stat("faults_injected", nf);
		if (nf > 1) {
			vf_stat("multi_fault_cases", 1);
		}
		if (cfg->reploss) {
			vf_class("plan/repeated-loss/%s/%s/%s", cfg->tran ? "ipc" : "tcp", cfg->rname, cfg->shape);
		} else if (cfg->rejplan) {
			vf_class("plan/rejected-connection/%s/%s/%s.%d%s", cfg->tran ? "ipc" : "tcp", cfg->rname, fname[cfg->steps[cfg->nsteps - 1].kind], cfg->steps[cfg->nsteps - 1].var, cfg->nsteps > 1 ? "-after-outage" : "");
		} else if (cfg->rtl) {
			vf_class("plan/reply-then-loss/%s/%s/late-recv-on-%s", cfg->tran ? "ipc" : "tcp", cfg->rname, cfg->use_sock ? "socket" : "ctx");
		} else if (cfg->gap) {
			if (history_ok && G.faults[F_DROP] > 0 && G.retx_timer > 0) {
				// the whole history happened and the timer did its job
				vf_stat("idle_gap_then_reply_loss_cases", 1);
			}
			vf_class("plan/history/%s/%s/%s-then-%s", cfg->tran ? "ipc" : "tcp", cfg->rname, gapname[cfg->gap], cfg->use_sock ? "socket" : "ctx");
		} else if (cfg->enumerated) {
			vf_class("plan/enum/%s/%s/%s.%d.%d/ctx%d%s", cfg->tran ? "ipc" : "tcp", cfg->rname, fname[cfg->steps[0].kind], cfg->steps[0].var, cfg->nsteps > 1 ? -cfg->steps[1].kind : cfg->steps[0].d_ms, cfg->nctx, cfg->use_sock ? "+sock" : "");
		} else {
			vf_class("plan/sampled/%s/%s", cfg->mixed ? "mixed" : cfg->retry_ms < 0 ? "inf" : r_timer(cfg->retry_ms) ? "finite" : "long", cfg->shape);
		}
		if ((idx % 7) == 0) {
			vf_sample("{\"mode\":\"%s\",\"tran\":\"%s\",\"resend\":\"%s\",\"tick\":%d,\"ctx\":%d,\"repliers\":%d,\"plan\":\"%s\",\"ops\":%d,\"exchanges\":%d,\"frames\":%ld,\"retx_pipe_loss\":%ld,\"retx_timer\":%ld}", cfg->enumerated ? "enum" : "sampled",
			    cfg->tran ? "ipc" : "tcp", cfg->rname, cfg->tick_ms, cfg->nctx, cfg->nrep, cfg->shape, cfg->ops, G.nx, G.frames, G.retx_loss, G.retx_timer);
		}
	}
	return miss;
}

static void
check_case(long idx, casecfg *cfg)
{
	snprintf(cfg->rname, sizeof(cfg->rname), cfg->mixed ? "mixed(%s)" : "%s", rn(cfg->retry_ms));
	for (int i = 0; i < cfg->nsteps; i++) {
		cfg->shape[i] = fletter[cfg->steps[i].kind];
	}
	cfg->shape[cfg->nsteps] = 0;
	int m1 = run_case(idx, cfg, false);
	if (m1 != 0) {
		char first[256], late1[256];
		int  r1 = G.miss_retry, f1 = G.miss_fault;
		snprintf(first, sizeof(first), "%s", G.miss_desc);
		snprintf(late1, sizeof(late1), "%s", G.late_desc);
		vf_stat((m1 & 1) ? "progress_miss_rechecked" : "timer_late_rechecked", 1);
		fprintf(stderr, "C12: %s in case %ld (%s), re-running once\n", (m1 & 1) ? "bounded-progress miss" : "late timer retransmission", idx, (m1 & 1) ? first : late1);
		int m2 = run_case(idx, cfg, true);
		if ((m1 & 1) && (m2 & 1)) {
			char key[140], disc[60];
			// judged by the resend time of the request that missed first
			snprintf(disc, sizeof(disc), "after-idle-gap/%s-then-%s", gapname[cfg->gap], cfg->use_sock ? "socket" : "ctx");
			snprintf(key, sizeof(key), "C12/%s/%s", r1 < 0 ? "no-retry/no-econnreset-after-loss" : r_timer(r1) ? "bounded-progress/not-answered" : "bounded-progress/not-retransmitted-after-loss",
			    cfg->gap ? disc : cfg->reploss ? "repeated-reply-loss" : cfg->nsteps == 1 ? fname[cfg->steps[0].kind] : cfg->enumerated ? "outage-then-reply-loss" : "multi-fault");
			if (f_reject(f1) && f_reject(G.miss_fault)) {
				// both runs missed right after the requester had rejected a connection
				snprintf(key, sizeof(key), "C12/bounded-progress/not-answered/after-rejected-connection/%s", fname[f1]);
			}
			vf_violation(key, "missed twice (bound %ld ms after the last fault). first run: %s; second run: %s", G.miss_bound_ms, first, G.miss_desc);
		}
		if ((m1 & 2) && (m2 & 2)) {
			vf_violation("C12/timer-late/first-retransmission", "twice. first run: %s; second run: %s", late1, G.late_desc);
		}
	}
}

// --------------------------------------------------------------- plans
static const int resends[5] = { 20, 50, 200, -1, LONG_RETRY_MS };
#define NRESENDS 5

typedef struct {
	int kind, var, d_ms; // d_ms < 0: relative to RESENDTIME (-1: +30, -2: /2)
	int nrep;
	int kind2, d2_ms; // optional second step (kind2 > 0)
} variant;

static const variant variants[] = {
	{ F_IOFAULT, 1, 0, 1 }, { F_IOFAULT, 2, 0, 1 }, { F_CLOSE_ACCEPT, 0, 0, 1 }, { F_CLOSE_ACCEPT, 1, 0, 1 }, { F_CLOSE_UNREAD, 0, 0, 1 }, { F_CLOSE_READ, 0, 0, 1 }, { F_CLOSE_READ, 0, 30, 1 },
	{ F_CLOSE_HALF, 0, 0, 1 }, { F_CLOSE_HALF, 1, 0, 1 }, { F_CLOSE_HALF, 2, 0, 1 }, { F_CLOSE_REPLIED, 0, 0, 1 }, { F_DROP, 0, 0, 1 }, { F_DELAY, 0, -1, 1 }, { F_DELAY, 0, -2, 1 },
	{ F_RESTART, 0, 0, 1 }, { F_RESTART, 0, 30, 1 }, { F_RESTART, 0, 100, 1 }, { F_RESTART, 1, 30, 1 }, { F_KILLALL, 0, 10, 2 }, { F_KILLALL, 1, 60, 2 }, { F_CLOSE_PARTIAL, 0, 0, 1 },
	// two steps: the answer, then an outage during which the next request is
	// submitted with no pipe, then that request's first copy / reply is lost
	// on the new connection without the connection going away
	{ F_RESTART, 2, 100, 1, F_DROP, 0 }, { F_RESTART, 2, 100, 1, F_DELAY, -1 },
};
#define NVARIANTS ((int) (sizeof(variants) / sizeof(variants[0])))

static void
fix_step(step *s, int retry_ms)
{
	if (s->kind == F_DELAY && s->d_ms < 0) {
		s->d_ms = !r_timer(retry_ms) ? (s->d_ms == -1 ? 80 : 25) : (s->d_ms == -1 ? retry_ms + 30 : retry_ms / 2);
	}
	// (a drop met by a request without a usable resend timer turns into a
	// delayed close in on_frame)
}

int
main(int argc, char **argv)
{
	vf_init(argc, argv);
	vf_nng_init(4, 2, 2);
	pthread_mutex_init(&G.mx, NULL);
	vf_ev_hook(ev_hook);
	{
		pthread_t      t;
		pthread_attr_t at;
		pthread_attr_init(&at);
		pthread_attr_setdetachstate(&at, PTHREAD_CREATE_DETACHED);
		pthread_create(&t, &at, hb_thread, NULL);
	}
	long idx = 0, ran = 0;

	if (!strcmp(vf_mode, "enum")) {
		for (int big = 0; big < 2; big++) {
			for (int tran = 0; tran < 2; tran++) {
				for (int ri = 0; ri < NRESENDS; ri++) {
					for (int v = 0; v < NVARIANTS; v++, idx++) {
						if ((idx % vf_nshards) != vf_shard || !vf_want_case(idx)) {
							continue;
						}
						casecfg c;
						memset(&c, 0, sizeof(c));
						c.enumerated = true;
						c.tran       = tran;
						c.retry_ms   = resends[ri];
						c.tick_ms    = 5 + (int) (vf_mix64(vf_seed ^ (uint64_t) idx) % 16);
						c.nrep       = big ? 2 : variants[v].nrep;
						c.nctx       = big ? 3 : 1;
						c.use_sock   = big; // context 0 of the big variant is the socket itself
						c.key        = vf_mix64(vf_seed * 31 + (uint64_t) idx);
						c.nonce      = (uint32_t) (c.key >> 20) & 0xffff;
						c.nsteps     = 1;
						c.steps[0]   = (step){ variants[v].kind, variants[v].var, variants[v].d_ms };
						c.big        = variants[v].kind == F_CLOSE_PARTIAL;
						if (variants[v].kind2 > 0) {
							c.nsteps   = 2;
							c.steps[1] = (step){ variants[v].kind2, 0, variants[v].d2_ms };
							fix_step(&c.steps[1], c.retry_ms);
						}
						fix_step(&c.steps[0], c.retry_ms);
						check_case(idx, &c);
						if ((++ran % 24) == 0) {
							vf_nng_fini("C12");
							vf_nng_init(4, 2, 2);
						}
					}
				}
			}
		}
		// history plans: exchange on context 1, which then leaves the retry
		// queue (close / cancel / timeout), idle gap of more than two ticks,
		// then a dropped first copy (connection kept) on a fresh context or
		// on the socket itself
		for (int tran = 0; tran < 2; tran++) {
			for (int ri = 0; ri < 3; ri++) {
				for (int gap = 1; gap <= 3; gap++) {
					for (int sock = 0; sock < 2; sock++, idx++) {
						if ((idx % vf_nshards) != vf_shard || !vf_want_case(idx)) {
							continue;
						}
						casecfg c;
						memset(&c, 0, sizeof(c));
						c.enumerated = true;
						c.tran       = tran;
						c.retry_ms   = resends[ri];
						c.tick_ms    = 5 + (int) (vf_mix64(vf_seed ^ (uint64_t) idx) % 16);
						c.nrep       = 1;
						c.nctx       = 2;
						c.use_sock   = sock;
						c.gap        = gap;
						c.key        = vf_mix64(vf_seed * 31 + (uint64_t) idx);
						c.nonce      = (uint32_t) (c.key >> 20) & 0xffff;
						c.nsteps     = 1;
						c.steps[0]   = (step){ F_DROP, 0, 0 };
						check_case(idx, &c);
						if ((++ran % 24) == 0) {
							vf_nng_fini("C12");
							vf_nng_init(4, 2, 2);
						}
					}
				}
			}
		}
		// repeated-loss plans: the replies to two (three) consecutive copies of
		// ONE request are lost / late on a connection that stays up, one context,
		// one replier: only the resend timer firing a second (third) time gets
		// the request answered (bound: RESENDTIME + tick + 2 s after each loss)
		for (int tran = 0; tran < 2; tran++) {
			for (int ri = 0; ri < 3; ri++) {
				for (int pl = 1; pl <= 4; pl++, idx++) {
					static const int kinds[5][3] = { { 0 }, { F_DROP, F_DROP, -1 }, { F_DROP, F_DELAY, -1 }, { F_DELAY, F_DROP, -1 }, { F_DROP, F_DROP, F_DROP } };
					if ((idx % vf_nshards) != vf_shard || !vf_want_case(idx)) {
						continue;
					}
					casecfg c;
					memset(&c, 0, sizeof(c));
					c.enumerated = true;
					c.tran       = tran;
					c.retry_ms   = resends[ri];
					c.tick_ms    = 5 + (int) (vf_mix64(vf_seed ^ (uint64_t) idx) % 16);
					c.nrep       = 1;
					c.nctx       = 1;
					c.reploss    = pl;
					c.key        = vf_mix64(vf_seed * 31 + (uint64_t) idx);
					c.nonce      = (uint32_t) (c.key >> 20) & 0xffff;
					for (c.nsteps = 0; c.nsteps < 3 && kinds[pl][c.nsteps] >= 0; c.nsteps++) {
						c.steps[c.nsteps] = (step){ kinds[pl][c.nsteps], 0, -1 };
						fix_step(&c.steps[c.nsteps], c.retry_ms);
					}
					check_case(idx, &c);
					if ((++ran % 24) == 0) {
						vf_nng_fini("C12");
						vf_nng_init(4, 2, 2);
					}
				}
			}
		}
		// reply-then-loss plans: the receive is posted when the reply has
		// reached the context AND the connection was lost after that (see rtl
		// in casecfg; all resend classes: the reply must be delivered in each)
		for (int tran = 0; tran < 2; tran++) {
			for (int ri = 0; ri < NRESENDS; ri++) {
				for (int sock = 0; sock < 2; sock++, idx++) {
					if ((idx % vf_nshards) != vf_shard || !vf_want_case(idx)) {
						continue;
					}
					casecfg c;
					memset(&c, 0, sizeof(c));
					c.enumerated = true;
					c.tran       = tran;
					c.retry_ms   = resends[ri];
					c.tick_ms    = 5 + (int) (vf_mix64(vf_seed ^ (uint64_t) idx) % 16);
					c.nrep       = 1;
					c.nctx       = 2;
					c.use_sock   = sock;
					c.rtl        = true;
					c.key        = vf_mix64(vf_seed * 31 + (uint64_t) idx);
					c.nonce      = (uint32_t) (c.key >> 20) & 0xffff;
					c.nsteps     = 1;
					c.steps[0]   = (step){ F_CLOSE_REPLIED, 0, 0 };
					check_case(idx, &c);
					if ((++ran % 24) == 0) {
						vf_nng_fini("C12");
						vf_nng_init(4, 2, 2);
					}
				}
			}
		}
		// rejected-connection plans: one context, one replier; every connection
		// is killed and the next one the transport establishes is rejected by
		// the requester's own side (peer announces PAIR | REQ; ADD_PRE callback
		// closes the pipe), alone or after "answer, outage of 100 ms during
		// which the next request is submitted with no pipe"; then the real
		// replier is back: the socket must connect again
		for (int tran = 0; tran < 2; tran++) {
			for (int ri = 0; ri < NRESENDS; ri++) {
				for (int pl = 0; pl < 6; pl++, idx++) {
					if ((idx % vf_nshards) != vf_shard || !vf_want_case(idx)) {
						continue;
					}
					casecfg c;
					memset(&c, 0, sizeof(c));
					c.enumerated = true;
					c.tran       = tran;
					c.retry_ms   = resends[ri];
					c.tick_ms    = 5 + (int) (vf_mix64(vf_seed ^ (uint64_t) idx) % 16);
					c.nrep       = 1;
					c.nctx       = 1;
					c.rejplan    = true;
					c.key        = vf_mix64(vf_seed * 31 + (uint64_t) idx);
					c.nonce      = (uint32_t) (c.key >> 20) & 0xffff;
					if (pl >= 3) {
						c.steps[c.nsteps++] = (step){ F_RESTART, 2, 100 };
					}
					c.steps[c.nsteps++] = (step){ pl % 3 == 2 ? F_REFUSE_PIPE : F_WRONG_PROTO, pl % 3 == 1, 0 };
					check_case(idx, &c);
					if ((++ran % 24) == 0) {
						vf_nng_fini("C12");
						vf_nng_init(4, 2, 2);
					}
				}
			}
		}
	} else {
		for (long i = 0; i < vf_cases; i++, idx++) {
			if (!vf_want_case(idx)) {
				continue;
			}
			vf_rng r;
			vf_rng_seed(&r, vf_seed, (uint64_t) idx);
			casecfg c;
			memset(&c, 0, sizeof(c));
			c.tran     = (int) vf_below(&r, 2);
			c.nrep     = 1 + (int) vf_below(&r, 2);
			c.nctx     = 1 + (int) vf_below(&r, MAXCTX);
			c.use_sock = vf_chance(&r, 1, 4);
			uint32_t w = vf_below(&r, 10);
			c.retry_ms = w < 3 ? 20 : w < 5 ? 50 : w < 6 ? 200 : w < 8 ? -1 : LONG_RETRY_MS;
			c.tick_ms  = (int) vf_range(&r, 5, 20);
			c.mixed    = c.retry_ms != 200 && c.nctx > 1 && vf_chance(&r, 1, 3);
			if (r_timer(c.retry_ms) && c.retry_ms <= 50 && !c.mixed && vf_chance(&r, 1, 8)) {
				c.tick_ms = 300; // tick longer than the resend time
			}
			c.key      = vf_rand(&r);
			c.nonce    = (uint32_t) (c.key >> 20) & 0xffff;
			c.ops      = vf_chance(&r, 1, 2);
			c.stale    = vf_chance(&r, 1, 2);
			if (vf_chance(&r, 1, 3)) {
				c.jit_permille = (int) vf_range(&r, 10, 50);
				c.jit_us       = (int) vf_range(&r, 50, 300);
			}
			c.big    = vf_chance(&r, 1, 8);
			if (c.big) {
				// timer copies of 200 kB every tick from 4 contexts would only
				// measure the adversary's throughput
				c.tick_ms = c.tick_ms < 15 ? 15 : c.tick_ms;
				c.nctx    = c.nctx > 2 ? 2 : c.nctx;
				c.mixed   = c.mixed && c.nctx > 1;
			}
			c.nsteps = 1 + (int) vf_below(&r, c.retry_ms == 200 ? 3 : MAXSTEPS);
			for (int k = 0; k < c.nsteps; k++) {
				step *s = &c.steps[k];
				s->kind = (int) vf_below(&r, c.big ? F_DRAWN + 2 : F_DRAWN - 1);
				if (s->kind >= F_DRAWN) {
					s->kind = F_CLOSE_PARTIAL;
				}
				switch (s->kind) {
				case F_IOFAULT: s->var = 1 + (int) vf_below(&r, 3); break;
				case F_CLOSE_ACCEPT: s->var = (int) vf_below(&r, 2); break;
				case F_CLOSE_READ: s->d_ms = vf_chance(&r, 1, 2) ? 0 : (int) vf_range(&r, 5, 60); break;
				case F_CLOSE_HALF: s->var = (int) vf_below(&r, 3); break;
				case F_DELAY: s->d_ms = !r_timer(c.retry_ms) ? (int) vf_range(&r, 10, 120) : vf_chance(&r, 2, 3) ? c.retry_ms + (int) vf_range(&r, 5, 60) : c.retry_ms / 2; break;
				case F_RESTART:
					s->var  = (int) vf_below(&r, 3);
					s->d_ms = (int) vf_below(&r, 101);
					break;
				case F_KILLALL:
					s->var  = (int) vf_below(&r, 2);
					s->d_ms = (int) vf_range(&r, 5, 80);
					break;
				default: break;
				}
				fix_step(s, c.retry_ms);
			}
			// (drawn last: the other parameters of a case (seed, idx) stay what they were)
			c.listen = vf_chance(&r, 1, 4);
			c.redial = (int) vf_below(&r, 3);
			if (vf_chance(&r, 1, 4)) {
				// one step becomes a connection the requester's side rejects
				step *s = &c.steps[vf_below(&r, (uint32_t) c.nsteps)];
				s->kind = vf_chance(&r, 2, 3) ? F_WRONG_PROTO : F_REFUSE_PIPE;
				s->var  = (int) vf_below(&r, 2);
				s->d_ms = 0;
			}
			check_case(idx, &c);
			if ((++ran % 16) == 0) {
				vf_nng_fini("C12");
				vf_nng_init(4, 2, 2);
			}
		}
	}
	vf_nng_fini("C12");
	return vf_finish();
}
