// C06: PUSH/PULL - each accepted message reaches at most one puller, none is
// lost while connections stay up and sockets stay open, one connection keeps
// send order, and PUSH send applies back-pressure instead of discarding.
//
// mode "flow": 1-4 PUSH sockets x 1-4 PULL sockets (full mesh, one pipe per
//   pair at a time, or 2-3 parallel pipes per pair in 1/4 of the cases) over
//   inproc/ipc/tcp/ws/abstract, several sender threads per PUSH socket
//   (blocking, NONBLOCK+retry, aio, aio with very short timeouts, window of
//   aios of which some time out for good, aio + nng_aio_cancel + retry), one
//   receiver thread per PULL socket (timed, NONBLOCK, aio with cancelled
//   receives, ring of aios).  A case is a sequence of phases: steady, SENDBUF
//   growth/shrink, puller arrival (also from zero pullers), puller departure
//   (socket close), pipe close on either side with redial, replace; in half of
//   the cases resizes also happen inside the arrival / departure phases.
//   Every phase ends with a drain to quiescence.  The history (send-return
//   per tag, receive per tag with puller and pipe id) is merged at the end of
//   the case and judged by the offline checker in check_case().
// mode "bp": back-pressure by differential counting with no receiving peer,
//   and the deterministic departure scenario: a pipe of an idle puller goes
//   away while the buffer is full and senders are blocked.
#include "vfh.h"
#include "core/nng_impl.h"
#include <pthread.h>
#include <sched.h>
#include <stdatomic.h>
#include <unistd.h>

#define MAXPUSH 4
#define MAXPULL 12 // puller slots of one case (initial + arrivals)
#define MAXSEND 16 // sender identities of one case
#define MAXPHASE 8
#define MAXPIPES 96
#define MAXPAR 3   // parallel pipes between one PUSH and one PULL socket

static const char *
ename(int rv)
{
	switch (rv) {
	case 0: return "ok";
	case NNG_EAGAIN: return "EAGAIN";
	case NNG_ETIMEDOUT: return "ETIMEDOUT";
	case NNG_ECLOSED: return "ECLOSED";
	case NNG_ECANCELED: return "ECANCELED";
	case NNG_ENOMEM: return "ENOMEM";
	case NNG_ESTOPPED: return "ESTOPPED";
	default: return "other";
	}
}

// transports: vfh's, plus abstract-namespace unix sockets
enum { T_ABSTRACT = VF_T_N, T_N };

static const char *
tn(int t)
{
	return t == T_ABSTRACT ? "abstract" : vf_tran_names[t];
}

static void
mk_url(int t, char *buf, size_t sz)
{
	static _Atomic int ctr;
	if (t == T_ABSTRACT) {
		snprintf(buf, sz, "abstract://vf-c06-%d-%d", (int) getpid(), atomic_fetch_add(&ctr, 1));
	} else {
		vf_url(t, buf, sz);
	}
}

static int
mk_dial_url(nng_listener l, int t, const char *listen_url, char *buf, size_t sz)
{
	if (t == T_ABSTRACT) {
		snprintf(buf, sz, "%s", listen_url);
		return 0;
	}
	return vf_dial_url(l, t, listen_url, buf, sz);
}

// a listens, b dials; returns when both have a pipe
static int
connect_pair(nng_socket a, nng_socket b, int t)
{
	char         url[128];
	nng_listener l;
	int          rv;
	if (t != T_ABSTRACT) return vf_connect(a, b, t);
	mk_url(t, url, sizeof(url));
	if ((rv = nng_listen(a, url, &l, 0)) != 0) return rv;
	if ((rv = nng_dial(b, url, NULL, 0)) != 0) return rv;
	for (int i = 0; i < 4000; i++) {
		if (vf_pipe_count(a) >= 1 && vf_pipe_count(b) >= 1) return 0;
		vf_msleep(1);
	}
	return NNG_ETIMEDOUT;
}

// "No progress while the library is idle and every receiver keeps coming up
// empty": how long that has to last before undelivered messages are called
// lost.  Nothing can move any more in that state, so the wait is only a
// safety margin; once one loss has been reported in this process the
// following waits are cut short (the verdict no longer depends on them).
static bool        racy_close; // mode flowx
static bool        loss_seen;
static _Atomic int long_block_seen; // a 10 s send timeout has happened: use short ones from now on
static uint64_t
stuck_ns(void)
{
	return loss_seen ? 1000000000ull : 10ull * 1000000000ull;
}

// ------------------------------------------------------------------ white box
// Evidence only (never a verdict): the hand-off state of a PUSH socket,
// sampled under its own lock.  The struct mirrors push0_sock in push.c; the
// mirror is validated at start-up and sampling is switched off when it does
// not fit.
typedef struct {
	nni_lmq      wq;
	nni_list     aq;
	nni_list     pl;
	nni_pollable writable;
	nni_mtx      m;
} push_mirror;

static bool wb_ok;        // mirror fits and lists may be walked (ASan only)
static bool wb_struct_ok; // mirror fits: wq.lmq_len / lmq_cap may be read under the lock

static push_mirror *
wb_get(nng_socket s)
{
	nni_sock    *sk;
	push_mirror *pm;
	if (nni_sock_find(&sk, (uint32_t) nng_socket_id(s)) != 0) {
		return NULL;
	}
	pm = nni_sock_proto_data(sk);
	nni_sock_rele(sk);
	return pm;
}

// Walks a library list under the socket lock.  The walk must never be what
// trips over a stale entry (that is for the library to do, with a library
// stack): it is not instrumented, and stops at poisoned (freed) memory.
#if defined(__SANITIZE_ADDRESS__)
#include <sanitizer/asan_interface.h>
#define WB_POISONED(p) __asan_address_is_poisoned(p)
#define WB_AVAILABLE 1
#else
#define WB_POISONED(p) 0
#define WB_AVAILABLE 0 // no way to recognise freed memory: do not sample
#endif

__attribute__((no_sanitize_address)) static int
wb_list_len(nni_list *l)
{
	int n = 0;
	for (nni_list_node *x = l->ll_head.ln_next; x != &l->ll_head && n < 200; x = x->ln_next) {
		if (WB_POISONED(x)) {
			return -1;
		}
		n++;
	}
	return n;
}

static void
wb_validate(void)
{
	nng_socket   s;
	push_mirror *pm;
	wb_ok = wb_struct_ok = false;
	if (nng_push0_open(&s) != 0) {
		return;
	}
	if ((pm = wb_get(s)) != NULL) {
		bool ok = pm->wq.lmq_cap == 0 && pm->wq.lmq_len == 0 &&
		    pm->aq.ll_head.ln_next == &pm->aq.ll_head &&
		    pm->pl.ll_head.ln_next == &pm->pl.ll_head &&
		    pm->pl.ll_offset == 2 * sizeof(void *) &&
		    pm->aq.ll_offset == offsetof(nni_aio, a_prov_node);
		if (ok && nng_socket_set_int(s, NNG_OPT_SENDBUF, 5) == 0) {
			ok = pm->wq.lmq_cap == 5;
		}
		if (ok && nng_socket_set_int(s, NNG_OPT_SENDBUF, 7) == 0) {
			ok = pm->wq.lmq_cap == 7 && pm->wq.lmq_len == 0;
		}
		wb_struct_ok = ok;
		wb_ok        = ok && WB_AVAILABLE;
	}
	nng_socket_close(s);
	if (!wb_ok) {
		vf_stat("whitebox_off", 1);
	}
}

// one sample; returns a packed state or -1
static void
wb_sample(push_mirror *pm, int *cap, int *len, int *ready, int *waiting)
{
	nni_mtx_lock(&pm->m);
	*cap     = (int) pm->wq.lmq_cap;
	*len     = (int) pm->wq.lmq_len;
	*ready   = wb_list_len(&pm->pl);
	*waiting = wb_list_len(&pm->aq);
	nni_mtx_unlock(&pm->m);
}

// ------------------------------------------------------------------ pipe tracking
typedef struct {
	pthread_mutex_t mtx;
	struct {
		uint32_t id;
		bool     posted;
	} p[MAXPIPES];
	int         n;
	_Atomic long adds, rems, aborted;
} tracker;

static void
pipe_cb(nng_pipe p, nng_pipe_ev ev, void *arg)
{
	tracker *t  = arg;
	uint32_t id = (uint32_t) nng_pipe_id(p);
	pthread_mutex_lock(&t->mtx);
	int i;
	for (i = 0; i < t->n; i++) {
		if (t->p[i].id == id) break;
	}
	switch (ev) {
	case NNG_PIPE_EV_ADD_PRE:
		if (i == t->n && t->n < MAXPIPES) {
			t->p[t->n].id     = id;
			t->p[t->n].posted = false;
			t->n++;
		}
		break;
	case NNG_PIPE_EV_ADD_POST:
		if (i < t->n && !t->p[i].posted) {
			t->p[i].posted = true;
			atomic_fetch_add(&t->adds, 1);
		}
		break;
	case NNG_PIPE_EV_REM_POST:
		if (i < t->n) {
			if (t->p[i].posted) {
				atomic_fetch_add(&t->rems, 1);
			} else {
				atomic_fetch_add(&t->aborted, 1);
			}
			t->p[i] = t->p[--t->n];
		}
		break;
	default:
		break;
	}
	pthread_mutex_unlock(&t->mtx);
}

static void
tracker_init_cb(tracker *t, nng_socket s, nng_pipe_cb cb)
{
	memset(t, 0, sizeof(*t));
	pthread_mutex_init(&t->mtx, NULL);
	if (nng_pipe_notify(s, NNG_PIPE_EV_ADD_PRE, cb, t) != 0 ||
	    nng_pipe_notify(s, NNG_PIPE_EV_ADD_POST, cb, t) != 0 ||
	    nng_pipe_notify(s, NNG_PIPE_EV_REM_POST, cb, t) != 0) {
		vf_harness_fail("pipe_notify");
	}
}

static void
tracker_init(tracker *t, nng_socket s)
{
	tracker_init_cb(t, s, pipe_cb);
}

// number of established pipes; *pending = pipes between ADD_PRE and ADD_POST
static int
tracker_live(tracker *t, int *pending)
{
	int n = 0, pe = 0;
	pthread_mutex_lock(&t->mtx);
	for (int i = 0; i < t->n; i++) {
		if (t->p[i].posted) n++; else pe++;
	}
	pthread_mutex_unlock(&t->mtx);
	if (pending) *pending = pe;
	return n;
}

static bool
tracker_pick(tracker *t, vf_rng *r, nng_pipe *out)
{
	bool ok = false;
	pthread_mutex_lock(&t->mtx);
	int cand[MAXPIPES], nc = 0;
	for (int i = 0; i < t->n; i++) {
		if (t->p[i].posted) cand[nc++] = i;
	}
	if (nc > 0) {
		nng_pipe p  = NNG_PIPE_INITIALIZER;
		p.id        = t->p[cand[vf_below(r, (uint32_t) nc)]].id;
		*out        = p;
		ok          = true;
	}
	pthread_mutex_unlock(&t->mtx);
	return ok;
}

// ------------------------------------------------------------------ flow mode
enum { PH_STEADY = 0, PH_GROW, PH_ARRIVE, PH_DEPART_SOCK, PH_PIPE_PUSH, PH_PIPE_PULL, PH_REPLACE, PH_NKINDS };
static const char *ph_names[PH_NKINDS] = { "steady", "grow", "arrive", "depart-sock", "pipeclose-push", "pipeclose-pull", "replace" };
// kinds in which a connection goes away while messages may be in flight
static const bool ph_lossy_kind[PH_NKINDS] = { false, false, false, true, true, true, true };

enum { SS_BLOCK = 0, SS_NONBLOCK, SS_AIO, SS_AIO_SHORT, SS_WINDOW, SS_CANCEL, SS_N };
static const char *ss_names[SS_N] = { "block", "nonblock", "aio", "aio-short", "aio-window", "aio-cancel" };
enum { RS_TIMED = 0, RS_NONBLOCK, RS_AIO, RS_RING, RS_N };
static const char *rs_names[RS_N] = { "timed", "nonblock", "aio", "aio-ring" };

typedef struct {
	uint32_t tag;
	uint32_t pipe;
	uint64_t seq;
} rrec;

typedef struct {
	int          slot;
	nng_socket   s;
	tracker      tr;
	pthread_t    th;
	bool         opened, started, closed;
	int          style;
	int          ring;          // RS_RING: receives kept outstanding at once
	long         ring_multi;    // completions while another receive of the ring was pending
	int          slow_permille; // probability of a pause after a receive
	bool         cancels;       // RS_AIO: a third of the receives are cancelled after 0-1 ms
	long         rcanceled, rcancel_late;
	rrec        *recs;
	size_t       n, cap;
	_Atomic long idle; // receive attempts that found nothing
	_Atomic int  stop;
	long         corrupt;
	int          odd_rv;
	nng_listener lst;
	char         url[128];  // where it listens (pull-listens topology)
	vf_rng       rng;
} puller_t;

typedef struct {
	int       id;   // low byte of the tag
	int       push; // index of its PUSH socket
	int       style;
	int       pause_permille;
	uint64_t  next_seq;
	uint64_t  cap;
	uint8_t  *st;    // per seq: 0 not sent, 1 send returned 0, 2 send failed for good
	uint8_t  *phase; // per seq: phase in which it was sent
	long      quota; // for the current phase
	long      eagain, timedout, giveup, attached_ok, canceled, cancel_late, early_tmo, early_tmo_odd;
	int       window;      // SS_WINDOW: sends kept outstanding at once
	long      win_overlap; // submissions made while an earlier send of the window was pending
	pthread_t th;
	vf_rng    rng;
} sender_t;

static struct {
	long        idx;
	int         tran;
	int         npush, npull0;
	bool        push_listens;
	int         depth[MAXPUSH];
	int         nsend;
	int         nphase;
	int         kinds[MAXPHASE];
	bool        lossy[MAXPHASE];
	uint32_t    salt;
	size_t      bigmax;
	nng_socket  push[MAXPUSH];
	tracker     ptr[MAXPUSH];
	nng_listener plst[MAXPUSH];
	char        purl[MAXPUSH][128]; // dial URL of a pusher (push-listens)
	int         kpar; // pipes per (PUSH, PULL) pair: every pair is dialed kpar times
	nng_dialer  dial[MAXPUSH][MAXPULL][MAXPAR];
	bool        dial_ok[MAXPUSH][MAXPULL];
	push_mirror *pm[MAXPUSH];
	puller_t    pull[MAXPULL];
	int         nslots; // puller slots used so far
	sender_t    snd[MAXSEND];
	int         cur_phase;
	_Atomic long ph_sent[MAXPHASE], ph_recv[MAXPHASE];
	_Atomic long senders_running;
	_Atomic int  sampler_stop;
	long        exp_adds, exp_rems; // planned, PUSH side aggregate
	long        unplanned;
	long        rems_seen[MAXPUSH];          // removals (incl. aborted pipes) accounted so far
	long        rems_ph[MAXPHASE][MAXPUSH];  // removals on a PUSH socket attributed to a phase
	bool        raw_push, raw_pull;
	_Atomic int gate, parked; // senders park (outside any send call) while the gate is shut
	vf_rng      rng;
} C;

#define TAG(salt, phase, sid) ((((salt) & 0xfffu) << 12) | (((uint32_t) (phase) & 0xf) << 8) | ((uint32_t) (sid) & 0xff))

static void
record_msg(puller_t *q, nng_msg *m)
{
	uint32_t tag = 0;
	uint64_t seq = 0;
	if (vf_body_check(nng_msg_body(m), nng_msg_len(m), &tag, &seq) != 0) {
		q->corrupt++;
	} else {
		if (q->n == q->cap) {
			q->cap  = q->cap ? q->cap * 2 : 4096;
			q->recs = realloc(q->recs, q->cap * sizeof(rrec));
			if (q->recs == NULL) vf_harness_fail("oom");
		}
		q->recs[q->n].tag  = tag;
		q->recs[q->n].seq  = seq;
		q->recs[q->n].pipe = (uint32_t) nng_pipe_id(nng_msg_get_pipe(m));
		q->n++;
		if ((tag >> 12) == (C.salt & 0xfffu)) {
			atomic_fetch_add(&C.ph_recv[(tag >> 8) & 0xf], 1);
		}
	}
	nng_msg_free(m);
}

// RS_RING: 2-4 receives outstanding on the PULL socket at once (its rq holds
// several waiters; timeouts remove waiters from the middle).  Which of the
// outstanding receives gets which message is not observable from outside, so
// a ring puller is exempt from the order clause (everything else applies).
static void
receiver_ring(puller_t *q)
{
	nng_aio *a[4];
	int      n = q->ring;
	for (int j = 0; j < n; j++) {
		if (nng_aio_alloc(&a[j], NULL, NULL) != 0) vf_harness_fail("aio alloc");
		nng_aio_set_timeout(a[j], 15);
		nng_socket_recv(q->s, a[j]);
	}
	for (int j = 0;; j = (j + 1) % n) {
		if (atomic_load(&q->stop)) break;
		nng_aio_wait(a[j]);
		int rv = nng_aio_result(a[j]);
		if (rv == 0) {
			nng_msg *m = nng_aio_get_msg(a[j]);
			nng_aio_set_msg(a[j], NULL);
			for (int k = 0; k < n; k++) {
				if (k != j && nng_aio_busy(a[k])) {
					q->ring_multi++;
					break;
				}
			}
			record_msg(q, m);
			if (q->slow_permille && vf_below(&q->rng, 1000) < (uint32_t) q->slow_permille) {
				vf_usleep((int) vf_range(&q->rng, 20, 400));
			}
		} else if (rv == NNG_ETIMEDOUT) {
			atomic_fetch_add(&q->idle, 1);
		} else if (rv == NNG_ECLOSED) {
			break;
		} else {
			q->odd_rv = rv;
			vf_usleep(200);
		}
		nng_aio_set_timeout(a[j], 15);
		nng_socket_recv(q->s, a[j]);
	}
	// stop: a receive that completed with a message must not be dropped
	for (int j = 0; j < n; j++) {
		nng_aio_cancel(a[j]);
		nng_aio_wait(a[j]);
		if (nng_aio_result(a[j]) == 0 && nng_aio_get_msg(a[j]) != NULL) {
			record_msg(q, nng_aio_get_msg(a[j]));
			nng_aio_set_msg(a[j], NULL);
		}
		nng_aio_free(a[j]);
	}
}

static void *
receiver_main(void *arg)
{
	puller_t *q   = arg;
	nng_aio  *aio = NULL;
	if (q->style == RS_RING) {
		receiver_ring(q);
		return NULL;
	}
	if (q->style == RS_AIO && nng_aio_alloc(&aio, NULL, NULL) != 0) {
		vf_harness_fail("aio alloc");
	}
	for (;;) {
		nng_msg *m  = NULL;
		int      rv;
		if (atomic_load(&q->stop)) break;
		switch (q->style) {
		case RS_NONBLOCK:
			rv = nng_recvmsg(q->s, &m, NNG_FLAG_NONBLOCK);
			break;
		case RS_AIO:
			nng_aio_set_timeout(aio, 15);
			nng_socket_recv(q->s, aio);
			if (q->cancels && vf_chance(&q->rng, 1, 3)) {
				// nng_aio_cancel of a receive that may be pending, or
				// being completed by an arriving message right now: either
				// it fails with ECANCELED and the message stays where it
				// was, or it completes with the message
				if (vf_chance(&q->rng, 1, 2)) vf_usleep((int) vf_range(&q->rng, 10, 1000));
				nng_aio_cancel(aio);
				nng_aio_wait(aio);
				rv = nng_aio_result(aio);
				if (rv == NNG_ECANCELED) {
					q->rcanceled++;
					rv = NNG_ETIMEDOUT; // counts as an empty attempt
				} else if (rv == 0) {
					q->rcancel_late++;
				}
			} else {
				nng_aio_wait(aio);
				rv = nng_aio_result(aio);
			}
			if (rv == 0) {
				m = nng_aio_get_msg(aio);
				nng_aio_set_msg(aio, NULL);
			}
			break;
		default:
			rv = nng_recvmsg(q->s, &m, 0); // RECVTIMEO 15 ms
			break;
		}
		if (rv == 0) {
			record_msg(q, m);
			if (q->slow_permille && vf_below(&q->rng, 1000) < (uint32_t) q->slow_permille) {
				vf_usleep((int) vf_range(&q->rng, 20, 400));
			}
		} else if (rv == NNG_ETIMEDOUT || rv == NNG_EAGAIN) {
			atomic_fetch_add(&q->idle, 1);
			if (q->style == RS_NONBLOCK) {
				vf_usleep(150);
			}
		} else if (rv == NNG_ECLOSED) {
			break;
		} else {
			q->odd_rv = rv;
			vf_usleep(200);
		}
	}
	if (aio) nng_aio_free(aio);
	return NULL;
}

// Senders park here, outside any send call, while the main thread shrinks a
// send buffer: with every sender parked the number of buffered messages can
// only go down (a waiting sender's message enters the buffer only after
// another one left it), so "shrink to at least what is queued now" cannot
// discard anything.
static void
sender_gate(void)
{
	if (atomic_load(&C.gate)) {
		atomic_fetch_add(&C.parked, 1);
		while (atomic_load(&C.gate)) vf_usleep(50);
		atomic_fetch_sub(&C.parked, 1);
	}
}

// SS_WINDOW: 2-4 sends outstanding at once, submitted in sequence-number order
// by this one thread (each nng_socket_send call returns before the next is
// made).  Order on one connection is demanded in that submission order.  A
// send that fails is not repeated, so sequence numbers still only go up.
static void
sender_window(sender_t *s)
{
	nng_socket sock = C.push[s->push];
	int        ph   = C.cur_phase;
	uint32_t   tag  = TAG(C.salt, ph, s->id);
	int        n    = s->window;
	nng_aio   *a[4];
	nng_msg   *mm[4];
	uint64_t   sq[4];
	bool       out[4] = { false, false, false, false };
	bool       brief[4] = { false, false, false, false }; // submitted with a 1-3 ms timeout
	uint64_t   t_sub[4] = { 0, 0, 0, 0 };
	bool       prev_brief[4] = { false, false, false, false }; // the slot's previous send had a 1-3 ms timeout
	long       submitted = 0;
	for (int j = 0; j < n; j++) {
		if (nng_aio_alloc(&a[j], NULL, NULL) != 0) vf_harness_fail("aio alloc");
	}
	for (int j = 0;; j = (j + 1) % n) {
		if (out[j]) {
			nng_aio_wait(a[j]);
			int rv = nng_aio_result(a[j]);
			out[j] = false;
			if (rv == 0) {
				s->st[sq[j]] = 1;
				atomic_fetch_add(&C.ph_sent[ph], 1);
			} else {
				if (nng_aio_get_msg(a[j]) != mm[j]) {
					vf_violation("C06/backpressure/failed-send-took-message/flow", "aio send (window) failed with %s but nng_aio_get_msg returned %p, not the submitted message", ename(rv), (void *) nng_aio_get_msg(a[j]));
				} else {
					s->attached_ok++;
					nng_msg_free(mm[j]);
				}
				if (rv == NNG_ETIMEDOUT) {
					s->timedout++;
					// (an aio whose previous send expired can be timed out
					// early by that expiry's late cancel call: a known
					// finding of C02, not judged here)
					if (!brief[j] && vf_now_ns() - t_sub[j] < 250000000ull) {
						s->early_tmo++;
						if (!prev_brief[j]) s->early_tmo_odd++;
					}
					if (!brief[j] && vf_now_ns() - t_sub[j] > 9ull * 1000000000ull && !atomic_exchange(&long_block_seen, 1)) vf_stat("send_blocked_10s", 1);
				} else {
					vf_violation("C06/backpressure/send-error", "send failed with %s (%d): neither accepted, EAGAIN nor ETIMEDOUT; style %s", nng_strerror(rv), rv, ss_names[s->style]);
				}
				s->st[sq[j]] = 2;
			}
			prev_brief[j] = brief[j];
			nng_aio_set_msg(a[j], NULL);
			s->phase[sq[j]] = (uint8_t) ph;
		}
		bool more = submitted < s->quota && s->next_seq < s->cap && !(submitted >= 20 && atomic_load(&long_block_seen));
		if (!more) {
			bool any = false;
			for (int k = 0; k < n; k++) any = any || out[k];
			if (!any) break;
			continue;
		}
		sender_gate();
		size_t len = VF_BODY_MIN + vf_below(&s->rng, 40);
		if (nng_msg_alloc(&mm[j], len) != 0) vf_harness_fail("msg alloc");
		sq[j] = s->next_seq++;
		vf_body_make(nng_msg_body(mm[j]), len, tag, sq[j]);
		for (int k = 0; k < n; k++) {
			if (out[k] && nng_aio_busy(a[k])) {
				s->win_overlap++;
				break;
			}
		}
		// a third of the submissions may time out while blocked: such a send
		// has failed for good (the message is freed here, never re-sent), so
		// its tag must never be received
		brief[j] = vf_chance(&s->rng, 1, 3);
		nng_aio_set_timeout(a[j], brief[j] ? (nng_duration) vf_range(&s->rng, 1, 3) : atomic_load(&long_block_seen) ? 300 : 10000);
		nng_aio_set_msg(a[j], mm[j]);
		t_sub[j] = vf_now_ns();
		nng_socket_send(sock, a[j]);
		out[j] = true;
		submitted++;
		if (s->pause_permille && vf_below(&s->rng, 1000) < (uint32_t) s->pause_permille) {
			vf_usleep((int) vf_range(&s->rng, 10, 300));
		}
	}
	for (int j = 0; j < n; j++) nng_aio_free(a[j]);
}

static void *
sender_main(void *arg)
{
	sender_t  *s    = arg;
	nng_socket sock = C.push[s->push];
	nng_aio   *aio  = NULL;
	int        ph   = C.cur_phase;
	uint32_t   tag  = TAG(C.salt, ph, s->id);
	if (s->style == SS_WINDOW) {
		sender_window(s);
		atomic_fetch_sub(&C.senders_running, 1);
		return NULL;
	}
	if (s->style >= SS_AIO && nng_aio_alloc(&aio, NULL, NULL) != 0) {
		vf_harness_fail("aio alloc");
	}
	for (long i = 0; i < s->quota && s->next_seq < s->cap; i++) {
		sender_gate();
		// after a 10 s stall (never seen on a healthy library) the rest of
		// the run is cut short: every further stall would cost 300 ms
		if (i >= 20 && atomic_load(&long_block_seen)) break;
		uint64_t seq = s->next_seq;
		size_t   len = VF_BODY_MIN + vf_below(&s->rng, 40);
		if (vf_below(&s->rng, 24) == 0) {
			len = VF_BODY_MIN + vf_below(&s->rng, (uint32_t) C.bigmax);
		}
		nng_msg *m;
		if (nng_msg_alloc(&m, len) != 0) vf_harness_fail("msg alloc");
		vf_body_make(nng_msg_body(m), len, tag, seq);
		uint64_t t0 = vf_now_ns();
		int      rv;
		int      ncancel = 0;
		for (;;) {
			switch (s->style) {
			case SS_BLOCK:
				rv = nng_sendmsg(sock, m, 0); // SENDTIMEO 10 s
				break;
			case SS_NONBLOCK:
				rv = nng_sendmsg(sock, m, NNG_FLAG_NONBLOCK);
				break;
			default:
				nng_aio_set_timeout(aio, s->style == SS_AIO_SHORT ? (nng_duration) vf_range(&s->rng, 1, 3) : atomic_load(&long_block_seen) ? 300 : 10000);
				nng_aio_set_msg(aio, m);
				nng_socket_send(sock, aio);
				if (s->style == SS_CANCEL && ncancel < 40) {
					// nng_aio_cancel of a send that may be blocked, accepted
					// or being handed to a pipe right now; after 40 cancels
					// of one message it is simply waited for
					uint32_t w = vf_below(&s->rng, 4);
					if (w == 1) sched_yield();
					if (w >= 2) vf_usleep((int) vf_range(&s->rng, 20, 2000));
					nng_aio_cancel(aio);
				}
				nng_aio_wait(aio);
				rv = nng_aio_result(aio);
				if (s->style == SS_CANCEL) {
					if (rv == NNG_ECANCELED) {
						ncancel++;
						s->canceled++;
					} else if (rv == 0) {
						s->cancel_late++;
					}
				}
				if (rv != 0) {
					// failure must leave the message with the caller
					if (nng_aio_get_msg(aio) != m) {
						vf_violation("C06/backpressure/failed-send-took-message/flow", "aio send failed with %s but nng_aio_get_msg returned %p, not the submitted message", ename(rv), (void *) nng_aio_get_msg(aio));
					} else {
						s->attached_ok++;
					}
				}
				nng_aio_set_msg(aio, NULL);
				break;
			}
			if (rv == 0) break;
			if (rv == NNG_ECANCELED && s->style == SS_CANCEL) continue; // our own cancel: same message again
			if (rv == NNG_EAGAIN || rv == NNG_ETIMEDOUT) {
				if (rv == NNG_EAGAIN) s->eagain++; else s->timedout++;
				if (rv == NNG_ETIMEDOUT && s->style != SS_AIO_SHORT && vf_now_ns() - t0 > 9ull * 1000000000ull && !atomic_exchange(&long_block_seen, 1)) {
					// blocking for 10 s is allowed by the property, but
					// it need not be waited out again and again
					vf_stat("send_blocked_10s", 1);
				}
				if (atomic_load(&long_block_seen) && s->style == SS_BLOCK) nng_socket_set_ms(sock, NNG_OPT_SENDTIMEO, 300);
				// no pullers for a long time is not this property's
				// business: give the message up (still owned by us)
				if (vf_now_ns() - t0 > 30ull * 1000000000ull) {
					s->giveup++;
					break;
				}
				if (s->style == SS_NONBLOCK) {
					if (vf_below(&s->rng, 4) == 0) vf_usleep((int) vf_range(&s->rng, 20, 200)); else sched_yield();
				}
				continue;
			}
			vf_violation("C06/backpressure/send-error", "send failed with %s (%d): neither accepted, EAGAIN nor ETIMEDOUT; style %s", nng_strerror(rv), rv, ss_names[s->style]);
			break;
		}
		if (rv == 0) {
			s->st[seq] = 1;
			atomic_fetch_add(&C.ph_sent[ph], 1);
		} else {
			s->st[seq] = 2;
			nng_msg_free(m); // ours: a double free here means the library freed it too
		}
		s->phase[seq] = (uint8_t) ph;
		s->next_seq++;
		if (s->pause_permille && vf_below(&s->rng, 1000) < (uint32_t) s->pause_permille) {
			vf_usleep((int) vf_range(&s->rng, 10, 300));
		}
	}
	if (aio) nng_aio_free(aio);
	atomic_fetch_sub(&C.senders_running, 1);
	return NULL;
}

static void *
sampler_main(void *arg)
{
	// distinct states are collected locally and reported when the case ends
	static uint8_t seen[13][13][6][5];
	long           n_wait = 0, n_buf = 0, n_ready = 0, n_stale = 0;
	(void) arg;
	memset(seen, 0, sizeof(seen));
	while (!atomic_load(&C.sampler_stop)) {
		for (int i = 0; i < C.npush; i++) {
			int cap, len, ready, waiting;
			if (C.pm[i] == NULL) continue;
			wb_sample(C.pm[i], &cap, &len, &ready, &waiting);
			if (ready < 0 || waiting < 0) {
				n_stale++;
				continue;
			}
			seen[cap > 12 ? 12 : cap][len > 12 ? 12 : len][ready > 5 ? 5 : ready][waiting > 4 ? 4 : waiting] = 1;
			if (waiting > 0) n_wait++;
			if (len > 0) n_buf++;
			if (ready > 0) n_ready++;
		}
		vf_usleep(400);
	}
	for (int a = 0; a < 13; a++)
		for (int b = 0; b < 13; b++)
			for (int c = 0; c < 6; c++)
				for (int d = 0; d < 5; d++)
					if (seen[a][b][c][d]) vf_class("state/depth%d/queued%d/ready%d/waiting%d", a, b, c, d);
	vf_stat("wb_samples_with_waiting_senders", n_wait);
	vf_stat("wb_samples_with_buffered", n_buf);
	vf_stat("wb_samples_with_ready_pipe", n_ready);
	if (n_stale) vf_stat("wb_stale_list_entry_seen", n_stale);
	return NULL;
}

static int
live_pullers(void)
{
	int n = 0;
	for (int j = 0; j < C.nslots; j++) {
		if (C.pull[j].opened && !C.pull[j].closed) n++;
	}
	return n;
}

// Wait until the topology is what the plan says: every pusher has one
// established pipe per live puller and vice versa, and every planned
// arrival / departure has been observed.  Unplanned departures make the
// current phase lossy (the property only speaks about connections that stay up).
static void
settle(void)
{
	uint64_t end = vf_now_ns() + 30ull * 1000000000ull;
	int      nl  = live_pullers();
	for (;;) {
		bool ok   = true;
		long adds = 0, rems = 0;
		for (int i = 0; i < C.npush; i++) {
			int pe;
			if (tracker_live(&C.ptr[i], &pe) != nl * C.kpar || pe) ok = false;
			adds += atomic_load(&C.ptr[i].adds);
			rems += atomic_load(&C.ptr[i].rems);
		}
		for (int j = 0; j < C.nslots; j++) {
			int pe;
			if (!C.pull[j].opened || C.pull[j].closed) continue;
			if (tracker_live(&C.pull[j].tr, &pe) != C.npush * C.kpar || pe) ok = false;
		}
		if (rems > C.exp_rems) {
			long d = rems - C.exp_rems;
			C.unplanned += d;
			C.exp_rems = rems;
			C.exp_adds += d; // a dialer brings it back
			C.lossy[C.cur_phase] = true;
		}
		if (adds != C.exp_adds || rems != C.exp_rems) ok = false;
		if (ok) return;
		if (vf_now_ns() > end) {
			vf_harness_fail("topology did not settle: adds %ld/%ld rems %ld/%ld live pullers %d", adds, C.exp_adds, rems, C.exp_rems, nl);
		}
		vf_usleep(300);
	}
}

// wait until the planned departures have been seen by the PUSH side
static void
wait_rems(void)
{
	uint64_t end = vf_now_ns() + 30ull * 1000000000ull;
	for (;;) {
		long rems = 0;
		for (int i = 0; i < C.npush; i++) rems += atomic_load(&C.ptr[i].rems);
		if (rems >= C.exp_rems) return;
		if (vf_now_ns() > end) vf_harness_fail("planned pipe departure not observed: %ld/%ld", rems, C.exp_rems);
		vf_usleep(200);
	}
}

static void
sock_common(nng_socket s)
{
	nng_socket_set_ms(s, NNG_OPT_RECONNMINT, 2);
	nng_socket_set_ms(s, NNG_OPT_RECONNMAXT, 10);
	nng_socket_set_size(s, NNG_OPT_RECVMAXSZ, 0);
}

static void
add_puller(bool start_thread)
{
	if (C.nslots >= MAXPULL) vf_harness_fail("puller slots");
	puller_t *q = &C.pull[C.nslots];
	int       rv;
	memset(q, 0, sizeof(*q));
	q->slot = C.nslots;
	if ((rv = (C.raw_pull ? nng_pull0_open_raw : nng_pull0_open)(&q->s)) != 0) vf_harness_fail("pull open: %s", nng_strerror(rv));
	sock_common(q->s);
	nng_socket_set_ms(q->s, NNG_OPT_RECVTIMEO, 15);
	tracker_init(&q->tr, q->s);
	vf_rng_seed(&q->rng, vf_rand(&C.rng), 77);
	q->style         = (int) vf_below(&C.rng, RS_N);
	q->ring          = (int) vf_range(&C.rng, 2, 4);
	q->slow_permille = vf_chance(&C.rng, 1, 3) ? (int) vf_range(&C.rng, 5, 120) : 0;
	q->cancels       = vf_chance(&C.rng, 1, 2);
	q->opened        = true;
	C.nslots++;
	if (start_thread) {
		// receiving before the pipes exist: arrival hands messages to a
		// waiting receiver
		if (pthread_create(&q->th, NULL, receiver_main, q) != 0) vf_harness_fail("thread");
		q->started = true;
	}
	if (C.push_listens) {
		for (int i = 0; i < C.npush; i++) {
			for (int c = 0; c < C.kpar; c++) {
				if ((rv = nng_dial(q->s, C.purl[i], NULL, 0)) != 0) vf_harness_fail("dial %s: %s", C.purl[i], nng_strerror(rv));
			}
		}
	} else {
		char durl[128];
		mk_url(C.tran, q->url, sizeof(q->url));
		if ((rv = nng_listen(q->s, q->url, &q->lst, 0)) != 0) vf_harness_fail("listen %s: %s", q->url, nng_strerror(rv));
		if (mk_dial_url(q->lst, C.tran, q->url, durl, sizeof(durl)) != 0) vf_harness_fail("dial url");
		for (int i = 0; i < C.npush; i++) {
			for (int c = 0; c < C.kpar; c++) {
				if ((rv = nng_dial(C.push[i], durl, &C.dial[i][q->slot][c], 0)) != 0) vf_harness_fail("dial %s: %s", durl, nng_strerror(rv));
			}
			C.dial_ok[i][q->slot] = true;
		}
	}
	C.exp_adds += C.npush * C.kpar;
}

static void
close_puller(int slot)
{
	puller_t *q = &C.pull[slot];
	// Two orders.  Mostly the receiver is stopped first and the socket closed
	// afterwards (with whatever is queued in it or on its way to it).  A
	// NONBLOCK receiver is, half of the time, left running and the socket
	// closed under it while it keeps calling receive (the "receive submitted
	// while nng_socket_close runs stays pending for ever" defect this used
	// to hit is fixed, b12345d).  Receivers with timeouts are never closed
	// under (except in mode "flowx"): a receive timeout expiring exactly then
	// runs into the expire loop's stale-cancel window, a known finding that
	// is not this property's and whose sanitizer keys vary.
	bool racy = racy_close || (q->style == RS_NONBLOCK && vf_chance(&C.rng, 1, 2));
	if (racy && q->started) vf_stat("puller_closed_under_running_receiver", 1);
	if (q->started && !racy) {
		atomic_store(&q->stop, 1);
		pthread_join(q->th, NULL);
		q->started = false;
	}
	nng_socket_close(q->s);
	q->closed = true;
	C.exp_rems += C.npush * C.kpar;
	if (!C.push_listens) {
		for (int i = 0; i < C.npush; i++) {
			if (C.dial_ok[i][slot]) {
				for (int c = 0; c < C.kpar; c++) nng_dialer_close(C.dial[i][slot][c]);
				C.dial_ok[i][slot] = false;
			}
		}
	}
	if (q->started) {
		pthread_join(q->th, NULL);
		q->started = false;
	}
}

static int
pick_live_puller(void)
{
	int cand[MAXPULL], n = 0;
	for (int j = 0; j < C.nslots; j++) {
		if (C.pull[j].opened && !C.pull[j].closed) cand[n++] = j;
	}
	return n ? cand[vf_below(&C.rng, (uint32_t) n)] : -1;
}

// let the senders get on for a while (bounded: they may all be blocked)
static void
progress(int ph, long upto, int max_ms)
{
	uint64_t end = vf_now_ns() + (uint64_t) max_ms * 1000000ull;
	while (atomic_load(&C.ph_sent[ph]) < upto && atomic_load(&C.senders_running) > 0 && vf_now_ns() < end) {
		vf_usleep(100);
	}
}

// The library has nothing queued or running (tasks, pollers, reaper) on
// three samples in a row.  vf_quiesce() cannot be used while receivers poll:
// every receive attempt is library activity.
static bool
lib_idle(int timeout_ms)
{
	uint64_t end  = vf_now_ns() + (uint64_t) timeout_ms * 1000000ull;
	int      calm = 0;
	for (;;) {
		calm = vf_inflight() == 0 ? calm + 1 : 0;
		if (calm >= 3) return true;
		if (vf_now_ns() > end) return false;
		vf_usleep(300);
	}
}

// every running receiver has come up empty twice and the library is idle
static bool
receivers_idle(int timeout_ms)
{
	long idle0[MAXPULL];
	if (!lib_idle(timeout_ms)) return false;
	for (int j = 0; j < C.nslots; j++) idle0[j] = atomic_load(&C.pull[j].idle);
	uint64_t t1 = vf_now_ns() + 3000000000ull;
	for (;;) {
		bool all = true;
		for (int j = 0; j < C.nslots; j++) {
			if (C.pull[j].started && !C.pull[j].closed && atomic_load(&C.pull[j].idle) < idle0[j] + 2) all = false;
		}
		if (all) return lib_idle(5);
		if (vf_now_ns() > t1) return false;
		vf_usleep(500);
	}
}

// Drain to quiescence.  Loss-free phase: wait until everything accepted in
// this phase has been received; give up only after 10 s without any progress
// while the library is idle and the receivers keep coming up empty (then it
// is lost, or stuck for good).  Lossy phase: wait until the library is idle,
// every receiver has come up empty twice and the count no longer moves.
static bool
drain(int ph)
{
	uint64_t last_change = vf_now_ns();
	long     last        = -1;
	bool     ok          = true;
	for (;;) {
		long got  = atomic_load(&C.ph_recv[ph]);
		long want = atomic_load(&C.ph_sent[ph]);
		if (got != last) {
			last        = got;
			last_change = vf_now_ns();
		}
		if (!C.lossy[ph] && got >= want) break;
		if (receivers_idle(200) && atomic_load(&C.ph_recv[ph]) == got) {
			if (C.lossy[ph]) break;
			if (vf_now_ns() - last_change > stuck_ns()) {
				ok         = false;
				loss_seen = true;
				break;
			}
		} else if (vf_now_ns() - last_change > 90ull * 1000000000ull) {
			ok = false; // never idle, never any progress
			break;
		}
	}
	// extras (duplicates) would show up now; the next phase starts from rest
	receivers_idle(2000);
	return ok;
}

// The offline checker over the merged history of one case.
static void
check_case(const char *topo)
{
	// received-count per (sender, seq)
	uint16_t *cnt[MAXSEND];
	long      n_recv = 0, n_ok = 0, n_fail = 0, lost_allowed = 0, n_order = 0;
	long      lost_pp[MAXPHASE][MAXPUSH], sent_pp[MAXPHASE][MAXPUSH];
	char      key[160];
	memset(lost_pp, 0, sizeof(lost_pp));
	memset(sent_pp, 0, sizeof(sent_pp));
	for (int k = 0; k < C.nsend; k++) {
		cnt[k] = calloc(C.snd[k].cap + 1, sizeof(uint16_t));
		if (!cnt[k]) vf_harness_fail("oom");
	}
	for (int j = 0; j < C.nslots; j++) {
		puller_t *q = &C.pull[j];
		// per (sender, pipe) last sequence number seen by this puller
		struct {
			uint32_t pipe;
			int      sid;
			uint64_t next;
			int      phase;
		} ord[256];
		int nord = 0;
		if (q->corrupt) {
			vf_violation("C06/corrupt-body", "%s: puller %d received %ld messages whose self-describing body does not verify", topo, j, q->corrupt);
		}
		if (q->odd_rv) {
			vf_stat("recv_other_errors", 1);
		}
		for (size_t x = 0; x < q->n; x++) {
			rrec    *r   = &q->recs[x];
			int      sid = (int) (r->tag & 0xff);
			int      ph  = (int) ((r->tag >> 8) & 0xf);
			n_recv++;
			if ((r->tag >> 12) != (C.salt & 0xfffu) || sid >= C.nsend || r->seq >= C.snd[sid].cap || C.snd[sid].st[r->seq] == 0 || C.snd[sid].phase[r->seq] != ph) {
				vf_violation("C06/phantom", "%s: puller %d received tag %08x seq %llu that no sender sent in this case", topo, j, r->tag, (unsigned long long) r->seq);
				continue;
			}
			if (cnt[sid][r->seq] < 0xffff) cnt[sid][r->seq]++;
			// order on one connection (not observable through several
			// receives outstanding at once)
			if (q->style == RS_RING) continue;
			int o;
			for (o = 0; o < nord; o++) {
				if (ord[o].pipe == r->pipe && ord[o].sid == sid) break;
			}
			if (o == nord) {
				if (nord == 256) continue;
				ord[nord].pipe = r->pipe;
				ord[nord].sid  = sid;
				ord[nord].next = 0;
				nord++;
			}
			if (r->seq < ord[o].next) {
				snprintf(key, sizeof(key), "C06/order/%s.%s", tn(C.tran), ph_names[C.kinds[ph]]);
				vf_violation(key, "%s: puller %d got seq %llu of sender %d after seq %llu on the same pipe %u", topo, j, (unsigned long long) r->seq, sid, (unsigned long long) (ord[o].next - 1), r->pipe);
			} else {
				n_order++;
			}
			ord[o].next = r->seq + 1;
		}
		if (C.kpar > 1) {
			// one sender's stream reached this puller through sibling pipes
			for (int a = 0; a < nord; a++) {
				int sib = 0;
				for (int c = 0; c < a; c++) if (ord[c].sid == ord[a].sid) sib++;
				if (sib == 1) vf_stat("streams_spread_over_sibling_pipes", 1);
			}
			vf_stat("received_over_parallel_pipes", (long) q->n);
		}
	}
	for (int k = 0; k < C.nsend; k++) {
		sender_t *s = &C.snd[k];
		for (uint64_t q = 0; q < s->next_seq; q++) {
			int ph = s->phase[q];
			if (s->st[q] == 1) n_ok++; else n_fail++;
			if (cnt[k][q] > 1) {
				snprintf(key, sizeof(key), "C06/duplicate/%s.%s", tn(C.tran), ph_names[C.kinds[ph]]);
				vf_violation(key, "%s: message (sender %d, seq %llu, phase %d %s) was received %d times", topo, k, (unsigned long long) q, ph, ph_names[C.kinds[ph]], cnt[k][q]);
			}
			if (cnt[k][q] >= 1 && s->st[q] != 1) {
				snprintf(key, sizeof(key), "C06/backpressure/failed-send-delivered/%s", ss_names[s->style]);
				vf_violation(key, "%s: message (sender %d, seq %llu) whose send failed for good (message kept by the caller) was nevertheless received", topo, k, (unsigned long long) q);
			}
			if (s->st[q] == 1) sent_pp[ph][s->push]++;
			if (cnt[k][q] == 0 && s->st[q] == 1) {
				if (C.lossy[ph]) {
					lost_allowed++;
					lost_pp[ph][s->push]++;
				} else {
					snprintf(key, sizeof(key), "C06/lost/%s.%s", tn(C.tran), ph_names[C.kinds[ph]]);
					vf_violation(key, "%s: message (sender %d style %s, seq %llu) accepted by send in loss-free phase %d (%s) was never received although every connection stayed up", topo, k, ss_names[s->style], (unsigned long long) q, ph, ph_names[C.kinds[ph]]);
				}
			}
		}
		free(cnt[k]);
	}
	// Phases with departures: only what was bound to a connection that went
	// away may be missing.  (a) A PUSH socket none of whose pipes was removed
	// in the phase must not have lost anything.  (b) inproc has no kernel
	// buffering: per removed pipe at most the message in the PUSH pipe's send
	// aio and the one parked in (or on its way up through) the PULL pipe can
	// be bound to it.
	for (int ph = 0; ph < C.nphase; ph++) {
		if (!C.lossy[ph]) continue;
		for (int i = 0; i < C.npush; i++) {
			long L = lost_pp[ph][i], R = C.rems_ph[ph][i];
			if (R == 0) {
				vf_stat("departure_phase_pushers_without_removal", 1);
				vf_stat("judged_strictly_in_departure_phases", sent_pp[ph][i]);
				if (L > 0) {
					snprintf(key, sizeof(key), "C06/lost/other-connection/%s.%s", tn(C.tran), ph_names[C.kinds[ph]]);
					vf_violation(key, "%s: phase %d (%s): PUSH socket %d lost %ld accepted messages although none of its pipes was removed in this phase (pipes of other PUSH sockets departed)", topo, ph, ph_names[C.kinds[ph]], i, L);
				}
				continue;
			}
			if (C.tran == VF_T_INPROC) {
				vf_stat("inproc_departures_bounded", R);
				vf_stat_max("max_lost_per_removed_pipe_inproc", (L + R - 1) / R);
				if (L > 0) vf_stat("inproc_departures_with_loss", 1);
				if (L > 2 * R) {
					snprintf(key, sizeof(key), "C06/lost/more-than-in-flight/inproc.%s", ph_names[C.kinds[ph]]);
					vf_violation(key, "%s: phase %d (%s): PUSH socket %d lost %ld accepted messages but only %ld of its pipes were removed (inproc: at most 2 messages can be bound to a pipe)", topo, ph, ph_names[C.kinds[ph]], i, L, R);
				}
			}
		}
	}
	vf_stat("received", n_recv);
	vf_stat("sent_ok", n_ok);
	vf_stat("sends_failed_for_good", n_fail);
	vf_stat("lost_in_departure_phases", lost_allowed);
	vf_stat("order_checked", n_order);
}

// Shrink the send buffer of PUSH socket i mid-flight to a depth that still
// holds everything queued in it (loss-free by any reading of the property;
// shrinking below the fill is C18's subject).  All senders are parked outside
// of send calls first, so the fill read under the socket lock can only go
// down until the option is set.
static bool
try_shrink(int i)
{
	push_mirror *pm = C.pm[i];
	bool         done = false;
	if (pm == NULL) return false;
	atomic_store(&C.gate, 1);
	uint64_t end = vf_now_ns() + 15ull * 1000000000ull;
	while (atomic_load(&C.parked) < atomic_load(&C.senders_running)) {
		if (vf_now_ns() > end) break; // a sender sits in a long blocking send
		vf_usleep(100);
	}
	if (atomic_load(&C.parked) >= atomic_load(&C.senders_running)) {
		int cap, len;
		nni_mtx_lock(&pm->m);
		cap = (int) pm->wq.lmq_cap;
		len = (int) pm->wq.lmq_len;
		nni_mtx_unlock(&pm->m);
		if (len < cap) {
			int ncap = len + (int) vf_below(&C.rng, (uint32_t) (cap - len));
			int rv   = nng_socket_set_int(C.push[i], NNG_OPT_SENDBUF, ncap);
			if (rv != 0) vf_harness_fail("sendbuf shrink: %s", nng_strerror(rv));
			C.depth[i] = ncap;
			vf_stat("shrinks_midflight", 1);
			if (len > 0) vf_stat("shrinks_with_messages_queued", 1);
			if (atomic_load(&C.senders_running) > 0) vf_stat("shrinks_with_senders_parked", 1);
			vf_class("shrink/%s/from%d/to%d/queued%d", tn(C.tran), cap > 12 ? 12 : cap, ncap > 12 ? 12 : ncap, len > 12 ? 12 : len);
			done = true;
		}
	} else {
		vf_stat("shrink_gate_timeouts", 1);
	}
	atomic_store(&C.gate, 0);
	return done;
}

// One resize of a random PUSH socket's send buffer inside a phase in which a
// puller arrives or a connection departs (growth; or shrink-to-at-least-the-
// fill when senders can be expected to reach the gate).
static void
resize_mixed(bool may_shrink, const char *when)
{
	vf_rng *r = &C.rng;
	int     i = (int) vf_below(r, (uint32_t) C.npush);
	int     rv;
	bool    shrunk = false;
	if (may_shrink && vf_chance(r, 1, 3)) shrunk = try_shrink(i);
	if (!shrunk) {
		C.depth[i] += (int) vf_range(r, 1, 3);
		if ((rv = nng_socket_set_int(C.push[i], NNG_OPT_SENDBUF, C.depth[i])) != 0) vf_harness_fail("sendbuf grow: %s", nng_strerror(rv));
	}
	vf_stat("resizes_midflight", 1);
	vf_stat("resizes_in_phase_with_arrival_or_departure", 1);
	if (live_pullers() == 0) vf_stat("resizes_with_no_puller_attached", 1);
	if (atomic_load(&C.senders_running) > 0) vf_stat("resizes_mixed_with_senders_running", 1);
	vf_class("resize-mixed/%s/%s/%s/%s", tn(C.tran), ph_names[C.kinds[C.cur_phase]], when, shrunk ? "shrink" : "grow");
}

static void
run_flow_case(long idx)
{
	vf_rng *r = &C.rng;
	char    topo[200];
	int     rv;
	bool    thorough = vf_tier == 1;

	memset(&C, 0, sizeof(C));
	C.idx = idx;
	vf_rng_seed(r, vf_seed, (uint64_t) idx);
	C.salt         = (uint32_t) (vf_rand(r) & 0xfff);
	{
		uint32_t x = vf_below(r, 20); // inproc 5/20, ipc 4/20, tcp 5/20, ws 3/20, abstract 3/20
		C.tran     = x >= 17 ? T_ABSTRACT : x >= 14 ? VF_T_WS : x >= 9 ? VF_T_TCP : x >= 5 ? VF_T_IPC : VF_T_INPROC;
	}
	C.npush        = (int) vf_range(r, 1, MAXPUSH);
	C.npull0       = (int) vf_range(r, 0, 4);
	C.push_listens = vf_chance(r, 1, 2);
	C.bigmax       = vf_chance(r, 1, 4) ? 6000 : 600;
	C.nphase       = (int) vf_range(r, 2, 5);
	long total     = thorough ? (long) vf_range(r, 8000, 50000) : (long) vf_range(r, 3000, 20000);
	int  spp       = (int) vf_range(r, 1, C.npush >= 3 ? 2 : 3); // sender threads per pusher
	C.nsend        = C.npush * spp;
	for (int p = 0; p < C.nphase; p++) {
		C.kinds[p] = (int) vf_below(r, PH_NKINDS);
	}
	if (C.npull0 == 0) C.kinds[0] = PH_ARRIVE;
	// always end with a loss-free phase: what earlier departures left behind
	// in the PUSH socket shows up there
	if (ph_lossy_kind[C.kinds[C.nphase - 1]]) C.kinds[C.nphase - 1] = vf_chance(r, 1, 2) ? PH_STEADY : PH_GROW;
	int jit_pm = vf_chance(r, 1, 5) ? 0 : (int) vf_range(r, 2, 40);
	int jit_us = (int) vf_range(r, 0, 150);
	int target = (int) vf_below(r, 5);
	C.raw_push = vf_chance(r, 1, 8);
	C.raw_pull = vf_chance(r, 1, 8);
	// 1/4 of the cases: 2-3 pipes between every PUSH and PULL socket, so that
	// one sender's stream is spread over sibling pipes into the same puller
	C.kpar     = vf_chance(r, 1, 4) ? (int) vf_range(r, 2, MAXPAR) : 1;
	bool rz_mix = vf_chance(r, 1, 2); // resizes also inside arrival / departure phases

	snprintf(topo, sizeof(topo), "%s %dpush(%s)x%dpull spp=%d k=%d", tn(C.tran), C.npush, C.push_listens ? "listen" : "dial", C.npull0, spp, C.kpar);
	vf_case_begin(idx, "flow %s phases=%d msgs=%ld jitter=%d/%dus target=%d", topo, C.nphase, total, jit_pm, jit_us, target);

	vf_pt_off();
	if (jit_pm) vf_pt_jitter(vf_seed ^ (uint64_t) idx * 0x9e3779b97f4a7c15ull, jit_pm, jit_us);
	// widen the windows around completion callbacks and pipe reaping
	switch (target) {
	case 1: vf_pt_target(NNI_VP_TASK_BEFORE_CB, 150, 0, 300); break;
	case 2: vf_pt_target(NNI_VP_PIPE_REAP_BEFORE_CLOSE, 500, 0, 500); vf_pt_target(NNI_VP_TASK_BEFORE_CB, 60, 0, 200); break;
	case 3: vf_pt_target(NNI_VP_AIO_FINISH_UNLOCKED, 150, 0, 200); break;
	default: break;
	}

	for (int i = 0; i < C.npush; i++) {
		if ((rv = (C.raw_push ? nng_push0_open_raw : nng_push0_open)(&C.push[i])) != 0) vf_harness_fail("push open: %s", nng_strerror(rv));
		sock_common(C.push[i]);
		nng_socket_set_ms(C.push[i], NNG_OPT_SENDTIMEO, atomic_load(&long_block_seen) ? 300 : 10000);
		C.depth[i] = (int) vf_range(r, 0, 8);
		if (C.depth[i] || vf_chance(r, 1, 2)) {
			if ((rv = nng_socket_set_int(C.push[i], NNG_OPT_SENDBUF, C.depth[i])) != 0) vf_harness_fail("sendbuf: %s", nng_strerror(rv));
		}
		tracker_init(&C.ptr[i], C.push[i]);
		C.pm[i] = wb_struct_ok ? wb_get(C.push[i]) : NULL;
		if (C.push_listens) {
			char url[128];
			mk_url(C.tran, url, sizeof(url));
			if ((rv = nng_listen(C.push[i], url, &C.plst[i], 0)) != 0) vf_harness_fail("listen %s: %s", url, nng_strerror(rv));
			if (mk_dial_url(C.plst[i], C.tran, url, C.purl[i], sizeof(C.purl[i])) != 0) vf_harness_fail("dial url");
		}
	}
	for (int j = 0; j < C.npull0; j++) add_puller(true);
	settle();

	for (int k = 0; k < C.nsend; k++) {
		sender_t *s = &C.snd[k];
		s->id       = k;
		s->push     = k % C.npush;
		s->style    = (int) vf_below(r, SS_N);
		s->window   = (int) vf_range(r, 2, 4);
		s->pause_permille = vf_chance(r, 1, 3) ? (int) vf_range(r, 5, 100) : 0;
		s->cap      = (uint64_t) (total / C.nsend + 2) * 2;
		s->st       = calloc(s->cap, 1);
		s->phase    = calloc(s->cap, 1);
		if (!s->st || !s->phase) vf_harness_fail("oom");
		vf_rng_seed(&s->rng, vf_rand(r), (uint64_t) k);
	}

	pthread_t sampler;
	bool      have_sampler = false;
	if (wb_ok) {
		have_sampler = pthread_create(&sampler, NULL, sampler_main, NULL) == 0;
	}

	for (int ph = 0; ph < C.nphase; ph++) {
		int  kind   = C.kinds[ph];
		long quota  = total / C.nphase;
		long per    = quota / C.nsend > 0 ? quota / C.nsend : 1;
		C.cur_phase = ph;
		C.lossy[ph] = false; // set when a departure is initiated
		uint64_t tP = vf_now_ns();
		atomic_store(&C.senders_running, C.nsend);
		for (int k = 0; k < C.nsend; k++) {
			C.snd[k].quota = per;
			if (pthread_create(&C.snd[k].th, NULL, sender_main, &C.snd[k]) != 0) vf_harness_fail("thread");
		}
		long phq = per * C.nsend;
		int  ev  = 0;
		switch (kind) {
		case PH_STEADY:
			break;
		case PH_GROW:
			for (int g = 1; g <= 4; g++) {
				progress(ph, phq * g / 5, 100);
				int i = (int) vf_below(r, (uint32_t) C.npush);
				if ((g & 1) == 0 && try_shrink(i)) {
					ev++;
					continue;
				}
				C.depth[i] += (int) vf_range(r, 1, 3);
				if ((rv = nng_socket_set_int(C.push[i], NNG_OPT_SENDBUF, C.depth[i])) != 0) vf_harness_fail("sendbuf grow: %s", nng_strerror(rv));
				ev++;
			}
			vf_stat("resizes_midflight", ev);
			break;
		case PH_ARRIVE:
			progress(ph, phq / 3, live_pullers() ? 100 : 30);
			if (rz_mix) resize_mixed(live_pullers() > 0, live_pullers() ? "before-arrival" : "no-puller");
			add_puller(vf_chance(r, 3, 4));
			if (rz_mix) resize_mixed(false, "after-arrival");
			if (C.nslots < MAXPULL - 2 && vf_chance(r, 1, 3)) {
				progress(ph, phq * 2 / 3, 100);
				add_puller(true);
				if (rz_mix) resize_mixed(true, "after-arrival");
			}
			vf_stat("arrivals_midflight", 1);
			break;
		case PH_DEPART_SOCK:
			if (live_pullers() >= 2) {
				progress(ph, phq / 2, 100);
				C.lossy[ph] = true;
				if (atomic_load(&C.senders_running) > 0) vf_stat("departures_with_senders_running", 1);
				if (rz_mix) resize_mixed(true, "before-departure");
				close_puller(pick_live_puller());
				if (rz_mix) resize_mixed(true, "after-departure");
				vf_stat("puller_closes_midflight", 1);
			}
			break;
		case PH_REPLACE:
			// the (possibly only) puller goes, senders run dry and block,
			// a new one arrives
			if (live_pullers() >= 1 && C.nslots < MAXPULL - 1) {
				progress(ph, phq / 3, 100);
				C.lossy[ph] = true;
				if (atomic_load(&C.senders_running) > 0) vf_stat("departures_with_senders_running", 1);
				close_puller(pick_live_puller());
				wait_rems();
				if (vf_chance(r, 1, 2)) vf_usleep((int) vf_range(r, 100, 3000));
				// possibly with no pipe at all and every sender blocked:
				// the new room goes to the blocked senders
				if (rz_mix) resize_mixed(false, live_pullers() ? "between-departure-and-arrival" : "no-puller");
				add_puller(true);
				if (rz_mix) resize_mixed(false, "after-arrival");
				vf_stat("puller_closes_midflight", 1);
				vf_stat("arrivals_midflight", 1);
			}
			break;
		case PH_PIPE_PUSH:
		case PH_PIPE_PULL: {
			int n = (int) vf_range(r, 1, 4);
			if (live_pullers() == 0) break;
			for (int g = 1; g <= n; g++) {
				nng_pipe p;
				progress(ph, phq * g / (n + 1), 100);
				settle(); // previous redial complete: one pipe per pair
				tracker *t = kind == PH_PIPE_PUSH ? &C.ptr[vf_below(r, (uint32_t) C.npush)] : &C.pull[pick_live_puller()].tr;
				if (!tracker_pick(t, r, &p)) continue;
				C.lossy[ph] = true;
				if (atomic_load(&C.senders_running) > 0) vf_stat("departures_with_senders_running", 1);
				if (nng_pipe_close(p) == 0) {
					C.exp_rems++;
					C.exp_adds++;
					ev++;
					if (rz_mix && vf_chance(r, 1, 2)) resize_mixed(false, "pipe-closing");
					wait_rems();
					if (rz_mix && vf_chance(r, 1, 2)) resize_mixed(true, "after-departure");
				}
			}
			vf_stat("pipe_closes_midflight", ev);
			break;
		}
		}
		// pullers that arrived without a receiver start receiving now
		progress(ph, phq, 20);
		for (int j = 0; j < C.nslots; j++) {
			puller_t *q = &C.pull[j];
			if (q->opened && !q->closed && !q->started) {
				if (pthread_create(&q->th, NULL, receiver_main, q) != 0) vf_harness_fail("thread");
				q->started = true;
			}
		}
		uint64_t tA = vf_now_ns();
		for (int k = 0; k < C.nsend; k++) pthread_join(C.snd[k].th, NULL);
		uint64_t tB = vf_now_ns();
		settle();
		uint64_t tC = vf_now_ns();
		bool     drained = drain(ph);
		if (vf_verbose) {
			fprintf(stderr, "  phase %d %-14s events+%4d ms senders+%5d ms settle %4d ms drain %5d ms sent %ld recv %ld\n", ph, ph_names[kind], (int) ((tA - tP) / 1000000), (int) ((tB - tA) / 1000000), (int) ((tC - tB) / 1000000), (int) ((vf_now_ns() - tC) / 1000000), atomic_load(&C.ph_sent[ph]), atomic_load(&C.ph_recv[ph]));
		}
		if (!drained) {
			// reported per tag by check_case(); remember that the drain
			// gave up so that a late arrival is still a finding
			char key[160];
			snprintf(key, sizeof(key), "C06/lost/undelivered-at-quiescence/%s.%s", tn(C.tran), ph_names[kind]);
			vf_violation(key, "%s: phase %d (%s): %ld messages accepted, %ld received, no progress for 10 s with idle library and waiting receivers, every connection up", topo, ph, ph_names[kind], atomic_load(&C.ph_sent[ph]), atomic_load(&C.ph_recv[ph]));
		}
		// pipe removals seen on each PUSH socket since the previous phase
		// ended belong to this phase
		for (int i = 0; i < C.npush; i++) {
			long now = atomic_load(&C.ptr[i].rems) + atomic_load(&C.ptr[i].aborted);
			C.rems_ph[ph][i] = now - C.rems_seen[i];
			C.rems_seen[i]   = now;
		}
		vf_stat(C.lossy[ph] ? "departure_phases" : "lossfree_phases", 1);
		{
			char pkey[64];
			snprintf(pkey, sizeof(pkey), "%s/%s", C.lossy[ph] ? "departure_phases" : "lossfree_phases", tn(C.tran));
			vf_stat(pkey, 1);
		}
		vf_class("phase/%s/%s/p%dq%d/%s", tn(C.tran), ph_names[kind], C.npush, live_pullers(), C.lossy[ph] ? (atomic_load(&C.ph_recv[ph]) < atomic_load(&C.ph_sent[ph]) ? "some-lost" : "all-arrived") : "conserved");
		vf_watchdog(180);
	}

	// teardown
	receivers_idle(2000);
	atomic_store(&C.sampler_stop, 1);
	if (have_sampler) pthread_join(sampler, NULL);
	for (int j = 0; j < C.nslots; j++) atomic_store(&C.pull[j].stop, 1);
	for (int j = 0; j < C.nslots; j++) {
		if (C.pull[j].started) pthread_join(C.pull[j].th, NULL);
	}
	vf_pt_off();
	bool push_first = vf_chance(r, 1, 2);
	if (push_first) for (int i = 0; i < C.npush; i++) nng_socket_close(C.push[i]);
	for (int j = 0; j < C.nslots; j++) {
		if (C.pull[j].opened && !C.pull[j].closed) nng_socket_close(C.pull[j].s);
	}
	if (!push_first) for (int i = 0; i < C.npush; i++) nng_socket_close(C.push[i]);

	check_case(topo);

	long eag = 0, tmo = 0, giveup = 0, att = 0, can = 0, canlate = 0;
	for (int k = 0; k < C.nsend; k++) {
		sender_t *s = &C.snd[k];
		char      skey[64];
		eag += s->eagain; tmo += s->timedout; giveup += s->giveup; att += s->attached_ok;
		can += s->canceled; canlate += s->cancel_late;
		if (s->early_tmo) vf_stat("window_send_timed_out_before_its_deadline", s->early_tmo);
		if (s->early_tmo_odd) vf_stat("window_send_timed_out_early_though_previous_send_had_long_timeout", s->early_tmo_odd);
		snprintf(skey, sizeof(skey), "senders/%s", ss_names[s->style]);
		vf_stat(skey, 1);
		if (s->style == SS_WINDOW) vf_stat("window_sends_submitted_behind_pending_send", s->win_overlap);
		vf_class("sender/%s/%s/%s%s", tn(C.tran), ss_names[s->style], s->eagain ? "eagain" : "", s->timedout ? "timedout" : "");
		free(s->st);
		free(s->phase);
	}
	for (int j = 0; j < C.nslots; j++) {
		vf_class("receiver/%s/%s/%s", tn(C.tran), rs_names[C.pull[j].style], C.pull[j].n ? "got" : "none");
		{
			char rkey[64];
			snprintf(rkey, sizeof(rkey), "receivers/%s", rs_names[C.pull[j].style]);
			vf_stat(rkey, 1);
		}
		vf_stat("recv_canceled", C.pull[j].rcanceled);
		vf_stat("recv_completed_despite_cancel", C.pull[j].rcancel_late);
		if (C.pull[j].style == RS_RING) {
			vf_stat("ring_received", (long) C.pull[j].n);
			vf_stat("ring_received_with_other_receive_pending", C.pull[j].ring_multi);
		}
		free(C.pull[j].recs);
	}
	vf_stat("send_eagain", eag);
	vf_stat("send_timedout", tmo);
	vf_stat("failed_send_msg_still_attached", att);
	vf_stat("send_giveups", giveup);
	vf_stat("send_canceled_msg_still_attached", can);
	vf_stat("send_completed_despite_cancel", canlate);
	vf_stat("unplanned_departures", C.unplanned);
	vf_stat("cases", 1);
	vf_class("topo/%s/%dx%d/%s%s%s", tn(C.tran), C.npush, C.npull0, C.push_listens ? "push-listens" : "pull-listens", C.raw_push ? "/raw-push" : "", C.raw_pull ? "/raw-pull" : "");
	if (C.raw_push || C.raw_pull) vf_stat("cases_with_raw_sockets", 1);
	if (C.tran == VF_T_WS) vf_stat("cases_over_ws", 1);
	if (C.kpar > 1) {
		vf_stat("cases_with_parallel_pipes", 1);
		vf_class("parallel/%s/k%d/%dx%d", tn(C.tran), C.kpar, C.npush, C.npull0);
	}
	{
		char key[64];
		snprintf(key, sizeof(key), "cases/%s", tn(C.tran));
		vf_stat(key, 1);
	}
	if ((idx & 3) == 0) {
		vf_sample("{\"mode\":\"flow\",\"topology\":\"%s\",\"phases\":%d,\"first_kind\":\"%s\",\"sent_ok\":%ld,\"received\":%ld,\"eagain\":%ld,\"timedout\":%ld}", topo, C.nphase, ph_names[C.kinds[0]],
		    atomic_load(&C.ph_sent[0]) + atomic_load(&C.ph_sent[1]) + atomic_load(&C.ph_sent[2]) + atomic_load(&C.ph_sent[3]) + atomic_load(&C.ph_sent[4]),
		    atomic_load(&C.ph_recv[0]) + atomic_load(&C.ph_recv[1]) + atomic_load(&C.ph_recv[2]) + atomic_load(&C.ph_recv[3]) + atomic_load(&C.ph_recv[4]), eag, tmo);
	}
	vf_nng_fini("C06");
	vf_nng_init(4, 2, 2);
}

// ------------------------------------------------------------------ bp mode
#define BP_MAXD 8
#define BP_MAXMSG 512

typedef struct {
	uint64_t seq;
	int      st; // 1 accepted, 2 failed (kept by us), 3 blocked aio
	int      got;
} bpmsg;

typedef struct {
	nng_socket push;
	nng_socket idle[2];
	int        nidle;
	int        tran;
	uint32_t   tag;
	bpmsg      m[BP_MAXMSG];
	int        nm;
	uint64_t   order[BP_MAXMSG]; // accepted/blocked, in send order
	int        norder;
	const char *cls;
	tracker    ptr;     // pipes of the PUSH socket
	tracker    itr[2];  // pipes of the idle pullers
	long       order_checked;
} bpctx;

// While set, every pipe that arrives at the PUSH socket is refused before the
// protocol sees it (closing a pipe in ADD_PRE is the documented way): after a
// pipe of an idle puller was closed its dialer must not bring a fresh pipe
// (which would rightly take messages out of the buffer) before the state
// after the departure has been looked at.
static _Atomic int  bp_reject;
static _Atomic long bp_rejected;

static void
bp_push_pipe_cb(nng_pipe p, nng_pipe_ev ev, void *arg)
{
	if (ev == NNG_PIPE_EV_ADD_PRE && atomic_load(&bp_reject)) {
		atomic_fetch_add(&bp_rejected, 1);
		nng_pipe_close(p);
		return;
	}
	pipe_cb(p, ev, arg);
}

static nng_msg *
bp_msg(bpctx *b, int st, vf_rng *r)
{
	nng_msg *m;
	size_t   len = VF_BODY_MIN + vf_below(r, 64);
	if (b->nm >= BP_MAXMSG) vf_harness_fail("bp msgs");
	if (nng_msg_alloc(&m, len) != 0) vf_harness_fail("alloc");
	b->m[b->nm].seq = (uint64_t) b->nm;
	b->m[b->nm].st  = st;
	b->m[b->nm].got = 0;
	vf_body_make(nng_msg_body(m), len, b->tag, (uint64_t) b->nm);
	b->nm++;
	return m;
}

// NONBLOCK sends at quiescence until refused twice; returns the number
// accepted.
static int
bp_fill(bpctx *b, vf_rng *r, int limit)
{
	int acc = 0;
	for (;;) {
		if (!vf_quiesce(0, 10000)) vf_harness_fail("no quiescence");
		nng_msg *m  = bp_msg(b, 1, r);
		int      rv = nng_sendmsg(b->push, m, NNG_FLAG_NONBLOCK);
		if (rv == 0) {
			b->order[b->norder++] = (uint64_t) (b->nm - 1);
			if (++acc >= limit) return acc;
			continue;
		}
		b->m[b->nm - 1].st = 2;
		if (rv != NNG_EAGAIN && rv != NNG_ETIMEDOUT) {
			vf_violation("C06/backpressure/send-error", "%s: NONBLOCK send on a full PUSH socket failed with %s (%d)", b->cls, nng_strerror(rv), rv);
		}
		if (rv == NNG_EAGAIN) vf_stat("bp_eagain_caller_keeps_msg", 1);
		// the caller still owns it: must be intact, and freeing it must
		// not be a double free
		if (vf_body_check(nng_msg_body(m), nng_msg_len(m), NULL, NULL) != 0) {
			vf_violation("C06/backpressure/refused-message-damaged", "%s: message refused with %s no longer verifies", b->cls, ename(rv));
		}
		nng_msg_free(m);
		// once more at quiescence, to tell "full" from "hand-off under way"
		if (!vf_quiesce(1, 10000)) vf_harness_fail("no quiescence");
		m  = bp_msg(b, 1, r);
		rv = nng_sendmsg(b->push, m, NNG_FLAG_NONBLOCK);
		if (rv == 0) {
			b->order[b->norder++] = (uint64_t) (b->nm - 1);
			if (++acc >= limit) return acc;
			continue;
		}
		b->m[b->nm - 1].st = 2;
		nng_msg_free(m);
		return acc;
	}
}

// Failing sends on a full socket: each must fail with EAGAIN/ETIMEDOUT and
// leave the message attached / with the caller.
static void
bp_probes(bpctx *b, vf_rng *r)
{
	nng_aio *aio;
	if (nng_aio_alloc(&aio, NULL, NULL) != 0) vf_harness_fail("aio");
	for (int k = 0; k < 3; k++) {
		nng_msg     *m  = bp_msg(b, 2, r);
		nng_duration to = k == 0 ? NNG_DURATION_ZERO : (nng_duration) vf_range(r, 1, 25);
		int          rv;
		if (k == 2) {
			nng_socket_set_ms(b->push, NNG_OPT_SENDTIMEO, to);
			rv = nng_sendmsg(b->push, m, 0);
			nng_socket_set_ms(b->push, NNG_OPT_SENDTIMEO, 10000);
		} else {
			nng_aio_set_timeout(aio, to);
			nng_aio_set_msg(aio, m);
			nng_socket_send(b->push, aio);
			nng_aio_wait(aio);
			rv = nng_aio_result(aio);
			if (rv != 0 && nng_aio_get_msg(aio) != m) {
				vf_violation("C06/backpressure/failed-send-took-message/bp", "%s: aio send (timeout %d ms) failed with %s but the aio no longer carries the message", b->cls, (int) to, ename(rv));
				nng_aio_set_msg(aio, NULL);
				continue; // do not touch m: ownership unclear
			}
			nng_aio_set_msg(aio, NULL);
		}
		if (rv == 0) {
			vf_violation("C06/backpressure/accepted-when-full", "%s: send with timeout %d ms returned 0 although the buffer was full and no puller could take it", b->cls, (int) to);
			b->m[b->nm - 1].st = 1;
			b->order[b->norder++] = (uint64_t) (b->nm - 1);
			continue;
		}
		if (rv != NNG_ETIMEDOUT && rv != NNG_EAGAIN) {
			vf_violation("C06/backpressure/send-error", "%s: send with timeout %d ms on a full PUSH socket failed with %s (%d)", b->cls, (int) to, nng_strerror(rv), rv);
		} else {
			vf_stat(k == 2 ? "bp_timedout_sendmsg" : "bp_timedout_aio_msg_attached", 1);
		}
		if (vf_body_check(nng_msg_body(m), nng_msg_len(m), NULL, NULL) != 0) {
			vf_violation("C06/backpressure/refused-message-damaged", "%s: message of a timed-out send no longer verifies", b->cls);
		}
		nng_msg_free(m);
	}
	nng_aio_free(aio);
}

// Receives (NONBLOCK, all pullers in turn) until at least 'atleast' messages
// have come and, at quiescence, every puller came up empty twice.
static void
bp_receive_all(bpctx *b, nng_socket *pulls, int npulls, int atleast)
{
	int      got           = 0;
	uint64_t last_progress = vf_now_ns();
	// per (puller, pipe): highest seq seen + 1.  A puller has one pipe, and a
	// second one when its pipe was closed and its dialer came back.
	struct {
		int      j;
		uint32_t pipe;
		uint64_t next;
	} ord[16];
	int nord    = 0;
	int empties = 0;
	for (;;) {
		bool any = false;
		for (int j = 0; j < npulls; j++) {
			nng_msg *m;
			int      rv = nng_recvmsg(pulls[j], &m, NNG_FLAG_NONBLOCK);
			if (rv != 0) continue;
			any = true;
			uint32_t tag;
			uint64_t seq;
			if (vf_body_check(nng_msg_body(m), nng_msg_len(m), &tag, &seq) != 0 || tag != b->tag || seq >= (uint64_t) b->nm) {
				vf_violation("C06/phantom", "%s: received a message that was never sent", b->cls);
			} else {
				uint32_t pid = (uint32_t) nng_pipe_id(nng_msg_get_pipe(m));
				int      o;
				b->m[seq].got++;
				got++;
				// What one connection carries follows send order.  All
				// sends of a bp stage are made by one thread one after the
				// other, the blocked aios too (submission order, as for the
				// window senders of flow mode).
				for (o = 0; o < nord; o++) {
					if (ord[o].j == j && ord[o].pipe == pid) break;
				}
				if (o == nord && nord < 16) {
					ord[nord].j    = j;
					ord[nord].pipe = pid;
					ord[nord].next = 0;
					nord++;
				}
				if (o < nord) {
					if (seq < ord[o].next) {
						vf_violation(b->m[seq].st == 3 ? "C06/order/bp-blocked-sends" : "C06/order/bp", "%s: puller %d received seq %llu (%s) after seq %llu on one connection", b->cls, j, (unsigned long long) seq, b->m[seq].st == 3 ? "a send that was blocked" : "accepted at once", (unsigned long long) (ord[o].next - 1));
					} else {
						b->order_checked++;
						if (b->m[seq].st == 3) vf_stat("bp_blocked_sends_order_checked", 1);
					}
					if (seq + 1 > ord[o].next) ord[o].next = seq + 1;
				}
			}
			nng_msg_free(m);
		}
		if (any) {
			last_progress = vf_now_ns();
			empties       = 0;
			continue;
		}
		if (vf_quiesce(2, 200)) empties++;
		if (empties >= 2 && got >= atleast) break;
		if (empties >= 2 && vf_now_ns() - last_progress > stuck_ns()) {
			loss_seen = true;
			break;
		}
		if (empties >= 2) vf_usleep(500);
	}
}

// one PUSH socket at one depth (or grown step by step); returns accepted count
// per stage in acc[]
static void
run_bp_case(long idx)
{
	vf_rng r;
	vf_rng_seed(&r, vf_seed, (uint64_t) idx);
	int  tran    = (int) vf_below(&r, T_N); // inproc, ipc, tcp, ws, socket://, abstract
	int  nidle   = vf_chance(&r, 1, 2) ? (int) vf_range(&r, 1, 2) : 0;
	bool incr    = vf_chance(&r, 1, 3);
	int  nblock  = (int) vf_range(&r, 1, 3);
	int  jit_pm  = vf_chance(&r, 1, 2) ? (int) vf_range(&r, 2, 30) : 0;
	int  accepted[BP_MAXD + 1];
	char cls[96];
	snprintf(cls, sizeof(cls), "%s idle-pullers=%d %s blocked=%d", tn(tran), nidle, incr ? "grow-in-place" : "fresh-socket-per-depth", nblock);
	vf_case_begin(idx, "bp %s jitter=%d", cls, jit_pm);
	vf_pt_off();
	if (jit_pm) vf_pt_jitter(vf_seed + (uint64_t) idx, jit_pm, 100);

	bpctx *b = calloc(1, sizeof(*b));
	if (!b) vf_harness_fail("oom");
	int nstages = incr ? 1 : BP_MAXD + 1;
	for (int stage = 0; stage < nstages; stage++) {
		int d = incr ? 0 : stage;
		int rv;
		memset(b, 0, sizeof(*b));
		b->cls   = cls;
		b->tran  = tran;
		b->nidle = nidle;
		b->tag   = TAG(idx, stage, 0xbb);
		if ((rv = nng_push0_open(&b->push)) != 0) vf_harness_fail("open");
		sock_common(b->push);
		nng_socket_set_ms(b->push, NNG_OPT_SENDTIMEO, 10000);
		if (d > 0 || vf_chance(&r, 1, 2)) nng_socket_set_int(b->push, NNG_OPT_SENDBUF, d);
		atomic_store(&bp_reject, 0);
		tracker_init_cb(&b->ptr, b->push, bp_push_pipe_cb);
		// idle pullers: attached over inproc, never receiving until the end
		for (int j = 0; j < nidle; j++) {
			if (nng_pull0_open(&b->idle[j]) != 0) vf_harness_fail("open");
			sock_common(b->idle[j]);
			// an idle puller whose pipe is closed below comes back late
			// (after a random part of this) or not at all in this stage
			nng_socket_set_ms(b->idle[j], NNG_OPT_RECONNMINT, 3000);
			nng_socket_set_ms(b->idle[j], NNG_OPT_RECONNMAXT, 3000);
			tracker_init(&b->itr[j], b->idle[j]);
			if ((rv = vf_connect(b->push, b->idle[j], VF_T_INPROC)) != 0) vf_harness_fail("connect: %s", nng_strerror(rv));
		}
		if (nidle) {
			// all pipes established on the PUSH side (the protocol has them)
			uint64_t t1 = vf_now_ns() + 30ull * 1000000000ull;
			while (tracker_live(&b->ptr, NULL) < nidle) {
				if (vf_now_ns() > t1) vf_harness_fail("bp: idle pullers did not connect");
				vf_msleep(1);
			}
		}
		// shrink-to-fit: a deeper buffer holding exactly d messages is shrunk
		// to depth d (nothing queued beyond the new depth, so nothing may
		// be discarded); from then on it must behave like a buffer that was
		// created with depth d
		int pre = 0;
		if (!incr && nidle == 0 && d > 0 && vf_chance(&r, 1, 2)) {
			int g = (int) vf_range(&r, 1, 4);
			if ((rv = nng_socket_set_int(b->push, NNG_OPT_SENDBUF, d + g)) != 0) vf_harness_fail("sendbuf");
			pre = bp_fill(b, &r, d);
			if ((rv = nng_socket_set_int(b->push, NNG_OPT_SENDBUF, d)) != 0) vf_harness_fail("sendbuf");
			vf_stat("bp_shrink_to_fit", 1);
			vf_class("bp/shrink-to-fit/depth%d+%d", d, g);
		}
		accepted[d] = pre + bp_fill(b, &r, d + 64);
		int total_acc = accepted[d];
		if (incr) {
			// grow the (full) buffer in place: exactly the added room is accepted
			int a0 = accepted[0];
			while (d < BP_MAXD) {
				int g = (int) vf_range(&r, 1, 3);
				if (d + g > BP_MAXD) g = BP_MAXD - d;
				d += g;
				if ((rv = nng_socket_set_int(b->push, NNG_OPT_SENDBUF, d)) != 0) vf_harness_fail("sendbuf");
				int more = bp_fill(b, &r, g + 64);
				total_acc += more;
				vf_stat("bp_depth_points", 1);
				if (more != g) {
					vf_violation("C06/backpressure/depth-differential/grow-in-place", "%s: SENDBUF grown by %d to %d on a full socket: %d more NONBLOCK sends accepted (accepted at depth 0: %d)", cls, g, d, more, a0);
				} else {
					vf_class("bp/grow/%s/idle%d/to-depth%d/+%d", tn(tran), nidle, d, g);
				}
			}
		}
		bp_probes(b, &r);
		// blocked senders: must stay pending while nothing can take the message
		nng_aio *blk[3];
		nng_msg *bm[3];
		for (int k = 0; k < nblock; k++) {
			if (nng_aio_alloc(&blk[k], NULL, NULL) != 0) vf_harness_fail("aio");
			bm[k] = bp_msg(b, 3, &r);
			b->order[b->norder++] = (uint64_t) (b->nm - 1);
			nng_aio_set_timeout(blk[k], 30000);
			nng_aio_set_msg(blk[k], bm[k]);
			nng_socket_send(b->push, blk[k]);
		}
		vf_quiesce(2, 10000);
		for (int k = 0; k < nblock; k++) {
			if (!nng_aio_busy(blk[k])) {
				int brv = nng_aio_result(blk[k]);
				if (brv == 0) {
					vf_violation("C06/backpressure/accepted-when-full", "%s: depth %d: blocking send completed with 0 while the buffer was full and no puller was receiving", cls, d);
				} else {
					vf_violation("C06/backpressure/send-error", "%s: depth %d: blocking send with 30 s timeout failed early with %s", cls, d, ename(brv));
				}
			} else {
				vf_stat("bp_send_blocked_while_full", 1);
			}
		}
		if (wb_ok) {
			push_mirror *pm = wb_get(b->push);
			int          cap, len, ready, waiting;
			if (pm) {
				wb_sample(pm, &cap, &len, &ready, &waiting);
				if (ready >= 0 && waiting >= 0) vf_class("state/depth%d/queued%d/ready%d/waiting%d", cap, len, ready, waiting);
			}
		}
		// a receiving puller arrives over the case's transport (or the idle
		// ones wake up): everything accepted and every blocked send must come out
		nng_socket pulls[3];
		int        npulls = 0;
		// Departure with the buffer full and senders blocked (idle pullers are
		// inproc): the first total_acc - d accepted messages are the ones bound
		// to pipes (2 per idle pipe: one parked in the puller, one in the PUSH
		// pipe's send), the next d sit in the buffer, the blocked ones wait
		// behind it.  One idle puller's connection goes away: nothing that was
		// buffered or blocked may be lost or completed by that, only messages
		// bound to the departed pipe (at most 2) may be missing at the end.
		bool        depart  = nidle > 0 && vf_chance(&r, 3, 4);
		int         how     = (int) vf_below(&r, 3);
		int         victim  = (int) vf_below(&r, (uint32_t) (nidle ? nidle : 1));
		static const char *how_names[3] = { "pipe-closed-by-push", "pipe-closed-by-pull", "puller-socket-closed" };
		int         base    = total_acc - d; // order[] index of the first buffered message
		bool        gone[2] = { false, false };
		if (depart) {
			nng_pipe vp;
			long     rem0 = atomic_load(&b->ptr.rems) + atomic_load(&b->ptr.aborted);
			bool     done = false;
			atomic_store(&bp_reject, 1);
			switch (how) {
			case 0:
				done = tracker_pick(&b->ptr, &r, &vp) && nng_pipe_close(vp) == 0;
				break;
			case 1:
				done = tracker_pick(&b->itr[victim], &r, &vp) && nng_pipe_close(vp) == 0;
				break;
			default:
				nng_socket_close(b->idle[victim]);
				gone[victim] = true;
				done         = true;
				break;
			}
			if (!done) vf_harness_fail("bp: no pipe to close (%s)", how_names[how]);
			uint64_t t1 = vf_now_ns() + 30ull * 1000000000ull;
			while (atomic_load(&b->ptr.rems) + atomic_load(&b->ptr.aborted) <= rem0) {
				if (vf_now_ns() > t1) vf_harness_fail("bp: pipe departure not observed on the PUSH side (%s)", how_names[how]);
				vf_usleep(200);
			}
			if (!vf_quiesce(2, 10000)) vf_harness_fail("no quiescence");
			for (int k = 0; k < nblock; k++) {
				if (nng_aio_busy(blk[k])) {
					vf_stat("bp_blocked_send_still_pending_after_departure", 1);
					continue;
				}
				int  brv = nng_aio_result(blk[k]);
				char key[128];
				if (brv == 0) {
					snprintf(key, sizeof(key), "C06/backpressure/blocked-send-completed-by-departure/%s", how_names[how]);
					vf_violation(key, "%s: depth %d: a send blocked on the full buffer completed with 0 when a pipe departed (%s, %d idle pipes before) although the buffer is still full and no puller is receiving", cls, d, how_names[how], nidle);
				} else {
					vf_violation("C06/backpressure/send-error", "%s: depth %d: blocked send with 30 s timeout failed with %s when a pipe departed (%s)", cls, d, ename(brv), how_names[how]);
				}
			}
			if (wb_ok) {
				push_mirror *pm = wb_get(b->push);
				int          cap, len, ready, waiting;
				if (pm) {
					wb_sample(pm, &cap, &len, &ready, &waiting);
					if (ready >= 0 && waiting >= 0) vf_class("bp-after-departure/%s/idle%d/depth%d/queued%d/ready%d/waiting%d", how_names[how], nidle, cap, len, ready, waiting);
				}
			}
			atomic_store(&bp_reject, 0);
			vf_stat("bp_departures_with_full_buffer", 1);
			if (nidle == 1) vf_stat("bp_departures_of_last_pipe", 1);
			vf_stat("bp_departure_buffered_msgs_judged", d + nblock);
			vf_class("bp/departure/%s/idle%d/depth%d/blocked%d", how_names[how], nidle, d, nblock);
		}
		if (nidle == 0 || depart || vf_chance(&r, 1, 2)) {
			nng_socket q;
			if (nng_pull0_open(&q) != 0) vf_harness_fail("open");
			sock_common(q);
			if ((rv = connect_pair(b->push, q, tran)) != 0) vf_harness_fail("connect %s: %s", tn(tran), nng_strerror(rv));
			pulls[npulls++] = q;
		}
		for (int j = 0; j < nidle; j++) {
			if (!gone[j]) pulls[npulls++] = b->idle[j];
		}
		int expect = total_acc + nblock;
		bp_receive_all(b, pulls, npulls, depart ? expect - 2 : expect);
		for (int k = 0; k < nblock; k++) {
			// everything was received, so the hand-off has happened
			uint64_t t1 = vf_now_ns() + 10ull * 1000000000ull;
			while (nng_aio_busy(blk[k]) && vf_now_ns() < t1) vf_usleep(200);
			if (nng_aio_busy(blk[k])) {
				vf_violation("C06/backpressure/blocked-send-not-released", "%s: depth %d: a send blocked on the full buffer is still pending 10 s after a puller drained the socket", cls, d);
				nng_aio_cancel(blk[k]);
				nng_aio_wait(blk[k]);
				if (nng_aio_get_msg(blk[k]) != NULL) {
					nng_msg_free(nng_aio_get_msg(blk[k]));
				}
			} else if (nng_aio_result(blk[k]) != 0) {
				vf_violation("C06/backpressure/send-error", "%s: depth %d: blocked send failed with %s after a puller arrived", cls, d, ename(nng_aio_result(blk[k])));
				if (nng_aio_get_msg(blk[k]) == bm[k]) nng_msg_free(bm[k]);
				for (int x = 0; x < b->nm; x++) if (b->m[x].st == 3 && b->m[x].seq == b->order[b->norder - nblock + k]) b->m[x].st = 2;
			} else {
				vf_stat("bp_blocked_send_released", 1);
			}
			nng_aio_free(blk[k]);
		}
		long lost = 0, dup = 0, ghost = 0, lost_bound = 0;
		for (int x = 0; x < b->nm; x++) {
			if (b->m[x].st == 2 && b->m[x].got) ghost++;
			if (b->m[x].got > 1) dup++;
		}
		for (int o = 0; o < b->norder; o++) {
			bpmsg *bm1 = &b->m[b->order[o]];
			if (bm1->st == 2 || bm1->got) continue;
			// bound to a pipe when the connection went away?
			if (depart && o < base) lost_bound++; else lost++;
		}
		if (ghost) vf_violation("C06/backpressure/failed-send-delivered/bp", "%s: depth %d: %ld messages whose send was refused or timed out (kept by the caller) were nevertheless received", cls, d, ghost);
		if (lost && depart) {
			char key[128];
			snprintf(key, sizeof(key), "C06/lost/buffered-at-departure/%s", how_names[how]);
			vf_violation(key, "%s: depth %d: %ld of the %d messages that were in the send buffer or belonged to blocked senders when a pipe departed (%s, %d idle pipes before) were never received", cls, d, lost, d + nblock, how_names[how], nidle);
		} else if (lost) {
			vf_violation("C06/lost/bp", "%s: depth %d: %ld of %d accepted/blocked messages never received after a puller arrived (silent discard)", cls, d, lost, expect);
		}
		if (lost_bound > 2) {
			char key[128];
			snprintf(key, sizeof(key), "C06/lost/more-than-in-flight/bp.%s", how_names[how]);
			vf_violation(key, "%s: depth %d: %ld accepted messages missing after one inproc pipe departed (%s): at most 2 can be bound to it", cls, d, lost_bound, how_names[how]);
		}
		if (depart) {
			vf_stat_max("bp_max_lost_with_departed_pipe", lost_bound);
			vf_stat("bp_lost_with_departed_pipe", lost_bound);
		}
		lost += lost_bound;
		vf_stat("order_checked", b->order_checked);
		if (dup) vf_violation("C06/duplicate/bp", "%s: depth %d: %ld messages received more than once", cls, d, dup);
		vf_stat("received", expect - lost);
		vf_stat("sent_ok", expect);
		for (int j = 0; j < npulls; j++) nng_socket_close(pulls[j]);
		nng_socket_close(b->push);
		vf_watchdog(180);
	}
	if (!incr) {
		for (int d = 0; d <= BP_MAXD; d++) {
			vf_stat("bp_depth_points", 1);
			if (accepted[d] != accepted[0] + d) {
				char key[128];
				snprintf(key, sizeof(key), "C06/backpressure/depth-differential/idle%d", nidle);
				vf_violation(key, "%s: SENDBUF %d accepted %d NONBLOCK sends with no receiving puller; depth 0 accepted %d, so %d expected", cls, d, accepted[d], accepted[0], accepted[0] + d);
			} else {
				vf_class("bp/fresh/%s/idle%d/depth%d/base%d", tn(tran), nidle, d, accepted[0]);
			}
		}
	}
	free(b);
	vf_stat("cases", 1);
	vf_stat("bp_cases", 1);
	if ((idx & 3) == 0) vf_sample("{\"mode\":\"bp\",\"class\":\"%s\",\"accepted_at_depth0\":%d,\"accepted_at_depth8\":%d}", cls, accepted[0], incr ? -1 : accepted[BP_MAXD]);
	vf_pt_off();
	vf_nng_fini("C06");
	vf_nng_init(4, 2, 2);
}

int
main(int argc, char **argv)
{
	vf_init(argc, argv);
	vf_nng_init(4, 2, 2);
	{
		// one aio operation before any harness thread exists (vfh
		// initialises its aio event ring lazily on the first one)
		nng_aio *w;
		if (nng_aio_alloc(&w, NULL, NULL) != 0) vf_harness_fail("aio");
		nng_sleep_aio(1, w);
		nng_aio_wait(w);
		nng_aio_free(w);
	}
	wb_validate();
	bool bp    = !strcmp(vf_mode, "bp");
	racy_close = !strcmp(vf_mode, "flowx");
	for (long idx = 0; idx < vf_cases; idx++) {
		if (!vf_want_case(idx)) continue;
		vf_watchdog(180);
		if (bp) run_bp_case(idx); else run_flow_case(idx);
	}
	vf_nng_fini("C06");
	return vf_finish();
}
