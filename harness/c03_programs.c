// C03: message ownership, memory safety and no leaks for any API usage.
//
// A generator of API PROGRAMS over the public API.  A small model of the
// documented preconditions (open/closed handles, in-flight aios, device
// ownership, REQ/REP/SURVEY state) guarantees that every call is legal or is
// documented to fail (NNG_ESTATE, NNG_ENOTSUP, NNG_EINVAL, NNG_ESTOPPED,
// NNG_EBUSY, NNG_ENOENT ...).  No return value is judged.  Oracles:
//   * ASan/UBSan/LSan (driver) and the accounting allocator of vfh (sized
//     free, double free, unknown pointer, zero live blocks after nng_fini);
//   * an OWNERSHIP LEDGER: every nng_msg the harness allocates is `app`; it
//     becomes `lib` on a send that returns 0 / an aio send that completes
//     with 0; it stays `app` on a failed send (for aio sends
//     nng_aio_get_msg(aio) must be exactly the submitted message); a
//     successful receive hands one message to `app` (which must not be a
//     message the app already owns).  The harness frees exactly what the
//     ledger says is `app`: a library-side extra free is an ASan double
//     free, a library-side missing free a non-zero balance at nng_fini.
// Modes: "st" random programs, one driver thread; "mt" random programs, 2-4
// driver threads sharing the handles; "matrix" exhaustive option x phase
// enumeration over canonical exchanges of every protocol pair.
#include "vfh.h"
#include <arpa/inet.h>
#include <errno.h>
#include <pthread.h>
#include <signal.h>
#include <stdatomic.h>
#include <sys/socket.h>
#include <unistd.h>

#define MAXS 6
#define MAXC 6
#define MAXA 8
#define MAXE 16
#define MAXT 4

enum { P_PAIR0 = 0, P_PAIR1, P_PUB, P_SUB, P_REQ, P_REP, P_PUSH, P_PULL, P_SURV, P_RESP, P_BUS, P_PAIR1P, P_N };

// the 11 protocols vfh knows plus pair1 in polyamorous mode (cooked only)
static vf_proto PR[P_N];
#define T_UDP VF_T_N // one transport more than vfh knows
#define T_N (VF_T_N + 1)
static const char *
tn(int t)
{
	return t == T_UDP ? "udp" : vf_tran_names[t];
}

// ---------------------------------------------------------------- trace
#define TRN 128
static char        trace_buf[TRN][160];
static atomic_long trace_n;
static void (*prev_abrt)(int);

static void tr(const char *fmt, ...) __attribute__((format(printf, 1, 2)));
static void
tr(const char *fmt, ...)
{
	long    i = atomic_fetch_add(&trace_n, 1);
	char   *b = trace_buf[i % TRN];
	va_list ap;
	va_start(ap, fmt);
	vsnprintf(b, sizeof(trace_buf[0]), fmt, ap);
	va_end(ap);
	if (vf_verbose) {
		fprintf(stderr, "  [%ld] %7.1f ms  %s\n", i, (double) (vf_now_ns() % 100000000000ULL) / 1e6, b);
	}
}

static void
trace_dump(void)
{
	long n = atomic_load(&trace_n);
	long s = n > 48 ? n - 48 : 0;
	char line[200];
	for (long i = s; i < n; i++) {
		int k = snprintf(line, sizeof(line), "C03 trace [%ld] %s\n", i, trace_buf[i % TRN]);
		if (k > 0 && write(2, line, (size_t) k) < 0) {
			break;
		}
	}
}

static void
abrt_handler(int sig)
{
	trace_dump();
	if (prev_abrt != NULL && prev_abrt != SIG_DFL && prev_abrt != SIG_IGN) {
		prev_abrt(sig);
	}
	signal(sig, SIG_DFL);
	raise(sig);
}

// ---------------------------------------------------------------- ledger
enum { L_NONE = 0, L_APP, L_BUSY };
#define LMAX 4096
typedef struct {
	nng_msg *m;
	int      st;
	bool     child; // while busy: the same message was received meanwhile
	uint64_t seq;   // when it became busy
	uint32_t sig;   // crc of the body as the application last left it
	size_t   len;
	uint64_t bseq;  // sequence number found in the body (0: none)
	int      rcv;   // who received it (socket/context of the model), 0: unknown
} lent;
static __thread int led_rcv_id; // set by the caller of led_take
#define RCV_ID(si, ci) (1 + (si) * 16 + ((ci) + 1))
static lent            led[LMAX];
static int             led_hi;
static int             led_cnt;
static uint64_t        led_seq;
static atomic_ullong   body_seq; // unique per body written by the harness
static pthread_mutex_t led_mx = PTHREAD_MUTEX_INITIALIZER;
static char            prog_tag[112]; // for violation details
static bool            mt_mode, matrix_mode, stall_mode;

// The same pointer may appear more than once: over inproc the peer can
// receive (take) a message before the sender has seen its send complete.
// L_BUSY means "handed to a send call that has not reported yet".  Sends are
// identified by their slot, not by the pointer.
static int
led_find_st(nng_msg *m, int st) // st == L_NONE: any state
{
	for (int i = 0; i < led_hi; i++) {
		if (led[i].st != L_NONE && led[i].m == m && (st == L_NONE || led[i].st == st)) {
			return i;
		}
	}
	return -1;
}

#define BODY_TAG 3u
// Every body the harness writes is recorded by its sequence number, so that a
// damaged body can be explained (whose bytes are these?).
typedef struct {
	char        kind; // 'A' fresh message, 'B' nng_send buffer, 'S' written over a received message
	uint32_t    len;
	uint64_t    origin; // 'S': sequence number of the body that was received
	const void *ptr;    // the nng_msg it was written into
	char        who[20]; // 'A'/'B': protocol it was built for, 'S': protocol that received it
} bodyrec;
#define BR_N 65536
static bodyrec   brec[BR_N];
static uint64_t  brec_base; // body_seq at the start of the program
static bool      scribble_all; // hunting aid: write to every received message

static uint64_t
body_record(char kind, size_t len, uint64_t origin, const void *ptr, const char *who)
{
	uint64_t seq = atomic_fetch_add(&body_seq, 1) + 1;
	if (seq - brec_base < BR_N) {
		bodyrec *b = &brec[seq - brec_base];
		b->kind    = kind;
		b->len     = (uint32_t) len;
		b->origin  = origin;
		b->ptr     = ptr;
		snprintf(b->who, sizeof(b->who), "%s", who);
	}
	return seq;
}

// write a fresh self-describing body (the application may do what it likes
// with a message it owns)
static void
body_write(nng_msg *m, char kind, uint64_t origin, const char *who)
{
	size_t len = nng_msg_len(m);
	if (len >= VF_BODY_MIN) {
		vf_body_make(nng_msg_body(m), len, BODY_TAG, body_record(kind, len, origin, m, who));
	} else if (len > 0) {
		memset(nng_msg_body(m), (int) (0x40 + len), len);
	}
}

static void topo_describe(char *buf, size_t sz); // after the model
static bool udp_pipe_is(uint32_t id);
static void device_forward_note(uint64_t bseq);

static void
hexline(char *out, size_t osz, const uint8_t *p, size_t from, size_t to)
{
	size_t n = 0;
	out[0]   = 0;
	for (size_t i = from; i < to && n + 3 < osz; i++) {
		n += (size_t) snprintf(out + n, osz - n, "%02x", p[i]);
	}
}

// A received body has intact magic and length field but a wrong checksum.
// Explain it.  Returns 'S' (bytes written by the harness into ANOTHER
// receiver's message are in it: the two share memory), 'M' (bytes of a
// different original message), 'T' (header and payload belong to different
// writes of the harness into the same message) or '?' (arbitrary damage).
static char
classify_damage(nng_msg *m, const char *proto, const char *api, char *diag, size_t dsz)
{
	const uint8_t *b   = nng_msg_body(m);
	size_t         len = nng_msg_len(m);
	uint32_t       t2  = ((uint32_t) b[4] << 24) | ((uint32_t) b[5] << 16) | ((uint32_t) b[6] << 8) | b[7];
	uint64_t       s2  = 0;
	char           cls = '?';
	uint8_t       *want = malloc(len), *cand = malloc(len);
	size_t         first = len, last = 0;
	for (int k = 8; k < 16; k++) s2 = (s2 << 8) | b[k];
	if (want == NULL || cand == NULL) {
		free(want);
		free(cand);
		snprintf(diag, dsz, "no memory to classify");
		return '?';
	}
	vf_body_make(want, len, t2, s2);
	for (size_t i = 0; i < len; i++) {
		if (want[i] != b[i]) {
			if (first == len) first = i;
			last = i;
		}
	}
	const bodyrec *own = (s2 > brec_base && s2 - brec_base < BR_N) ? &brec[s2 - brec_base] : NULL;
	uint64_t       hit = 0;
	uint64_t       top = atomic_load(&body_seq);
	for (uint64_t q = brec_base + 1; q <= top && q - brec_base < BR_N && first < len; q++) {
		const bodyrec *r = &brec[q - brec_base];
		if (q == s2 || r->len != len) continue;
		vf_body_make(cand, len, BODY_TAG, q);
		// the differing region (beyond the 24-byte header) must be this body's
		size_t from = first < VF_BODY_MIN ? VF_BODY_MIN : first;
		if (from <= last && memcmp(cand + from, b + from, last - from + 1) == 0 && last - from + 1 >= 8) {
			hit = q;
			cls = r->kind == 'S' ? (r->ptr != (const void *) m ? 'S' : 'T') : 'M';
			break;
		}
	}
	char h1[2 * 48 + 1], h2[2 * 48 + 1];
	size_t from = first < len ? first : 0, to = from + 48 < len ? from + 48 : len;
	hexline(h1, sizeof(h1), b, from, to);
	hexline(h2, sizeof(h2), want, from, to);
	snprintf(diag, dsz, "header says tag %u seq %llu (%s); bytes %zu..%zu of %zu differ from that body; %s; received[%zu..]=%s expected=%s",
	    t2, (unsigned long long) s2,
	    own ? (own->kind == 'S' ? "written over a received message" : own->kind == 'B' ? "nng_send buffer" : "fresh message") : "unknown writer",
	    first, last, len,
	    hit ? "the differing bytes are those of another body the harness wrote" : "the differing bytes match no body the harness wrote with this length",
	    from, h1, h2);
	fprintf(stderr, "C03 DAMAGED BODY in %s: %s on %s, message %p, %zu bytes, class %c\n  %s\n", prog_tag, api, proto, (void *) m, len, cls, diag);
	if (own != NULL) {
		fprintf(stderr, "  claimed body seq %llu: kind %c len %u origin %llu written into %p for/by %s\n", (unsigned long long) s2, own->kind, own->len, (unsigned long long) own->origin, own->ptr, own->who);
	}
	if (hit) {
		const bodyrec *r = &brec[hit - brec_base];
		fprintf(stderr, "  foreign bytes are body seq %llu: kind %c len %u origin %llu written into %p for/by %s\n", (unsigned long long) hit, r->kind, r->len, (unsigned long long) r->origin, r->ptr, r->who);
		size_t dl = strlen(diag);
		snprintf(diag + dl, dsz - dl, "; foreign body seq %llu kind %c origin %llu by %s", (unsigned long long) hit, r->kind, (unsigned long long) r->origin, r->who);
	}
	free(want);
	free(cand);
	return cls;
}

static void
led_sign(int i) // remember what the application-owned body looks like
{
	nng_msg *m  = led[i].m;
	led[i].len  = nng_msg_len(m);
	led[i].sig  = vf_crc32(nng_msg_body(m), led[i].len);
}

// An idle application-owned message must still be exactly what the
// application left: nobody else may write to memory the library does not own
// (shared body after a fan-out without nni_msg_unique, late writes by a
// transport, ...).
static void
led_verify(int i, const char *where)
{
	nng_msg *m = led[i].m;
	vf_stat("app_msgs_reverified", 1);
	if (nng_msg_len(m) != led[i].len || vf_crc32(nng_msg_body(m), nng_msg_len(m)) != led[i].sig) {
		char key[128];
		snprintf(key, sizeof(key), "C03/aliasing/app-owned-msg-changed/%s", where);
		vf_violation(key, "%s: message %p owned by the application (idle since it was received / its send failed) changed: length %zu -> %zu or body bytes differ", prog_tag, (void *) m, led[i].len, nng_msg_len(m));
		led_sign(i);
	}
}

static int
led_add(nng_msg *m, int st)
{
	int i;
	for (i = 0; i < led_hi; i++) {
		if (led[i].st == L_NONE) {
			break;
		}
	}
	if (i == LMAX) {
		return -1;
	}
	if (i == led_hi) {
		led_hi++;
	}
	led[i].m     = m;
	led[i].st    = st;
	led[i].child = false;
	led[i].seq   = ++led_seq;
	led[i].bseq  = 0;
	led_sign(i);
	led_cnt++;
	return i;
}

static void
led_del(int i)
{
	led[i].st = L_NONE;
	led[i].m  = NULL;
	led_cnt--;
}

static int
led_count(void)
{
	pthread_mutex_lock(&led_mx);
	int n = led_cnt;
	pthread_mutex_unlock(&led_mx);
	return n;
}

// allocate a fresh message owned by the app, marked busy (about to be sent)
static nng_msg *
led_alloc(size_t sz, const char *who, int *slot)
{
	nng_msg *m;
	if (led_count() >= LMAX - 64) {
		vf_stat("ledger_full", 1);
		return NULL;
	}
	if (nng_msg_alloc(&m, sz) != 0) {
		vf_harness_fail("nng_msg_alloc(%zu)", sz);
	}
	body_write(m, 'A', 0, who);
	pthread_mutex_lock(&led_mx);
	// (an entry in L_BUSY with this address is a send that the library has
	// already consumed and freed, only its completion is not reported yet)
	if (led_find_st(m, L_APP) >= 0) {
		pthread_mutex_unlock(&led_mx);
		vf_violation("C03/ownership/alloc-returned-app-owned-msg", "%s: nng_msg_alloc returned %p which the application still owns", prog_tag, (void *) m);
		return NULL;
	}
	*slot = led_add(m, L_BUSY);
	pthread_mutex_unlock(&led_mx);
	vf_stat("msgs_allocated", 1);
	return m;
}

// pick a random idle app-owned message (received earlier or a failed send)
static nng_msg *
led_pick(vf_rng *r, int *slot)
{
	nng_msg *m = NULL;
	pthread_mutex_lock(&led_mx);
	if (led_hi > 0) {
		int start = (int) vf_below(r, (uint32_t) led_hi);
		for (int k = 0; k < led_hi; k++) {
			int i = (start + k) % led_hi;
			if (led[i].st == L_APP) {
				led_verify(i, "before-resend");
				led[i].st    = L_BUSY;
				led[i].child = false;
				led[i].seq   = ++led_seq;
				m            = led[i].m;
				*slot        = i;
				break;
			}
		}
	}
	pthread_mutex_unlock(&led_mx);
	return m;
}

static void
led_mark_busy(int slot) // idle app message about to be sent
{
	pthread_mutex_lock(&led_mx);
	if (slot < 0 || led[slot].st != L_APP) {
		pthread_mutex_unlock(&led_mx);
		vf_harness_fail("ledger: message to send is not app-owned");
	}
	led_verify(slot, "before-resend");
	led[slot].st    = L_BUSY;
	led[slot].child = false;
	led[slot].seq   = ++led_seq;
	pthread_mutex_unlock(&led_mx);
}

// failed send: the message is still ours.  proto for the violation key.
static void
led_release(int slot, const char *proto)
{
	pthread_mutex_lock(&led_mx);
	if (slot < 0 || led[slot].st != L_BUSY) {
		pthread_mutex_unlock(&led_mx);
		vf_harness_fail("ledger: release of a message that is not busy");
	}
	nng_msg *m   = led[slot].m;
	bool     dup = led[slot].child;
	if (dup) {
		// delivered to a receiver although the send failed: two owners.
		// Keep the receiver's entry so that the message is freed once.
		led_del(slot);
	} else {
		led[slot].st = L_APP;
		// a failed send hands the message back as it was
		led_verify(slot, "after-failed-send");
	}
	pthread_mutex_unlock(&led_mx);
	if (dup) {
		char key[128];
		snprintf(key, sizeof(key), "C03/ownership/failed-send-but-delivered/%s", proto);
		vf_violation(key, "%s: a send of message %p failed (caller keeps it) but the same message was delivered to a receiver", prog_tag, (void *) m);
	}
}

static void
led_give(int slot) // busy -> library owns it now
{
	pthread_mutex_lock(&led_mx);
	if (slot < 0 || led[slot].st != L_BUSY) {
		pthread_mutex_unlock(&led_mx);
		vf_harness_fail("ledger: give of a message that is not busy");
	}
	led_del(slot);
	pthread_mutex_unlock(&led_mx);
	vf_stat("msgs_to_lib", 1);
}

// library -> app.  Returns false if the ledger cannot take it (violation).
static bool
led_take(nng_msg *m, int st, const char *proto, const char *api, int *slot)
{
	char key[128];
	if (m == NULL) {
		snprintf(key, sizeof(key), "C03/ownership/recv-ok-without-msg/%s", proto);
		vf_violation(key, "%s: %s completed with 0 but no message is attached", prog_tag, api);
		return false;
	}
	bool over_udp = udp_pipe_is(nng_msg_get_pipe(m).id);
	pthread_mutex_lock(&led_mx);
	if (led_find_st(m, L_APP) >= 0) {
		pthread_mutex_unlock(&led_mx);
		snprintf(key, sizeof(key), "C03/ownership/received-app-owned-msg/%s", proto);
		vf_violation(key, "%s: %s delivered message %p which the application already owns (failed send or earlier receive)", prog_tag, api, (void *) m);
		return false;
	}
	// the newest unreported send of this very message is the one that
	// delivered it
	int parent = -1;
	for (int i = 0; i < led_hi; i++) {
		if (led[i].st == L_BUSY && led[i].m == m && !led[i].child && (parent < 0 || led[i].seq > led[parent].seq)) {
			parent = i;
		}
	}
	if (parent >= 0) {
		led[parent].child = true;
	}
	// a body written by the harness must arrive intact ...
	uint32_t tag  = 0;
	uint64_t bseq = 0;
	size_t   len  = nng_msg_len(m);
	bool     bad  = false;
	char     diag[900] = "";
	char     cls       = 0;
	int      rc   = len >= VF_BODY_MIN ? vf_body_check(nng_msg_body(m), len, &tag, &bseq) : -1;
	if (rc == 0 && tag == BODY_TAG) {
		vf_stat("bodies_verified", 1);
	} else if (rc == -4) {
		// magic and length field are in place but the checksum is not.
		// (A body whose front was consumed as protocol header by a
		// receiver - raw sender without header words - fails the magic
		// or length test instead and is not judged.)
		bad = true;
		cls = classify_damage(m, proto, api, diag, sizeof(diag));
	} else {
		bseq = 0;
	}
	int i = led_add(m, st);
	if (i < 0) {
		// (never seen; a run that cannot record what it receives proves nothing)
		vf_harness_fail("ledger full: %d messages held by the application", led_cnt);
	}
	led[i].bseq = bad ? 0 : bseq;
	led[i].rcv  = led_rcv_id;
	// ... and the same body handed to several receivers (fan-out) must be
	// a private copy each: we now WRITE to ours; the siblings are checked
	// again when they are re-sent or freed.
	if (bseq != 0) {
		for (int k = 0; k < led_hi; k++) {
			if (k != i && led[k].st == L_APP && led[k].bseq == bseq && led[k].m != m) {
				vf_stat("sibling_receives", 1);
				// the same body held by two different receivers: a real fan-out
				if (led[k].rcv != 0 && led_rcv_id != 0 && led[k].rcv != led_rcv_id) vf_stat("fanout_sibling_receives", 1);
				break;
			}
		}
	}
	if (!bad && ((led[i].seq & 1) || scribble_all)) {
		if ((led[i].seq & 6) == 2 && len < 100000) {
			nng_msg_append(m, "scribblescribble", 1 + (led[i].seq >> 3) % 16);
		} else if ((led[i].seq & 6) == 4 && len > VF_BODY_MIN + 4) {
			nng_msg_chop(m, 1 + (led[i].seq >> 3) % 4);
		}
		body_write(m, 'S', bseq, proto);
		led[i].bseq = 0; // (no longer the delivered body)
		led_sign(i);
		vf_stat("received_msgs_scribbled", 1);
	}
	if (slot != NULL) {
		*slot = i;
	}
	pthread_mutex_unlock(&led_mx);
	vf_stat("msgs_from_lib", 1);
	vf_stat(mt_mode ? "mt_msgs_from_lib" : matrix_mode ? "matrix_msgs_from_lib" : stall_mode ? "stall_msgs_from_lib" : "st_msgs_from_lib", 1);
	if (over_udp) vf_stat("udp_msgs_from_lib", 1);
	if (bseq != 0 && !bad) device_forward_note(bseq);
	if (!strcmp(proto, "pair1poly")) vf_stat("pair1poly_msgs_from_lib", 1);
	if (bad) {
		// Topology for the record
		char topo[400] = "";
		topo_describe(topo, sizeof(topo));
		fprintf(stderr, "  open sockets: %s\n", topo);
		vf_stat("received_body_crc_mismatch", 1);
		vf_sample("{\"observation\":\"damaged received body\",\"class\":\"%c\",\"program\":\"%s\",\"api\":\"%s\",\"proto\":\"%s\",\"sockets\":\"%s\",\"diag\":\"%s\"}", cls, prog_tag, api, proto, topo, diag);
		trace_dump();
		if (cls == 'S') {
			snprintf(key, sizeof(key), "C03/aliasing/received-body-shared-with-another-receiver/%s", proto);
			vf_violation(key, "%s: %s delivered message %p whose body contains bytes that the application wrote into ANOTHER received message: two receivers share one body. %s", prog_tag, api, (void *) m, diag);
		} else if (cls == 'M') {
			snprintf(key, sizeof(key), "C03/aliasing/received-body-mixed-with-other-message/%s", proto);
			vf_violation(key, "%s: %s delivered message %p whose body is a mixture of two different messages. %s", prog_tag, api, (void *) m, diag);
		}
		// class '?' / 'T' stay observations (counted and sampled): byte
		// integrity as such is C01's clause
	}
	return true;
}

// free up to n idle app messages (legal at any time: they are ours)
static int
led_free_some(vf_rng *r, int n)
{
	int done = 0;
	(void) r;
	pthread_mutex_lock(&led_mx);
	for (int i = 0; i < led_hi && done < n; i++) {
		if (led[i].st == L_APP) {
			nng_msg *m = led[i].m;
			led_verify(i, "before-free");
			led[i].st  = L_NONE;
			led[i].m   = NULL;
			led_cnt--;
			nng_msg_free(m);
			done++;
		}
	}
	pthread_mutex_unlock(&led_mx);
	vf_stat("msgs_app_freed", done);
	return done;
}

static void
led_free_all(void)
{
	int done = 0;
	pthread_mutex_lock(&led_mx);
	for (int i = 0; i < led_hi; i++) {
		if (led[i].st != L_NONE) {
			nng_msg *m = led[i].m;
			if (led[i].st == L_APP) led_verify(i, "before-free");
			led[i].st  = L_NONE;
			led[i].m   = NULL;
			nng_msg_free(m);
			done++;
		}
	}
	led_hi  = 0;
	led_cnt = 0;
	pthread_mutex_unlock(&led_mx);
	vf_stat("msgs_app_freed", done);
}

// ---------------------------------------------------------------- model
typedef struct {
	bool            open, closing, dev_owned, raw;
	int             users;
	int             pk;
	nng_socket      h;
	bool            outstanding, has_req;
	int             inq;
	bool            peer[MAXS];
	pthread_mutex_t pmx;
	uint32_t        pipes[8];
	int             npipes;
	uint32_t        alive[16];
	atomic_int      live_pipes;
	atomic_int      reject_next;
	char            name[16];
} sockm;

typedef struct {
	bool    open, closing;
	int     users;
	int     s;
	nng_ctx h;
	bool    outstanding, has_req;
} ctxm;

typedef struct {
	bool         open, dialer;
	int          s, tran;
	nng_dialer   d;
	nng_listener l;
	char         url[128]; // dial url (listeners)
} epm;

enum { A_NONE = 0, A_IDLE, A_PEND, A_ECHO, A_DEV };
enum { K_SEND = 0, K_RECV };
typedef struct {
	nng_aio   *a;
	int        st;
	bool       stopped, stop_used, claimed, finite, on_ctx;
	int        kind, ts, tc;
	nng_socket hs;
	nng_ctx    hc;
	nng_msg   *msg;
	int        mslot;
	atomic_int done;
	int        result;
	int        efails, eiters;
	atomic_int quit;
	int        dev_a, dev_b;
	char       pname[16];
} aiom;

static sockm S[MAXS];
static ctxm  C[MAXC];
static epm   E[MAXE];
static aiom  A[MAXA];

static pthread_mutex_t mx = PTHREAD_MUTEX_INITIALIZER; // model lock; never held across nng calls
static bool            race_prog;                    // minority: close races with pending finite ops
static const char *volatile cur_op[MAXT];           // what each driver thread is doing (diagnostics)
static volatile uint64_t    cur_op_since[MAXT];
static atomic_long     ops_done;
static atomic_uint     trans_used; // bit per transport the program connected over
static long            ops_target;

typedef struct {
	int    id;
	vf_rng r;
} thr;

#define LOCK() pthread_mutex_lock(&mx)
#define UNLOCK() pthread_mutex_unlock(&mx)

// cooked ends of a device chain A - [raw | raw device] - B that the program
// started from (-1: none).  A body written for one end that arrives at the
// other end although the two are not connected directly went through the
// device.
static int dev_end[2] = { -1, -1 };

static void
device_forward_note(uint64_t bseq)
{
	int si = (led_rcv_id - 1) / 16;
	if (led_rcv_id == 0 || dev_end[0] < 0 || bseq <= brec_base || bseq - brec_base >= BR_N) return;
	int other = si == dev_end[0] ? dev_end[1] : si == dev_end[1] ? dev_end[0] : -1;
	if (other < 0 || !S[other].open || strcmp(brec[bseq - brec_base].who, S[other].name) != 0) return;
	for (int j = 0; j < MAXS; j++) {
		if (S[si].peer[j] && S[j].open && !strcmp(S[j].name, S[other].name)) return; // may have come directly
	}
	vf_stat("device_forwards", 1);
	vf_class("device-forward/%s->%s", S[other].name, S[si].name);
}

static void
topo_describe(char *buf, size_t sz)
{
	buf[0] = 0;
	for (int k = 0; k < MAXS; k++) {
		if (S[k].open) {
			size_t tl = strlen(buf);
			snprintf(buf + tl, sz - tl, "%s%s(pipes=%d) ", S[k].name, S[k].dev_owned ? "[dev]" : "", atomic_load(&S[k].live_pipes));
		}
	}
	size_t tl = strlen(buf);
	snprintf(buf + tl, sz - tl, "transports=%#x", atomic_load(&trans_used));
}

static bool
can_send(int pk)
{
	return pk != P_SUB && pk != P_PULL;
}
static bool
can_recv(int pk)
{
	return pk != P_PUB && pk != P_PUSH;
}
static bool
has_ctx(const sockm *s)
{
	return !s->raw && (s->pk == P_REQ || s->pk == P_REP || s->pk == P_SUB || s->pk == P_SURV || s->pk == P_RESP);
}
static bool
compatible(int a, int b)
{
	return PR[a].peer == PR[b].self;
}
static int
peer_pk(int pk)
{
	for (int i = 0; i < P_N; i++) {
		if (PR[i].self == PR[pk].peer) {
			return i;
		}
	}
	return pk;
}

static bool
pending_on(int si) // under lock: an unfinished aio operation targets socket si
{
	for (int i = 0; i < MAXA; i++) {
		if ((A[i].st == A_PEND || A[i].st == A_ECHO) && A[i].ts == si && !atomic_load(&A[i].done)) {
			return true;
		}
	}
	return false;
}

// phase of a socket / context for the evidence cells (under lock)
static void
phase_of(int si, int ci, char *buf, size_t sz)
{
	sockm      *s  = &S[si];
	bool        o  = ci >= 0 ? C[ci].outstanding : s->outstanding;
	bool        h  = ci >= 0 ? C[ci].has_req : s->has_req;
	const char *ph = "idle";
	if (s->dev_owned) {
		ph = "device-owned";
	} else if (!s->raw && s->pk == P_REQ) {
		ph = o ? "request-outstanding" : "idle";
	} else if (!s->raw && s->pk == P_SURV) {
		ph = o ? "survey-open" : "idle";
	} else if (!s->raw && (s->pk == P_REP || s->pk == P_RESP)) {
		ph = h ? "request-held" : "idle";
	} else {
		ph = s->inq == 0 ? "q0" : s->inq < 4 ? "q1-3" : "q4+";
	}
	snprintf(buf, sz, "%s%s%s%s", ph,
	    (s->inq > 0 && ph[0] != 'q') ? "+queued" : "",
	    pending_on(si) ? "+aio" : "",
	    atomic_load(&s->live_pipes) > 0 ? "" : "+nopipe");
}

static void
model_after_send(int si, int ci, int rv) // under lock
{
	sockm *s = &S[si];
	if (rv != 0) {
		return;
	}
	if (!s->raw) {
		if (s->pk == P_REQ || s->pk == P_SURV) {
			*(ci >= 0 ? &C[ci].outstanding : &s->outstanding) = true;
		}
		if (s->pk == P_REP || s->pk == P_RESP) {
			*(ci >= 0 ? &C[ci].has_req : &s->has_req) = false;
		}
	}
	for (int j = 0; j < MAXS; j++) {
		if (s->peer[j] && S[j].open && S[j].inq < 1000) {
			S[j].inq++;
		}
	}
}

static void
model_after_recv(int si, int ci, int rv) // under lock
{
	sockm *s = &S[si];
	if (!s->raw && s->pk == P_REQ) {
		*(ci >= 0 ? &C[ci].outstanding : &s->outstanding) = false;
	}
	if (!s->raw && s->pk == P_SURV && rv == NNG_ESTATE) {
		*(ci >= 0 ? &C[ci].outstanding : &s->outstanding) = false;
	}
	if (rv == 0) {
		if (!s->raw && (s->pk == P_REP || s->pk == P_RESP)) {
			*(ci >= 0 ? &C[ci].has_req : &s->has_req) = true;
		}
		if (s->inq > 0) {
			s->inq--;
		}
	}
}

static void
note_pipe(int si, uint32_t id)
{
	sockm *s = &S[si];
	if (id == 0) {
		return;
	}
	pthread_mutex_lock(&s->pmx);
	bool seen = false;
	for (int i = 0; i < 8 && i < s->npipes; i++) {
		if (s->pipes[i] == id) {
			seen = true;
		}
	}
	if (!seen) {
		s->pipes[s->npipes % 8] = id;
		s->npipes++;
	}
	pthread_mutex_unlock(&s->pmx);
}

static uint32_t
some_pipe(int si, vf_rng *r)
{
	sockm   *s  = &S[si];
	uint32_t id = 0;
	pthread_mutex_lock(&s->pmx);
	int n = s->npipes < 8 ? s->npipes : 8;
	if (n > 0) {
		id = s->pipes[vf_below(r, (uint32_t) n)];
	}
	pthread_mutex_unlock(&s->pmx);
	return id;
}

// pipes that run over udp (the only transport that hands a buffer of its own
// up to the application), so that receives over it can be counted
#define UDPP_N 64
static atomic_uint udp_pipes[UDPP_N];
static atomic_uint udp_pipes_n;

static void
udp_pipe_note(nng_pipe p)
{
	const nng_url *u  = NULL;
	nng_listener   l  = nng_pipe_listener(p);
	nng_dialer     d  = nng_pipe_dialer(p);
	int            rv = nng_listener_id(l) > 0 ? nng_listener_get_url(l, &u) : nng_dialer_id(d) > 0 ? nng_dialer_get_url(d, &u) : -1;
	if (rv == 0 && u != NULL && !strcmp(nng_url_scheme(u), "udp")) {
		atomic_store(&udp_pipes[atomic_fetch_add(&udp_pipes_n, 1) % UDPP_N], (unsigned) nng_pipe_id(p));
		vf_stat("udp_pipes", 1);
	}
}

static bool
udp_pipe_is(uint32_t id)
{
	for (int i = 0; id != 0 && i < UDPP_N; i++) {
		if (atomic_load(&udp_pipes[i]) == id) return true;
	}
	return false;
}

static void
pipe_cb(nng_pipe p, nng_pipe_ev ev, void *arg)
{
	sockm *s = arg;
	int    si = (int) (s - S);
	switch (ev) {
	case NNG_PIPE_EV_ADD_PRE:
		if (atomic_load(&s->reject_next) > 0) {
			atomic_fetch_sub(&s->reject_next, 1);
			nng_pipe_close(p); // documented way to reject a connection
			vf_stat("pipes_rejected_in_cb", 1);
		}
		break;
	case NNG_PIPE_EV_ADD_POST:
		note_pipe(si, (uint32_t) nng_pipe_id(p));
		udp_pipe_note(p);
		pthread_mutex_lock(&s->pmx);
		for (int i = 0; i < 16; i++) {
			if (s->alive[i] == 0) {
				s->alive[i] = (uint32_t) nng_pipe_id(p);
				atomic_fetch_add(&s->live_pipes, 1);
				break;
			}
		}
		pthread_mutex_unlock(&s->pmx);
		vf_stat("pipes_added", 1);
		break;
	case NNG_PIPE_EV_REM_POST:
		pthread_mutex_lock(&s->pmx);
		for (int i = 0; i < 16; i++) {
			if (s->alive[i] != 0 && s->alive[i] == (uint32_t) nng_pipe_id(p)) {
				s->alive[i] = 0;
				atomic_fetch_sub(&s->live_pipes, 1);
				break;
			}
		}
		pthread_mutex_unlock(&s->pmx);
		break;
	default:
		break;
	}
}

// ---------------------------------------------------------------- messages
static size_t
pick_size(vf_rng *r)
{
	uint32_t x = vf_below(r, 100);
	if (x < 8) return vf_below(r, VF_BODY_MIN);          // too short for a self-describing body
	if (x < 40) return VF_BODY_MIN + vf_below(r, 41);
	if (x < 80) return 65 + vf_below(r, 536);
	if (x < 96) return 601 + vf_below(r, 4400);
	return 66000 + vf_below(r, 8000);
}

// fresh message for socket (pk, raw); route = a pipe id for raw rep/respondent
static nng_msg *
build_msg(vf_rng *r, int pk, bool raw, uint32_t route, size_t sz, int *slot)
{
	char who[20];
	snprintf(who, sizeof(who), "%s%s", raw ? "x" : "", PR[pk].name);
	(void) vf_rand(r);
	nng_msg *m = led_alloc(sz, who, slot);
	if (m == NULL) {
		return NULL;
	}
	if (pk == P_PAIR1P) {
		// polyamorous mode: the pipe recorded in the message selects the peer
		uint32_t x = vf_below(r, 6);
		nng_pipe pp = { x < 3 ? route : x < 4 ? (uint32_t) vf_below(r, 100000) + 1 : 0 };
		nng_msg_set_pipe(m, pp);
		vf_class("pair1poly-route/%s", x < 3 ? (route ? "known-pipe" : "none") : x < 4 ? "stale-id" : "none");
	}
	if (raw && !vf_chance(r, 1, 10)) {
		uint32_t id = 0x80000000u | (uint32_t) vf_rand(r);
		switch (pk) {
		case P_REQ:
		case P_SURV:
			nng_msg_header_append_u32(m, id);
			break;
		case P_REP:
		case P_RESP:
			nng_msg_header_append_u32(m, route ? route : (uint32_t) vf_below(r, 1000) + 1);
			nng_msg_header_append_u32(m, id);
			break;
		case P_PAIR1:
			nng_msg_header_append_u32(m, vf_below(r, 4));
			break;
		default:
			break;
		}
	}
	return m;
}

// ---------------------------------------------------------------- options
#define ALLP 0xffffu
#define PB(x) (1u << (x))
typedef struct {
	const char *name;
	const char *tag;
	char        type; // i int, m ms, z size, b bool
	unsigned    protos;
	bool        on_ctx, on_ep;
	int         nvals;
	long        vals[10];
} optdef;

static const optdef opts[] = {
	{ NNG_OPT_RECVBUF, "RECVBUF", 'i', ALLP, true, false, 9, { 0, 1, 3, 64, 2, 8, 8192, -1, 8193 } },
	{ NNG_OPT_SENDBUF, "SENDBUF", 'i', ALLP, false, false, 9, { 0, 1, 3, 64, 2, 8, 8192, -1, 8193 } },
	{ NNG_OPT_RECVTIMEO, "RECVTIMEO", 'm', ALLP, true, false, 6, { 0, 1, 3, 10, 20, -5 } },
	{ NNG_OPT_SENDTIMEO, "SENDTIMEO", 'm', ALLP, true, false, 6, { 0, 1, 3, 10, 20, -5 } },
	{ NNG_OPT_REQ_RESENDTIME, "RESENDTIME", 'm', PB(P_REQ), true, false, 6, { -1, 60000, 5, 0, 1, 30 } },
	{ NNG_OPT_REQ_RESENDTICK, "RESENDTICK", 'm', PB(P_REQ), false, false, 4, { 1, 5, 50, 1000 } },
	{ NNG_OPT_SURVEYOR_SURVEYTIME, "SURVEYTIME", 'm', PB(P_SURV), true, false, 5, { 1000, 5, -1, 1, 50 } },
	{ NNG_OPT_SUB_PREFNEW, "PREFNEW", 'b', PB(P_SUB), true, false, 2, { 0, 1 } },
	{ NNG_OPT_RECVMAXSZ, "RECVMAXSZ", 'z', ALLP, false, true, 5, { 16, 0, 1 << 20, 1, 100 } },
	{ NNG_OPT_MAXTTL, "MAXTTL", 'i', PB(P_REQ) | PB(P_REP) | PB(P_SURV) | PB(P_RESP) | PB(P_PAIR1) | PB(P_PAIR1P), false, false, 7, { 1, 15, 2, 8, 255, 0, 256 } },
	{ NNG_OPT_RECONNMINT, "RECONNMINT", 'm', ALLP, false, true, 4, { 1, 10, 100, 0 } },
	{ NNG_OPT_RECONNMAXT, "RECONNMAXT", 'm', ALLP, false, true, 5, { 0, 1, 10, 100, 1000 } },
	{ NNG_OPT_WS_SENDMAXFRAME, "WS_TXFRAME", 'z', 0, false, true, 6, { 1, 16, 125, 126, 65536, 0 } },
	{ NNG_OPT_WS_RECVMAXFRAME, "WS_RXFRAME", 'z', 0, false, true, 5, { 16, 126, 4096, 65536, 0 } },
	{ NNG_OPT_TCP_NODELAY, "NODELAY", 'b', 0, false, true, 2, { 0, 1 } },
	{ NNG_OPT_TCP_KEEPALIVE, "KEEPALIVE", 'b', 0, false, true, 2, { 0, 1 } },
	// allocating (string) and remaining endpoint options; values index strvals[]
	{ NNG_OPT_WS_PROTOCOL, "WS_PROTOCOL", 's', 0, false, true, 4, { 0, 1, 2, 3 } },
	{ NNG_OPT_WS_HEADER "X-Vf-One", "WS_HEADER1", 's', 0, false, true, 4, { 0, 1, 2, 3 } },
	{ NNG_OPT_WS_HEADER "X-Vf-Two", "WS_HEADER2", 's', 0, false, true, 4, { 1, 3, 0, 2 } },
	{ NNG_OPT_WS_SEND_TEXT, "WS_SEND_TEXT", 'b', 0, false, true, 2, { 0, 1 } },
	{ NNG_OPT_WS_RECV_TEXT, "WS_RECV_TEXT", 'b', 0, false, true, 2, { 1, 0 } },
	{ NNG_OPT_IPC_PERMISSIONS, "IPC_PERMISSIONS", 'i', 0, false, true, 3, { 0600, 0666, 0 } },
	// udp endpoints (settable before the start only), pair1 mode flag (read-only)
	{ NNG_OPT_UDP_COPY_MAX, "UDP_COPY_MAX", 'z', 0, false, true, 4, { 0, 64, 65000, 1024 } },
	{ NNG_OPT_UDP_CONN_RETRY, "UDP_CONN_RETRY", 'm', 0, false, true, 4, { 20, 50, 100, 0 } },
	{ NNG_OPT_UDP_CONN_EXPIRE, "UDP_CONN_EXPIRE", 'm', 0, false, true, 4, { 1000, 2000, 3000, 0 } },
	{ NNG_OPT_UDP_MAX_PEERS, "UDP_MAX_PEERS", 'z', 0, false, true, 4, { 0, 1, 2, 1024 } },
	{ NNG_OPT_PAIR1_POLY, "PAIR1_POLY", 'b', PB(P_PAIR1) | PB(P_PAIR1P), false, false, 2, { 0, 1 } },
};
static char        str1k[1025];
static const char *strvals[4] = { "", "x", "vf.sp.nanomsg.org", str1k };
#define NOPTS ((int) (sizeof(opts) / sizeof(opts[0])))

static void
val_tag(const optdef *o, long v, char *buf, size_t sz)
{
	if (o->type == 'm' && v == -1) {
		snprintf(buf, sz, "inf");
	} else if (o->type == 's') {
		snprintf(buf, sz, "str%zu", strlen(strvals[v]));
	} else {
		snprintf(buf, sz, "%ld", v);
	}
}

enum { TG_SOCK, TG_CTX, TG_DIALER, TG_LISTENER };
static int
set_opt(int kind, nng_socket s, nng_ctx c, nng_dialer d, nng_listener l, const optdef *o, long v)
{
	switch (kind) {
	case TG_SOCK:
		switch (o->type) {
		case 'i': return nng_socket_set_int(s, o->name, (int) v);
		case 'm': return nng_socket_set_ms(s, o->name, (nng_duration) v);
		case 'z': return nng_socket_set_size(s, o->name, (size_t) v);
		default: return nng_socket_set_bool(s, o->name, v != 0);
		}
	case TG_CTX:
		switch (o->type) {
		case 'i': return nng_ctx_set_int(c, o->name, (int) v);
		case 'm': return nng_ctx_set_ms(c, o->name, (nng_duration) v);
		case 'z': return nng_ctx_set_size(c, o->name, (size_t) v);
		default: return nng_ctx_set_bool(c, o->name, v != 0);
		}
	case TG_DIALER:
		switch (o->type) {
		case 'i': return nng_dialer_set_int(d, o->name, (int) v);
		case 'm': return nng_dialer_set_ms(d, o->name, (nng_duration) v);
		case 'z': return nng_dialer_set_size(d, o->name, (size_t) v);
		case 's': return nng_dialer_set_string(d, o->name, strvals[v]);
		default: return nng_dialer_set_bool(d, o->name, v != 0);
		}
	default:
		switch (o->type) {
		case 'i': return nng_listener_set_int(l, o->name, (int) v);
		case 'm': return nng_listener_set_ms(l, o->name, (nng_duration) v);
		case 'z': return nng_listener_set_size(l, o->name, (size_t) v);
		case 's': return nng_listener_set_string(l, o->name, strvals[v]);
		default: return nng_listener_set_bool(l, o->name, v != 0);
		}
	}
}

static int
get_opt(int kind, nng_socket s, nng_ctx c, nng_dialer d, nng_listener l, const optdef *o)
{
	int          i;
	nng_duration m;
	size_t       z;
	bool         b;
	const char  *str;
	switch (kind) {
	case TG_SOCK:
		switch (o->type) {
		case 'i': return nng_socket_get_int(s, o->name, &i);
		case 'm': return nng_socket_get_ms(s, o->name, &m);
		case 'z': return nng_socket_get_size(s, o->name, &z);
		default: return nng_socket_get_bool(s, o->name, &b);
		}
	case TG_CTX:
		switch (o->type) {
		case 'i': return nng_ctx_get_int(c, o->name, &i);
		case 'm': return nng_ctx_get_ms(c, o->name, &m);
		case 'z': return nng_ctx_get_size(c, o->name, &z);
		default: return nng_ctx_get_bool(c, o->name, &b);
		}
	case TG_DIALER:
		switch (o->type) {
		case 'i': return nng_dialer_get_int(d, o->name, &i);
		case 'm': return nng_dialer_get_ms(d, o->name, &m);
		case 'z': return nng_dialer_get_size(d, o->name, &z);
		case 's': return nng_dialer_get_string(d, o->name, &str);
		default: return nng_dialer_get_bool(d, o->name, &b);
		}
	default:
		switch (o->type) {
		case 'i': return nng_listener_get_int(l, o->name, &i);
		case 'm': return nng_listener_get_ms(l, o->name, &m);
		case 'z': return nng_listener_get_size(l, o->name, &z);
		case 's': return nng_listener_get_string(l, o->name, &str);
		default: return nng_listener_get_bool(l, o->name, &b);
		}
	}
}

// ---------------------------------------------------------------- aio callbacks
static void
check_failed_send(aiom *a, int rv, const char *api)
{
	nng_msg *g = nng_aio_get_msg(a->a);
	vf_stat("failed_aio_sends_checked", 1);
	if (g != a->msg) {
		char key[128];
		snprintf(key, sizeof(key), "C03/ownership/msg-not-attached-after-failed-send/%s", a->pname);
		vf_violation(key, "%s: %s completed with %s but nng_aio_get_msg returns %p, submitted %p", prog_tag, api, nng_strerror(rv), (void *) g, (void *) a->msg);
	}
	// by the property the message is ours whatever the aio says
	led_release(a->mslot, a->pname);
}

static void echo_cb(aiom *a);

static void
aio_cb(void *arg)
{
	aiom *a  = arg;
	int   rv = (int) nng_aio_result(a->a);
	if (a->st == A_ECHO) {
		echo_cb(a);
		return;
	}
	if (a->st == A_DEV) {
		a->result = rv;
		atomic_store(&a->done, 1);
		return;
	}
	if (a->kind == K_SEND) {
		if (rv == 0) {
			led_give(a->mslot);
		} else {
			check_failed_send(a, rv, a->on_ctx ? "nng_ctx_send" : "nng_socket_send");
		}
		nng_aio_set_msg(a->a, NULL);
		a->msg = NULL;
		LOCK();
		if (S[a->ts].open) {
			model_after_send(a->ts, a->tc, rv);
		}
		UNLOCK();
		vf_stat(rv == 0 ? "aio_send_ok" : "aio_send_failed", 1);
	} else {
		if (rv == 0) {
			nng_msg *m = nng_aio_get_msg(a->a);
			nng_aio_set_msg(a->a, NULL);
			// (read it before the ledger makes the message available
			// to the driver threads, which may send it away at once)
			uint32_t pid = m != NULL ? nng_msg_get_pipe(m).id : 0;
			led_rcv_id   = RCV_ID(a->ts, a->tc);
			if (led_take(m, L_APP, a->pname, a->on_ctx ? "nng_ctx_recv" : "nng_socket_recv", NULL)) {
				note_pipe(a->ts, pid);
			}
		}
		LOCK();
		if (S[a->ts].open) {
			model_after_recv(a->ts, a->tc, rv);
		}
		UNLOCK();
		vf_stat(rv == 0 ? "aio_recv_ok" : "aio_recv_failed", 1);
	}
	a->result = rv;
	atomic_store(&a->done, 1);
}

// echo loop: recv -> send the same message back -> recv ... (the usual
// callback-driven server idiom).  Ends on closed/stopped/canceled, on
// request (quit) or after a bounded number of rounds.
static void
echo_submit(aiom *a, int kind)
{
	a->kind = kind;
	nng_aio_set_timeout(a->a, NNG_DURATION_INFINITE);
	if (kind == K_RECV) {
		if (a->on_ctx) nng_ctx_recv(a->hc, a->a); else nng_socket_recv(a->hs, a->a);
	} else {
		if (a->on_ctx) nng_ctx_send(a->hc, a->a); else nng_socket_send(a->hs, a->a);
	}
}

static void
echo_cb(aiom *a)
{
	int rv = (int) nng_aio_result(a->a);
	if (a->kind == K_RECV) {
		if (rv == 0) {
			nng_msg *m = nng_aio_get_msg(a->a);
			led_rcv_id = RCV_ID(a->ts, a->tc);
			if (led_take(m, L_BUSY, a->pname, "echo recv", &a->mslot)) {
				a->msg    = m;
				a->efails = 0;
				vf_stat("echo_rounds", 1);
				echo_submit(a, K_SEND);
				return;
			}
			nng_aio_set_msg(a->a, NULL);
		}
	} else {
		if (rv == 0) {
			led_give(a->mslot);
		} else {
			check_failed_send(a, rv, "echo send");
		}
		nng_aio_set_msg(a->a, NULL);
		a->msg = NULL;
	}
	if (rv != 0) {
		a->efails++;
	}
	a->eiters++;
	if (rv == NNG_ECLOSED || rv == NNG_ESTOPPED || rv == NNG_ECANCELED || a->efails > 20 || a->eiters > 200 || atomic_load(&a->quit)) {
		a->result = rv;
		atomic_store(&a->done, 1);
		return;
	}
	echo_submit(a, K_RECV);
}

// ---------------------------------------------------------------- aio helpers
// claim an aio that can take a new operation (under lock).  An aio whose
// one-shot operation has completed is reaped (nng_aio_wait returns at once).
static int
claim_idle_aio(thr *t, bool allow_stopped)
{
	int start = (int) vf_below(&t->r, MAXA);
	for (int k = 0; k < MAXA; k++) {
		int   i = (start + k) % MAXA;
		aiom *a = &A[i];
		if (a->claimed || a->st == A_NONE) continue;
		if (a->stopped && (!allow_stopped || a->stop_used)) continue;
		if (a->st == A_IDLE || ((a->st == A_PEND || a->st == A_ECHO) && atomic_load(&a->done))) {
			a->claimed = true;
			return i;
		}
	}
	return -1;
}

// make a claimed, completed aio idle again (outside the lock)
static void
reap_aio(int i)
{
	aiom *a = &A[i];
	if (a->st == A_PEND || a->st == A_ECHO) {
		nng_aio_wait(a->a); // callback has finished after this
		LOCK();
		a->st = A_IDLE;
		UNLOCK();
	}
}

static void
unclaim(int i)
{
	LOCK();
	A[i].claimed = false;
	UNLOCK();
}

// wait (bounded) for exclusive use of aio i
static void
claim_wait(int i)
{
	for (int n = 0;; n++) {
		LOCK();
		if (!A[i].claimed) {
			A[i].claimed = true;
			UNLOCK();
			return;
		}
		UNLOCK();
		if (n > 20000) vf_harness_fail("aio claim never released");
		vf_usleep(500);
	}
}

// target selection -------------------------------------------------------
typedef struct {
	int        si, ci;
	nng_socket hs;
	nng_ctx    hc;
	int        pk;
	bool       raw;
	char       pname[16];
	char       phase[64];
} target;

// pick an open socket (and maybe one of its contexts); users++ (under lock)
static bool
pick_target(thr *t, bool want_ctx, bool allow_dev, target *tg)
{
	int start = (int) vf_below(&t->r, MAXS);
	if (want_ctx) {
		int cs = (int) vf_below(&t->r, MAXC);
		for (int k = 0; k < MAXC; k++) {
			int ci = (cs + k) % MAXC;
			if (C[ci].open && !C[ci].closing && S[C[ci].s].open && !S[C[ci].s].closing) {
				tg->ci = ci;
				tg->si = C[ci].s;
				C[ci].users++;
				S[tg->si].users++;
				goto found;
			}
		}
	}
	for (int k = 0; k < MAXS; k++) {
		int si = (start + k) % MAXS;
		if (S[si].open && !S[si].closing && (allow_dev || !S[si].dev_owned)) {
			tg->si = si;
			tg->ci = -1;
			S[si].users++;
			goto found;
		}
	}
	return false;
found:
	tg->hs  = S[tg->si].h;
	tg->pk  = S[tg->si].pk;
	tg->raw = S[tg->si].raw;
	if (tg->ci >= 0) tg->hc = C[tg->ci].h;
	snprintf(tg->pname, sizeof(tg->pname), "%s", S[tg->si].name);
	phase_of(tg->si, tg->ci, tg->phase, sizeof(tg->phase));
	return true;
}

static void
put_target(target *tg) // under lock
{
	S[tg->si].users--;
	if (tg->ci >= 0) C[tg->ci].users--;
}

static void
cell(const char *api, const target *tg)
{
	vf_class("%s/%s%s/%s", api, tg->pname, tg->ci >= 0 ? ".ctx" : "", tg->phase);
}

static void
note_rv(const char *api, const target *tg, int rv)
{
	// documented failures that the program provoked on purpose
	if (rv == NNG_ESTATE || rv == NNG_ENOTSUP || rv == NNG_EBUSY || rv == NNG_ESTOPPED || rv == NNG_EINVAL || rv == NNG_ECONNRESET) {
		vf_class("fails/%s/%s%s/%s", api, tg->pname, tg->ci >= 0 ? ".ctx" : "", nng_strerror(rv));
	}
}

// ---------------------------------------------------------------- ops
static nng_msg *
msg_for(thr *t, const target *tg, int *slot)
{
	nng_msg *m = NULL;
	if (vf_chance(&t->r, 2, 5)) {
		m = led_pick(&t->r, slot); // re-send something we received / failed to send
		if (m != NULL) vf_stat("resent_app_msgs", 1);
	}
	if (m == NULL) {
		m = build_msg(&t->r, tg->pk, tg->raw, some_pipe(tg->si, &t->r), pick_size(&t->r), slot);
	}
	if (m == NULL) {
		m = led_pick(&t->r, slot);
	}
	return m;
}

static nng_duration
pick_aio_timeout(thr *t, bool *finite)
{
	uint32_t x = vf_below(&t->r, 10);
	*finite    = true;
	if (x < 3) {
		*finite = false;
		return NNG_DURATION_INFINITE;
	}
	if (x < 5) return NNG_DURATION_DEFAULT; // socket/ctx timeout, always finite here
	if (x < 6) return NNG_DURATION_ZERO;
	return (nng_duration) vf_range(&t->r, 1, 15);
}

static void
submit_oneshot(int ai, const target *tg, int kind, nng_msg *m, int mslot, nng_duration to, bool finite)
{
	aiom *a = &A[ai];
	LOCK();
	a->st     = A_PEND;
	a->kind   = kind;
	a->ts     = tg->si;
	a->tc     = tg->ci;
	a->on_ctx = tg->ci >= 0;
	a->hs     = tg->hs;
	a->hc     = tg->hc;
	a->msg    = m;
	a->mslot  = mslot;
	a->finite = finite;
	if (a->stopped) a->stop_used = true; // one documented NNG_ESTOPPED, then never again
	atomic_store(&a->done, 0);
	snprintf(a->pname, sizeof(a->pname), "%s", tg->pname);
	UNLOCK();
	nng_aio_set_timeout(a->a, to);
	if (kind == K_SEND) {
		nng_aio_set_msg(a->a, m);
		if (a->on_ctx) nng_ctx_send(a->hc, a->a); else nng_socket_send(a->hs, a->a);
	} else {
		if (a->on_ctx) nng_ctx_recv(a->hc, a->a); else nng_socket_recv(a->hs, a->a);
	}
}

static void
op_send(thr *t)
{
	target tg;
	int    form = (int) vf_below(&t->r, 3), ai = -1;
	bool   bytes = vf_chance(&t->r, 1, 10); // nng_send(): copying form
	LOCK();
	bool dev = vf_chance(&t->r, 1, 40);
	if (!pick_target(t, vf_chance(&t->r, 2, 5), dev, &tg)) {
		UNLOCK();
		return;
	}
	if (!can_send(tg.pk) && !vf_chance(&t->r, 1, 12)) { // mostly skip: documented NNG_ENOTSUP
		put_target(&tg);
		UNLOCK();
		return;
	}
	if (bytes && tg.ci < 0) {
		// no message changes hands: allocator balance and ASan judge
		char   phase[64];
		size_t len = pick_size(&t->r) % 5000;
		snprintf(phase, sizeof(phase), "%s", tg.phase);
		UNLOCK();
		uint8_t *buf = malloc(len + 1);
		if (len >= VF_BODY_MIN) vf_body_make(buf, len, BODY_TAG, body_record('B', len, 0, buf, tg.pname)); else memset(buf, 0x5a, len);
		int fl = vf_chance(&t->r, 1, 2) ? NNG_FLAG_NONBLOCK : 0;
		cell(fl ? "send_bytes_nb" : "send_bytes", &tg);
		tr("t%d nng_send%s %s len=%zu [%s]", t->id, fl ? "(NB)" : "", tg.pname, len, phase);
		int rv = nng_send(tg.hs, buf, len, fl);
		free(buf);
		vf_stat(rv == 0 ? "byte_sends_ok" : "byte_sends_failed", 1);
		note_rv("send", &tg, rv);
		LOCK();
		model_after_send(tg.si, -1, rv);
		put_target(&tg);
		UNLOCK();
		return;
	}
	if (form == 2 && (ai = claim_idle_aio(t, vf_chance(&t->r, 1, 4))) < 0) {
		form = 1;
	}
	UNLOCK();
	int      mslot = -1;
	nng_msg *m     = msg_for(t, &tg, &mslot);
	if (m == NULL) {
		if (ai >= 0) unclaim(ai);
		LOCK();
		put_target(&tg);
		UNLOCK();
		return;
	}
	int rv = -1;
	if (form == 2) {
		bool         finite;
		nng_duration to = pick_aio_timeout(t, &finite);
		reap_aio(ai);
		cell("aio_send", &tg);
		tr("t%d aio%d send %s%s msg=%zu to=%d [%s]", t->id, ai, tg.pname, tg.ci >= 0 ? ".ctx" : "", nng_msg_len(m), (int) to, tg.phase);
		submit_oneshot(ai, &tg, K_SEND, m, mslot, to, finite || A[ai].stopped);
		unclaim(ai);
		vf_stat("aio_sends", 1);
	} else {
		int fl = form == 1 ? NNG_FLAG_NONBLOCK : 0;
		cell(fl ? "sendmsg_nb" : "sendmsg", &tg);
		tr("t%d sendmsg%s %s%s msg=%zu hdr=%zu [%s]", t->id, fl ? "(NB)" : "", tg.pname, tg.ci >= 0 ? ".ctx" : "", nng_msg_len(m), nng_msg_header_len(m), tg.phase);
		rv = tg.ci >= 0 ? nng_ctx_sendmsg(tg.hc, m, fl) : nng_sendmsg(tg.hs, m, fl);
		if (rv == 0) led_give(mslot); else led_release(mslot, tg.pname);
		vf_stat(rv == 0 ? "sends_ok" : "sends_failed", 1);
		note_rv("send", &tg, rv);
	}
	LOCK();
	if (form != 2) model_after_send(tg.si, tg.ci, rv);
	put_target(&tg);
	UNLOCK();
}

static void
op_recv(thr *t)
{
	target tg;
	int    form = (int) vf_below(&t->r, 3), ai = -1;
	LOCK();
	// prefer a target that the model expects to have something to receive
	for (int tries = 0;; tries++) {
		if (!pick_target(t, vf_chance(&t->r, 2, 5), vf_chance(&t->r, 1, 40), &tg)) {
			UNLOCK();
			return;
		}
		bool o = tg.ci >= 0 ? C[tg.ci].outstanding : S[tg.si].outstanding;
		if (tries >= 3 || S[tg.si].inq > 0 || o || vf_chance(&t->r, 1, 4)) break;
		put_target(&tg);
	}
	if (!can_recv(tg.pk) && !vf_chance(&t->r, 1, 12)) {
		put_target(&tg);
		UNLOCK();
		return;
	}
	if (tg.ci < 0 && vf_chance(&t->r, 1, 10)) {
		// nng_recv(): the library copies into our buffer and frees its message
		int fl = (S[tg.si].inq == 0 && !S[tg.si].outstanding) || vf_chance(&t->r, 1, 2) ? NNG_FLAG_NONBLOCK : 0;
		UNLOCK();
		uint8_t buf[512];
		size_t  sz = vf_chance(&t->r, 1, 4) ? 16 : sizeof(buf); // also shorter than the message
		size_t  cap = sz;
		cell(fl ? "recv_bytes_nb" : "recv_bytes", &tg);
		tr("t%d nng_recv%s %s cap=%zu [%s]", t->id, fl ? "(NB)" : "", tg.pname, sz, tg.phase);
		int rv = nng_recv(tg.hs, buf, &sz, fl);
		if (rv == 0) {
			vf_stat("byte_recvs_ok", 1);
			if (sz <= cap && sz >= VF_BODY_MIN) {
				uint32_t tag;
				int      rc = vf_body_check(buf, sz, &tag, NULL);
				if (rc != 0 && rc != -4) {
					// front consumed as protocol header: not judged
				} else if (rc == -4) {
					vf_stat("received_body_crc_mismatch", 1);
				} else {
					vf_stat("bodies_verified", 1);
				}
			}
		} else {
			vf_stat("byte_recvs_failed", 1);
		}
		note_rv("recv", &tg, rv);
		LOCK();
		model_after_recv(tg.si, -1, rv);
		put_target(&tg);
		UNLOCK();
		return;
	}
	if (form == 2 && (ai = claim_idle_aio(t, vf_chance(&t->r, 1, 6))) < 0) {
		form = 1;
	}
	// nothing expected: mostly do not sit out the timeout
	if (form == 0 && S[tg.si].inq == 0 && !S[tg.si].outstanding && vf_chance(&t->r, 2, 3)) {
		form = 1;
	}
	UNLOCK();
	int rv = -1;
	if (form == 2) {
		bool         finite;
		nng_duration to = pick_aio_timeout(t, &finite);
		reap_aio(ai);
		cell("aio_recv", &tg);
		tr("t%d aio%d recv %s%s to=%d [%s]", t->id, ai, tg.pname, tg.ci >= 0 ? ".ctx" : "", (int) to, tg.phase);
		submit_oneshot(ai, &tg, K_RECV, NULL, -1, to, finite || A[ai].stopped);
		unclaim(ai);
		vf_stat("aio_recvs", 1);
	} else {
		int      fl = form == 1 ? NNG_FLAG_NONBLOCK : 0;
		nng_msg *m  = NULL;
		cell(fl ? "recvmsg_nb" : "recvmsg", &tg);
		tr("t%d recvmsg%s %s%s [%s]", t->id, fl ? "(NB)" : "", tg.pname, tg.ci >= 0 ? ".ctx" : "", tg.phase);
		rv = tg.ci >= 0 ? nng_ctx_recvmsg(tg.hc, &m, fl) : nng_recvmsg(tg.hs, &m, fl);
		uint32_t pid = (rv == 0 && m != NULL) ? nng_msg_get_pipe(m).id : 0;
		led_rcv_id   = RCV_ID(tg.si, tg.ci);
		if (rv == 0 && led_take(m, L_APP, tg.pname, "nng_recvmsg", NULL)) {
			note_pipe(tg.si, pid);
		}
		vf_stat(rv == 0 ? "recvs_ok" : "recvs_failed", 1);
		note_rv("recv", &tg, rv);
	}
	LOCK();
	if (form != 2) model_after_recv(tg.si, tg.ci, rv);
	put_target(&tg);
	UNLOCK();
}

static void
op_setopt(thr *t)
{
	target        tg;
	int           kind = TG_SOCK, ei = -1;
	nng_dialer    d    = { 0 };
	nng_listener  l    = { 0 };
	const optdef *o;
	uint32_t      x = vf_below(&t->r, 10);
	LOCK();
	if (!pick_target(t, x < 3, vf_chance(&t->r, 1, 30), &tg)) {
		UNLOCK();
		return;
	}
	if (tg.ci >= 0) {
		kind = TG_CTX;
	} else if (x >= 8) {
		int es = (int) vf_below(&t->r, MAXE);
		for (int k = 0; k < MAXE; k++) {
			int i = (es + k) % MAXE;
			if (E[i].open && E[i].s == tg.si) {
				ei   = i;
				kind = E[i].dialer ? TG_DIALER : TG_LISTENER;
				d    = E[i].d;
				l    = E[i].l;
				break;
			}
		}
	}
	// mostly options that apply to the target, sometimes any (NNG_ENOTSUP)
	for (int tries = 0;; tries++) {
		o = &opts[vf_below(&t->r, NOPTS)];
		if ((kind == TG_SOCK || kind == TG_CTX) && o->type == 's') continue; // no string setter on sockets/contexts
		if (tries > 30 || vf_chance(&t->r, 1, 8)) break;
		if (kind == TG_SOCK && (o->protos & PB(tg.pk))) break;
		if (kind == TG_CTX && o->on_ctx && (o->protos & PB(tg.pk))) break;
		if ((kind == TG_DIALER || kind == TG_LISTENER) && o->on_ep) break;
	}
	long v = o->vals[vf_below(&t->r, (uint32_t) o->nvals)];
	UNLOCK();
	char vt[24];
	val_tag(o, v, vt, sizeof(vt));
	const char *kn = kind == TG_SOCK ? "" : kind == TG_CTX ? ".ctx" : kind == TG_DIALER ? ".dialer" : ".listener";
	if (vf_chance(&t->r, 1, 6)) {
		int rv = get_opt(kind, tg.hs, tg.hc, d, l, o);
		tr("t%d get %s on %s%s -> %d", t->id, o->tag, tg.pname, kn, rv);
		vf_stat("opt_gets", 1);
	} else {
		tr("t%d set %s=%s on %s%s [%s]", t->id, o->tag, vt, tg.pname, kn, tg.phase);
		int rv = set_opt(kind, tg.hs, tg.hc, d, l, o, v);
		vf_stat("opt_sets", 1);
		if (rv == 0) {
			vf_stat("opt_sets_ok", 1);
			if (o->type == 's') vf_stat("string_opt_sets_ok", 1);
			vf_class("opt/%s=%s/%s%s/%s", o->tag, vt, tg.pname, kn, tg.phase);
		} else {
			vf_class("optfail/%s/%s%s/%s", o->tag, tg.pname, kn, nng_strerror(rv));
		}
	}
	(void) ei;
	LOCK();
	put_target(&tg);
	UNLOCK();
}

static void
op_ctx_open(thr *t)
{
	target tg;
	int    ci = -1;
	LOCK();
	for (int i = 0; i < MAXC; i++) {
		if (!C[i].open && !C[i].closing && C[i].users == 0) ci = i;
	}
	if (ci < 0 || !pick_target(t, false, false, &tg)) {
		UNLOCK();
		return;
	}
	if (!has_ctx(&S[tg.si]) && !vf_chance(&t->r, 1, 10)) {
		put_target(&tg);
		UNLOCK();
		return;
	}
	C[ci].closing = true; // reserve the slot
	UNLOCK();
	nng_ctx c;
	int     rv = nng_ctx_open(&c, tg.hs);
	tr("t%d ctx_open %s -> %d (slot %d)", t->id, tg.pname, rv, ci);
	cell("ctx_open", &tg);
	LOCK();
	C[ci].closing = false;
	if (rv == 0) {
		C[ci].open        = true;
		C[ci].s           = tg.si;
		C[ci].h           = c;
		C[ci].users       = 0;
		C[ci].outstanding = C[ci].has_req = false;
		vf_stat("ctx_opened", 1);
	}
	put_target(&tg);
	UNLOCK();
}

// setup helper (before the driver threads start): a context on socket si
static void
op_ctx_open_on(thr *t, int si)
{
	for (int ci = 0; ci < MAXC; ci++) {
		if (!C[ci].open && !C[ci].closing) {
			nng_ctx c;
			int     rv = nng_ctx_open(&c, S[si].h);
			tr("t%d ctx_open %s -> %d (slot %d)", t->id, S[si].name, rv, ci);
			if (rv == 0) {
				memset(&C[ci], 0, sizeof(C[ci]));
				C[ci].open = true;
				C[ci].s    = si;
				C[ci].h    = c;
				vf_stat("ctx_opened", 1);
			}
			return;
		}
	}
}

// wait until nobody uses the object and no finite one-shot operation is
// pending on it (avoids the known expire-loop window, see C02), unless this
// is one of the minority programs that race on purpose.
static void
drain_before_close(int si, int ci)
{
	if (race_prog) {
		return;
	}
	for (int n = 0;; n++) {
		LOCK();
		int u = ci >= 0 ? C[ci].users : S[si].users;
		if (ci < 0) {
			for (int i = 0; i < MAXC; i++) {
				if (C[i].open && C[i].s == si) u += C[i].users;
			}
		}
		UNLOCK();
		if (u == 0) break;
		if (n > 20000) {
			// (say what the other driver threads are inside, and for how long)
			char     w[200] = "";
			uint64_t now    = vf_now_ns();
			for (int k = 0; k < MAXT; k++) {
				const char *o = cur_op[k];
				if (o != NULL) snprintf(w + strlen(w), sizeof(w) - strlen(w), " t%d:%s(%.1fs)", k, o, (double) (now - cur_op_since[k]) / 1e9);
			}
			vf_harness_fail("users never drained; driver threads are in%s; last trace: %s", w, trace_buf[(atomic_load(&trace_n) + TRN - 1) % TRN]);
		}
		vf_usleep(500);
	}
	for (int i = 0; i < MAXA; i++) {
		LOCK();
		bool hit = A[i].st == A_PEND && A[i].finite && A[i].ts == si && (ci < 0 || A[i].tc == ci);
		UNLOCK();
		if (hit) {
			claim_wait(i);
			if (A[i].st == A_PEND && A[i].finite && A[i].ts == si) {
				nng_aio_wait(A[i].a);
				LOCK();
				A[i].st = A_IDLE;
				UNLOCK();
			}
			unclaim(i);
		}
	}
}

// evidence: a close that happens while another thread is inside a call on the
// object (race programs only), or while an aio operation is pending on it
static void
close_users_sample(int si, int ci)
{
	LOCK();
	int  u = ci >= 0 ? C[ci].users : S[si].users;
	bool pend = false;
	if (ci < 0) {
		for (int i = 0; i < MAXC; i++) {
			if (C[i].open && C[i].s == si) u += C[i].users;
		}
	}
	for (int i = 0; i < MAXA; i++) {
		if ((A[i].st == A_PEND || A[i].st == A_ECHO) && A[i].ts == si && (ci < 0 || A[i].tc == ci) && !atomic_load(&A[i].done)) pend = true;
	}
	UNLOCK();
	if (u > 0) vf_stat("closes_with_users", 1);
	if (pend) vf_stat("closes_with_aio_pending", 1);
}

static void
op_ctx_close(thr *t, int want)
{
	int ci = -1;
	LOCK();
	int cs = (int) vf_below(&t->r, MAXC);
	for (int k = 0; k < MAXC; k++) {
		int i = want >= 0 ? want : (cs + k) % MAXC;
		if (C[i].open && !C[i].closing && !S[C[i].s].closing) {
			ci = i;
			break;
		}
		if (want >= 0) break;
	}
	if (ci < 0) {
		UNLOCK();
		return;
	}
	C[ci].closing = true;
	int     si    = C[ci].s;
	nng_ctx h     = C[ci].h;
	char    ph[64];
	phase_of(si, ci, ph, sizeof(ph));
	UNLOCK();
	drain_before_close(si, ci);
	tr("t%d ctx_close slot %d (%s) [%s]", t->id, ci, S[si].name, ph);
	vf_class("ctx_close/%s/%s", S[si].name, ph);
	close_users_sample(si, ci);
	nng_ctx_close(h);
	LOCK();
	C[ci].open    = false;
	C[ci].closing = false;
	UNLOCK();
	vf_stat("ctx_closed", 1);
}

static void
op_sock_close(thr *t, int want)
{
	int si = -1;
	LOCK();
	int ss = (int) vf_below(&t->r, MAXS);
	for (int k = 0; k < MAXS; k++) {
		int i = want >= 0 ? want : (ss + k) % MAXS;
		if (S[i].open && !S[i].closing && !S[i].dev_owned) {
			si = i;
			break;
		}
		if (want >= 0) break;
	}
	if (si < 0) {
		UNLOCK();
		return;
	}
	S[si].closing = true;
	for (int i = 0; i < MAXC; i++) {
		if (C[i].open && C[i].s == si) C[i].closing = true;
	}
	nng_socket h = S[si].h;
	char       ph[64];
	phase_of(si, -1, ph, sizeof(ph));
	UNLOCK();
	drain_before_close(si, -1);
	tr("t%d socket_close %s [%s]", t->id, S[si].name, ph);
	vf_class("socket_close/%s/%s", S[si].name, ph);
	close_users_sample(si, -1);
	nng_socket_close(h);
	LOCK();
	S[si].open    = false;
	S[si].closing = false;
	for (int i = 0; i < MAXC; i++) {
		if (C[i].s == si && (C[i].open || C[i].closing)) {
			C[i].open = C[i].closing = false;
		}
	}
	for (int i = 0; i < MAXE; i++) {
		if (E[i].open && E[i].s == si) E[i].open = false;
	}
	for (int j = 0; j < MAXS; j++) {
		S[j].peer[si] = false;
		S[si].peer[j] = false;
	}
	UNLOCK();
	vf_stat("sockets_closed", 1);
}

static int
free_ep_slot(void) // under lock
{
	for (int i = 0; i < MAXE; i++) {
		if (!E[i].open) return i;
	}
	return -1;
}

static void
ep_pre_options(thr *t, bool dialer, nng_dialer d, nng_listener l, const char *pname)
{
	int n = (int) vf_below(&t->r, 3);
	if (dialer && vf_chance(&t->r, 1, 4)) {
		nng_sockaddr sa;
		memset(&sa, 0, sizeof(sa));
		sa.s_in.sa_family = NNG_AF_INET;
		sa.s_in.sa_addr   = htonl(0x7f000001);
		int rv = nng_dialer_set_addr(d, NNG_OPT_LOCADDR, &sa);
		tr("t%d   pre-start set LOCADDR=127.0.0.1:0 on %s.dialer -> %d", t->id, pname, rv);
		if (rv == 0) vf_class("opt/LOCADDR/%s.dialer/before-start", pname);
	}
	for (int k = 0; k < n; k++) {
		const optdef *o;
		do {
			o = &opts[vf_below(&t->r, NOPTS)];
		} while (!o->on_ep);
		long v = o->vals[vf_below(&t->r, (uint32_t) o->nvals)];
		char vt[24];
		val_tag(o, v, vt, sizeof(vt));
		int rv = set_opt(dialer ? TG_DIALER : TG_LISTENER, (nng_socket) { 0 }, (nng_ctx) { 0 }, d, l, o, v);
		if (o->type == 's' && rv == 0) vf_stat("string_opt_sets_ok", 1);
		tr("t%d   pre-start set %s=%s on %s.%s -> %d", t->id, o->tag, vt, pname, dialer ? "dialer" : "listener", rv);
		vf_stat("opt_sets", 1);
		if (rv == 0) {
			vf_stat("opt_sets_ok", 1);
			vf_class("opt/%s=%s/%s.%s/before-start", o->tag, vt, pname, dialer ? "dialer" : "listener");
		}
	}
}

static void
wait_pipes(int a, int b, int la, int lb, int ms)
{
	for (int i = 0; i < ms; i++) {
		if (atomic_load(&S[a].live_pipes) > la && atomic_load(&S[b].live_pipes) > lb) return;
		vf_msleep(1);
	}
}

static void
mk_url(int t, char *buf, size_t sz)
{
	if (t == T_UDP) {
		snprintf(buf, sz, "udp://127.0.0.1:0");
	} else {
		vf_url(t, buf, sz);
	}
}

static int
mk_dial_url(nng_listener l, int t, const char *listen_url, char *buf, size_t sz)
{
	if (t == T_UDP) {
		int port = 0;
		int rv   = nng_listener_get_int(l, NNG_OPT_BOUND_PORT, &port);
		if (rv != 0) return rv;
		snprintf(buf, sz, "udp://127.0.0.1:%d", port);
		return 0;
	}
	return vf_dial_url(l, t, listen_url, buf, sz);
}

// connect socket a (listens) and b (dials) over a transport
static void
op_connect(thr *t, int wa, int wb, int wtran)
{
	int a = -1, b = -1;
	LOCK();
	if (wa >= 0) {
		a = wa;
		b = wb;
		if (!S[a].open || S[a].closing || S[a].dev_owned || !S[b].open || S[b].closing || S[b].dev_owned) a = -1;
	} else {
		bool wantcompat = !vf_chance(&t->r, 1, 8);
		for (int tries = 0; tries < 40 && a < 0; tries++) {
			int x = (int) vf_below(&t->r, MAXS), y = (int) vf_below(&t->r, MAXS);
			if (x == y || !S[x].open || S[x].closing || S[x].dev_owned || !S[y].open || S[y].closing || S[y].dev_owned) continue;
			if (wantcompat && !compatible(S[x].pk, S[y].pk)) continue;
			a = x;
			b = y;
		}
	}
	int ea = -1, eb = -1;
	if (a >= 0) {
		ea = free_ep_slot();
		if (ea >= 0) {
			E[ea].open = true; // reserve
			eb         = free_ep_slot();
			E[ea].open = false;
		}
	}
	if (a < 0 || ea < 0 || eb < 0) {
		UNLOCK();
		return;
	}
	E[ea].open = E[eb].open = true; // reserved (s = -1 until started)
	E[ea].s = E[eb].s = -1;
	S[a].users++;
	S[b].users++;
	nng_socket ha = S[a].h, hb = S[b].h;
	bool       compat = compatible(S[a].pk, S[b].pk);
	int        la = atomic_load(&S[a].live_pipes), lb = atomic_load(&S[b].live_pipes);
	UNLOCK();

	static const int tw[] = { VF_T_INPROC, VF_T_INPROC, VF_T_INPROC, VF_T_IPC, VF_T_IPC, VF_T_TCP, VF_T_TCP, VF_T_WS, VF_T_WS, VF_T_SOCKFD, T_UDP, T_UDP };
	int              tran = wtran >= 0 ? wtran : tw[vf_below(&t->r, 12)];
	bool             abstract = false;
	int              rva = -1, rvb = -1;
	nng_listener     l  = { 0 }, l2 = { 0 };
	nng_dialer       d  = { 0 };
	char             url[128], durl[128] = "";
	bool             b_is_listener = false;
	atomic_fetch_or(&trans_used, 1u << tran);
	tr("t%d connect %s <- %s over %s", t->id, S[a].name, S[b].name, tn(tran));
	vf_class("connect/%s/%s<-%s%s", tn(tran), S[a].name, S[b].name, compat ? "" : "/mismatch");
	if (tran == VF_T_SOCKFD) {
		int fds[2];
		b_is_listener = true;
		if (nng_socket_pair(fds) == 0) {
			rva = nng_listener_create(&l, ha, "socket://");
			if (rva == 0) rva = nng_listener_start(l, 0);
			if (rva == 0 && (rva = nng_listener_set_int(l, NNG_OPT_SOCKET_FD, fds[0])) == 0) fds[0] = -1;
			rvb = nng_listener_create(&l2, hb, "socket://");
			if (rvb == 0) rvb = nng_listener_start(l2, 0);
			if (rvb == 0 && (rvb = nng_listener_set_int(l2, NNG_OPT_SOCKET_FD, fds[1])) == 0) fds[1] = -1;
			if (fds[0] >= 0) close(fds[0]);
			if (fds[1] >= 0) close(fds[1]);
		}
	} else {
		mk_url(tran, url, sizeof(url));
		if (tran == VF_T_IPC && vf_chance(&t->r, 1, 3)) {
			// linux abstract socket namespace
			static atomic_int an;
			snprintf(url, sizeof(url), "abstract://vf-c03-%d-%d", (int) getpid(), atomic_fetch_add(&an, 1));
			vf_stat("abstract_ipc_connects", 1);
			abstract = true;
		}
		if (vf_chance(&t->r, 1, 2)) {
			rva = nng_listen(ha, url, &l, 0);
		} else if ((rva = nng_listener_create(&l, ha, url)) == 0) {
			ep_pre_options(t, false, d, l, S[a].name);
			if ((rva = nng_listener_start(l, 0)) != 0) {
				nng_listener_close(l);
			}
		}
		if (rva == 0 && mk_dial_url(l, tran, url, durl, sizeof(durl)) == 0) {
			int fl = vf_chance(&t->r, 1, 4) ? NNG_FLAG_NONBLOCK : 0;
			// (a synchronous udp dial to a listener of an incompatible
			// protocol used to never return - udp_recv_cack dropped the pipe
			// and left the dial waiting; repaired in the repository, so the
			// synchronous form is driven; C03_UDP_ASYNC_MISMATCH=1 avoids it)
			if (tran == T_UDP && !compat && getenv("C03_UDP_ASYNC_MISMATCH") != NULL) fl = NNG_FLAG_NONBLOCK;
			if (vf_chance(&t->r, 1, 2)) {
				rvb = nng_dial(hb, durl, &d, fl);
			} else if ((rvb = nng_dialer_create(&d, hb, durl)) == 0) {
				ep_pre_options(t, true, d, l, S[b].name);
				if ((rvb = nng_dialer_start(d, fl)) != 0) {
					nng_dialer_close(d);
				}
			}
		}
	}
	tr("t%d   connect result listen=%d dial=%d", t->id, rva, rvb);
	if (rva == 0 && rvb == 0 && compat) {
		wait_pipes(a, b, la, lb, 60);
		vf_stat("connects_ok", 1);
		// (a connection that really exists: both sides got a pipe)
		if (atomic_load(&S[a].live_pipes) > la && atomic_load(&S[b].live_pipes) > lb) {
			char sk[48];
			snprintf(sk, sizeof(sk), "connected_%s", abstract ? "abstract" : tn(tran));
			vf_stat(sk, 1);
		}
	}
	LOCK();
	E[ea].open = E[eb].open = false;
	if (rva == 0) {
		E[ea].open   = true;
		E[ea].dialer = false;
		E[ea].s      = a;
		E[ea].tran   = tran;
		E[ea].l      = l;
		snprintf(E[ea].url, sizeof(E[ea].url), "%s", durl);
	}
	if (rvb == 0) {
		E[eb].open   = true;
		E[eb].dialer = !b_is_listener;
		E[eb].s      = b;
		E[eb].tran   = tran;
		E[eb].d      = d;
		E[eb].l      = l2;
		E[eb].url[0] = 0;
	}
	if (rva == 0 && rvb == 0 && compat) {
		S[a].peer[b] = S[b].peer[a] = true;
	}
	S[a].users--;
	S[b].users--;
	UNLOCK();
}

// dial an existing (or already closed) listener URL again: second pipes,
// refused connections
static void
op_redial(thr *t)
{
	int  li = -1, b = -1, eb;
	char durl[128];
	LOCK();
	int es = (int) vf_below(&t->r, MAXE);
	for (int k = 0; k < MAXE; k++) {
		int i = (es + k) % MAXE;
		if (!E[i].dialer && E[i].url[0] && E[i].s >= 0) {
			li = i;
			break;
		}
	}
	for (int tries = 0; tries < 20 && li >= 0 && b < 0; tries++) {
		int y = (int) vf_below(&t->r, MAXS);
		if (S[y].open && !S[y].closing && !S[y].dev_owned) b = y;
	}
	eb = free_ep_slot();
	if (li < 0 || b < 0 || eb < 0) {
		UNLOCK();
		return;
	}
	snprintf(durl, sizeof(durl), "%s", E[li].url);
	int  la     = E[li].s;
	int  ltran  = E[li].tran;
	bool compat = E[li].open && S[la].open && compatible(S[la].pk, S[b].pk);
	E[eb].open  = true;
	E[eb].s     = -1;
	S[b].users++;
	nng_socket hb = S[b].h;
	UNLOCK();
	nng_dialer d;
	int        fl = vf_chance(&t->r, 1, 2) ? NNG_FLAG_NONBLOCK : 0;
	if (ltran == T_UDP) fl = NNG_FLAG_NONBLOCK; // (see op_connect; a closed listener would cost the 5 s connection expiry)
	int        rv = nng_dial(hb, durl, &d, fl);
	tr("t%d redial %s -> %s flags=%d -> %d", t->id, S[b].name, durl, fl, rv);
	vf_class("redial/%s/%s", tn(ltran), rv == 0 ? "ok" : nng_strerror(rv));
	if (rv == 0 && compat) vf_msleep(2);
	LOCK();
	E[eb].open = false;
	if (rv == 0) {
		E[eb].open   = true;
		E[eb].dialer = true;
		E[eb].s      = b;
		E[eb].tran   = ltran;
		E[eb].d      = d;
		E[eb].url[0] = 0;
		if (compat) S[la].peer[b] = S[b].peer[la] = true;
	}
	S[b].users--;
	UNLOCK();
}

static void
op_ep_close(thr *t)
{
	int ei = -1;
	LOCK();
	int es = (int) vf_below(&t->r, MAXE);
	for (int k = 0; k < MAXE; k++) {
		int i = (es + k) % MAXE;
		if (E[i].open && E[i].s >= 0 && S[E[i].s].open && !S[E[i].s].closing && !S[E[i].s].dev_owned) {
			ei = i;
			break;
		}
	}
	if (ei < 0) {
		UNLOCK();
		return;
	}
	epm e      = E[ei];
	E[ei].open = false; // keeps url for redial (connection refused later)
	S[e.s].users++;
	UNLOCK();
	tr("t%d %s_close on %s", t->id, e.dialer ? "dialer" : "listener", S[e.s].name);
	vf_class("ep_close/%s/%s/%s", e.dialer ? "dialer" : "listener", tn(e.tran), S[e.s].name);
	if (e.dialer) nng_dialer_close(e.d); else nng_listener_close(e.l);
	LOCK();
	S[e.s].users--;
	UNLOCK();
	vf_stat("endpoints_closed", 1);
}


// ---------------------------------------------------------------- endpoints whose start failed
// A listener started on an address another listener of the program holds, a
// dialer started synchronously on an address nobody listens on: the start
// fails and the endpoint stays a valid handle.  Then every option the tables
// know is read and written on it, it is started again, its URL is read, and it
// is closed.  The same for stream listeners / dialers.
static const char *ftran_name[] = { "inproc", "ipc", "tcp", "ws", "sockfd", "abstract" };
enum { FT_ABSTRACT = 5 };

static int
url_tran(const char *u)
{
	if (!strncmp(u, "inproc:", 7)) return VF_T_INPROC;
	if (!strncmp(u, "ipc:", 4)) return VF_T_IPC;
	if (!strncmp(u, "tcp:", 4)) return VF_T_TCP;
	if (!strncmp(u, "ws:", 3)) return VF_T_WS;
	if (!strncmp(u, "abstract:", 9)) return FT_ABSTRACT;
	return VF_T_SOCKFD;
}

static long
sweep_failed_ep(thr *t, bool dialer, nng_dialer d, nng_listener l, const char *pname, const char *tn)
{
	long           calls = 0;
	int            kind  = dialer ? TG_DIALER : TG_LISTENER;
	const nng_url *u     = NULL;
	nng_sockaddr   sa;
	for (int i = 0; i < NOPTS; i++) {
		const optdef *o = &opts[i];
		(void) get_opt(kind, (nng_socket) { 0 }, (nng_ctx) { 0 }, d, l, o);
		int rv = set_opt(kind, (nng_socket) { 0 }, (nng_ctx) { 0 }, d, l, o, o->vals[vf_below(&t->r, (uint32_t) o->nvals)]);
		(void) get_opt(kind, (nng_socket) { 0 }, (nng_ctx) { 0 }, d, l, o);
		calls += 3;
		if (rv == 0) vf_class("failed-ep/set/%s/%s/%s", dialer ? "dialer" : "listener", tn, o->tag);
	}
	if (dialer) {
		int port = 0;
		(void) sa; // (nng_dialer_get_addr is declared in nng.h but not implemented)
		(void) nng_dialer_get_int(d, NNG_OPT_BOUND_PORT, &port);
		(void) nng_dialer_get_url(d, &u);
		int rv = nng_dialer_start(d, 0);
		tr("t%d   failed dialer on %s (%s): second start -> %d", t->id, pname, tn, rv);
		(void) nng_dialer_get_url(d, &u);
		calls += 5;
		if (rv == 0) vf_stat("failed_ep_second_start_ok", 1);
		nng_dialer_close(d);
	} else {
		int port = 0;
		(void) nng_listener_get_int(l, NNG_OPT_BOUND_PORT, &port);
		(void) nng_listener_get_url(l, &u);
		int rv = nng_listener_start(l, 0);
		tr("t%d   failed listener on %s (%s): second start -> %d", t->id, pname, tn, rv);
		(void) nng_listener_get_url(l, &u);
		(void) nng_listener_get_int(l, NNG_OPT_BOUND_PORT, &port);
		calls += 5;
		if (rv == 0) vf_stat("failed_ep_second_start_ok", 1);
		nng_listener_close(l);
	}
	return calls + 1;
}

static void
refusing_url(thr *t, int ft, char *url, size_t sz)
{
	static atomic_int n;
	int               k = atomic_fetch_add(&n, 1);
	uint16_t          port = 0;
	(void) t;
	if (ft == VF_T_TCP || ft == VF_T_WS) {
		int fd = vf_tcp_listen(&port); // a port that was free a moment ago
		if (fd >= 0) close(fd);
	}
	switch (ft) {
	case VF_T_TCP: snprintf(url, sz, "tcp://127.0.0.1:%u", (unsigned) port); break;
	case VF_T_WS: snprintf(url, sz, "ws://127.0.0.1:%u/none%d", (unsigned) port, k); break;
	case VF_T_IPC: snprintf(url, sz, "ipc:///tmp/vf-c03-none-%d-%d.sock", (int) getpid(), k); break;
	case FT_ABSTRACT: snprintf(url, sz, "abstract://vf-c03-none-%d-%d", (int) getpid(), k); break;
	default: snprintf(url, sz, "inproc://vf-c03-none-%d-%d", (int) getpid(), k); break;
	}
}

static void
op_failed_endpoint(thr *t)
{
	target tg;
	char   url[128] = "";
	bool   dialer   = vf_chance(&t->r, 1, 2);
	static const int fts[] = { VF_T_INPROC, VF_T_IPC, VF_T_TCP, VF_T_WS, FT_ABSTRACT };
	int              ft    = fts[vf_below(&t->r, 5)];
	LOCK();
	if (!pick_target(t, false, false, &tg)) {
		UNLOCK();
		return;
	}
	if (!dialer) {
		// an address a listener of this program holds (prefer the wanted transport)
		int es = (int) vf_below(&t->r, MAXE), best = -1;
		for (int k = 0; k < MAXE; k++) {
			int i = (es + k) % MAXE;
			if (E[i].open && !E[i].dialer && E[i].s >= 0 && E[i].url[0] && S[E[i].s].open && !S[E[i].s].closing) {
				if (best < 0 || url_tran(E[i].url) == ft) best = i;
			}
		}
		if (best >= 0) snprintf(url, sizeof(url), "%s", E[best].url);
	}
	UNLOCK();
	if (!dialer && (url[0] == 0 || url_tran(url) != ft)) {
		// nobody holds such an address yet: occupy one with a listener of our own first
		nng_listener first;
		char         lurl[128];
		if (ft == FT_ABSTRACT) {
			refusing_url(t, ft, lurl, sizeof(lurl));
		} else {
			vf_url(ft, lurl, sizeof(lurl));
		}
		int ep = -1;
		int rv = nng_listen(tg.hs, lurl, &first, 0);
		if (rv == 0 && vf_dial_url(first, ft == FT_ABSTRACT ? VF_T_IPC : ft, lurl, url, sizeof(url)) == 0) {
			LOCK();
			if ((ep = free_ep_slot()) >= 0) {
				E[ep].open   = true;
				E[ep].dialer = false;
				E[ep].s      = tg.si;
				E[ep].tran   = ft == FT_ABSTRACT ? VF_T_IPC : ft;
				E[ep].l      = first;
				snprintf(E[ep].url, sizeof(E[ep].url), "%s", url);
			}
			UNLOCK();
			if (ep < 0) {
				nng_listener_close(first);
				url[0] = 0;
			}
		} else {
			url[0] = 0;
		}
	}
	if (dialer) refusing_url(t, ft, url, sizeof(url));
	if (url[0] == 0) {
		LOCK();
		put_target(&tg);
		UNLOCK();
		return;
	}
	const char *tn = ftran_name[url_tran(url)];
	int         rv;
	char        sk[64];
	if (dialer) {
		nng_dialer d;
		if ((rv = nng_dialer_create(&d, tg.hs, url)) == 0) {
			rv = nng_dialer_start(d, 0); // synchronous: reports the refusal
			tr("t%d dialer on %s to %s (nobody listens) start -> %d", t->id, tg.pname, url, rv);
			if (rv != 0) {
				snprintf(sk, sizeof(sk), "failed_dialer_start_%s", tn);
				vf_stat(sk, 1);
				vf_stat("failed_dialer_starts", 1);
				vf_class("failed-ep/dialer/%s/%s/%s", tn, tg.pname, nng_strerror(rv));
				vf_stat("calls_on_failed_endpoints", sweep_failed_ep(t, true, d, (nng_listener) { 0 }, tg.pname, tn));
			} else {
				nng_dialer_close(d);
			}
		}
	} else {
		nng_listener l;
		if ((rv = nng_listener_create(&l, tg.hs, url)) == 0) {
			rv = nng_listener_start(l, 0);
			tr("t%d listener on %s at %s (address held) start -> %d", t->id, tg.pname, url, rv);
			if (rv != 0) {
				snprintf(sk, sizeof(sk), "failed_listener_start_%s", tn);
				vf_stat(sk, 1);
				vf_stat("failed_listener_starts", 1);
				vf_class("failed-ep/listener/%s/%s/%s", tn, tg.pname, nng_strerror(rv));
				vf_stat("calls_on_failed_endpoints", sweep_failed_ep(t, false, (nng_dialer) { 0 }, l, tg.pname, tn));
			} else {
				nng_listener_close(l);
			}
		}
	}
	LOCK();
	put_target(&tg);
	UNLOCK();
}

// stream listeners / dialers whose listen / dial failed
static void
op_failed_stream(thr *t)
{
	char url[128] = "";
	static const int fts[] = { VF_T_IPC, VF_T_TCP, VF_T_WS, FT_ABSTRACT };
	int              ft    = fts[vf_below(&t->r, 4)];
	nng_aio         *aio;
	int              iv;
	bool             bv;
	size_t           zv;
	const char      *sv;
	long             calls = 0;
	char             sk[64];
	if (nng_aio_alloc(&aio, NULL, NULL) != 0) vf_harness_fail("nng_aio_alloc");
	nng_aio_set_timeout(aio, 50);
	if (vf_chance(&t->r, 1, 2)) {
		// two stream listeners on one address: the second listen fails
		nng_stream_listener *a = NULL, *b = NULL;
		refusing_url(t, ft, url, sizeof(url)); // free right now; 'a' takes it
		if (nng_stream_listener_alloc(&a, url) == 0 && nng_stream_listener_listen(a) == 0 && nng_stream_listener_alloc(&b, url) == 0) {
			int rv = nng_stream_listener_listen(b);
			tr("t%d stream listener at %s (address held) listen -> %d", t->id, url, rv);
			if (rv != 0) {
				snprintf(sk, sizeof(sk), "failed_stream_listen_%s", ftran_name[ft]);
				vf_stat(sk, 1);
				vf_stat("failed_stream_listens", 1);
				vf_class("failed-ep/stream-listener/%s/%s", ftran_name[ft], nng_strerror(rv));
				(void) nng_stream_listener_get_int(b, NNG_OPT_BOUND_PORT, &iv);
				(void) nng_stream_listener_get_bool(b, NNG_OPT_TCP_NODELAY, &bv);
				(void) nng_stream_listener_set_bool(b, NNG_OPT_TCP_NODELAY, true);
				(void) nng_stream_listener_set_bool(b, NNG_OPT_TCP_KEEPALIVE, true);
				(void) nng_stream_listener_get_size(b, NNG_OPT_RECVMAXSZ, &zv);
				(void) nng_stream_listener_set_size(b, NNG_OPT_RECVMAXSZ, 100);
				(void) nng_stream_listener_set_size(b, NNG_OPT_WS_RECVMAXFRAME, 126);
				(void) nng_stream_listener_set_size(b, NNG_OPT_WS_SENDMAXFRAME, 16);
				(void) nng_stream_listener_get_string(b, NNG_OPT_WS_PROTOCOL, &sv);
				(void) nng_stream_listener_set_string(b, NNG_OPT_WS_PROTOCOL, strvals[vf_below(&t->r, 4)]);
				(void) nng_stream_listener_set_string(b, NNG_OPT_WS_HEADER "X-Vf", "v");
				(void) nng_stream_listener_set_int(b, NNG_OPT_IPC_PERMISSIONS, 0600);
				nng_stream_listener_accept(b, aio); // documented to fail or time out
				nng_aio_wait(aio);
				if (nng_aio_result(aio) == 0) {
					nng_stream *st = nng_aio_get_output(aio, 0);
					if (st != NULL) nng_stream_free(st);
				}
				rv = nng_stream_listener_listen(b); // a second listen
				(void) nng_stream_listener_get_int(b, NNG_OPT_BOUND_PORT, &iv);
				calls += 16;
				nng_stream_listener_close(b);
			}
		}
		if (b != NULL) nng_stream_listener_free(b);
		if (a != NULL) nng_stream_listener_free(a);
	} else {
		nng_stream_dialer *d = NULL;
		refusing_url(t, ft, url, sizeof(url));
		if (nng_stream_dialer_alloc(&d, url) == 0) {
			nng_stream_dialer_dial(d, aio);
			nng_aio_wait(aio);
			int rv = (int) nng_aio_result(aio);
			tr("t%d stream dialer to %s (nobody listens) dial -> %d", t->id, url, rv);
			if (rv != 0) {
				snprintf(sk, sizeof(sk), "failed_stream_dial_%s", ftran_name[ft]);
				vf_stat(sk, 1);
				vf_stat("failed_stream_dials", 1);
				vf_class("failed-ep/stream-dialer/%s/%s", ftran_name[ft], nng_strerror(rv));
				(void) nng_stream_dialer_get_bool(d, NNG_OPT_TCP_NODELAY, &bv);
				(void) nng_stream_dialer_set_bool(d, NNG_OPT_TCP_NODELAY, false);
				(void) nng_stream_dialer_set_bool(d, NNG_OPT_TCP_KEEPALIVE, true);
				(void) nng_stream_dialer_get_size(d, NNG_OPT_RECVMAXSZ, &zv);
				(void) nng_stream_dialer_set_size(d, NNG_OPT_RECVMAXSZ, 100);
				(void) nng_stream_dialer_set_size(d, NNG_OPT_WS_SENDMAXFRAME, 16);
				(void) nng_stream_dialer_get_string(d, NNG_OPT_WS_PROTOCOL, &sv);
				(void) nng_stream_dialer_set_string(d, NNG_OPT_WS_PROTOCOL, strvals[vf_below(&t->r, 4)]);
				(void) nng_stream_dialer_set_string(d, NNG_OPT_WS_HEADER "X-Vf", "v");
				nng_stream_dialer_dial(d, aio); // once more
				nng_aio_wait(aio);
				if (nng_aio_result(aio) == 0) {
					nng_stream *st = nng_aio_get_output(aio, 0);
					if (st != NULL) nng_stream_free(st);
				}
				calls += 11;
				nng_stream_dialer_close(d);
			} else {
				nng_stream *st = nng_aio_get_output(aio, 0);
				if (st != NULL) nng_stream_free(st);
			}
			nng_stream_dialer_free(d);
		}
	}
	nng_aio_free(aio);
	vf_stat("calls_on_failed_endpoints", calls);
	vf_stat("calls_on_failed_streams", calls);
}

// ---------------------------------------------------------------- aio actions
// the operation was in the library's hands (nng_aio_busy) just before the
// action and completed with the action's own error: the action ended a
// PENDING operation (the protocol's / transport's cancel function ran)
static void
note_pending_hit(bool was_busy, bool is_send, const char *pn, int result, int want)
{
	if (was_busy && result == want) {
		char sk[64];
		snprintf(sk, sizeof(sk), "pending_%s_ended/%s", is_send ? "send" : "recv", pn);
		vf_stat(sk, 1);
		vf_stat(is_send ? "pending_sends_ended" : "pending_recvs_ended", 1);
		vf_class("pending-ended/%s/%s/%s", is_send ? "send" : "recv", pn, nng_strerror(want));
	}
}

static void
finish_echo_or_pend(thr *t, int i, int how)
{
	// how: 0 cancel, 1 abort, 2 stop, 3 wait (only if it will complete)
	aiom *a = &A[i];
	static const nng_err errs[] = { NNG_ECANCELED, NNG_ETIMEDOUT, NNG_EINTR, NNG_ECONNRESET };
	nng_err              e      = errs[vf_below(&t->r, 4)];
	bool                 echo   = a->st == A_ECHO;
	char                 ph[64];
	LOCK();
	phase_of(a->ts, a->tc, ph, sizeof(ph));
	UNLOCK();
	const char *hn = how == 0 ? "cancel" : how == 1 ? "abort" : how == 2 ? "stop" : "wait";
	tr("t%d aio%d %s (%s %s on %s)", t->id, i, hn, echo ? "echo" : "oneshot", a->kind == K_SEND ? "send" : "recv", a->pname);
	vf_class("aio_%s/%s/%s%s/%s", hn, echo ? "echo" : a->kind == K_SEND ? "send" : "recv", a->pname, a->on_ctx ? ".ctx" : "", ph);
	vf_stat("aio_actions", 1);
	// evidence that cancel/abort/stop met an operation that was really pending
	// (the library has it: nng_aio_busy) and ended it (the action's own result)
	bool was_busy = !echo && nng_aio_busy(a->a) && !atomic_load(&a->done);
	char pn[24];
	snprintf(pn, sizeof(pn), "%s%s", a->pname, a->on_ctx ? ".ctx" : "");
	bool is_send = a->kind == K_SEND;
	switch (how) {
	case 0:
	case 1:
		if (echo) {
			atomic_store(&a->quit, 1);
			for (int n = 0; !atomic_load(&a->done); n++) {
				if (how == 0) nng_aio_cancel(a->a); else nng_aio_abort(a->a, NNG_ECANCELED);
				if (n > 10000) vf_harness_fail("echo loop does not end after cancel");
				vf_usleep(300);
			}
			nng_aio_wait(a->a);
		} else {
			if (how == 0) nng_aio_cancel(a->a); else nng_aio_abort(a->a, e);
			if (vf_chance(&t->r, 1, 2) || (stall_mode && vf_chance(&t->r, 2, 3))) {
				// a pending operation completes after cancel; a finished one already has
				nng_aio_wait(a->a);
				note_pending_hit(was_busy, is_send, pn, a->result, how == 0 ? NNG_ECANCELED : (int) e);
			} else {
				LOCK();
				a->finite = true; // will complete by itself: may be waited for later
				UNLOCK();
				return;
			}
		}
		break;
	case 2:
		nng_aio_stop(a->a);
		LOCK();
		a->stopped = true;
		// a running echo callback may already have had its one refused
		// (NNG_ESTOPPED) submission: the aio is not submitted again
		if (echo) a->stop_used = true;
		UNLOCK();
		note_pending_hit(was_busy, is_send, pn, a->result, NNG_ESTOPPED);
		break;
	default:
		nng_aio_wait(a->a);
		break;
	}
	LOCK();
	a->st = A_IDLE;
	UNLOCK();
}

static void
op_aio_action(thr *t)
{
	int ai = -1;
	LOCK();
	int as = (int) vf_below(&t->r, MAXA);
	for (int k = 0; k < MAXA; k++) {
		int i = (as + k) % MAXA;
		if (!A[i].claimed && (A[i].st == A_PEND || A[i].st == A_ECHO)) {
			ai           = i;
			A[i].claimed = true;
			break;
		}
	}
	// a cancel that races with the close of the operation's target is the
	// same window as the known expire-loop one (C02): only in race programs
	int ts = -1;
	if (ai >= 0 && !race_prog && A[ai].ts >= 0) {
		if (S[A[ai].ts].closing) {
			A[ai].claimed = false;
			ai            = -1;
		} else if (S[A[ai].ts].open) {
			ts = A[ai].ts;
			S[ts].users++;
		}
	}
	UNLOCK();
	if (ai < 0) return;
	int how = (int) vf_below(&t->r, 8);
	how     = how < 3 ? 0 : how < 5 ? 1 : how < 6 ? 2 : 3;
	if (how == 3 && !(A[ai].st == A_PEND && (A[ai].finite || atomic_load(&A[ai].done)))) {
		how = 0;
	}
	finish_echo_or_pend(t, ai, how);
	unclaim(ai);
	if (ts >= 0) {
		LOCK();
		S[ts].users--;
		UNLOCK();
	}
}

static void
op_echo_start(thr *t)
{
	target tg;
	int    ai;
	LOCK();
	if (!pick_target(t, vf_chance(&t->r, 1, 2), false, &tg)) {
		UNLOCK();
		return;
	}
	bool ok = can_send(tg.pk) && can_recv(tg.pk) && (tg.pk == P_REP || tg.pk == P_RESP || tg.pk == P_PAIR0 || tg.pk == P_PAIR1 || tg.pk == P_PAIR1P || tg.raw);
	if (!ok || (ai = claim_idle_aio(t, false)) < 0) {
		put_target(&tg);
		UNLOCK();
		return;
	}
	UNLOCK();
	reap_aio(ai);
	aiom *a = &A[ai];
	LOCK();
	a->st     = A_ECHO;
	a->ts     = tg.si;
	a->tc     = tg.ci;
	a->on_ctx = tg.ci >= 0;
	a->hs     = tg.hs;
	a->hc     = tg.hc;
	a->msg    = NULL;
	a->finite = false;
	a->efails = a->eiters = 0;
	atomic_store(&a->quit, 0);
	atomic_store(&a->done, 0);
	snprintf(a->pname, sizeof(a->pname), "%s", tg.pname);
	UNLOCK();
	tr("t%d aio%d echo loop on %s%s [%s]", t->id, ai, tg.pname, tg.ci >= 0 ? ".ctx" : "", tg.phase);
	cell("echo_start", &tg);
	vf_stat("echo_loops", 1);
	echo_submit(a, K_RECV);
	unclaim(ai);
	LOCK();
	put_target(&tg);
	UNLOCK();
}

static void
op_aio_alloc_free(thr *t)
{
	int ai = -1;
	LOCK();
	int  as = (int) vf_below(&t->r, MAXA);
	bool fr = vf_chance(&t->r, 1, 2);
	for (int k = 0; k < MAXA; k++) {
		int i = (as + k) % MAXA;
		if (A[i].claimed || A[i].st == A_DEV) continue;
		if (fr ? (A[i].st != A_NONE) : (A[i].st == A_NONE)) {
			ai           = i;
			A[i].claimed = true;
			break;
		}
	}
	UNLOCK();
	if (ai < 0) return;
	aiom *a = &A[ai];
	if (a->st == A_NONE) {
		if (nng_aio_alloc(&a->a, aio_cb, a) != 0) vf_harness_fail("nng_aio_alloc");
		tr("t%d aio%d alloc", t->id, ai);
		LOCK();
		a->st      = A_IDLE;
		a->stopped = a->stop_used = false;
		UNLOCK();
	} else {
		// nng_aio_free stops the operation and waits for the callback
		tr("t%d aio%d free (state %d)", t->id, ai, a->st);
		if (a->st == A_ECHO) atomic_store(&a->quit, 1);
		bool stop_first = vf_chance(&t->r, 1, 2);
		vf_class("aio_free/%s/%s", stop_first ? "after-stop" : "direct", a->st == A_IDLE ? "idle" : a->st == A_ECHO ? "echo-running" : atomic_load(&a->done) ? "completed" : "pending");
		if (a->st != A_IDLE && !atomic_load(&a->done) && !stop_first) vf_stat("aio_freed_while_pending", 1);
		if (stop_first) nng_aio_stop(a->a); // the documented safe order; free alone must do as well
		nng_aio_free(a->a);
		LOCK();
		a->a  = NULL;
		a->st = A_NONE;
		UNLOCK();
		vf_stat("aio_freed", 1);
	}
	unclaim(ai);
}

// ---------------------------------------------------------------- pipes, stats, subs
static void
op_pipe_close(thr *t)
{
	target tg;
	LOCK();
	if (!pick_target(t, false, false, &tg)) {
		UNLOCK();
		return;
	}
	UNLOCK();
	uint32_t id = some_pipe(tg.si, &t->r);
	if (id != 0) {
		nng_pipe p = { id };
		if (vf_chance(&t->r, 1, 3)) {
			size_t       z;
			nng_sockaddr sa;
			(void) nng_pipe_get_size(p, NNG_OPT_RECVMAXSZ, &z);
			(void) nng_pipe_peer_addr(p, &sa);
			(void) nng_pipe_socket(p);
			(void) nng_pipe_dialer(p);
			(void) nng_pipe_listener(p);
			// every typed getter; the ws handshake header iteration (one
			// cursor per pipe: single-threaded programs only) and request URI
			bool        bv;
			int         iv;
			const char *sv = NULL;
			char       *dup = NULL, cp[48];
			size_t      ln;
			(void) nng_pipe_get_scheme(p, &sv);
			(void) nng_pipe_get_bool(p, NNG_OPT_TCP_NODELAY, &bv);
			(void) nng_pipe_get_bool(p, NNG_OPT_TCP_KEEPALIVE, &bv);
			(void) nng_pipe_get_int(p, NNG_OPT_MAXTTL, &iv);
			(void) nng_pipe_get_string(p, NNG_OPT_WS_REQUEST_URI, &sv);
			(void) nng_pipe_get_strcpy(p, NNG_OPT_WS_REQUEST_URI, cp, sizeof(cp));
			(void) nng_pipe_get_strlen(p, NNG_OPT_WS_REQUEST_URI, &ln);
			if (nng_pipe_get_strdup(p, NNG_OPT_WS_REQUEST_URI, &dup) == 0 && dup != NULL) {
				nng_strfree(dup);
				vf_stat("pipe_ws_strings", 1);
			}
			if (!mt_mode && nng_pipe_get_bool(p, NNG_OPT_WS_HEADER_RESET, &bv) == 0) {
				for (int k = 0; k < 12 && nng_pipe_get_bool(p, NNG_OPT_WS_HEADER_NEXT, &bv) == 0 && bv; k++) {
					(void) nng_pipe_get_string(p, NNG_OPT_WS_HEADER_KEY, &sv);
					(void) nng_pipe_get_strcpy(p, NNG_OPT_WS_HEADER_VALUE, cp, sizeof(cp));
					dup = NULL;
					if (nng_pipe_get_strdup(p, NNG_OPT_WS_HEADER_VALUE, &dup) == 0 && dup != NULL) nng_strfree(dup);
					vf_stat("pipe_ws_headers_walked", 1);
				}
			}
			vf_stat("pipe_getters", 1);
		}
		int rv = (int) nng_pipe_close(p);
		tr("t%d pipe_close %u of %s -> %d [%s]", t->id, id, tg.pname, rv, tg.phase);
		cell(rv == 0 ? "pipe_close" : "pipe_close_stale", &tg);
		vf_stat("pipe_closes", 1);
		if (rv == 0) vf_stat("pipe_closes_ok", 1);
	} else if (vf_chance(&t->r, 1, 4)) {
		atomic_store(&S[tg.si].reject_next, 1);
		tr("t%d reject next pipe of %s in ADD_PRE", t->id, tg.pname);
	}
	LOCK();
	put_target(&tg);
	UNLOCK();
}

static long
walk_stats(const nng_stat *st, int depth)
{
	long n = 0;
	for (; st != NULL; st = nng_stat_next(st)) {
		n++;
		(void) nng_stat_name(st);
		switch (nng_stat_type(st)) {
		case NNG_STAT_STRING:
			n += (long) strlen(nng_stat_string(st)) & 1;
			break;
		case NNG_STAT_BOOLEAN:
			(void) nng_stat_bool(st);
			break;
		default:
			(void) nng_stat_value(st);
			break;
		}
		if (depth < 8) n += walk_stats(nng_stat_child(st), depth + 1);
	}
	return n;
}

static void
op_stats(thr *t)
{
	nng_stat *st = NULL;
	int       rv = nng_stats_get(&st);
	tr("t%d stats_get -> %d", t->id, rv);
	if (rv == 0) {
		vf_stat("stat_nodes_walked", walk_stats(st, 0));
		nng_stats_free(st);
		vf_stat("stats_snapshots", 1);
	}
}

static void
op_subscribe(thr *t)
{
	target tg;
	LOCK();
	bool found = false;
	for (int tries = 0; tries < 8 && !found; tries++) {
		if (!pick_target(t, vf_chance(&t->r, 1, 3), false, &tg)) break;
		if (tg.pk == P_SUB && !tg.raw) {
			found = true;
		} else {
			put_target(&tg);
		}
	}
	UNLOCK();
	if (!found) return;
	static const char *topics[] = { "", "a", "ab", "\x7f", "zz" };
	const char        *tp       = topics[vf_below(&t->r, 5)];
	bool               un       = vf_chance(&t->r, 1, 3);
	int                rv;
	if (tg.ci >= 0) {
		rv = un ? nng_sub0_ctx_unsubscribe(tg.hc, tp, strlen(tp)) : nng_sub0_ctx_subscribe(tg.hc, tp, strlen(tp));
	} else {
		rv = un ? nng_sub0_socket_unsubscribe(tg.hs, tp, strlen(tp)) : nng_sub0_socket_subscribe(tg.hs, tp, strlen(tp));
	}
	tr("t%d %ssubscribe '%s' on %s%s -> %d [%s]", t->id, un ? "un" : "", tp, tg.pname, tg.ci >= 0 ? ".ctx" : "", rv, tg.phase);
	cell(un ? "unsubscribe" : "subscribe", &tg);
	LOCK();
	put_target(&tg);
	UNLOCK();
}

// ---------------------------------------------------------------- sockets
static int
open_socket(thr *t, int pk, bool raw)
{
	int si = -1;
	LOCK();
	for (int i = 0; i < MAXS; i++) {
		if (!S[i].open && !S[i].closing && S[i].users == 0) {
			si = i;
			break;
		}
	}
	if (si < 0) {
		UNLOCK();
		return -1;
	}
	S[si].closing = true; // reserve
	UNLOCK();
	if (PR[pk].open_raw == NULL) raw = false; // pair1poly has no raw mode
	nng_socket h;
	int        rv = raw ? PR[pk].open_raw(&h) : PR[pk].open(&h);
	if (rv != 0) vf_harness_fail("open %s: %s", PR[pk].name, nng_strerror(rv));
	sockm *s = &S[si];
	LOCK();
	s->h           = h;
	s->pk          = pk;
	s->raw         = raw;
	s->dev_owned   = false;
	s->outstanding = s->has_req = false;
	s->inq                      = 0;
	s->users                    = 0;
	memset(s->peer, 0, sizeof(s->peer));
	pthread_mutex_lock(&s->pmx);
	s->npipes = 0;
	memset(s->alive, 0, sizeof(s->alive));
	pthread_mutex_unlock(&s->pmx);
	atomic_store(&s->live_pipes, 0);
	atomic_store(&s->reject_next, 0);
	snprintf(s->name, sizeof(s->name), "%s%s", raw ? "x" : "", PR[pk].name);
	UNLOCK();
	tr("t%d open %s (slot %d)", t->id, s->name, si);
	vf_class("open/%s", s->name);
	vf_stat("sockets_opened", 1);
	// short timeouts so that blocking calls of the program return
	nng_socket_set_ms(h, NNG_OPT_RECVTIMEO, (nng_duration) vf_range(&t->r, 2, 12));
	nng_socket_set_ms(h, NNG_OPT_SENDTIMEO, (nng_duration) vf_range(&t->r, 2, 12));
	nng_socket_set_ms(h, NNG_OPT_RECONNMINT, 5);
	nng_socket_set_ms(h, NNG_OPT_RECONNMAXT, 20);
	if (!vf_chance(&t->r, 1, 10)) {
		nng_pipe_notify(h, NNG_PIPE_EV_ADD_PRE, pipe_cb, s);
		nng_pipe_notify(h, NNG_PIPE_EV_ADD_POST, pipe_cb, s);
		nng_pipe_notify(h, NNG_PIPE_EV_REM_POST, pipe_cb, s);
	}
	if (pk == P_SUB && !raw && vf_chance(&t->r, 3, 4)) {
		nng_sub0_socket_subscribe(h, "", 0);
	}
	LOCK();
	s->open    = true;
	s->closing = false;
	UNLOCK();
	return si;
}

static void
op_open(thr *t)
{
	int  pk  = (int) vf_below(&t->r, P_N);
	bool raw = vf_chance(&t->r, 1, 3);
	// mostly open a peer of something that exists
	LOCK();
	if (vf_chance(&t->r, 3, 4)) {
		int s0 = (int) vf_below(&t->r, MAXS);
		for (int k = 0; k < MAXS; k++) {
			int i = (s0 + k) % MAXS;
			if (S[i].open && !S[i].closing) {
				pk = peer_pk(S[i].pk);
				if (pk == P_PAIR0 || pk == P_PAIR1 || S[i].raw) raw = vf_chance(&t->r, 1, 2) ? S[i].raw : raw;
				break;
			}
		}
	}
	UNLOCK();
	open_socket(t, pk, raw);
}

// ---------------------------------------------------------------- device
static void device_start_pair(thr *t, int a, int b, bool valid, bool reflect);

static void
op_device_start(thr *t)
{
	int  a = -1, b = -1;
	bool valid = true, reflect = false;
	LOCK();
	for (int tries = 0; tries < 60 && a < 0; tries++) {
		int x = (int) vf_below(&t->r, MAXS), y = (int) vf_below(&t->r, MAXS);
		if (!S[x].open || S[x].closing || S[x].dev_owned || S[x].users || pending_on(x)) continue;
		if (x == y) {
			if (S[x].raw && (S[x].pk == P_PAIR0 || S[x].pk == P_PAIR1 || S[x].pk == P_BUS) && vf_chance(&t->r, 1, 3)) {
				a = b   = x;
				reflect = true;
			}
			continue;
		}
		if (!S[y].open || S[y].closing || S[y].dev_owned || S[y].users || pending_on(y)) continue;
		bool v = S[x].raw && S[y].raw && compatible(S[x].pk, S[y].pk) && compatible(S[y].pk, S[x].pk);
		if (!v && tries < 50) continue; // rarely: documented NNG_EINVAL
		a     = x;
		b     = y;
		valid = v;
	}
	// reserve: nobody may start using the sockets from now on
	if (a >= 0) S[a].closing = S[b].closing = true;
	UNLOCK();
	if (a >= 0) device_start_pair(t, a, b, valid, reflect);
}

// start a device on sockets a and b (a == b: reflector) of the model, which
// the caller has reserved (closing = true) while nobody used them
static void
device_start_pair(thr *t, int a, int b, bool valid, bool reflect)
{
	int ai;
	LOCK();
	if ((ai = claim_idle_aio(t, false)) < 0) {
		S[a].closing = S[b].closing = false;
		UNLOCK();
		return;
	}
	nng_socket ha = S[a].h, hb = S[b].h;
	UNLOCK();
	reap_aio(ai);
	aiom *d = &A[ai];
	LOCK();
	d->st    = A_DEV;
	d->dev_a = a;
	d->dev_b = b;
	d->ts    = -1;
	atomic_store(&d->done, 0);
	UNLOCK();
	nng_aio_set_timeout(d->a, NNG_DURATION_INFINITE);
	tr("t%d aio%d device %s <-> %s%s", t->id, ai, S[a].name, reflect ? "(reflector)" : S[b].name, valid ? "" : " (invalid: expect NNG_EINVAL)");
	vf_class("device_start/%s/%s%s", S[a].name, reflect ? "reflect" : S[b].name, valid ? "" : "/invalid");
	if (reflect) {
		nng_socket none = NNG_SOCKET_INITIALIZER;
		nng_device_aio(d->a, ha, none);
	} else {
		nng_device_aio(d->a, ha, hb);
	}
	if (!valid) {
		nng_aio_wait(d->a); // start fails: completes at once, sockets stay ours
		LOCK();
		d->st        = A_IDLE;
		S[a].closing = S[b].closing = false;
		UNLOCK();
		vf_class("fails/device/%s", nng_strerror(d->result));
	} else {
		LOCK();
		S[a].closing = S[b].closing = false;
		S[a].dev_owned = S[b].dev_owned = true;
		UNLOCK();
		vf_stat("devices_started", 1);
	}
	unclaim(ai);
}

// stop a device (claimed aio i): cancel + wait; the device closes its sockets
static void
device_stop(thr *t, int i, bool by_stop)
{
	aiom *d = &A[i];
	int   a = d->dev_a, b = d->dev_b;
	tr("t%d aio%d device %s", t->id, i, by_stop ? "nng_aio_stop" : "cancel+wait");
	vf_class("device_stop/%s/%s", S[a].name, by_stop ? "stop" : "cancel");
	if (by_stop) {
		nng_aio_stop(d->a);
	} else {
		nng_aio_cancel(d->a);
		nng_aio_wait(d->a);
	}
	int  rv      = d->result;
	bool started = !(rv == NNG_EINVAL || rv == NNG_EBUSY || rv == NNG_ENOMEM);
	LOCK();
	d->st = A_IDLE;
	if (by_stop) d->stopped = d->stop_used = true;
	for (int k = 0; k < 2; k++) {
		int si = k == 0 ? a : b;
		if (k == 1 && a == b) break;
		S[si].dev_owned = false;
		if (started) {
			S[si].open = false;
			for (int e = 0; e < MAXE; e++) {
				if (E[e].open && E[e].s == si) E[e].open = false;
			}
			for (int j = 0; j < MAXS; j++) {
				S[j].peer[si] = S[si].peer[j] = false;
			}
		}
	}
	UNLOCK();
	if (!started) {
		vf_class("fails/device-late/%s", nng_strerror(rv));
	}
	vf_stat("devices_stopped", 1);
}

static void
op_device_stop(thr *t)
{
	int ai = -1;
	LOCK();
	for (int i = 0; i < MAXA; i++) {
		if (A[i].st == A_DEV && !A[i].claimed) {
			ai           = i;
			A[i].claimed = true;
			break;
		}
	}
	UNLOCK();
	if (ai < 0) return;
	device_stop(t, ai, vf_chance(&t->r, 1, 3));
	unclaim(ai);
}

static void
op_free_msgs(thr *t)
{
	int n = led_free_some(&t->r, (int) vf_range(&t->r, 1, 4));
	if (n) tr("t%d nng_msg_free x%d (app-owned)", t->id, n);
}

// ---------------------------------------------------------------- program
static void
model_reset(void)
{
	for (int i = 0; i < MAXS; i++) {
		S[i].open = S[i].closing = S[i].dev_owned = false;
		S[i].users = 0;
	}
	memset(C, 0, sizeof(C));
	memset(E, 0, sizeof(E));
	for (int i = 0; i < MAXA; i++) {
		memset(&A[i], 0, sizeof(A[i]));
	}
	atomic_store(&ops_done, 0);
	atomic_store(&trace_n, 0);
	atomic_store(&trans_used, 0);
	dev_end[0] = dev_end[1] = -1;
	for (int i = 0; i < UDPP_N; i++) atomic_store(&udp_pipes[i], 0);
	brec_base = atomic_load(&body_seq);
}

static int
open_count(void)
{
	int n = 0;
	LOCK();
	for (int i = 0; i < MAXS; i++) {
		if (S[i].open && !S[i].dev_owned) n++;
	}
	UNLOCK();
	return n;
}

static void
random_op(thr *t)
{
	if (open_count() < 2) {
		op_open(t);
		return;
	}
	uint32_t x = vf_below(&t->r, 100);
#define OP(name, call) do { cur_op[t->id] = name; cur_op_since[t->id] = vf_now_ns(); call; cur_op[t->id] = NULL; } while (0)
	if (x < 24) OP("send", op_send(t));
	else if (x < 48) OP("recv", op_recv(t));
	else if (x < 58) OP("setopt", op_setopt(t));
	else if (x < 63) OP("connect", op_connect(t, -1, -1, -1));
	else if (x < 66) OP("open", op_open(t));
	else if (x < 70) OP("ctx_open", op_ctx_open(t));
	else if (x < 72) OP("ctx_close", op_ctx_close(t, -1));
	else if (x < 78) OP("aio_action", op_aio_action(t));
	else if (x < 81) OP("echo_start", op_echo_start(t));
	else if (x < 84) OP("pipe_close", op_pipe_close(t));
	else if (x < 86) OP("sock_close", op_sock_close(t, -1));
	else if (x < 88) OP("ep_close", op_ep_close(t));
	else if (x < 90) OP("redial", op_redial(t));
	else if (x < 92) OP("device_start", op_device_start(t));
	else if (x < 93) OP("device_stop", op_device_stop(t));
	else if (x < 95) OP("stats", op_stats(t));
	else if (x < 97) OP("subscribe", op_subscribe(t));
	else if (x < 98) OP("free_msgs", op_free_msgs(t));
	else if (x < 99) OP("aio_alloc_free", op_aio_alloc_free(t));
	else if (vf_chance(&t->r, 2, 3)) OP("failed_endpoint", op_failed_endpoint(t));
	else OP("failed_stream", op_failed_stream(t));
#undef OP
}

static void *
driver(void *arg)
{
	thr *t = arg;
	while (atomic_fetch_add(&ops_done, 1) < ops_target) {
		random_op(t);
		if (vf_chance(&t->r, 1, 3)) {
			op_setopt(t); // an option change at any position of the program
		}
	}
	return NULL;
}

// close everything that is still open, in random order, then nng_fini
static void
teardown(thr *t)
{
	struct {
		int kind, i;
	} act[MAXS + MAXC + MAXE + MAXA];
	int n = 0;
	for (int i = 0; i < MAXS; i++) act[n].kind = 0, act[n++].i = i;
	for (int i = 0; i < MAXC; i++) act[n].kind = 1, act[n++].i = i;
	for (int i = 0; i < MAXE; i++) act[n].kind = 2, act[n++].i = i;
	for (int i = 0; i < MAXA; i++) act[n].kind = 3, act[n++].i = i;
	for (int i = n - 1; i > 0; i--) {
		int j = (int) vf_below(&t->r, (uint32_t) i + 1);
		int k = act[i].kind, x = act[i].i;
		act[i] = act[j];
		act[j].kind = k;
		act[j].i    = x;
	}
	tr("teardown");
	for (int k = 0; k < n; k++) {
		int i = act[k].i;
		switch (act[k].kind) {
		case 0:
			op_sock_close(t, i);
			break;
		case 1:
			op_ctx_close(t, i);
			break;
		case 2:
			if (E[i].open && E[i].s >= 0 && S[E[i].s].open && !S[E[i].s].dev_owned) {
				tr("t%d %s_close on %s", t->id, E[i].dialer ? "dialer" : "listener", S[E[i].s].name);
				if (E[i].dialer) nng_dialer_close(E[i].d); else nng_listener_close(E[i].l);
				E[i].open = false;
			}
			break;
		default: {
			aiom *a = &A[i];
			if (a->st == A_NONE) break;
			if (a->st == A_DEV) {
				device_stop(t, i, true);
			} else {
				bool stop_first = vf_chance(&t->r, 1, 2);
				tr("t%d aio%d %sfree (state %d)", t->id, i, stop_first ? "stop+" : "", a->st);
				if (a->st == A_ECHO) atomic_store(&a->quit, 1);
				if (a->st != A_IDLE && !atomic_load(&a->done) && !stop_first) vf_stat("aio_freed_while_pending", 1);
				if (stop_first) nng_aio_stop(a->a);
			}
			nng_aio_free(a->a);
			a->a  = NULL;
			a->st = A_NONE;
			break;
		}
		}
	}
	for (int i = 0; i < MAXS; i++) {
		if (S[i].open) vf_harness_fail("teardown left socket %d open", i);
	}
}

static void
finish_program(void)
{
	static long last_total;
	led_free_all();
	vf_stat_max("peak_live_blocks", vf_alloc_peak_blocks());
	long before = vf_violations();
	// leak keys name the transports the program used (C03/tran=ipc+ws/leak/size=N)
	char     prefix[64] = "C03/tran=";
	unsigned tu         = atomic_load(&trans_used);
	for (int t = 0; t < T_N; t++) {
		if (tu & (1u << t)) {
			snprintf(prefix + strlen(prefix), sizeof(prefix) - strlen(prefix), "%s%s", prefix[9] ? "+" : "", tn(t));
		}
	}
	if (!prefix[9]) strcat(prefix, "none");
	vf_nng_fini(prefix);
	if (vf_violations() != before) {
		trace_dump();
	}
	vf_stat("allocations_tracked", vf_alloc_total() - last_total);
	last_total = vf_alloc_total();
	vf_stat("programs", 1);
	vf_stat(mt_mode ? "mt_programs" : matrix_mode ? "matrix_programs" : stall_mode ? "stall_programs" : "st_programs", 1);
	vf_stat("fini_balance_checks", 1);
}

static void
run_random_program(long idx)
{
	thr       T[MAXT];
	pthread_t th[MAXT];
	vf_rng    r;
	vf_rng_seed(&r, vf_seed, (uint64_t) idx);
	model_reset();
	int nthr   = mt_mode ? (int) vf_range(&r, 2, 4) : 1;
	race_prog  = vf_chance(&r, 1, mt_mode ? 8 : 16) && getenv("C03_HUB") == NULL;
	if (race_prog) vf_stat(mt_mode ? "mt_race_programs" : "st_race_programs", 1);
	ops_target = (long) vf_range(&r, 20, 200);
	static const int tt[] = { 2, 4, 8 };
	int              task = tt[vf_below(&r, 3)], expi = (int) vf_range(&r, 1, 2), poll = (int) vf_range(&r, 1, 2);
	snprintf(prog_tag, sizeof(prog_tag), "program %ld", idx);
	vf_case_begin(idx, "random program: %ld calls, %d driver thread(s)%s, pools %d/%d/%d", ops_target, nthr, race_prog ? ", closes race with pending operations" : "", task, expi, poll);
	vf_watchdog(30);
	vf_nng_init(task, expi, poll);
	// the stream transports of a sixth of the programs write in small pieces
	// (with EAGAIN in between): frames stay partly written for long; in one of
	// twenty programs one write fails outright
	uint32_t iosel = vf_below(&r, 20);
	vf_io_counters_reset();
	if (iosel < 3) {
		// (with several driver threads a synchronous dial holds its sockets
		// while the handshake dribbles out: larger pieces there, so that a
		// loaded machine does not turn this into seconds)
		static const long pc[] = { 1, 2, 5, 16, 64 }, pcmt[] = { 8, 16, 32, 64, 128 };
		vf_io_plan(iosel == 2 ? VF_IO_RANDOM : VF_IO_DRIBBLE, iosel == 2 ? 64 : (mt_mode ? pcmt : pc)[vf_below(&r, 5)], VF_IO_FULL, 0, vf_rand(&r));
		vf_io_eagain_every(vf_chance(&r, 2, 3) ? 3 : 0);
		vf_stat("short_io_programs", 1);
	} else if (iosel == 3) {
		vf_io_fail_send_at((long) vf_range(&r, 2, 150), vf_chance(&r, 1, 2) ? EPIPE : ECONNRESET);
		vf_stat("write_fault_programs", 1);
	}
	for (int i = 0; i < nthr; i++) {
		T[i].id = i;
		vf_rng_seed(&T[i].r, vf_seed ^ 0x9e3779b97f4a7c15ULL * (uint64_t) (i + 1), (uint64_t) idx);
	}
	int na = (int) vf_range(&r, 2, 6);
	for (int i = 0; i < na; i++) {
		if (nng_aio_alloc(&A[i].a, aio_cb, &A[i]) != 0) vf_harness_fail("nng_aio_alloc");
		A[i].st = A_IDLE;
	}
	// a quarter of the programs start from a fan-out topology: one hub whose
	// sends are cloned to several receivers (pub, bus, surveyor)
	const char *force = getenv("C03_HUB"); // debugging aid: always start from this hub (0 pub, 1 bus, 2 surveyor)
	if (vf_chance(&r, 1, 4) || force != NULL) {
		static const int hubs[] = { P_PUB, P_BUS, P_SURV };
		int              hk     = hubs[vf_below(&r, 3)];
		if (force != NULL) hk = hubs[atoi(force) % 3];
		int              hub    = open_socket(&T[0], hk, false);
		int              nl     = (int) vf_range(&r, 2, 3);
		for (int k = 0; k < nl && hub >= 0; k++) {
			int leaf = open_socket(&T[0], peer_pk(hk), vf_chance(&r, 1, 5));
			if (leaf >= 0) {
				static const int ft[] = { VF_T_INPROC, VF_T_INPROC, VF_T_INPROC, VF_T_IPC, VF_T_TCP, T_UDP };
				op_connect(&T[0], hub, leaf, ft[vf_below(&r, 6)]);
			}
		}
		// fan-out inside one SUB socket: every subscribed context (and the
		// socket itself) gets a clone of each message
		if (hk == P_PUB) {
			for (int i = 0; i < MAXS; i++) {
				if (S[i].open && S[i].pk == P_SUB && !S[i].raw) {
					for (int k = 0; k < 2; k++) {
						int ci = -1;
						op_ctx_open_on(&T[0], i);
						for (int c = 0; c < MAXC; c++) {
							if (C[c].open && C[c].s == i) ci = c;
						}
						if (ci >= 0) nng_sub0_ctx_subscribe(C[ci].h, "", 0);
					}
					nng_sub0_socket_subscribe(S[i].h, "", 0);
					vf_stat("sub_ctx_fanouts", 1);
					break;
				}
			}
		}
		vf_stat("fanout_topologies", 1);
	} else if (vf_chance(&r, 1, 7)) {
		// a device chain: cooked A - [raw | raw device] - cooked B; what A
		// sends reaches B only through the device (and back)
		static const int ch[][2] = { { P_REQ, P_REP }, { P_REQ, P_REP }, { P_SURV, P_RESP }, { P_PUB, P_SUB }, { P_PUSH, P_PULL }, { P_PAIR1, P_PAIR1 }, { P_PAIR0, P_PAIR0 }, { P_BUS, P_BUS } };
		static const int ft[] = { VF_T_INPROC, VF_T_INPROC, VF_T_IPC, VF_T_TCP };
		int              c    = (int) vf_below(&r, 8);
		int              a = open_socket(&T[0], ch[c][0], false), d1 = open_socket(&T[0], ch[c][1], true);
		int              d2 = open_socket(&T[0], ch[c][0], true), b = open_socket(&T[0], ch[c][1], false);
		if (a >= 0 && b >= 0 && d1 >= 0 && d2 >= 0) {
			bool early = vf_chance(&r, 1, 2); // device started before / after the first traffic
			op_connect(&T[0], d1, a, ft[vf_below(&r, 4)]);
			op_connect(&T[0], d2, b, ft[vf_below(&r, 4)]);
			for (int k = 0; k < 2; k++) {
				if (k == (early ? 0 : 1)) {
					LOCK();
					bool free2 = !S[d1].users && !S[d2].users && !pending_on(d1) && !pending_on(d2);
					if (free2) S[d1].closing = S[d2].closing = true;
					UNLOCK();
					if (free2) device_start_pair(&T[0], d1, d2, true, false);
				} else {
					for (int n = 0; n < 3; n++) op_send(&T[0]);
				}
			}
			dev_end[0] = a;
			dev_end[1] = b;
			vf_stat("device_chains", 1);
		}
	} else if (!vf_chance(&r, 1, 10)) {
		int  pk = (int) vf_below(&r, P_N);
		bool ra = vf_chance(&r, 1, 4), rb = vf_chance(&r, 1, 4);
		if (pk == P_PAIR1 || pk == P_PAIR0) rb = ra; // raw/cooked pair1 differ on the wire
		if (pk == P_PAIR1P) ra = rb = false;
		int a = open_socket(&T[0], pk, ra);
		int b = open_socket(&T[0], peer_pk(pk), rb);
		bool sw = vf_chance(&r, 1, 2);
		if (a >= 0 && b >= 0) op_connect(&T[0], sw ? a : b, sw ? b : a, -1);
	}
	if (nthr == 1) {
		driver(&T[0]);
	} else {
		for (int i = 0; i < nthr; i++) pthread_create(&th[i], NULL, driver, &T[i]);
		for (int i = 0; i < nthr; i++) pthread_join(th[i], NULL);
	}
	vf_stat("calls", atomic_load(&ops_done) > ops_target ? ops_target : atomic_load(&ops_done));
	vf_watchdog(30);
	if (open_count() > 0 && vf_chance(&r, 2, 3)) {
		op_failed_endpoint(&T[0]);
		if (vf_chance(&r, 1, 3)) op_failed_stream(&T[0]);
	}
	teardown(&T[0]);
	vf_stat("io_short_sends", vf_io_short_sends());
	vf_io_plan(VF_IO_FULL, 0, VF_IO_FULL, 0, 0);
	vf_io_eagain_every(0);
	vf_io_fail_send_at(0, 0);
	finish_program();
	if ((idx & 63) == 0) {
		vf_sample("{\"program\":%ld,\"calls\":%ld,\"threads\":%d,\"last_calls\":[\"%s\",\"%s\",\"%s\"]}", idx, ops_target, nthr,
		    trace_buf[(atomic_load(&trace_n) + TRN - 4) % TRN], trace_buf[(atomic_load(&trace_n) + TRN - 3) % TRN], trace_buf[(atomic_load(&trace_n) + TRN - 2) % TRN]);
	}
}

// ---------------------------------------------------------------- stall mode
// Directed programs against STALLED peers.  The peer of the socket under test
// is a raw file descriptor driven by the harness: it completes the SP
// handshake, sends what the protocol needs to accept replies (requests,
// surveys) and then does not read.  The kernel buffer between the two is
// small (unix-domain sockets, socketpair with a minimal SO_SNDBUF) or is filled
// first (tcp), and nng's own writes can be cut into pieces by the short-I/O
// interposer, so that "pipe busy for long / send queue full / frame partly
// written" are stable states instead of microsecond windows.  In those states
// the program cancels / aborts / stops / frees the pending sends, closes the
// pipe, a context, an endpoint or the socket, resizes the send buffer, lets
// the peer read a little or everything, closes the peer, makes nng's next
// write fail, and lets the peer send the next request while the previous
// reply is still queued.  No new verdicts: the ledger, the allocator balance
// and ASan judge as everywhere else.
#define MAXR 3
typedef struct {
	int      fd, lfd; // connection (-1: closed); raw listener when nng dialed (-1: none)
	int      tran;
	bool     ipc;     // ipc framing (leading type octet)
	uint32_t pipe;    // id of the pipe on our socket
	char     path[96];
} rawpeer;
static rawpeer R[MAXR];

typedef struct {
	const char *name;
	int         pk;
	bool        raw;
	int         nctx;      // contexts the scenario sends through (0: the socket)
	bool        responder; // replies need a request from the peer first
	bool        drops;     // full send queue drops instead of making the sender wait
	int         weight;
} stallkind;

static const stallkind stallkinds[] = {
	{ "rep.ctx", P_REP, false, 3, true, false, 5 },
	{ "respondent.ctx", P_RESP, false, 3, true, false, 4 },
	{ "rep", P_REP, false, 0, true, false, 3 },
	{ "respondent", P_RESP, false, 0, true, false, 2 },
	{ "xrep", P_REP, true, 0, true, true, 3 },
	{ "xrespondent", P_RESP, true, 0, true, true, 2 },
	{ "pub", P_PUB, false, 0, false, true, 4 },
	{ "xpub", P_PUB, true, 0, false, true, 1 },
	{ "bus", P_BUS, false, 0, false, true, 2 },
	{ "xbus", P_BUS, true, 0, false, true, 1 },
	{ "surveyor", P_SURV, false, 0, false, true, 1 },
	{ "surveyor.ctx", P_SURV, false, 2, false, true, 1 },
	{ "xsurveyor", P_SURV, true, 0, false, true, 1 },
	{ "pair0", P_PAIR0, false, 0, false, false, 1 },
	{ "xpair0", P_PAIR0, true, 0, false, false, 1 },
	{ "pair1", P_PAIR1, false, 0, false, false, 2 },
	{ "xpair1", P_PAIR1, true, 0, false, false, 1 },
	{ "pair1poly", P_PAIR1P, false, 0, false, true, 2 },
	{ "push", P_PUSH, false, 0, false, false, 2 },
	{ "xpush", P_PUSH, true, 0, false, false, 1 },
	{ "req", P_REQ, false, 0, false, false, 1 },
	{ "req.ctx", P_REQ, false, 3, false, false, 2 },
	{ "xreq", P_REQ, true, 0, false, false, 2 },
};
#define NSTALLKINDS ((int) (sizeof(stallkinds) / sizeof(stallkinds[0])))

typedef struct {
	thr             *t;
	const stallkind *k;
	int              si, npeers, tran;
	bool             big;   // message sizes 16-70 KB (else 100-4000 bytes)
	uint32_t         reqid;
	int              stuck; // send aios that stayed pending after the library went idle
	int              sends;
	bool             sock_closed;
	char             tname[24];
} stall;

static void
raw_close(rawpeer *rp)
{
	if (rp->fd >= 0) close(rp->fd);
	rp->fd = -1;
}

// connect one raw peer to model socket si; returns false if that did not work
static bool
raw_attach(stall *st, rawpeer *rp, int tran, bool nng_dials, bool tiny)
{
	static atomic_int n;
	sockm            *s = &S[st->si];
	char              url[128];
	uint32_t          before[16];
	nng_listener      l = { 0 };
	nng_dialer        d = { 0 };
	int               rv = -1, ep;
	uint16_t          port = 0, got = 0;
	memset(rp, 0, sizeof(*rp));
	rp->fd = rp->lfd = -1;
	rp->tran         = tran;
	rp->ipc          = tran == VF_T_IPC;
	pthread_mutex_lock(&s->pmx);
	memcpy(before, s->alive, sizeof(before));
	pthread_mutex_unlock(&s->pmx);
	atomic_fetch_or(&trans_used, 1u << tran);
	snprintf(rp->path, sizeof(rp->path), "/tmp/vf-c03-raw-%d-%d.sock", (int) getpid(), atomic_fetch_add(&n, 1));
	if (tran == VF_T_SOCKFD) {
		int fds[2];
		if (socketpair(AF_UNIX, SOCK_STREAM | SOCK_CLOEXEC, 0, fds) != 0) return false;
		if (tiny) {
			int v = 1; // the kernel rounds up to its minimum (a few KB)
			setsockopt(fds[0], SOL_SOCKET, SO_SNDBUF, &v, sizeof(v));
		}
		rv = nng_listener_create(&l, s->h, "socket://");
		if (rv == 0) rv = nng_listener_start(l, 0);
		if (rv == 0) rv = nng_listener_set_int(l, NNG_OPT_SOCKET_FD, fds[0]);
		if (rv != 0) {
			close(fds[0]);
			close(fds[1]);
			return false;
		}
		rp->fd = fds[1];
	} else if (!nng_dials) {
		if (tran == VF_T_IPC) {
			snprintf(url, sizeof(url), "ipc://%s", rp->path);
			rv = nng_listen(s->h, url, &l, 0);
			if (rv == 0) rp->fd = vf_unix_connect(rp->path, 5000);
		} else {
			int p = 0;
			rv    = nng_listen(s->h, "tcp://127.0.0.1:0", &l, 0);
			if (rv == 0) rv = nng_listener_get_int(l, NNG_OPT_BOUND_PORT, &p);
			if (rv == 0) rp->fd = vf_tcp_connect((uint16_t) p, 5000);
		}
		if (rv != 0 || rp->fd < 0) return false;
	} else {
		if (tran == VF_T_IPC) {
			snprintf(url, sizeof(url), "ipc://%s", rp->path);
			rp->lfd = vf_unix_listen(rp->path);
		} else {
			rp->lfd = vf_tcp_listen(&port);
			snprintf(url, sizeof(url), "tcp://127.0.0.1:%u", (unsigned) port);
		}
		if (rp->lfd < 0) return false;
		rv = nng_dial(s->h, url, &d, NNG_FLAG_NONBLOCK);
		if (rv == 0) rp->fd = vf_tcp_accept(rp->lfd, 5000);
		if (rv != 0 || rp->fd < 0) return false;
	}
	LOCK();
	if ((ep = free_ep_slot()) >= 0) {
		E[ep].open   = true;
		E[ep].dialer = nng_dials && tran != VF_T_SOCKFD;
		E[ep].s      = st->si;
		E[ep].tran   = tran;
		E[ep].l      = l;
		E[ep].d      = d;
		E[ep].url[0] = 0;
	}
	UNLOCK();
	if (vf_sp_handshake(rp->fd, PR[st->k->pk].peer, &got, 10000) != 0 || got != PR[st->k->pk].self) {
		raw_close(rp);
		return false;
	}
	// the pipe this connection became
	for (int i = 0; i < 10000 && rp->pipe == 0; i++) {
		pthread_mutex_lock(&s->pmx);
		for (int k = 0; k < 16 && rp->pipe == 0; k++) {
			bool old = s->alive[k] == 0;
			for (int j = 0; j < 16 && !old; j++) old = before[j] == s->alive[k];
			if (!old) rp->pipe = s->alive[k];
		}
		pthread_mutex_unlock(&s->pmx);
		if (rp->pipe == 0) vf_usleep(500);
	}
	tr("raw peer over %s (%s%s): fd %d, pipe %u", tn(tran), nng_dials ? "nng dials" : "nng listens", tiny ? ", minimal SO_SNDBUF" : "", rp->fd, rp->pipe);
	return rp->pipe != 0;
}

// the peer sends one frame: protocol header words + a self-describing body
static bool
raw_send(stall *st, rawpeer *rp, size_t blen)
{
	uint8_t buf[8 + 1100];
	size_t  n = 0;
	if (rp->fd < 0) return false;
	if (blen > 1024) blen = 1024;
	uint32_t w = 0;
	switch (st->k->pk) {
	case P_REP:
	case P_RESP:
	case P_REQ:
	case P_SURV:
		w = 0x80000000u | ++st->reqid; // request / survey id (a reply nobody waits for is discarded)
		break;
	case P_PAIR1:
	case P_PAIR1P:
		w = 1; // hop count
		break;
	default:
		break;
	}
	if (w != 0) {
		buf[n++] = (uint8_t) (w >> 24);
		buf[n++] = (uint8_t) (w >> 16);
		buf[n++] = (uint8_t) (w >> 8);
		buf[n++] = (uint8_t) w;
	}
	if (blen >= VF_BODY_MIN) {
		vf_body_make(buf + n, blen, BODY_TAG, body_record('B', blen, 0, buf, "rawpeer"));
	} else {
		memset(buf + n, 0x52, blen);
	}
	n += blen;
	bool ok = vf_sp_send_frame(rp->fd, rp->ipc, buf, n) == 0;
	if (ok) vf_stat("stall_peer_frames_sent", 1);
	return ok;
}

// the peer reads (and discards) up to max bytes that are there right now
static long
raw_drain(rawpeer *rp, long max)
{
	static uint8_t sink[65536];
	long           got = 0;
	while (rp->fd >= 0 && got < max) {
		size_t  want = (size_t) (max - got) < sizeof(sink) ? (size_t) (max - got) : sizeof(sink);
		ssize_t n    = recv(rp->fd, sink, want, MSG_DONTWAIT);
		if (n <= 0) break;
		got += n;
	}
	return got;
}

static void
stall_tg(stall *st, int ci, target *tg)
{
	LOCK();
	tg->si  = st->si;
	tg->ci  = ci;
	tg->hs  = S[st->si].h;
	tg->pk  = S[st->si].pk;
	tg->raw = S[st->si].raw;
	if (ci >= 0) tg->hc = C[ci].h;
	snprintf(tg->pname, sizeof(tg->pname), "%s", S[st->si].name);
	phase_of(st->si, ci, tg->phase, sizeof(tg->phase));
	UNLOCK();
}

static int
stall_pick_ctx(stall *st)
{
	if (st->k->nctx == 0) return -1;
	int start = (int) vf_below(&st->t->r, MAXC);
	for (int k = 0; k < MAXC; k++) {
		int ci = (start + k) % MAXC;
		if (C[ci].open && !C[ci].closing) return ci;
	}
	return -1;
}

static rawpeer *
stall_pick_peer(stall *st, bool connected)
{
	int start = (int) vf_below(&st->t->r, MAXR);
	for (int k = 0; k < MAXR; k++) {
		rawpeer *rp = &R[(start + k) % MAXR];
		if (rp->pipe != 0 && (!connected || rp->fd >= 0)) return rp;
	}
	return NULL;
}

// a responder needs a request before it may reply: the peer sends one and the
// socket / context receives it.  Returns the pipe it came from (0: none).
static uint32_t
stall_get_request(stall *st, int ci)
{
	target   tg;
	nng_msg *m    = NULL;
	uint32_t pipe = 0;
	rawpeer *rp   = stall_pick_peer(st, true);
	stall_tg(st, ci, &tg);
	if (rp == NULL || !raw_send(st, rp, (size_t) vf_range(&st->t->r, 0, 300))) return 0;
	uint64_t end = vf_now_ns() + 3000000000ULL;
	for (;;) {
		int rv = ci >= 0 ? nng_ctx_recvmsg(tg.hc, &m, NNG_FLAG_NONBLOCK) : nng_recvmsg(tg.hs, &m, NNG_FLAG_NONBLOCK);
		if (rv == 0) break;
		if (rv != NNG_EAGAIN || vf_now_ns() > end) {
			tr("t0 request for %s%s did not arrive: %s", tg.pname, ci >= 0 ? ".ctx" : "", nng_strerror(rv));
			vf_stat("stall_requests_not_received", 1);
			return 0;
		}
		vf_usleep(200);
	}
	pipe       = nng_msg_get_pipe(m).id;
	led_rcv_id = RCV_ID(st->si, ci);
	if (led_take(m, L_APP, tg.pname, ci >= 0 ? "nng_ctx_recvmsg" : "nng_recvmsg", NULL)) {
		note_pipe(st->si, pipe);
		vf_stat("recvs_ok", 1);
		vf_stat("stall_requests_received", 1);
	}
	LOCK();
	model_after_recv(st->si, ci, 0);
	UNLOCK();
	return pipe;
}

static size_t
stall_size(stall *st)
{
	vf_rng *r = &st->t->r;
	if (st->tran == VF_T_TCP) return 60000 + vf_below(r, 14000); // (the kernel takes megabytes)
	if (st->big) return vf_chance(r, 1, 5) ? 60000 + vf_below(r, 14000) : 16000 + vf_below(r, 40000);
	return vf_chance(r, 1, 8) ? vf_below(r, 100) : 100 + vf_below(r, 3900);
}

// one send on the socket / a context; form 0 blocking, 1 non-blocking, 2 aio.
// Returns the aio slot if the send is an aio that the library still holds.
static int
stall_send(stall *st, int form, nng_duration to)
{
	thr     *t  = st->t;
	int      ci = stall_pick_ctx(st), ai = -1, mslot = -1;
	uint32_t route = 0;
	target   tg;
	if (st->k->nctx > 0 && ci < 0) return -1; // all contexts closed
	if (st->k->responder) {
		route = stall_get_request(st, ci);
	} else {
		rawpeer *rp = stall_pick_peer(st, false);
		route       = rp != NULL ? rp->pipe : 0;
	}
	stall_tg(st, ci, &tg);
	if (form == 2) {
		LOCK();
		ai = claim_idle_aio(t, false);
		UNLOCK();
		if (ai < 0) form = (int) vf_below(&t->r, 2);
	}
	nng_msg *m = NULL;
	if (vf_chance(&t->r, 1, 4)) m = led_pick(&t->r, &mslot); // something received / handed back earlier
	if (m != NULL && st->k->raw && nng_msg_header_len(m) == 0 && (st->k->pk == P_REP || st->k->pk == P_RESP)) {
		nng_msg_header_append_u32(m, route ? route : 1);
		nng_msg_header_append_u32(m, 0x80000000u | (uint32_t) vf_rand(&t->r));
	}
	if (m == NULL) m = build_msg(&t->r, tg.pk, tg.raw, route, stall_size(st), &mslot);
	if (m == NULL) {
		if (ai >= 0) unclaim(ai);
		return -1;
	}
	st->sends++;
	vf_stat("stall_sends", 1);
	if (form == 2) {
		reap_aio(ai);
		cell("aio_send", &tg);
		tr("t0 aio%d send %s%s msg=%zu to=%d [%s]", ai, tg.pname, ci >= 0 ? ".ctx" : "", nng_msg_len(m), (int) to, tg.phase);
		A[ai].eiters = 0;
		submit_oneshot(ai, &tg, K_SEND, m, mslot, to, to != NNG_DURATION_INFINITE);
		unclaim(ai);
		vf_stat("aio_sends", 1);
		return nng_aio_busy(A[ai].a) ? ai : -1;
	}
	int fl = form == 1 ? NNG_FLAG_NONBLOCK : 0;
	cell(fl ? "sendmsg_nb" : "sendmsg", &tg);
	tr("t0 sendmsg%s %s%s msg=%zu [%s]", fl ? "(NB)" : "", tg.pname, ci >= 0 ? ".ctx" : "", nng_msg_len(m), tg.phase);
	int rv = ci >= 0 ? nng_ctx_sendmsg(tg.hc, m, fl) : nng_sendmsg(tg.hs, m, fl);
	if (rv == 0) led_give(mslot); else led_release(mslot, tg.pname);
	vf_stat(rv == 0 ? "sends_ok" : "sends_failed", 1);
	vf_class("stall-send/%s/%s/%s/%s", st->k->name, st->tname, fl ? "nonblock" : "blocking", rv == 0 ? "ok" : nng_strerror(rv));
	LOCK();
	model_after_send(st->si, ci, rv);
	UNLOCK();
	return -1;
}

// send aios the library still holds although it has nothing left to do: stuck
static int
stall_count_stuck(void)
{
	int n = 0;
	(void) vf_quiesce(1, 2000);
	for (int i = 0; i < MAXA; i++) {
		if (A[i].st == A_PEND && A[i].kind == K_SEND && !A[i].finite && !atomic_load(&A[i].done) && nng_aio_busy(A[i].a)) n++;
	}
	return n;
}

// what became of the one-shot sends since the last look (evidence only)
static void
stall_note_results(stall *st, const char *after)
{
	for (int i = 0; i < MAXA; i++) {
		aiom *a = &A[i];
		if (a->st == A_PEND && a->kind == K_SEND && atomic_load(&a->done) && a->eiters == 0) {
			a->eiters = 1; // noted (the field is otherwise used by echo loops only)
			vf_class("stall/%s/%s/after-%s/send-%s", st->k->name, st->tname, after, a->result == 0 ? "ok" : nng_strerror(a->result));
		}
	}
}

// statistics of the socket under test that tell what its send path did
static void
stall_lib_stats(stall *st)
{
	nng_stat *all = NULL;
	if (nng_stats_get(&all) != 0) return;
	const nng_stat *ss = nng_stat_find_socket(all, S[st->si].h);
	for (const nng_stat *c = ss ? nng_stat_child(ss) : NULL; c != NULL; c = nng_stat_next(c)) {
		const char *nm = nng_stat_name(c);
		if ((strstr(nm, "discard") || strstr(nm, "drop") || strstr(nm, "queued")) && nng_stat_type(c) != NNG_STAT_STRING && nng_stat_value(c) > 0) {
			char sk[80];
			snprintf(sk, sizeof(sk), "stall_libstat/%s/%s", st->k->name, nm);
			vf_stat(sk, (long) nng_stat_value(c));
		}
	}
	nng_stats_free(all);
}

enum { SA_CANCEL = 0, SA_ABORT, SA_STOP, SA_FREE, SA_TIMED, SA_MORE, SA_PIPE_CLOSE, SA_CTX_CLOSE, SA_SENDBUF, SA_SETOPT, SA_DRAIN_SOME, SA_DRAIN_ALL, SA_PEER_CLOSE, SA_WRITE_FAULT, SA_EP_CLOSE, SA_SOCK_CLOSE, SA_RECV, SA_PEER_SENDS, SA_N };
static const char *sa_names[SA_N] = { "cancel", "abort", "stop", "free", "timed-send", "more-sends", "pipe-close", "ctx-close", "sendbuf", "setopt", "drain-some", "drain-all", "peer-close", "write-fault", "ep-close", "socket-close", "recv", "peer-sends" };

static int
stall_pending_send(stall *st)
{
	int start = (int) vf_below(&st->t->r, MAXA);
	for (int k = 0; k < MAXA; k++) {
		int i = (start + k) % MAXA;
		if (A[i].st == A_PEND && A[i].kind == K_SEND && !atomic_load(&A[i].done)) return i;
	}
	return -1;
}

static void
stall_action(stall *st, int act)
{
	thr     *t = st->t;
	int      ai;
	rawpeer *rp;
	tr("t0 stall action %s", sa_names[act]);
	switch (act) {
	case SA_CANCEL:
	case SA_ABORT:
	case SA_STOP:
		if ((ai = stall_pending_send(st)) < 0) return;
		claim_wait(ai);
		finish_echo_or_pend(t, ai, act == SA_CANCEL ? 0 : act == SA_ABORT ? 1 : 2);
		unclaim(ai);
		break;
	case SA_FREE: {
		if ((ai = stall_pending_send(st)) < 0) return;
		aiom *a = &A[ai];
		claim_wait(ai);
		vf_class("aio_free/direct/pending-send/%s", st->k->name);
		vf_stat("aio_freed_while_pending", 1);
		nng_aio_free(a->a); // stops the operation, waits for the callback
		if (nng_aio_alloc(&a->a, aio_cb, a) != 0) vf_harness_fail("nng_aio_alloc");
		LOCK();
		a->st      = A_IDLE;
		a->stopped = a->stop_used = false;
		UNLOCK();
		unclaim(ai);
		break;
	}
	case SA_TIMED:
		ai = stall_send(st, 2, (nng_duration) vf_range(&t->r, 1, 25));
		if (ai >= 0) {
			claim_wait(ai);
			bool busy = nng_aio_busy(A[ai].a);
			nng_aio_wait(A[ai].a); // finite: completes by itself
			note_pending_hit(busy, true, st->k->name, A[ai].result, NNG_ETIMEDOUT);
			unclaim(ai);
		}
		break;
	case SA_MORE:
		for (int n = (int) vf_range(&t->r, 1, 4); n > 0 && !st->sock_closed; n--) {
			(void) stall_send(st, (int) vf_below(&t->r, 3), NNG_DURATION_INFINITE);
		}
		break;
	case SA_PIPE_CLOSE:
		if ((rp = stall_pick_peer(st, false)) == NULL) return;
		vf_stat("pipe_closes", 1);
		if (nng_pipe_close((nng_pipe) { rp->pipe }) == 0) vf_stat("pipe_closes_ok", 1);
		break;
	case SA_CTX_CLOSE: {
		int ci = stall_pick_ctx(st);
		if (ci < 0) return;
		op_ctx_close(t, ci);
		break;
	}
	case SA_SENDBUF: {
		static const int v[] = { 0, 1, 2, 3, 8, 64, 1 };
		int              x   = v[vf_below(&t->r, 7)];
		int              rv  = nng_socket_set_int(S[st->si].h, NNG_OPT_SENDBUF, x);
		vf_stat("opt_sets", 1);
		if (rv == 0) vf_stat("opt_sets_ok", 1);
		vf_class("stall-opt/SENDBUF=%d/%s/%s", x, st->k->name, rv == 0 ? "ok" : nng_strerror(rv));
		break;
	}
	case SA_SETOPT:
		op_setopt(t);
		break;
	case SA_DRAIN_SOME:
	case SA_DRAIN_ALL: {
		if ((rp = stall_pick_peer(st, true)) == NULL) return;
		long got = 0;
		if (act == SA_DRAIN_SOME) {
			got = raw_drain(rp, (long) vf_range(&t->r, 1, st->big ? 100000 : 5000));
			(void) vf_quiesce(1, 1000);
		} else {
			// until nothing comes any more and the library has gone idle
			for (int idle = 0, n = 0; idle < 2 && n < 4000; n++) {
				long g = raw_drain(rp, 1 << 22);
				got += g;
				if (g == 0) idle += vf_quiesce(1, 1000) ? 1 : 0; else idle = 0;
			}
		}
		vf_stat("stall_peer_bytes_drained", got);
		break;
	}
	case SA_PEER_CLOSE:
		if ((rp = stall_pick_peer(st, true)) == NULL) return;
		if (vf_chance(&t->r, 1, 2)) (void) raw_drain(rp, (long) vf_range(&t->r, 1, 3000)); // unread data left: the close is a reset
		raw_close(rp);
		(void) vf_quiesce(1, 1000);
		break;
	case SA_WRITE_FAULT: {
		if ((rp = stall_pick_peer(st, true)) == NULL) return;
		static const int errs[] = { EPIPE, ECONNRESET };
		vf_io_fail_send_at((long) vf_range(&t->r, 1, 3), errs[vf_below(&t->r, 2)]);
		(void) raw_drain(rp, 1 << 22); // room again: the library writes on, and meets the fault
		(void) vf_quiesce(1, 1000);
		vf_io_fail_send_at(0, 0);
		vf_stat("stall_write_faults", 1);
		break;
	}
	case SA_EP_CLOSE:
		op_ep_close(t);
		break;
	case SA_SOCK_CLOSE:
		op_sock_close(t, st->si);
		st->sock_closed = true;
		break;
	case SA_RECV:
		op_recv(t);
		break;
	case SA_PEER_SENDS:
		if ((rp = stall_pick_peer(st, true)) == NULL) return;
		for (int n = (int) vf_range(&t->r, 1, 3); n > 0; n--) (void) raw_send(st, rp, (size_t) vf_range(&t->r, 0, 600));
		break;
	default:
		break;
	}
	vf_stat("stall_actions", 1);
}

static void
run_stall_program(long idx)
{
	thr    T0;
	vf_rng r;
	stall  st;
	memset(&st, 0, sizeof(st));
	uint64_t t_begin = vf_now_ns();
	vf_rng_seed(&r, vf_seed, (uint64_t) idx);
	model_reset();
	for (int i = 0; i < MAXR; i++) R[i].fd = R[i].lfd = -1, R[i].pipe = 0;
	// kind (by weight), transport, kernel buffer, short writes
	int wsum = 0, pickw;
	for (int i = 0; i < NSTALLKINDS; i++) wsum += stallkinds[i].weight;
	pickw = (int) vf_below(&r, (uint32_t) wsum);
	for (int i = 0; i < NSTALLKINDS; i++) {
		st.k = &stallkinds[i];
		if ((pickw -= stallkinds[i].weight) < 0) break;
	}
	static const int trs[] = { VF_T_IPC, VF_T_IPC, VF_T_SOCKFD, VF_T_SOCKFD, VF_T_TCP };
	int              tran  = trs[vf_below(&r, 5)];
	bool             tiny  = tran == VF_T_SOCKFD && vf_chance(&r, 2, 3);
	bool             dials = tran != VF_T_SOCKFD && vf_chance(&r, 1, 3);
	int              iom   = (int) vf_below(&r, 3); // 0 full writes, 1 fixed pieces, 2 random pieces
	static const long smallp[] = { 1, 2, 3, 9, 17, 64, 300 }, bigp[] = { 64, 300, 1000, 4096, 20000 };
	st.tran = tran;
	st.big  = tran == VF_T_TCP || (!tiny && (iom == 0 || vf_chance(&r, 1, 2)));
	long iop    = st.big ? bigp[vf_below(&r, 5)] : smallp[vf_below(&r, 7)];
	int  eagain = iom != 0 && vf_chance(&r, 1, 2) ? 3 : 0;
	snprintf(st.tname, sizeof(st.tname), "%s%s%s", tn(tran), tiny ? "-tiny" : "", iom ? "-short" : "");
	snprintf(prog_tag, sizeof(prog_tag), "stall program %ld", idx);
	vf_case_begin(idx, "stall program: %s against stalled raw peer(s) over %s (%s), writes %s %ld%s, messages %s", st.k->name, tn(tran), dials ? "nng dials" : "nng listens", iom == 0 ? "full" : iom == 1 ? "in pieces of" : "in random pieces up to", iom ? iop : 0L, eagain ? " with EAGAIN injected" : "", st.big ? "16-74 KB" : "0-4 KB");
	vf_watchdog(60);
	vf_nng_init(2 + (int) vf_below(&r, 3), 1, 1 + (int) vf_below(&r, 2));
	memset(&T0, 0, sizeof(T0));
	vf_rng_seed(&T0.r, vf_seed ^ 0x9e3779b97f4a7c15ULL, (uint64_t) idx);
	st.t = &T0;
	for (int i = 0; i < 6; i++) {
		if (nng_aio_alloc(&A[i].a, aio_cb, &A[i]) != 0) vf_harness_fail("nng_aio_alloc");
		A[i].st = A_IDLE;
	}
	st.si = open_socket(&T0, st.k->pk, st.k->raw);
	if (st.si < 0) vf_harness_fail("stall: no socket slot");
	sockm *s = &S[st.si];
	nng_pipe_notify(s->h, NNG_PIPE_EV_ADD_PRE, pipe_cb, s);
	nng_pipe_notify(s->h, NNG_PIPE_EV_ADD_POST, pipe_cb, s);
	nng_pipe_notify(s->h, NNG_PIPE_EV_REM_POST, pipe_cb, s);
	nng_socket_set_ms(s->h, NNG_OPT_SENDTIMEO, (nng_duration) vf_range(&r, 2, 20));
	if (vf_chance(&r, 2, 3)) nng_socket_set_int(s->h, NNG_OPT_SENDBUF, (int) vf_below(&r, 5));
	for (int k = 0; k < st.k->nctx; k++) op_ctx_open_on(&T0, st.si);
	vf_io_counters_reset();
	if (iom != 0) {
		vf_io_plan(iom == 1 ? VF_IO_DRIBBLE : VF_IO_RANDOM, iop, VF_IO_FULL, 0, vf_rand(&r));
		vf_io_eagain_every(eagain);
	}
	bool multi = st.k->pk == P_PUB || st.k->pk == P_BUS || st.k->pk == P_SURV || st.k->pk == P_PAIR1P || st.k->pk == P_REP || st.k->pk == P_PUSH;
	st.npeers  = multi && vf_chance(&r, 1, 3) ? 2 : 1;
	int att    = 0;
	for (int j = 0; j < st.npeers; j++) {
		if (raw_attach(&st, &R[j], tran, dials, tiny)) att++;
	}
	if (att == 0) {
		vf_stat("stall_attach_failed", 1);
	} else {
		vf_stat("stall_attached", att);
		// fill: sends as aios until some of them stay pending with the library
		// idle (or, where a full queue drops, the queue has certainly overflowed)
		int want  = 1 + (int) vf_below(&r, 3);
		int limit = st.k->drops ? (tran == VF_T_TCP ? 130 : tiny ? 8 : 16) + (int) vf_below(&r, 8) : tran == VF_T_TCP ? 200 : 30;
		if (!st.big && !tiny) limit = st.k->drops ? 40 : 100;
		for (int n = 0; n < limit; n++) {
			int form = vf_chance(&r, 5, 6) ? 2 : (int) vf_below(&r, 2);
			int ai   = stall_send(&st, form, NNG_DURATION_INFINITE);
			if (ai >= 0 && (st.stuck = stall_count_stuck()) >= want) break;
			if ((n & 15) == 15) vf_watchdog(60);
		}
		st.stuck = stall_count_stuck();
		stall_note_results(&st, "fill");
		stall_lib_stats(&st);
		char sk[64];
		if (st.stuck > 0) {
			vf_stat("stall_programs_stuck", 1);
			snprintf(sk, sizeof(sk), "stall_stuck_sends/%s", st.k->name);
			vf_stat(sk, st.stuck);
			vf_class("stall-reached/%s/%s/stuck%d", st.k->name, st.tname, st.stuck > 3 ? 3 : st.stuck);
		} else {
			vf_class("stall-reached/%s/%s/none-pending", st.k->name, st.tname);
		}
		snprintf(sk, sizeof(sk), "stall_programs/%s", st.k->name);
		vf_stat(sk, 1);
		// actions in the stalled state
		int nact = (int) vf_range(&r, 3, 9);
		for (int n = 0; n < nact && !st.sock_closed; n++) {
			static const int aw[] = { SA_CANCEL, SA_CANCEL, SA_ABORT, SA_STOP, SA_FREE, SA_TIMED, SA_MORE, SA_MORE, SA_PIPE_CLOSE, SA_PIPE_CLOSE, SA_CTX_CLOSE, SA_CTX_CLOSE, SA_SENDBUF, SA_SENDBUF, SA_SETOPT, SA_DRAIN_SOME, SA_DRAIN_SOME, SA_DRAIN_ALL, SA_PEER_CLOSE, SA_WRITE_FAULT, SA_EP_CLOSE, SA_SOCK_CLOSE, SA_RECV, SA_PEER_SENDS };
			int              act  = aw[vf_below(&r, sizeof(aw) / sizeof(aw[0]))];
			int              was  = stall_pending_send(&st) >= 0;
			// the first thing that happens to a stuck send is mostly its own end
			if (n == 0 && st.stuck > 0 && vf_chance(&r, 3, 4)) {
				static const int first[] = { SA_CANCEL, SA_CANCEL, SA_ABORT, SA_ABORT, SA_STOP, SA_FREE, SA_TIMED, SA_CTX_CLOSE };
				act = first[vf_below(&r, 8)];
			}
			stall_action(&st, act);
			if (!st.sock_closed) (void) vf_quiesce(1, 1000);
			stall_note_results(&st, sa_names[act]);
			vf_class("stall-action/%s/%s/%s", st.k->name, sa_names[act], was ? "sends-pending" : "nothing-pending");
			vf_watchdog(60);
		}
	}
	vf_stat("calls", st.sends + 20);
	vf_stat("io_short_sends", vf_io_short_sends());
	teardown(&T0);
	vf_io_plan(VF_IO_FULL, 0, VF_IO_FULL, 0, 0);
	vf_io_eagain_every(0);
	vf_io_fail_send_at(0, 0);
	for (int j = 0; j < MAXR; j++) {
		raw_close(&R[j]);
		if (R[j].lfd >= 0) close(R[j].lfd);
		R[j].lfd = -1;
		if (R[j].path[0]) unlink(R[j].path);
	}
	finish_program();
	if (getenv("C03_TIMING") != NULL) fprintf(stderr, "C03 timing: case %ld %s %s: %.0f ms\n", idx, st.k->name, st.tname, (double) (vf_now_ns() - t_begin) / 1e6);
}

// ---------------------------------------------------------------- matrix mode
// Exhaustive option x phase enumeration: a canonical exchange per protocol
// pair; one option change (option, value, side, target) inserted before
// step p, for every p.
typedef struct {
	const char *name;
	int         pa;
	bool        rawa;
	int         pb;
	bool        rawb;
	bool        ctx;
	const char *script; // pairs of (side, action)
} mpair;

// actions: s send fresh, r receive, e send back the last message received on
// that side, p close the pipe the last message arrived on
#define RR "AsBrBeArAsBrBpBrBeAr"
// a new request while the previous one is still outstanding (before and
// after the replier saw it)
#define RENEW "AsBrAsBrBeArAsAsBrBeAr"
#define FLOW "AsAsAsAsBrBrBrBr"
#define DUPLEX "AsAsAsAsBrBrBsBsBrBrArAr"
#define SURVEY "AsBrBeArArAsBrBeAr"
static const mpair mpairs[] = {
	{ "req-rep", P_REQ, false, P_REP, false, false, RR },
	{ "req-rep/renew", P_REQ, false, P_REP, false, false, RENEW },
	{ "req-rep.ctx/renew", P_REQ, false, P_REP, false, true, RENEW },
	{ "req-rep.ctx", P_REQ, false, P_REP, false, true, RR },
	{ "xreq-xrep", P_REQ, true, P_REP, true, false, "AsBrBeArAsBrBeAr" },
	{ "req-xrep", P_REQ, false, P_REP, true, false, RR },
	{ "pair0", P_PAIR0, false, P_PAIR0, false, false, DUPLEX },
	{ "xpair0", P_PAIR0, true, P_PAIR0, true, false, DUPLEX },
	{ "pair1", P_PAIR1, false, P_PAIR1, false, false, DUPLEX },
	{ "xpair1", P_PAIR1, true, P_PAIR1, true, false, DUPLEX },
	{ "pub-sub", P_PUB, false, P_SUB, false, false, FLOW },
	{ "pub-sub.ctx", P_PUB, false, P_SUB, false, true, FLOW },
	{ "xpub-xsub", P_PUB, true, P_SUB, true, false, FLOW },
	{ "push-pull", P_PUSH, false, P_PULL, false, false, FLOW },
	{ "xpush-xpull", P_PUSH, true, P_PULL, true, false, FLOW },
	{ "surveyor-respondent", P_SURV, false, P_RESP, false, false, SURVEY },
	{ "surveyor-respondent.ctx", P_SURV, false, P_RESP, false, true, SURVEY },
	{ "xsurveyor-xrespondent", P_SURV, true, P_RESP, true, false, "AsBrBeArAsBrBeAr" },
	{ "bus", P_BUS, false, P_BUS, false, false, "AsAsAsBrBrBrBsAr" },
	{ "xbus", P_BUS, true, P_BUS, true, false, "AsAsAsBrBrBrBsAr" },
	{ "pair1poly", P_PAIR1P, false, P_PAIR1, false, false, DUPLEX },
};
#define NMPAIRS ((int) (sizeof(mpairs) / sizeof(mpairs[0])))

// options enumerated by the matrix, number of values used in the quick tier
static const struct {
	const char *name;
	int         quick_vals;
} mopts[] = {
	{ NNG_OPT_RECVBUF, 3 }, { NNG_OPT_SENDBUF, 3 }, { NNG_OPT_REQ_RESENDTIME, 3 },
	{ NNG_OPT_REQ_RESENDTICK, 1 }, { NNG_OPT_SURVEYOR_SURVEYTIME, 2 }, { NNG_OPT_SUB_PREFNEW, 2 },
	{ NNG_OPT_RECVMAXSZ, 2 }, { NNG_OPT_MAXTTL, 1 }, { NNG_OPT_RECVTIMEO, 0 },
};
#define NMOPTS ((int) (sizeof(mopts) / sizeof(mopts[0])))

typedef struct {
	nng_socket s;
	nng_ctx    c;
	bool       use_ctx;
	int        pk;
	bool       raw;
	nng_msg   *last; // last message received here (app-owned, idle)
	int        last_slot;
	uint32_t   last_pipe;
	bool       slow; // a receive timed out already: do not wait again
	const char *pname;
} mside;

static int
m_send(mside *x, nng_msg *m, int slot, vf_rng *r)
{
	int fl = vf_chance(r, 1, 4) ? NNG_FLAG_NONBLOCK : 0;
	int rv = x->use_ctx ? nng_ctx_sendmsg(x->c, m, fl) : nng_sendmsg(x->s, m, fl);
	if (rv == 0) led_give(slot); else led_release(slot, x->pname);
	vf_stat(rv == 0 ? "sends_ok" : "sends_failed", 1);
	return rv;
}

static void
run_matrix_case(long idx, const mpair *mp, int pos, int side, const optdef *o, long v, int initi, int tran, bool aiov)
{
	vf_rng r;
	mside  X[2];
	int    nsteps = (int) strlen(mp->script) / 2;
	char   vt[40], posn[24], v1[24];
	val_tag(o, v, v1, sizeof(v1));
	if (initi >= 0) {
		char v0[24];
		val_tag(o, o->vals[initi], v0, sizeof(v0));
		snprintf(vt, sizeof(vt), "%s->%s", v0, v1);
	} else {
		snprintf(vt, sizeof(vt), "%s", v1);
	}
	if (pos < nsteps) snprintf(posn, sizeof(posn), "%d:before-%c%c", pos, mp->script[2 * pos], mp->script[2 * pos + 1]);
	else snprintf(posn, sizeof(posn), "%d:before-close", pos);
	vf_rng_seed(&r, vf_seed, (uint64_t) idx);
	model_reset();
	snprintf(prog_tag, sizeof(prog_tag), "matrix %s %s=%s@%s/%c", mp->name, o->tag, vt, posn, "AB"[side]);
	vf_case_begin(idx, "matrix: pair %s over %s, set %s=%s on side %c at position %s of script %s", mp->name, tn(tran), o->tag, vt, "AB"[side], posn, mp->script);
	vf_watchdog(30);
	vf_nng_init(2, 1, 1);
	// a quarter of the cases over stream transports: writes in small pieces
	bool shortio = tran != VF_T_INPROC && (vf_mix64(vf_seed + (uint64_t) idx * 977) & 3) == 0;
	vf_io_counters_reset();
	if (shortio) {
		vf_io_plan(VF_IO_DRIBBLE, 8 + (long) (vf_mix64((uint64_t) idx) % 57), VF_IO_FULL, 0, (uint64_t) idx);
		vf_io_eagain_every(3);
		vf_stat("short_io_programs", 1);
	}
	memset(X, 0, sizeof(X));
	for (int k = 0; k < 2; k++) {
		X[k].pk    = k == 0 ? mp->pa : mp->pb;
		X[k].raw   = k == 0 ? mp->rawa : mp->rawb;
		X[k].pname = PR[X[k].pk].name;
		int rv     = X[k].raw ? PR[X[k].pk].open_raw(&X[k].s) : PR[X[k].pk].open(&X[k].s);
		if (rv != 0) vf_harness_fail("open");
		nng_socket_set_ms(X[k].s, NNG_OPT_RECVTIMEO, 80);
		nng_socket_set_ms(X[k].s, NNG_OPT_SENDTIMEO, 80);
		nng_socket_set_ms(X[k].s, NNG_OPT_RECONNMINT, 3);
		nng_socket_set_ms(X[k].s, NNG_OPT_RECONNMAXT, 10);
		bool cx = mp->ctx && !X[k].raw && (X[k].pk == P_REQ || X[k].pk == P_REP || X[k].pk == P_SUB || X[k].pk == P_SURV || X[k].pk == P_RESP);
		if (cx) {
			if (nng_ctx_open(&X[k].c, X[k].s) != 0) vf_harness_fail("ctx_open");
			X[k].use_ctx = true;
		}
		if (X[k].pk == P_SUB && !X[k].raw) {
			if (cx) nng_sub0_ctx_subscribe(X[k].c, "", 0); else nng_sub0_socket_subscribe(X[k].s, "", 0);
		}
		if (k == side && initi >= 0) {
			int kind = (X[k].use_ctx && o->on_ctx) ? TG_CTX : TG_SOCK;
			(void) set_opt(kind, X[k].s, X[k].c, (nng_dialer) { 0 }, (nng_listener) { 0 }, o, o->vals[initi]);
			vf_stat("opt_sets", 1);
		}
	}
	atomic_fetch_or(&trans_used, 1u << tran);
	tr("open %s; connect over %s (B listens, A dials)", mp->name, tn(tran));
	if (vf_connect(X[1].s, X[0].s, tran) != 0) vf_harness_fail("matrix connect over %s", tn(tran));
	if (mp->pa == P_PUB) vf_msleep(3);
	bool     did = false;
	nng_aio *maio = NULL;
	for (int p = 0; p <= nsteps; p++) {
		// aio variant: the step at this position is submitted as an aio
		// BEFORE the option changes and waited for after it
		bool     deferred = false;
		nng_msg *dmsg     = NULL;
		int      dslot    = -1;
		if (p == pos && aiov && p < nsteps && mp->script[2 * p + 1] != 'p') {
			mside *y   = &X[mp->script[2 * p] == 'A' ? 0 : 1];
			char   act = mp->script[2 * p + 1];
			if (maio == NULL && nng_aio_alloc(&maio, NULL, NULL) != 0) vf_harness_fail("nng_aio_alloc");
			nng_aio_set_timeout(maio, 80);
			if (act == 'r') {
				if (y->use_ctx) nng_ctx_recv(y->c, maio); else nng_socket_recv(y->s, maio);
			} else {
				if (act == 'e' && y->last != NULL) {
					dmsg    = y->last;
					dslot   = y->last_slot;
					y->last = NULL;
					led_mark_busy(dslot);
				} else {
					dmsg = build_msg(&r, y->pk, y->raw, y->last_pipe, VF_BODY_MIN + vf_below(&r, 200), &dslot);
				}
				if (dmsg == NULL) vf_harness_fail("ledger full");
				nng_aio_set_msg(maio, dmsg);
				if (y->use_ctx) nng_ctx_send(y->c, maio); else nng_socket_send(y->s, maio);
			}
			deferred = true;
			bool pending = nng_aio_busy(maio);
			tr("%c aio %s submitted (%s)", mp->script[2 * p], act == 'r' ? "recv" : "send", pending ? "pending" : "already complete");
			vf_stat(pending ? "matrix_opt_while_aio_pending" : "matrix_opt_after_aio_done", 1);
			vf_class("matrix-aio/%s/%s@%s/%s", mp->name, o->tag, posn, pending ? "pending" : "complete");
		}
		if (p == pos) {
			mside *x    = &X[side];
			int    kind = (x->use_ctx && o->on_ctx) ? TG_CTX : TG_SOCK;
			tr("set %s=%s on %c%s", o->tag, vt, "AB"[side], kind == TG_CTX ? ".ctx" : "");
			int rv = set_opt(kind, x->s, x->c, (nng_dialer) { 0 }, (nng_listener) { 0 }, o, v);
			vf_stat("opt_sets", 1);
			if (rv == 0) vf_stat("opt_sets_ok", 1);
			vf_class("matrix/%s/%s=%s@%s/%c%s/%s", mp->name, o->tag, vt, posn, "AB"[side], kind == TG_CTX ? ".ctx" : "", rv == 0 ? "ok" : nng_strerror(rv));
			did = true;
		}
		if (p == nsteps) break;
		mside *x   = &X[mp->script[2 * p] == 'A' ? 0 : 1];
		char   act = mp->script[2 * p + 1];
		int    rv  = 0;
		if (deferred) {
			nng_aio_wait(maio);
			rv = (int) nng_aio_result(maio);
			tr("%c aio completed -> %d", mp->script[2 * p], rv);
			if (act == 'r') {
				int slot = -1;
				if (rv == 0) {
					nng_msg *m = nng_aio_get_msg(maio);
					nng_aio_set_msg(maio, NULL);
					uint32_t pid = m != NULL ? nng_msg_get_pipe(m).id : 0;
					led_rcv_id   = RCV_ID((int) (x - X), -1);
					if (led_take(m, L_APP, x->pname, "nng_socket_recv", &slot)) {
						x->last      = m;
						x->last_slot = slot;
						x->last_pipe = pid;
						vf_stat("recvs_ok", 1);
						vf_stat("recvs_ok_after_option_change", 1);
					}
				} else {
					vf_stat("recvs_failed", 1);
					if (rv == NNG_ETIMEDOUT) x->slow = true;
				}
			} else {
				if (rv == 0) {
					led_give(dslot);
					vf_stat("sends_ok", 1);
				} else {
					vf_stat("failed_aio_sends_checked", 1);
					if (nng_aio_get_msg(maio) != dmsg) {
						char key[128];
						snprintf(key, sizeof(key), "C03/ownership/msg-not-attached-after-failed-send/%s", x->pname);
						vf_violation(key, "%s: aio send completed with %s but nng_aio_get_msg returns %p, submitted %p", prog_tag, nng_strerror(rv), (void *) nng_aio_get_msg(maio), (void *) dmsg);
					}
					led_release(dslot, x->pname);
					vf_stat("sends_failed", 1);
				}
				nng_aio_set_msg(maio, NULL);
			}
			continue;
		}
		switch (act) {
		case 's': {
			int      slot = -1;
			nng_msg *m    = build_msg(&r, x->pk, x->raw, x->last_pipe, vf_chance(&r, 1, 6) ? 300 + vf_below(&r, 3000) : vf_chance(&r, 1, 10) ? vf_below(&r, VF_BODY_MIN) : VF_BODY_MIN + vf_below(&r, 70), &slot);
			if (m == NULL) vf_harness_fail("ledger full");
			rv = m_send(x, m, slot, &r);
			tr("%c send -> %d", mp->script[2 * p], rv);
			break;
		}
		case 'e': {
			nng_msg *m    = x->last;
			int      slot = x->last_slot;
			x->last       = NULL;
			if (m != NULL) {
				led_mark_busy(slot);
			} else {
				m = build_msg(&r, x->pk, x->raw, x->last_pipe, 40, &slot);
			}
			if (m == NULL) vf_harness_fail("ledger full");
			rv = m_send(x, m, slot, &r);
			tr("%c reply -> %d", mp->script[2 * p], rv);
			break;
		}
		case 'r': {
			nng_msg *m  = NULL;
			int      fl = x->slow ? NNG_FLAG_NONBLOCK : 0;
			rv          = x->use_ctx ? nng_ctx_recvmsg(x->c, &m, fl) : nng_recvmsg(x->s, &m, fl);
			tr("%c recv%s -> %d", mp->script[2 * p], fl ? "(NB)" : "", rv);
			int slot = -1;
			led_rcv_id = RCV_ID((int) (x - X), -1);
			if (rv == 0 && led_take(m, L_APP, x->pname, "nng_recvmsg", &slot)) {
				x->last      = m;
				x->last_slot = slot;
				x->last_pipe = nng_msg_get_pipe(m).id;
				vf_stat("recvs_ok", 1);
				if (did) vf_stat("recvs_ok_after_option_change", 1);
			} else if (rv != 0) {
				vf_stat("recvs_failed", 1);
				if (rv == NNG_ETIMEDOUT) x->slow = true;
			}
			break;
		}
		case 'p':
			if (x->last_pipe != 0) {
				rv = (int) nng_pipe_close((nng_pipe) { x->last_pipe });
				tr("%c pipe_close %u -> %d", mp->script[2 * p], x->last_pipe, rv);
				vf_stat("pipe_closes", 1);
			}
			break;
		default:
			vf_harness_fail("bad script");
		}
	}
	// close in an order that depends on the case
	int order = (int) (vf_mix64((uint64_t) idx) & 3);
	for (int k = 0; k < 2; k++) {
		mside *x = &X[(order & 1) ? 1 - k : k];
		if (x->use_ctx && (order & 2)) nng_ctx_close(x->c);
		nng_socket_close(x->s);
	}
	if (maio != NULL) nng_aio_free(maio);
	if (shortio) {
		vf_stat("io_short_sends", vf_io_short_sends());
		vf_io_plan(VF_IO_FULL, 0, VF_IO_FULL, 0, 0);
		vf_io_eagain_every(0);
	}
	vf_stat("calls", nsteps + 12);
	finish_program();
	if ((idx % 509) == 0) {
		vf_sample("{\"pair\":\"%s\",\"transport\":\"%s\",\"script\":\"%s\",\"set\":\"%s=%s\",\"side\":\"%c\",\"position\":\"%s\"}", mp->name, tn(tran), mp->script, o->tag, vt, "AB"[side], posn);
	}
}

// ---------------------------------------------------------------- ring cases (part of matrix mode)
// NNG_OPT_SENDBUF / NNG_OPT_RECVBUF changed while the message queue behind it
// is non-empty AND its contents wrap around the end of the ring: the canonical
// scripts above never rotate a queue far enough.  Raw sender A -> raw receiver
// B over inproc; both buffers set to d0; `rot` messages pass through (indices
// advance); then A sends without B reading until nothing more is accepted (A's
// send queue and B's receive queue are full, somewhere in their rings); then
// A.SENDBUF and B.RECVBUF are set to d1 (either order) and B drains.  Judged by
// ASan/UBSan, the accounting allocator, the ledger and the balance at nng_fini
// only - what survives a resize is C18's subject.
static const struct {
	const char *name;
	int         pa, pb;
} rpairs[] = {
	{ "xpair0", P_PAIR0, P_PAIR0 }, { "xpair1", P_PAIR1, P_PAIR1 }, { "xpush-xpull", P_PUSH, P_PULL },
	{ "xreq-xrep", P_REQ, P_REP }, { "xsurveyor-xrespondent", P_SURV, P_RESP }, { "xpub-xsub", P_PUB, P_SUB }, { "xbus", P_BUS, P_BUS },
};
#define NRPAIRS ((int) (sizeof(rpairs) / sizeof(rpairs[0])))

static void
run_ring_case(long idx, int rp, int d0, int rot, int d1, bool sendfirst)
{
	vf_rng r;
	mside  X[2];
	vf_rng_seed(&r, vf_seed, (uint64_t) idx ^ 0x52494e47ULL);
	snprintf(prog_tag, sizeof(prog_tag), "ring %s d0=%d rot=%d d1=%d %s", rpairs[rp].name, d0, rot, d1, sendfirst ? "send-first" : "recv-first");
	vf_case_begin(idx, "ring: raw pair %s, buffers %d, %d messages passed through, filled, then SENDBUF/RECVBUF -> %d (%s)", rpairs[rp].name, d0, rot, d1, sendfirst ? "send side first" : "receive side first");
	vf_watchdog(60);
	model_reset();
	vf_nng_init(2, 1, 1);
	memset(X, 0, sizeof(X));
	for (int k = 0; k < 2; k++) {
		X[k].pk    = k == 0 ? rpairs[rp].pa : rpairs[rp].pb;
		X[k].raw   = true;
		X[k].pname = PR[X[k].pk].name;
		if (PR[X[k].pk].open_raw(&X[k].s) != 0) vf_harness_fail("open_raw");
		nng_socket_set_ms(X[k].s, NNG_OPT_RECVTIMEO, 80);
		nng_socket_set_ms(X[k].s, NNG_OPT_SENDTIMEO, 80);
		(void) nng_socket_set_int(X[k].s, NNG_OPT_SENDBUF, d0);
		(void) nng_socket_set_int(X[k].s, NNG_OPT_RECVBUF, d0);
	}
	atomic_fetch_or(&trans_used, 1u << VF_T_INPROC);
	if (vf_connect(X[1].s, X[0].s, VF_T_INPROC) != 0) vf_harness_fail("ring connect");
	if (rpairs[rp].pa == P_PUB) vf_msleep(3);
	long passed = 0, accepted = 0, drained = 0;
	for (int i = 0; i < rot; i++) {
		int      slot = -1;
		nng_msg *m    = build_msg(&r, X[0].pk, true, 0, VF_BODY_MIN + vf_below(&r, 40), &slot);
		if (m == NULL) vf_harness_fail("ledger full");
		if (nng_msg_header_len(m) == 0 && (X[0].pk == P_REQ || X[0].pk == P_SURV)) nng_msg_header_append_u32(m, 0x80000000u | (uint32_t) vf_rand(&r));
		if (nng_msg_header_len(m) == 0 && X[0].pk == P_PAIR1) nng_msg_header_append_u32(m, 0);
		int rv = nng_sendmsg(X[0].s, m, 0);
		if (rv == 0) led_give(slot); else led_release(slot, X[0].pname);
		nng_msg *g = NULL;
		if (rv == 0 && nng_recvmsg(X[1].s, &g, 0) == 0) {
			int gs = -1;
			led_rcv_id = RCV_ID(1, -1);
			if (led_take(g, L_APP, X[1].pname, "nng_recvmsg", &gs)) {
				led_free_some(&r, 4);
				passed++;
			}
		}
	}
	// fill: nobody reads
	for (int i = 0; i < 2 * d0 + 12; i++) {
		int      slot = -1;
		nng_msg *m    = build_msg(&r, X[0].pk, true, 0, VF_BODY_MIN + vf_below(&r, 40), &slot);
		if (m == NULL) vf_harness_fail("ledger full");
		if (nng_msg_header_len(m) == 0 && (X[0].pk == P_REQ || X[0].pk == P_SURV)) nng_msg_header_append_u32(m, 0x80000000u | (uint32_t) vf_rand(&r));
		if (nng_msg_header_len(m) == 0 && X[0].pk == P_PAIR1) nng_msg_header_append_u32(m, 0);
		int rv = nng_sendmsg(X[0].s, m, NNG_FLAG_NONBLOCK);
		if (rv == 0) {
			led_give(slot);
			accepted++;
		} else {
			led_release(slot, X[0].pname);
			led_free_some(&r, 4);
			if (i >= d0 + 4) break;
			vf_msleep(1);
		}
	}
	vf_msleep(2);
	for (int k = 0; k < 2; k++) {
		int side = sendfirst ? k : 1 - k;
		int rv   = nng_socket_set_int(X[side].s, side == 0 ? NNG_OPT_SENDBUF : NNG_OPT_RECVBUF, d1);
		vf_stat(rv == 0 ? "opt_sets_ok" : "opt_sets_failed", 1);
		vf_stat("opt_sets", 1);
	}
	for (int idle = 0; idle < 3;) {
		nng_msg *g = NULL;
		if (nng_recvmsg(X[1].s, &g, NNG_FLAG_NONBLOCK) == 0) {
			int gs = -1;
			led_rcv_id = RCV_ID(1, -1);
			if (led_take(g, L_APP, X[1].pname, "nng_recvmsg", &gs)) led_free_some(&r, 4);
			drained++;
			idle = 0;
		} else {
			idle++;
			vf_msleep(2);
		}
	}
	vf_stat("ring_cases", 1);
	vf_stat("ring_msgs_passed", passed);
	vf_stat("ring_msgs_accepted_unread", accepted);
	vf_stat("ring_msgs_drained_after_resize", drained);
	vf_class("ring/%s/d0=%d/rot=%d/d1=%d/%s/%s", rpairs[rp].name, d0, rot % (d0 + 2), d1, sendfirst ? "send-first" : "recv-first", drained ? "drained" : "empty");
	if ((idx & 1) != 0) {
		nng_socket_close(X[0].s);
		nng_socket_close(X[1].s);
	} else {
		nng_socket_close(X[1].s);
		nng_socket_close(X[0].s);
	}
	vf_stat("calls", 2 * rot + accepted + drained + 16);
	finish_program();
}

static long
run_rings(long idx)
{
	static const int d0s[] = { 1, 2, 3, 4 };
	static const int d1s[] = { 0, 1, 5, 8, 64 };
	for (int rp = 0; rp < NRPAIRS; rp++) {
		for (int a = 0; a < 4; a++) {
			for (int rot = 0; rot <= d0s[a] + 2; rot++) {
				for (int b = 0; b < 5; b++, idx++) {
					if (d1s[b] == d0s[a]) continue;
					if ((idx % vf_nshards) != vf_shard || !vf_want_case(idx)) continue;
					// quick: half of the (rotation, new depth) cells per seed, both orders in thorough
					bool sf = (vf_mix64(vf_seed ^ (uint64_t) idx * 7) & 1) != 0;
					if (!vf_tier && (vf_mix64(vf_seed + (uint64_t) idx * 13) & 1) != 0) continue;
					run_ring_case(idx, rp, d0s[a], rot, d1s[b], sf);
				}
			}
		}
	}
	return idx;
}

static void
run_matrix(void)
{
	long idx = 0;
	for (int pi = 0; pi < NMPAIRS; pi++) {
		const mpair *mp     = &mpairs[pi];
		int          nsteps = (int) strlen(mp->script) / 2;
		for (int oi = 0; oi < NMOPTS; oi++) {
			const optdef *o = NULL;
			for (int k = 0; k < NOPTS; k++) {
				if (!strcmp(opts[k].name, mopts[oi].name)) o = &opts[k];
			}
			// quick: an initial value only where the earlier value matters most
			int init_quick = (!strcmp(o->name, NNG_OPT_REQ_RESENDTIME) || !strcmp(o->name, NNG_OPT_SURVEYOR_SURVEYTIME) || !strcmp(o->name, NNG_OPT_RECVBUF)) ? 1 : 0;
			int nv = vf_tier ? o->nvals : (mopts[oi].quick_vals < o->nvals ? mopts[oi].quick_vals : o->nvals);
			for (int side = 0; side < 2; side++) {
				int pk = side == 0 ? mp->pa : mp->pb;
				if (!(o->protos & PB(pk))) continue;
				for (int pos = 0; pos <= nsteps; pos++) {
					for (int vi = 0; vi < nv; vi++)
					for (int initi = -1; initi < (vf_tier ? 2 : init_quick); initi++, idx++) {
						if (initi == vi) continue;
						if ((idx % vf_nshards) != vf_shard || !vf_want_case(idx)) continue;
						static const int tw[] = { VF_T_INPROC, VF_T_INPROC, VF_T_INPROC, VF_T_INPROC, VF_T_IPC, VF_T_TCP, VF_T_TCP, VF_T_WS, VF_T_SOCKFD, VF_T_INPROC };
						int              tran = tw[vf_mix64(vf_seed ^ (uint64_t) idx * 31) % 10];
						// aio variant (step at the position pending as an aio): chosen by hash
						bool av = (vf_mix64(vf_seed + (uint64_t) idx * 131) & 1) != 0;
						run_matrix_case(idx, mp, pos, side, o, o->vals[vi], initi, tran, av);
					}
				}
			}
		}
	}
	(void) run_rings(idx + 1000000);
}

// ---------------------------------------------------------------- main
int
main(int argc, char **argv)
{
	vf_init(argc, argv);
	for (int i = 0; i < P_PAIR1P; i++) PR[i] = vf_protos[i];
	PR[P_PAIR1P] = (vf_proto) { "pair1poly", nng_pair1_open_poly, NULL, 0x11, 0x11, "pair1" };
	prev_abrt = signal(SIGABRT, abrt_handler);
	memset(str1k, 'a', sizeof(str1k) - 1);
	scribble_all = getenv("C03_HUB") != NULL;
	for (int i = 0; i < MAXS; i++) {
		pthread_mutex_init(&S[i].pmx, NULL);
	}
	if (getenv("C03_SELFTEST") != NULL) {
		// classifier self-test: a body whose tail was overwritten by a
		// write into another message must be classified 'S', by another
		// original 'M', by garbage '?'
		nng_msg *a, *b, *c;
		char     diag[900];
		vf_nng_init(2, 1, 1);
		nng_msg_alloc(&a, 200);
		nng_msg_alloc(&b, 200);
		nng_msg_alloc(&c, 200);
		body_write(a, 'A', 0, "pub");
		body_write(b, 'S', 1, "sub");
		body_write(c, 'A', 0, "bus");
		uint8_t save[200];
		memcpy(save, nng_msg_body(a), 200);
		memcpy((uint8_t *) nng_msg_body(a) + 100, (uint8_t *) nng_msg_body(b) + 100, 100);
		char c1 = classify_damage(a, "sub", "selftest", diag, sizeof(diag));
		memcpy(nng_msg_body(a), save, 200);
		memcpy((uint8_t *) nng_msg_body(a) + 60, (uint8_t *) nng_msg_body(c) + 60, 140);
		char c2 = classify_damage(a, "sub", "selftest", diag, sizeof(diag));
		memcpy(nng_msg_body(a), save, 200);
		memset((uint8_t *) nng_msg_body(a) + 150, 0xee, 20);
		char c3 = classify_damage(a, "sub", "selftest", diag, sizeof(diag));
		fprintf(stderr, "C03 selftest classes: %c %c %c (want S M ?)\n", c1, c2, c3);
		nng_msg_free(a);
		nng_msg_free(b);
		nng_msg_free(c);
		nng_fini();
		return (c1 == 'S' && c2 == 'M' && c3 == '?') ? 0 : 2;
	}
	if (!strcmp(vf_mode, "matrix")) {
		matrix_mode = true;
		run_matrix();
	} else if (!strcmp(vf_mode, "stall")) {
		stall_mode = true;
		for (long idx = 0; idx < vf_cases; idx++) {
			if (!vf_want_case(idx)) continue;
			run_stall_program(idx);
		}
	} else {
		mt_mode = !strcmp(vf_mode, "mt");
		for (long idx = 0; idx < vf_cases; idx++) {
			if (!vf_want_case(idx)) continue;
			run_random_program(idx);
		}
	}
	return vf_finish();
}
